(* Model/MergeSpec.v — what property C11 demands of ONE option shared by n merged destinations, written without
   reference to the code's decision chains.  Executable: the correspondence run evaluates it on every observed behaviour.
   Shares with the model only the value/token vocabulary and the leaf number readers (Model/Merge.v); booleans are read
   with the C12 spec vocabulary (Model/BoolFlagSpec.v). *)
From SPV Require Export Base.Str Model.Merge Model.BoolFlagSpec.

(* what ONE token denotes as a value of the field's type *)
Inductive denote := Den (v : val) | NoDen (* not a value of that type: the command line must be rejected *) | UnspecDen.

Definition spec_scalar (k : kind) (raw : string) : denote :=
  match k with
  | KInt => if is_padded raw then UnspecDen else match parse_int raw with Some z => Den (VInt z) | None => NoDen end
  | KFloat => if is_padded raw then UnspecDen
              else match parse_dec raw with Some (n, m, e) => Den (VFloat n m e) | None => NoDen end
  | KStr => Den (VStr raw)
  | KBool => if is_padded raw then UnspecDen else match spec_word raw with Some b => Den (VBool b) | None => NoDen end
  | KEnum ms => if str_in raw ms then Den (VEnum raw) else NoDen
  | _ => UnspecDen
  end.

(* items of a bracketed literal: an int list is written with int literals, a str list with quoted strings;
   the property is silent on cross-type leniency ('3' in an int list, 3 in a str list) *)
Definition spec_item (e : ety) (l : lit) : denote :=
  match e, l with
  | EInt, LInt z => Den (VInt z)
  | EStr, LStr s => Den (VStr s)
  | _, LSeq _ _ => NoDen
  | _, _ => UnspecDen
  end.

Inductive denotes := Dens (vs : list val) | NoDens | UnspecDens.
Fixpoint denote_all {A} (f : A -> denote) (l : list A) : denotes :=
  match l with
  | [] => Dens []
  | x :: r => match f x, denote_all f r with
              | NoDen, _ | _, NoDens => NoDens
              | UnspecDen, _ | _, UnspecDens => UnspecDens
              | Den v, Dens vs => Dens (v :: vs)
              end
  end.

Definition word_char (c : ascii) : bool :=
  negb (is_space c) && negb (existsb (Ascii.eqb c) ["["; "]"; "("; ")"; ","; "'"; """"]%char).
Fixpoint all_chars (p : ascii -> bool) (s : string) : bool :=
  match s with EmptyString => true | String c r => p c && all_chars p r end.
Definition plain_word (s : string) : bool := negb (String.eqb s "") && all_chars word_char s.
Definition is_letter (c : ascii) : bool :=
  let n := ascii_nat c in (Nat.leb 65 n && Nat.leb n 90) || (Nat.leb 97 n && Nat.leb n 122).
Definition has_letter (s : string) : bool := negb (all_chars (fun c => negb (is_letter c)) s).

Fixpoint count_char (c : ascii) (s : string) : nat :=
  match s with EmptyString => 0 | String a r => (if Ascii.eqb a c then 1 else 0) + count_char c r end.
(* a token whose brackets do not match cannot be read as a sequence of ints *)
Definition unbalanced (s : string) : bool :=
  negb (Nat.eqb (count_char "["%char s) (count_char "]"%char s)) || negb (Nat.eqb (count_char "("%char s) (count_char ")"%char s)).

Definition arity_ok (arity : option nat) (items : list val) : bool :=
  match arity with None => true | Some k => Nat.eqb (List.length items) k end.

(* one token = one whole container; a bare value is the one-element container *)
Definition spec_container (is_tup : bool) (e : ety) (arity : option nat) (t : tok) : denote :=
  let wrap := fun items => if arity_ok arity items then Den (if is_tup then VTuple items else VList items) else NoDen in
  match t_lit t with
  | Some (LSeq _ items) =>
      match denote_all (spec_item e) items with Dens vs => wrap vs | NoDens => NoDen | UnspecDens => UnspecDen end
  | Some (LInt z) => match e with
                     | EInt => wrap [VInt z]
                     | EStr => if plain_word (t_raw t) then wrap [VStr (t_raw t)] else UnspecDen
                     end
  | Some (LStr s) => match e with EStr => wrap [VStr s] | EInt => UnspecDen end
  | Some LOther => UnspecDen
  | None => match e with
            | EStr => if plain_word (t_raw t) then wrap [VStr (t_raw t)] else UnspecDen
            | EInt => if has_letter (t_raw t) || unbalanced (t_raw t) then NoDen else UnspecDen
            end
  end.

Definition spec_token (k : kind) (t : tok) : denote :=
  match k with
  | KList e => spec_container false e None t
  | KTuple e a => spec_container true e a t
  | _ => spec_scalar k (t_raw t)
  end.

Inductive expect :=
| MustBe (vs : list val)        (* the i-th registered destination receives the i-th value *)
| MustReject                    (* exit 2 (or the count error) *)
| MustInconsistent              (* InconsistentArgumentError *)
| Unspecified.                  (* the property is silent on the values - but no other exception may escape *)

Fixpoint all_some {A} (l : list (option A)) : option (list A) :=
  match l with
  | [] => Some []
  | Some x :: r => option_map (cons x) (all_some r)
  | None :: _ => None
  end.

(* dflts = the default each destination was registered with (None: no default, the option is required) *)
Definition spec_expect (k : kind) (dflts : list (option val)) (cli : option (list tok)) : expect :=
  let n := List.length dflts in
  match cli with
  | None => match all_some dflts with Some ds => MustBe ds | None => MustReject end
  | Some toks =>
      match denote_all (spec_token k) toks with
      | NoDens => MustReject
      | UnspecDens => Unspecified
      | Dens [] => MustReject                      (* the option without any value: exit 2 or the count error *)
      | Dens [v] => MustBe (repeat v n)
      | Dens vs => if Nat.eqb (List.length vs) n then MustBe vs else MustInconsistent
      end
  end.

Definition vals_eqb (a b : list val) : bool :=
  (fix go (l1 l2 : list val) : bool :=
     match l1, l2 with [], [] => true | x :: r1, y :: r2 => val_eqb x y && go r1 r2 | _, _ => false end) a b.

Definition expect_allows (e : expect) (obs : res (list val)) : bool :=
  match e, obs with
  | MustBe vs, Ok out => vals_eqb vs out
  | MustBe _, Err _ => false
  | MustReject, Err (Exit 2) | MustReject, Err Inconsistent => true
  | MustReject, _ => false
  | MustInconsistent, Err Inconsistent => true
  | MustInconsistent, _ => false
  | Unspecified, Ok _ | Unspecified, Err (Exit 2) | Unspecified, Err Inconsistent => true
  | Unspecified, _ => false
  end.
