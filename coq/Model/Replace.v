(* Model/Replace.v — executable model of simple_parsing.replace.replace (+ the utils helpers it relies on:
   unflatten / unflatten_split / flatten / flatten_join) and of the stdlib primitive it ends in
   (dataclasses.replace = re-run the constructor).  Faithful: what the code does, oddities included.
   The separator, the exception classes, the order of the two guards in the field loop, the two halves of the
   recursion condition and the "left-over keys are still passed on" step are NOT written here: they are
   regenerated from the source into Gen/FactsReplace.v (a `facts` record), which instantiates these definitions. *)
From SPV Require Export Base.Str.

(* ---------- values ---------- *)
(* how a field takes part in __init__ : an init field, or init=False with a (leaf) default the constructor re-assigns *)
Inductive fkind := FInit | FNonInit (dty drepr : string).

Inductive value :=
| VLeaf (ty repr : string)                              (* any non-dict, non-dataclass object: type name + repr *)
| VDict (kvs : list (string * value))                   (* a dict (insertion ordered, keys unique) *)
| VDc (cls : string) (fs : list (string * fkind * value)). (* a dataclass instance: class name, fields in definition order *)

Definition dict := list (string * value).
Definition field := (string * fkind * value)%type.
Definition fname (f : field) : string := fst (fst f).
Definition fknd (f : field) : fkind := snd (fst f).
Definition fval (f : field) : value := snd f.

Definition is_dc (v : value) : bool := match v with VDc _ _ => true | _ => false end.
Definition is_dict (v : value) : bool := match v with VDict _ => true | _ => false end.
Definition is_noninit (k : fkind) : bool := match k with FInit => false | FNonInit _ _ => true end.

(* ---------- python dict operations on association lists ---------- *)
Fixpoint dget (d : dict) (k : string) : option value :=
  match d with [] => None | (k', v) :: r => if String.eqb k k' then Some v else dget r k end.
Definition dhas (d : dict) (k : string) : bool := match dget d k with Some _ => true | None => false end.
(* d[k] = v : in place when the key exists, appended otherwise *)
Fixpoint dset (d : dict) (k : string) (v : value) : dict :=
  match d with
  | [] => [(k, v)]
  | (k', v') :: r => if String.eqb k k' then (k', v) :: r else (k', v') :: dset r k v
  end.
Definition dkeys (d : dict) : list string := map fst d.
(* {k: v for k, v in items} *)
Definition dict_of_items (l : list (string * value)) : dict := fold_left (fun acc kv => dset acc (fst kv) (snd kv)) l [].

Fixpoint flookup (fs : list field) (k : string) : option (fkind * value) :=
  match fs with [] => None | (n, kd, v) :: r => if String.eqb k n then Some (kd, v) else flookup r k end.
Definition has_field (fs : list field) (k : string) : bool := match flookup fs k with Some _ => true | None => false end.
Definition has_init_field (fs : list field) (k : string) : bool :=
  match flookup fs k with Some (FInit, _) => true | _ => false end.

(* ---------- utils.unflatten ---------- *)
(* one `for keys, value in flattened.items()` step: walk keys[:-1] with setdefault(part, {}), then assign keys[-1] *)
Fixpoint insert_path (keys : list string) (v : value) (d : dict) : res dict :=
  match keys with
  | [] => Err (Raise "IndexError")               (* keys[-1] of an empty tuple; str.split never yields it *)
  | [k] => Ok (dset d k v)
  | k :: rest =>
      match dget d k with
      | None => bind (insert_path rest v []) (fun sub => Ok (d ++ [(k, VDict sub)])%list)
      | Some (VDict sub) => bind (insert_path rest v sub) (fun sub' => Ok (dset d k (VDict sub')))
      | Some _ => Err (Raise "AssertionError")   (* assert isinstance(sub_dictionary, dict) *)
      end
  end.

Definition unflatten (items : list (list string * value)) : res dict :=
  fold_left (fun acc kv => bind acc (insert_path (fst kv) (snd kv))) items (Ok []).

(* utils.unflatten_split(flattened, sep) = unflatten({tuple(key.split(sep)): value ...}) *)
Definition unflatten_split (sep : ascii) (d : dict) : res dict :=
  unflatten (map (fun kv => (split_on sep (fst kv) "", snd kv)) d).

(* ---------- utils.flatten / flatten_join ---------- *)
(* tuple-keyed items of a nested dict, depth first; a non-dict value is one item.  (The `assert collision_key not in
   flattened` of the source cannot fire when keys are unique per level, which Python dicts guarantee.) *)
Section FlattenItems.
  Variable rec : value -> list (list string * value).
  Fixpoint flatten_items (d : dict) : list (list string * value) :=
    match d with
    | [] => []
    | kx :: r => (map (fun kv => (fst kx :: fst kv, snd kv)) (rec (snd kx)) ++ flatten_items r)%list
    end.
End FlattenItems.
Fixpoint flatten_val (v : value) : list (list string * value) :=
  match v with
  | VDict d => flatten_items flatten_val d
  | _ => [([], v)]
  end.
Definition flatten (d : dict) : list (list string * value) := flatten_val (VDict d).
Definition join_sep (sep : ascii) (ks : list string) : string := String.concat (String sep "") ks.
Definition flat_items (sep : ascii) (d : dict) : list (string * value) :=
  map (fun kv => (join_sep sep (fst kv), snd kv)) (flatten d).
Definition flatten_join (sep : ascii) (d : dict) : dict := dict_of_items (flat_items sep d).

(* ---------- dataclasses.replace (CPython 3.12): re-run __init__ ---------- *)
(* init fields: the keyword if given, else the current value; init=False fields: ValueError when named, else whatever
   the constructor assigns (their default).  A keyword that is no init field: TypeError from __init__. *)
Fixpoint dc_fields (fs : list field) (kw : dict) : res (list field) :=
  match fs with
  | [] => Ok []
  | (n, FInit, v) :: r =>
      bind (dc_fields r kw) (fun r' => Ok ((n, FInit, match dget kw n with Some x => x | None => v end) :: r'))
  | (n, FNonInit t d, v) :: r =>
      if dhas kw n then Err (Raise "ValueError")
      else bind (dc_fields r kw) (fun r' => Ok ((n, FNonInit t d, VLeaf t d) :: r'))
  end.

Definition dc_replace (o : value) (kw : dict) : res value :=
  match o with
  | VDc cls fs =>
      bind (dc_fields fs kw) (fun fs' =>
        if forallb (fun kv => has_init_field fs (fst kv)) kw then Ok (VDc cls fs') else Err (Raise "TypeError"))
  | _ => Err (Raise "TypeError")
  end.

(* ---------- simple_parsing.replace.replace ---------- *)
Record facts := mkfacts {
  f_sep : ascii;             (* default `sep` of unflatten_split *)
  f_join_sep : ascii;        (* default `sep` of flatten_join *)
  f_both_err : string;       (* raised when both `changes_dict` and `**changes` are given *)
  f_noninit_first : bool;    (* is `not field.init` tested BEFORE `field.name not in changes` in the field loop *)
  f_noninit_err : string;    (* raised for a change to an init=False field *)
  f_need_dc : bool;          (* recursion requires is_dataclass_instance(field_value) *)
  f_need_dict : bool;        (* recursion requires isinstance(changes[field.name], dict) *)
  f_leftover : bool          (* replace_kwargs.update(changes): keys that are no field are still passed on *)
}.

Section WithFacts.
  Variable F : facts.

  (* the `for field in dataclasses.fields(obj)` loop; `rec` is replace itself, `n` the unflattened change set;
     the result is replace_kwargs (before the left-over keys are added) *)
  Section Loop.
    Variable rec : value -> dict -> res value.
    Variable n : dict.
    Fixpoint loop (l : list field) : res dict :=
      match l with
      | [] => Ok []
      | f :: r =>
          match dget n (fname f) with
          | None =>
              if f_noninit_first F && is_noninit (fknd f) then Err (Raise (f_noninit_err F)) else loop r
          | Some c =>
              if is_noninit (fknd f) then Err (Raise (f_noninit_err F))
              else if implb (f_need_dc F) (is_dc (fval f)) && implb (f_need_dict F) (is_dict c) then
                match c with
                | VDict sub =>
                    bind (rec (fval f) sub) (fun nv => bind (loop r) (fun kw => Ok ((fname f, nv) :: kw)))
                | _ => Err (Raise "TypeError")      (* replace(field_value, **not_a_mapping) *)
                end
              else bind (loop r) (fun kw => Ok ((fname f, c) :: kw))
          end
      end.
  End Loop.

  Definition leftover (fs : list field) (n : dict) : dict := filter (fun kv => negb (has_field fs (fst kv))) n.

  Fixpoint replace (o : value) (ch : dict) : res value :=
    bind (unflatten_split (f_sep F) ch) (fun n =>
      match o with
      | VDc cls fs =>
          bind (loop replace n fs)
               (fun kw => dc_replace o (if f_leftover F then (kw ++ leftover fs n)%list else kw))
      | _ => Err (Raise "TypeError")                              (* dataclasses.fields(obj) *)
      end).

  (* the call as written by the user: replace(obj, changes_dict=None, **changes) *)
  Definition truthy (d : option dict) : bool := match d with Some (_ :: _) => true | _ => false end.
  Definition replace_call (o : value) (changes_dict : option dict) (kwargs : dict) : res value :=
    if truthy changes_dict && negb (match kwargs with [] => true | _ => false end) then Err (Raise (f_both_err F))
    else replace o (match changes_dict with Some (x :: r) => x :: r | _ => kwargs end).
End WithFacts.

(* ---------- structural equality (for the correspondence run) ---------- *)
Definition fkind_eqb (a b : fkind) : bool :=
  match a, b with
  | FInit, FInit => true
  | FNonInit t1 d1, FNonInit t2 d2 => String.eqb t1 t2 && String.eqb d1 d2
  | _, _ => false
  end.

Section ListEqb.
  Context {A : Type}.
  Variable eqb : A -> A -> bool.
  Fixpoint all2 (l1 l2 : list A) : bool :=
    match l1, l2 with
    | [], [] => true
    | x :: r1, y :: r2 => eqb x y && all2 r1 r2
    | _, _ => false
    end.
End ListEqb.

Fixpoint value_eqb (a b : value) : bool :=
  match a, b with
  | VLeaf t1 r1, VLeaf t2 r2 => String.eqb t1 t2 && String.eqb r1 r2
  | VDict d1, VDict d2 =>
      all2 (fun x y => String.eqb (fst x) (fst y) && value_eqb (snd x) (snd y)) d1 d2
  | VDc c1 f1, VDc c2 f2 =>
      String.eqb c1 c2 &&
      all2 (fun x y => String.eqb (fname x) (fname y) && fkind_eqb (fknd x) (fknd y) && value_eqb (fval x) (fval y)) f1 f2
  | _, _ => false
  end.

(* ====================================================================== *)
(* simple_parsing.replace.replace_subgroups                                *)
(* ====================================================================== *)
(* what a selection can be *)
Inductive sel :=
| SKey (k : string)                     (* a str: the key of a subgroup *)
| SType (cls : string)                  (* a dataclass type *)
| SInst (v : value)                     (* a dataclass instance *)
| SNone
| SOther                                (* anything else (an int, a non-dataclass type, ...) *)
| SDict (items : list (string * sel)).  (* a dict: nested selections, the member itself under the keyword *)
Definition sdict := list (string * sel).

Fixpoint sget (d : sdict) (k : string) : option sel :=
  match d with [] => None | (k', v) :: r => if String.eqb k k' then Some v else sget r k end.
Fixpoint sset (d : sdict) (k : string) (v : sel) : sdict :=
  match d with
  | [] => [(k, v)]
  | (k', v') :: r => if String.eqb k k' then (k', v) :: r else (k', v') :: sset r k v
  end.
Definition sremove (d : sdict) (k : string) : sdict := filter (fun kv => negb (String.eqb (fst kv) k)) d.

(* Static facts about a field that the function reads through helpers modelled elsewhere; they are OBSERVED on the
   implementation for every generated class and handed to the model as tables. *)
Record fmeta := mkfmeta {
  m_has_dc : bool;                       (* contains_dataclass_type_arg(annotation) *)
  m_optional : bool;                     (* is_optional(annotation) *)
  m_subgroups : list (string * value);   (* field.metadata["subgroups"]: key -> the member it yields (instance / cls() / partial()) *)
  m_factory : option value               (* field.default_factory() when there is one *)
}.
Record tables := mktables {
  t_meta : list (string * string * fmeta);   (* (class, field) -> facts *)
  t_classes : list (string * value)          (* class -> cls() *)
}.
Fixpoint meta_of (l : list (string * string * fmeta)) (cls name : string) : option fmeta :=
  match l with
  | [] => None
  | (c, n, m) :: r => if String.eqb c cls && String.eqb n name then Some m else meta_of r cls name
  end.

Record sfacts := mksfacts {
  s_keyword : string;          (* the key under which a nested selection dict names the member itself *)
  s_sep : ascii;               (* default sep of _unflatten_selection_dict *)
  s_noninit_first : bool;      (* is `not field.init` tested BEFORE `field.name not in selections` *)
  s_noninit_err : string;
  s_nodc_err : string;         (* annotation contains no dataclass *)
  s_invalid_err : string;      (* the final else of the resolution chain *)
  s_keep_member : bool;        (* a dict selection without the keyword keeps the current member when it is a dataclass instance *)
  s_leftover_check : bool;     (* after the loop, selections that named no field raise *)
  s_leftover_err : string
}.

Section Subgroups.
  Variable S : sfacts.
  Variable T : tables.

  (* _unflatten_selection_dict(selections, keyword, recursive=False) *)
  Definition sel_tops (d : sdict) : list string :=
    flat_map (fun kv => match split_on (s_sep S) (fst kv) "" with t :: _ :: _ => [t] | _ => [] end) d.
  Definition unflatten_selection (d : sdict) : sdict :=
    let ts := sel_tops d in
    fold_left (fun dc kv =>
                 match split_on (s_sep S) (fst kv) "" with
                 | top :: rest =>
                     if str_in top ts then
                       let sub := match sget dc top with Some (SDict s) => s | _ => [] end in
                       sset dc top (SDict (match rest with
                                           | [] => sset sub (s_keyword S) (snd kv)
                                           | _ => sset sub (join_dot rest) (snd kv)      (* ".".join(rest_keys) *)
                                           end))
                     else sset dc (fst kv) (snd kv)
                 | [] => dc
                 end) d [].

  Definition is_snone (s : sel) : bool := match s with SNone => true | _ => false end.

  (* the if/elif chain that turns value_of_selection into the new member *)
  Definition resolve (m : fmeta) (vos : sel) : res value :=
    match vos with
    | SType c => match dget (t_classes T) c with Some v => Ok v | None => Err (Raise "TypeError") end
    | SInst v => Ok v                                                   (* copy.deepcopy *)
    | _ =>
        match m_subgroups m with
        | _ :: _ =>
            match vos with
            | SKey k => match dget (m_subgroups m) k with Some v => Ok v | None => Err (Raise "KeyError") end
            | _ => Err (Raise "AssertionError")                          (* assert isinstance(value_of_selection, str) *)
            end
        | [] =>
            if m_optional m && is_snone vos then Ok (VLeaf "NoneType" "None")
            else if m_has_dc m && is_snone vos then
              match m_factory m with Some v => Ok v | None => Err (Raise "TypeError") end
            else Err (Raise (s_invalid_err S))
        end
    end.

  (* what one selected field becomes; `rec` is replace_subgroups itself (one unit of fuel less) *)
  Section SField.
    Variable rec : value -> option sdict -> res value.
    Definition sfield (m : fmeta) (cur : value) (selection : sel) : res value :=
      let vos := match selection with
                 | SDict items => match sget items (s_keyword S) with Some v => v | None => SNone end
                 | s => s
                 end in
      let child := match selection with SDict items => Some (sremove items (s_keyword S)) | _ => None end in
      let keep := match selection with
                  | SDict items => s_keep_member S && match sget items (s_keyword S) with None => true | Some _ => false end
                                   && is_dc cur
                  | _ => false
                  end in
      bind (if keep then Ok cur else resolve m vos) (fun field_value =>
        match child with
        | Some (x :: c) => rec field_value (Some (x :: c))          (* if child_selections: *)
        | _ => Ok field_value
        end).

    Variable cls : string.
    Variable sels : sdict.
    Fixpoint sloop (l : list field) : res dict :=
      match l with
      | [] => Ok []
      | f :: r =>
          if s_noninit_first S && is_noninit (fknd f) then Err (Raise (s_noninit_err S))
          else match sget sels (fname f) with
               | None => sloop r
               | Some selection =>
                   if is_noninit (fknd f) then Err (Raise (s_noninit_err S))
                   else match meta_of (t_meta T) cls (fname f) with
                        | None => Err (Raise "ModelMissingMeta")
                        | Some m =>
                            if negb (m_has_dc m) then Err (Raise (s_nodc_err S))
                            else bind (sfield m (fval f) selection) (fun nv =>
                                   bind (sloop r) (fun kw => Ok ((fname f, nv) :: kw)))
                        end
               end
      end.
  End SField.

  (* selections.pop(field.name) removed every key that is a field; what is left names no field *)
  Definition sel_leftover (fs : list field) (sels : sdict) : sdict :=
    filter (fun kv => negb (has_field fs (fst kv))) sels.

  Fixpoint rsub (fuel : nat) (o : value) (selections : option sdict) : res value :=
    match fuel with
    | 0 => Err OutOfFuel
    | Datatypes.S fuel' =>
        match selections with
        | None | Some [] => Ok o                                       (* if not selections: return obj *)
        | Some d =>
            match o with
            | VDc cls fs =>
                let sels := unflatten_selection d in
                bind (sloop (rsub fuel') cls sels fs) (fun kw =>
                  if s_leftover_check S && match sel_leftover fs sels with [] => false | _ => true end
                  then Err (Raise (s_leftover_err S))
                  else dc_replace o kw)
            | _ => Err (Raise "TypeError")
            end
        end
    end.
End Subgroups.

(* ====================================================================== *)
(* the small predicates of utils.py the two functions lean on               *)
(* ====================================================================== *)
(* Their bodies are translated WHOLE into Gen/FactsReplace.v (is_dataclass_instance_gen, is_dataclass_type_gen,
   contains_dc_gen, is_optional_gen) over the abstractions below; Proofs/ReplaceProofs.v bridges the generated
   functions to what the model hard-codes (is_dc, the SType/SInst arms of `resolve`, the m_has_dc / m_optional
   columns of the observed tables).  The primitives named p_... stand for stdlib / typing calls and are trusted. *)

(* what kind of Python object something is, as far as dataclasses.is_dataclass / inspect.isclass can tell *)
Inductive okind := KInst | KDcClass | KClass | KOther.
Definition p_is_dataclass (k : okind) : bool := match k with KInst | KDcClass => true | _ => false end.       (* dataclasses.is_dataclass(obj) *)
Definition p_type_is_dataclass (k : okind) : bool := match k with KInst => true | _ => false end.            (* dataclasses.is_dataclass(type(obj)) *)
Definition p_isclass (k : okind) : bool := match k with KDcClass | KClass => true | _ => false end.          (* inspect.isclass(obj) *)
Definition kind_of (v : value) : okind := match v with VDc _ _ => KInst | _ => KOther end.
Definition skind (s : sel) : okind := match s with SType _ => KDcClass | SInst _ => KInst | _ => KOther end.

(* a field annotation, as far as contains_dataclass_type_arg / is_optional look at it *)
Inductive ann :=
| ADc                        (* a dataclass type *)
| ATypeVarDc                 (* a TypeVar bound to a dataclass *)
| AListDc                    (* List[...] / Tuple[...] whose item type is a dataclass (or such a TypeVar) *)
| AUnion (args : list ann)   (* Union[...] / X | Y *)
| ANoneType                  (* type(None), as a Union argument *)
| ALiteral (has_none : bool) (* Literal[...] *)
| AOther.                    (* int, str, List[int], Dict[...], Any, ... *)
Definition p_is_dc_or_typevar (t : ann) : bool := match t with ADc | ATypeVarDc => true | _ => false end.    (* is_dataclass_type_or_typevar(t) *)
Definition p_list_of_dc (t : ann) : bool := match t with AListDc => true | _ => false end.                   (* is_tuple_or_list_of_dataclasses(t) *)
Definition p_is_union (t : ann) : bool := match t with AUnion _ => true | _ => false end.                    (* is_union(t) *)
Definition p_is_literal (t : ann) : bool := match t with ALiteral _ => true | _ => false end.                (* is_literal(t) *)
Definition p_args (t : ann) : list ann := match t with AUnion l => l | _ => [] end.                          (* get_type_arguments(t), for a Union *)
Definition p_is_nonetype (t : ann) : bool := match t with ANoneType => true | _ => false end.                (* arg is type(None) *)
Definition p_literal_has_none (t : ann) : bool := match t with ALiteral b => b | _ => false end.             (* None in get_type_arguments(Literal[...]) *)
