(* Model/Help.v — executable model of what `--help` lists (property C16).

   Modelled code: DataclassWrapper.__init__ (which fields get a FieldWrapper), DataclassWrapper.add_arguments /
   .title / .description (one argument group per dataclass wrapper, one action per field wrapper; the description is the
   class docstring - classes whose source cannot be inspected, one-line docstrings, no field docstrings), FieldWrapper.get_arg_options
   (the `help=` keyword / TEMPORARY_TOKEN rule, `default=`), SimpleHelpFormatter._get_help_string on top of
   argparse.ArgumentDefaultsHelpFormatter, ArgumentParser.print_help / parse_known_args (set-up first; the help action
   prints to stdout and exits), and the order in which FieldWrapper.option_strings lists equal-length spellings.

   The help is modelled as its ENTRIES (groups in order, entries in order, option strings in order, default shown,
   help text); argparse's HelpFormatter layout (wrapping, columns, usage line) is not modelled.

   NOT written here (regenerated from the source into Gen/FactsHelp.v and Gen/FactsConflicts.v): the skip test of
   DataclassWrapper.__init__, the help/token decision chain, the token, the arms of FieldWrapper.default and the test that lets an outside
   default win, DataclassWrapper.title and .description, argparse's blank-help rule, the option strings BooleanOptionalAction registers, what the formatter's base classes add, whether
   print_help sets the parser up / applies the constructor's config files first, the exit status and stream of the
   help action, and whether option_strings de-duplicates through an order-preserving container. *)
From SPV Require Export Base.Str Model.OptStr Model.BoolFlag.

(* one dataclass field as the help machinery sees it *)
Record hfield := mkhf {
  hf_fw : fw;                    (* destination path of the parent, name, prefix, aliases (Model/OptStr.v) *)
  hf_init : bool;                (* dataclasses.field(init=...) *)
  hf_cmd : option bool;          (* field.metadata["cmd"]; None = the key is absent *)
  hf_help : string;              (* help= / metadata["help"]; "" = none *)
  hf_default : option string;    (* definition default as `%(default)s` prints it; None = None / no default *)
  hf_bool : bool                 (* a plain `bool` field: its action is BooleanOptionalAction, which adds negative spellings *)
}.
(* one DataclassWrapper (single destination) *)
Record hwrap := mkhw {
  hw_qual : string;              (* dataclass.__qualname__ *)
  hw_path : list string;         (* destination words (of the first destination) *)
  hw_more : list string;         (* further destinations, dotted, in registration order: non-empty only for a wrapper that
                                    ConflictResolution.ALWAYS_MERGE merged (the merge itself is C11's subject) *)
  hw_doc : string;               (* the class's __doc__ (the one dataclasses generates when none is written: the signature) *)
  hw_fields : list hfield
}.

(* one registered action = one entry of the help *)
Record entry := mkentry {
  e_dest : string;               (* the action's dest (not printed; ties the entry to its field) *)
  e_opts : list string;          (* option strings in the order they are printed *)
  e_default : option string;     (* X of the trailing "(default: X)"; None = nothing printed *)
  e_help : string                (* the help text in front of it *)
}.
Record group := mkgroup { g_title : string; g_desc : string; g_entries : list entry }.

(* a default installed from outside the definition: how `%(default)s` prints it, and whether the value is falsy
   (0, 0.0, False, "", []); None is never installed (C06) *)
Record dval := mkdv { dv_text : string; dv_falsy : bool }.
Definition dmap := list (string * dval).         (* destination -> default installed from outside the definition *)
Fixpoint dlookup (k : string) (m : dmap) : option dval :=
  match m with [] => None | (k', v) :: r => if String.eqb k k' then Some v else dlookup k r end.

Definition hdest (f : hfield) : string := dest (hf_fw f).
Definition set_fw (f : hfield) (w : fw) : hfield :=
  {| hf_fw := w; hf_init := hf_init f; hf_cmd := hf_cmd f; hf_help := hf_help f; hf_default := hf_default f;
     hf_bool := hf_bool f |}.

(* the decision chain of FieldWrapper.default, arm by arm (the final `else` gives None) *)
Inductive darm := DExt | DSubgroup | DParent | DField | DFactory | DStoreTrue | DStoreFalse.

(* str.replace(tok, "") *)
Fixpoint remove_sub_fuel (n : nat) (tok s : string) : string :=
  match n with
  | 0 => s
  | S k => match s with
           | EmptyString => EmptyString
           | String a r => if prefixb tok s then remove_sub_fuel k tok (drop (String.length tok) s)
                           else String a (remove_sub_fuel k tok r)
           end
  end.
Definition remove_sub (tok s : string) : string :=
  if String.eqb tok "" then s else remove_sub_fuel (S (String.length s)) tok s.
Fixpoint occurs (tok s : string) : bool :=
  prefixb tok s || match s with EmptyString => false | String _ r => occurs tok r end.
Definition is_blank (s : string) : bool := String.eqb (strip s) "".

Inductive stream := SOut | SErr.
(* how a `--help` run ends and what it printed where *)
Record helprun := mkrun { r_end : err; r_printed : option (stream * list group) }.

Section WithFacts.
  Variable skip : bool -> bool -> bool.                        (* Gen: `not field.init or field.metadata.get("cmd", D) is False` *)
  Variable cmd_default : bool.                                 (* Gen: D, the value `get` returns when the key is absent *)
  Variable arg_help : string -> option string -> option string. (* Gen: the `help=` keyword chosen by get_arg_options *)
  Variable token : string.                                     (* Gen: TEMPORARY_TOKEN *)
  Variable adds_default strips_token : bool.                   (* Gen: formatter bases / _get_help_string *)
  Variable ext_wins : bool -> bool.                            (* Gen: the test on self._default at the head of FieldWrapper.default,
                                                                  as a function of the (non-None) value's falsiness *)
  Variable neg_prefix : string.                                (* Gen (FactsBool): DEFAULT_NEGATIVE_PREFIX *)
  Variable dchain : list darm.                                 (* Gen: the order of the arms of FieldWrapper.default *)
  Variable blank_hides : bool.                                 (* Gen (argparse): `if action.help and action.help.strip()` *)
  Variable bool_opts : list string -> list string -> list string. (* Gen: option_strings BooleanOptionalAction hands to argparse
                                                                  (positive ones, negative ones) *)
  Variable mk_title : string -> list string -> string.         (* Gen: DataclassWrapper.title (qualname, destinations) *)
  Variable describe : bool -> string -> string -> string -> string -> string -> string -> bool -> bool -> string.
                                                               (* Gen: DataclassWrapper.description (is a nested member;
                                                                  docstring below / comment above / inline comment of that
                                                                  member; class docstring; its description part; the shortened
                                                                  one; fields have docstrings; docstring is huge) *)
  Variable preserved : bool.                                   (* Gen (FactsConflicts): order-preserving de-duplication *)
  Variable perm : list string -> list string.                  (* iteration order of a set under this run's hash seed *)

  (* FieldWrapper.default: the first arm that yields a value.  An outside default (default instance, set_defaults,
     config file - layered by C06; all of them reach the field through set_default) is used when it passes the test of
     its arm; the definition's default comes from field.default / field.default_factory.  Not in the modelled domain:
     subgroup fields, a parent default that was not also installed through set_default, store_true/store_false actions. *)
  Fixpoint run_dchain (ch : list darm) (ext : option dval) (defn : option string) : option string :=
    match ch with
    | [] => None
    | DExt :: r => match ext with
                   | Some v => if ext_wins (dv_falsy v) then Some (dv_text v) else run_dchain r ext defn
                   | None => run_dchain r ext defn
                   end
    | DField :: r | DFactory :: r => match defn with Some t => Some t | None => run_dchain r ext defn end
    | _ :: r => run_dchain r ext defn
    end.
  Definition effective (D : dmap) (f : hfield) : option string :=
    run_dchain dchain (dlookup (hdest f) D) (hf_default f).

  (* DataclassWrapper.title / .description.  The classes of the modelled domain have no inspectable source (no member
     docstrings or comments, no field docstrings) and one-line docstrings (their description part is the docstring). *)
  Definition title (w : hwrap) : string := mk_title (hw_qual w) (join_dot (hw_path w) :: hw_more w).
  Definition description (w : hwrap) : string :=
    describe (Nat.ltb 1 (List.length (hw_path w))) "" "" "" (hw_doc w) (hw_doc w) "" false false.

  Definition exposedb (f : hfield) : bool :=
    negb (skip (hf_init f) (match hf_cmd f with Some b => b | None => cmd_default end)).

  (* FieldWrapper.option_strings WITH the order of equal-length spellings *)
  Definition ordered_opts (c : cfg) (f : fw) : list string :=
    if positional f then [dest f]
    else sort_by String.length (if preserved then dedupe (raw_options c f) [] else perm (dedupe (raw_options c f) [])).

  (* the action's option strings: for a bool field BooleanOptionalAction.__init__ (Model/BoolFlag.v, C12) appends the
     negative spelling of every positive one *)
  Definition negs_of (pos : list string) : list string :=
    match neg_strings neg_prefix pos [] with Some n => n | None => [] end.
  Definition shown_opts (c : cfg) (f : hfield) : list string :=
    let pos := ordered_opts c (hf_fw f) in if hf_bool f then bool_opts pos (negs_of pos) else pos.

  (* argparse.HelpFormatter._format_action + _expand_help on the action built by add_arguments *)
  Definition entry_of (c : cfg) (D : dmap) (f : hfield) : entry :=
    let d := effective D f in
    let opts := shown_opts c f in
    match arg_help (hf_help f) d with
    | None => mkentry (hdest f) opts None ""
    | Some h =>
        if blank_hides && is_blank h then mkentry (hdest f) opts None ""
        else mkentry (hdest f) opts
                     (if adds_default then Some (match d with Some v => v | None => "None" end) else None)
                     (if strips_token then remove_sub token h else h)
    end.

  Definition group_of (c : cfg) (D : dmap) (w : hwrap) : group :=
    mkgroup (title w) (description w) (map (entry_of c D) (filter exposedb (hw_fields w))).

  (* the groups added by _preprocessing, in the flattened wrapper order *)
  Definition help_entries (c : cfg) (D : dmap) (F : list hwrap) : list group := map (group_of c D) F.

  (* every registered action: (option string, dest) *)
  Definition registered (gs : list group) : list (string * string) :=
    flat_map (fun g => flat_map (fun e => map (fun o => (o, e_dest e)) (e_opts e)) (g_entries g)) gs.

  (* ---- conflict resolution runs over the field wrappers that exist, i.e. the exposed fields ---- *)
  Definition exposed_fws (F : list hwrap) : list fw :=
    flat_map (fun w => map hf_fw (filter exposedb (hw_fields w))) F.

  Fixpoint refill_fields (fs : list hfield) (pool : list fw) : list hfield * list fw :=
    match fs with
    | [] => ([], pool)
    | f :: r =>
        if exposedb f then
          match pool with
          | p :: pool' => let (r', rest) := refill_fields r pool' in (set_fw f p :: r', rest)
          | [] => (fs, [])
          end
        else let (r', rest) := refill_fields r pool in (f :: r', rest)
    end.
  Fixpoint refill (F : list hwrap) (pool : list fw) : list hwrap :=
    match F with
    | [] => []
    | w :: r => let (fs', rest) := refill_fields (hw_fields w) pool in
                mkhw (hw_qual w) (hw_path w) (hw_more w) (hw_doc w) fs' :: refill r rest
    end.

  Variable resolve : list fw -> res (list fw).                 (* Gen: resolve_gen (ordered_opts cfg) mode *)
  Definition setup (F : list hwrap) : res (list hwrap) :=
    match resolve (exposed_fws F) with Ok fs => Ok (refill F fs) | Err e => Err e end.

  (* ---- the three ways the help is produced / used ---- *)
  Variable help_status : nat.                                  (* Gen: status of parser.exit() in the help action *)
  Variable help_stdout : bool.                                 (* Gen: print_help's default file is sys.stdout *)
  Variable print_help_sets_up : bool.                          (* Gen: print_help runs _preprocessing first *)
  Variable print_help_applies_config : bool.                   (* Gen: print_help applies the constructor's config files first *)

  (* layers installed before set-up (default instances, set_defaults) and the constructor's config files, which
     parse_known_args applies before it sets the parser up *)
  Definition layered (pre cfgf : dmap) : dmap := (cfgf ++ pre)%list.

  (* parse_args(["--help"]); `s` = the outcome of `setup` on the declared forest (Gen/FactsHelp.v composes the two) *)
  Definition cli_help_of (c : cfg) (pre cfgf : dmap) (s : res (list hwrap)) : helprun :=
    match s with
    | Err e => mkrun e None
    | Ok F' => mkrun (Exit help_status) (Some (if help_stdout then SOut else SErr, help_entries c (layered pre cfgf) F'))
    end.

  (* parser.print_help() called directly: returns normally, having printed *)
  Definition api_defaults (pre cfgf : dmap) : dmap := if print_help_applies_config then layered pre cfgf else pre.
  Definition api_help_of (c : cfg) (pre cfgf : dmap) (s : res (list hwrap)) : res (list group) :=
    if print_help_sets_up then
      match s with Err e => Err e | Ok F' => Ok (help_entries c (api_defaults pre cfgf) F') end
    else Ok [].

  (* defaults a parse with an empty command line returns for the exposed fields.  Set-up happens once
     (_preprocessing_done) and freezes each action's default; `after_print_help` = print_help() ran before. *)
  Definition defaults_view (D : dmap) (F : list hwrap) : list (string * option string) :=
    flat_map (fun w => map (fun f => (hdest f, effective D f)) (filter exposedb (hw_fields w))) F.
  Definition parse_defaults_of (after_print_help : bool) (pre cfgf : dmap) (s : res (list hwrap))
    : res (list (string * option string)) :=
    match s with
    | Err e => Err e
    | Ok F' => Ok (defaults_view (if after_print_help && print_help_sets_up then api_defaults pre cfgf
                                  else layered pre cfgf) F')
    end.
End WithFacts.

(* ---------- the hash-seed oracle rebuilt from observed enumeration orders ---------- *)
Definition is_permb (a b : list string) : bool :=
  str_nodupb a && str_nodupb b && forallb (fun x => str_in x b) a && forallb (fun x => str_in x a) b.
(* the first observed row that enumerates exactly the given spellings; unobserved sets keep their order *)
Definition perm_of (tbl : list (list string)) (l : list string) : list string :=
  match find (fun row => is_permb row l) tbl with Some row => row | None => l end.
