(* Proofs/MiniPyNegStr.v — the regenerated source of the statements of BooleanOptionalAction.__init__ that compute
   self.negative_option_strings (a MiniPy block dumped from the ast on every run, Gen/FactsNegStrSrc.v) computes exactly the
   hand-written functional model BoolFlag.negative_option_strings: for every negative prefix, every explicit negative
   option or none, every conflict prefix that is empty or ends with ".", every list of option strings. *)
From SPV Require Import Base.Str Model.MiniPy Model.BoolFlag Gen.FactsNegStrSrc Proofs.MiniPyLemmas.

Definition opt_val (o : option string) : val := match o with Some s => VS s | None => VNone end.

(* the constructor's arguments read by the statements, then every local pre-declared *)
Definition env_of (np : string) (nopt : option string) (cp : string) (os : list string) : env :=
  ([("negative_prefix", VS np); ("negative_option", opt_val nopt); ("_conflict_prefix", VS cp);
    ("option_strings", VL (map VS os))]
   ++ map (fun x => (x, VNone)) neg_strings_locals)%list.

Definition run_src (np : string) (nopt : option string) (cp : string) (os : list string) : res val :=
  run (env_of np nopt cp os) neg_strings_src.

(* the model's answer as an outcome of the interpreter *)
Definition expected (np : string) (nopt : option string) (cp : string) (os : list string) : res val :=
  match negative_option_strings np nopt cp os with
  | Some l => Ok (VL (map VS l))
  | None => Err (Raise "NotImplementedError")
  end.

(* the constructor asserts this of a non-empty conflict prefix *)
Definition cp_ok (cp : string) : bool := String.eqb cp "" || suffixb "." cp.

(* executable agreement on concrete inputs (a test, not the theorem) *)
Definition res_val_eqb (a b : res val) : bool :=
  match a, b with Ok x, Ok y => val_eqb x y | Err x, Err y => err_eqb x y | _, _ => false end.
Example src_vs_model_1 :
  forallb (fun t => match t with (np, nopt, cp, os) => res_val_eqb (run_src np nopt cp os) (expected np nopt cp os) end)
    [("--no", None, "", ["--a.b.flag"; "-f"; "--f"; "--a.f"]); ("-x", None, "", ["--my_flag"; "--.x"; "--a..b"]);
     ("--no-", None, "", ["--v"; "flag"]); ("no", None, "", ["---a.-b.--c"; "."]);
     ("--no", Some "--silent", "a.b.", []); ("--no", Some "q", "", ["--v"]); ("--no", Some "q", "t.", ["--v"]);
     ("--no", Some "-s", "train.", ["--v"]); ("--no", Some "", "", []); ("--no", Some "---", "x.", [])] = true.
Proof. vm_compute. reflexivity. Qed.

Ltac interp := cbn [exec_block exec eval lookup assign String.eqb Ascii.eqb Bool.eqb truthy val_eqb strs_of option_map
                    app map fst snd env_of neg_strings_locals opt_val wrapL List.length Nat.eqb negb].

(* ---------- an explicit negative option ---------- *)
Definition explicit_block : block :=
  match nth 3 neg_strings_body (SRaise "") with SIf _ th _ => th | _ => [] end.

Lemma length_lstrip_le s : Nat.leb (String.length (lstrip_dashes s)) (String.length s) = true.
Proof. apply Nat.leb_le, lstrip_by_length. Qed.

Lemma lstrip_dash_eq s : lstrip_by (fun x => Ascii.eqb x "-"%char) s = lstrip_dashes s.
Proof. reflexivity. Qed.

Ltac step := interp; cbn [head_char]; rewrite ?lstrip_dash_eq, ?length_lstrip_le.

Lemma explicit_spec np n cp os :
  cp_ok cp = true ->
  run (env_of np (Some n) cp os) neg_strings_src = Ok (VL [VS (explicit_neg n cp)]).
Proof.
  intros Hcp. unfold run, neg_strings_src, neg_strings_body, explicit_neg, cp_ok in *.
  unfold count_leading_dashes, dashes.
  destruct (String.eqb cp "") eqn:Ecp.
  - apply String.eqb_eq in Ecp. subst cp. clear Hcp.
    destruct (prefixb "-" n) eqn:P.
    + step. rewrite P. do 2 step. rewrite ?append_assoc; reflexivity.
    + step. rewrite P. step.
      match goal with |- context [Nat.ltb 1 ?x] => destruct (Nat.ltb 1 x) end; step; rewrite ?append_assoc; reflexivity.
  - cbn [orb] in Hcp.
    destruct (prefixb "-" n) eqn:P.
    + step. rewrite Ecp. step. rewrite Hcp. step. rewrite P. do 2 step. rewrite ?append_assoc; reflexivity.
    + step. rewrite Ecp. step. rewrite Hcp. step. rewrite P. step.
      match goal with |- context [Nat.ltb 1 ?x] => destruct (Nat.ltb 1 x) end; step; rewrite ?append_assoc; reflexivity.
Qed.

(* ---------- generated negatives: the loop over the option strings ---------- *)
Definition loop_body : list stmt :=
  [SIf (EIn (EStr ".") (EVar "option_string"))
     [SAssign "parts" (ESplit (EVar "option_string") ".");
      SUnpack3 "first" "middle" "last" (EVar "parts");
      SAssign "negative_prefix_without_leading_dashes" (ELstrip (EVar "negative_prefix") "-");
      SAssign "num_leading_dashes" (ESub (ELen (EVar "negative_prefix")) (ELen (EVar "negative_prefix_without_leading_dashes")));
      SAssign "first_without_leading_dashes" (ELstrip (EVar "first") "-");
      SAssign "first" (EAdd (ERepeat "-" (EVar "num_leading_dashes")) (EVar "first_without_leading_dashes"));
      SAssign "last" (EAdd (EVar "negative_prefix_without_leading_dashes") (EVar "last"));
      SAssign "negative_option_string" (EJoin "." (EAdd (EAdd (EList [EVar "first"]) (EVar "middle")) (EList [EVar "last"])));
      SAppend "self.negative_option_strings" (EVar "negative_option_string")]
     [SIf (EStartswith (EVar "option_string") "-")
        [SAssign "without_leading_dashes" (ELstrip (EVar "option_string") "-");
         SAssign "negative_option_string" (EAdd (EVar "self.negative_prefix") (EVar "without_leading_dashes"));
         SIf (ENot (EIn (EVar "negative_option_string") (EVar "self.negative_option_strings")))
           [SAppend "self.negative_option_strings" (EVar "negative_option_string")] []]
        [SRaise "NotImplementedError"]]].

Lemma body_shape :
  neg_strings_body =
  [SAssign "self.negative_prefix" (EVar "negative_prefix");
   SAssign "self.negative_option" (EVar "negative_option");
   SAssign "self.negative_option_strings" (EList []);
   SIf (ENot (EIsNone (EVar "negative_option"))) explicit_block
     [SAssign "self.negative_option_strings" (EList []);
      SFor "option_string" (EVar "option_strings") loop_body]].
Proof. reflexivity. Qed.

Definition inv (np : string) (acc : list string) (r : env) : Prop :=
  lookup "negative_prefix" r = Some (VS np) /\ lookup "self.negative_prefix" r = Some (VS np)
  /\ lookup "self.negative_option_strings" r = Some (VL (map VS acc)).

Ltac nx :=
  rewrite exec_block_cons;
  first [rewrite exec_assign | rewrite exec_append | rewrite exec_unpack3 | rewrite exec_if | rewrite exec_raise];
  cbn [eval]; lk; cbn [head_char].

Ltac hy := repeat match goal with H : lookup ?x ?r = Some _ |- context [lookup ?x ?r] => rewrite H end.
Ltac go := nx; hy; cbv beta iota; rewrite ?lstrip_dash_eq, ?length_lstrip_le; cbv beta iota.

Lemma strs_of_fml x m y : strs_of (([VS x] ++ map VS m) ++ [VS y])%list = Some (x :: m ++ [y])%list.
Proof. change [VS x] with (map VS [x]). change [VS y] with (map VS [y]). rewrite !map_VS_app, strs_of_map. reflexivity. Qed.

Lemma inv_app np acc n r :
  lookup "negative_prefix" r = Some (VS np) -> lookup "self.negative_prefix" r = Some (VS np) ->
  lookup "self.negative_option_strings" r = Some (VL (map VS acc ++ [VS n])) -> inv np (acc ++ [n]) r.
Proof. intros A B C. repeat split; try assumption. rewrite C, map_app. reflexivity. Qed.

Lemma body_step np o acc r :
  inv np acc r ->
  match neg_of_option np o with
  | None => exec_block (assign "option_string" (VS o) r) loop_body = Err (Raise "NotImplementedError")
  | Some (n, d) =>
      exists r', exec_block (assign "option_string" (VS o) r) loop_body = Ok (r', None)
                 /\ inv np (if d then acc ++ [n] else if str_in n acc then acc else acc ++ [n]) r'
  end.
Proof.
  intros [Hnp [Hsnp Hacc]]. unfold neg_of_option, loop_body.
  nx. cbn [head_char truthy].
  destruct (has_char "."%char o) eqn:Hdot.
  - (* a dotted option string *)
    destruct (split_on_two "."%char o "" Hdot) as [a [b [t Es]]]. unfold split_dot. rewrite Es.
    destruct (rev (b :: t)) as [|last mid_rev] eqn:Er.
    { exfalso. cbn [rev] in Er. destruct (rev t); discriminate. }
    nx. cbv beta iota. nx. rewrite Es.
    change (map VS (a :: b :: t)) with (VS a :: map VS (b :: t)). cbv beta iota. rewrite <- map_rev, Er. cbn [map].
    rewrite <- map_rev. cbv beta iota.
    do 6 go. rewrite strs_of_fml. cbv beta iota. go. rewrite exec_block_nil.
    eexists. split; [reflexivity|]. apply inv_app; lk; try assumption. reflexivity.
  - (* no dot *)
    nx. cbn [truthy]. destruct (prefixb "-" o) eqn:P.
    + do 3 go. rewrite existsb_VS. cbn [truthy].
      destruct (str_in (np ++ lstrip_dashes o) acc) eqn:Hin; cbn [negb].
      * rewrite !exec_block_nil. eexists. split; [reflexivity|]. unfold inv. lk. auto.
      * go. rewrite !exec_block_nil. eexists. split; [reflexivity|]. apply inv_app; lk; try assumption. reflexivity.
    + nx. reflexivity.
Qed.

Lemma loop_spec np os : forall acc r,
  inv np acc r ->
  match neg_strings np os acc with
  | None => iter_list (fun v r => exec_block (assign "option_string" v r) loop_body) (map VS os) r = Err (Raise "NotImplementedError")
  | Some l => exists r', iter_list (fun v r => exec_block (assign "option_string" v r) loop_body) (map VS os) r = Ok (r', None)
                         /\ inv np l r'
  end.
Proof.
  induction os as [|o t IH]; intros acc r Hi.
  - cbn [neg_strings map iter_list]. exists r. auto.
  - cbn [neg_strings map iter_list]. pose proof (body_step np o acc r Hi) as B.
    destruct (neg_of_option np o) as [[n d]|].
    + destruct B as [r1 [E1 I1]]. rewrite E1. destruct d; cbv beta iota in I1; exact (IH _ _ I1).
    + rewrite B. reflexivity.
Qed.

(* ---------- the whole range of statements ---------- *)
(* no explicit negative option: whatever the conflict prefix *)
Theorem src_is_model_generated np cp os : run_src np None cp os = expected np None cp os.
Proof.
  unfold run_src, expected, run, neg_strings_src. cbn [negative_option_strings].
  rewrite exec_block_app, body_shape.
  assert (Hnp : lookup "negative_prefix" (env_of np None cp os) = Some (VS np)) by reflexivity.
  assert (Hno : lookup "negative_option" (env_of np None cp os) = Some VNone) by reflexivity.
  assert (Hos : lookup "option_strings" (env_of np None cp os) = Some (VL (map VS os))) by reflexivity.
  set (r0 := env_of np None cp os) in *. clearbody r0.
  do 4 go. cbn [truthy negb]. cbv beta iota. go.
  rewrite exec_block_cons, exec_for, eval_var. lk. hy.
  match goal with |- context [iter_list _ _ ?r] => pose proof (loop_spec np os [] r) as L end.
  destruct (neg_strings np os []) as [l|].
  - destruct L as [r1 [E1 [_ [_ Hl]]]]; [repeat split; lk; assumption || reflexivity|].
    rewrite E1. rewrite !exec_block_nil. rewrite exec_block_cons, exec_return, eval_var, Hl. reflexivity.
  - rewrite L; [reflexivity|]. repeat split; lk; assumption || reflexivity.
Qed.

Theorem src_is_model np nopt cp os : cp_ok cp = true -> run_src np nopt cp os = expected np nopt cp os.
Proof.
  intros Hcp. destruct nopt as [n|].
  - unfold run_src, expected. cbn [negative_option_strings]. apply explicit_spec. exact Hcp.
  - apply src_is_model_generated.
Qed.

(* the hypothesis on the conflict prefix is exactly the constructor's assertion: with an explicit negative option and any
   other conflict prefix the statements end in an AssertionError (the functional model does not describe that case) *)
Theorem src_asserts_conflict_prefix np n cp os :
  cp_ok cp = false -> run_src np (Some n) cp os = Err (Raise "AssertionError").
Proof.
  intros Hcp. unfold cp_ok in Hcp. apply orb_false_iff in Hcp as [Ecp Hs].
  unfold run_src, run, neg_strings_src, neg_strings_body.
  step. rewrite Ecp. step. rewrite Hs. step. reflexivity.
Qed.
