(* Proofs/MiniPyOptStr.v — the regenerated source of FieldWrapper.option_strings (a MiniPy block dumped from the ast on
   every run) computes exactly the hand-written functional model OptStr.option_strings. *)
From SPV Require Import Base.Str Model.MiniPy Model.OptStr Model.SpellSpec Gen.FactsOptStrSrc Proofs.OptStrProofs.

Definition dv_name (d : dashv) : string :=
  match d with DUnderscore => "DashVariant.AUTO" | DBoth => "DashVariant.UNDERSCORE_AND_DASH" | DDash => "DashVariant.DASH" end.
Definition gm_name (g : genmode) : string :=
  match g with GFlat => "ArgumentGenerationMode.FLAT" | GNested => "ArgumentGenerationMode.NESTED" | GBoth => "ArgumentGenerationMode.BOTH" end.
Definition nm_name (n : nestmode) : string :=
  match n with NDefault => "NestedMode.DEFAULT" | NWithoutRoot => "NestedMode.WITHOUT_ROOT" end.

(* the method's inputs, then every local pre-declared *)
Definition env_of (c : cfg) (f : fw) : env :=
  ([("self.name", VS (name f)); ("self.prefix", VS (pfx f)); ("self.dest", VS (dest f));
   ("self.aliases", VL (map VS (aliases f)));
   ("FieldWrapper.add_dash_variants", VS (dv_name (dv c)));
   ("type(self).argument_generation_mode", VS (gm_name (gm c)));
   ("type(self).nested_mode", VS (nm_name (nm c)));
   ("self.field.metadata.get('positional')", VB (positional f))]
  ++ map (fun x => (x, VNone)) option_strings_locals)%list.

Definition run_src (c : cfg) (f : fw) : res val := run (env_of c f) option_strings_src.

(* executable agreement on concrete inputs (a test, not the theorem) *)
Example src_vs_model_1 :
  let f := mkfw ["cfg"; "s_b"] "a_b" "" ["-q"; "al_1"; "--x_y"] false in
  forallb (fun c => match run_src c f with Ok (VL l) => match strs_of l with Some ss => (fix eq a b := match a, b with [], [] => true | x :: r, y :: s => String.eqb x y && eq r s | _, _ => false end) ss (option_strings c f) | None => false end | _ => false end)
    [mkcfg DUnderscore GFlat NDefault; mkcfg DBoth GBoth NWithoutRoot; mkcfg DDash GNested NDefault; mkcfg DDash GBoth NWithoutRoot; mkcfg DBoth GNested NDefault] = true.
Proof. vm_compute. reflexivity. Qed.

(* ---------- environment lemmas ---------- *)
Lemma lookup_assign x y v r : lookup x (assign y v r) = if String.eqb y x then Some v else lookup x r.
Proof.
  induction r as [|[k w] t IH]; simpl.
  - destruct (String.eqb y x) eqn:E; reflexivity.
  - destruct (String.eqb k y) eqn:Eky; simpl.
    + apply String.eqb_eq in Eky. subst k. destruct (String.eqb y x); reflexivity.
    + rewrite IH. destruct (String.eqb k x) eqn:Ekx; [|reflexivity].
      apply String.eqb_eq in Ekx. subst k. rewrite String.eqb_sym in Eky. now rewrite Eky.
Qed.

(* unfolding lemmas: the statement-level interpreter in terms of the top-level exec_block *)
Lemma exec_block_inner r ss :
  (fix eb (r : env) (ss : list stmt) : res (env * option val) :=
     match ss with
     | [] => Ok (r, None)
     | s :: t => match exec r s with Err z => Err z | Ok (r', Some v) => Ok (r', Some v) | Ok (r', None) => eb r' t end
     end) r ss = exec_block r ss.
Proof. revert r. induction ss as [|s t IH]; intros r; simpl; [reflexivity|]. destruct (exec r s) as [[r' [v|]]|]; auto. Qed.

Lemma exec_for r x it body :
  exec r (SFor x it body) =
  match eval r it with
  | Ok (VL l) => iter_list (fun v r => exec_block (assign x v r) body) l r
  | Ok _ => rerr
  | Err z => Err z
  end.
Proof. reflexivity. Qed.

Lemma exec_if r c th el :
  exec r (SIf c th el) = match eval r c with Ok v => if truthy v then exec_block r th else exec_block r el | Err z => Err z end.
Proof. reflexivity. Qed.

Lemma strs_of_map l : strs_of (map VS l) = Some l.
Proof. induction l as [|s t IH]; simpl; [reflexivity | now rewrite IH]. Qed.

Ltac lk := repeat (rewrite lookup_assign; cbn [String.eqb Ascii.eqb Bool.eqb]).

(* ---------- the three comprehensions ---------- *)
Lemma ev_in r o : eval (assign "option" (VS o) r) (EIn (EStr "_") (EVar "option")) = Ok (VB (has_char "_"%char o)).
Proof. cbn [eval]. lk. reflexivity. Qed.
Lemma ev_repl r o : eval (assign "option" (VS o) r) (EReplace (EVar "option") "_" "-") = Ok (VS (us2dash o)).
Proof. cbn [eval]. lk. reflexivity. Qed.
Lemma ev_dashfor r o :
  eval (assign "option" (VS o) r) (ECond (EEq (ELen (EVar "option")) (ENat 1)) (EStr "-") (EStr "--")) = Ok (VS (dash_for o)).
Proof. cbn [eval]. lk. cbn [val_eqb truthy]. unfold dash_for. destruct (Nat.eqb (String.length o) 1); reflexivity. Qed.
Lemma ev_fmt r d o :
  eval (assign "option" (VS o) (assign "dash" (VS d) r)) (EFmt [EVar "dash"; EVar "option"]) = Ok (VS (d ++ o)).
Proof. cbn [eval]. lk. reflexivity. Qed.

Lemma comp_extra r os :
  comp_list (fun v => eval (assign "option" v r) (EIn (EStr "_") (EVar "option")))
            (fun v => eval (assign "option" v r) (EReplace (EVar "option") "_" "-")) (map VS os)
  = Ok (map VS (map us2dash (filter (has_char "_"%char) os))).
Proof.
  induction os as [|o t IH]; [reflexivity|].
  cbn [map comp_list]. rewrite ev_in, ev_repl, IH. cbn [truthy filter].
  destruct (has_char "_"%char o); reflexivity.
Qed.

Lemma comp_dash_for r os :
  comp_list (fun _ => Ok (VB true))
            (fun v => eval (assign "option" v r) (ECond (EEq (ELen (EVar "option")) (ENat 1)) (EStr "-") (EStr "--"))) (map VS os)
  = Ok (map VS (map dash_for os)).
Proof.
  induction os as [|o t IH]; [reflexivity|].
  cbn [map comp_list truthy]. rewrite ev_dashfor, IH. reflexivity.
Qed.

Lemma comp2_fmt r ds os :
  comp2_list (fun v w => eval (assign "option" w (assign "dash" v r)) (EFmt [EVar "dash"; EVar "option"])) (map VS ds) (map VS os)
  = Ok (map VS (map (fun p => fst p ++ snd p) (combine ds os))).
Proof.
  revert os. induction ds as [|d t IH]; intros os; [reflexivity|]. destruct os as [|o u]; [reflexivity|].
  cbn [map comp2_list combine]. rewrite ev_fmt, IH. reflexivity.
Qed.

(* ---------- the loop over the aliases ---------- *)
Definition alias_body : list stmt :=
  [SIf (EStartswith (EVar "alias") "--") [SAssign "dash" (EStr "--"); SAssign "name" (ESliceFrom (EVar "alias") 2)]
     [SIf (EStartswith (EVar "alias") "-") [SAssign "dash" (EStr "-"); SAssign "name" (ESliceFrom (EVar "alias") 1)]
        [SAssign "dash" (ECond (EEq (ELen (EVar "alias")) (ENat 1)) (EStr "-") (EStr "--")); SAssign "name" (EVar "alias")]];
   SAssign "option" (EFmt [(EVar "self.prefix"); (EVar "name")]); SAppend "dashes" (EVar "dash"); SAppend "options" (EVar "option")].

Definition untouched (y : string) : Prop :=
  String.eqb "alias" y = false /\ String.eqb "dash" y = false /\ String.eqb "name" y = false
  /\ String.eqb "option" y = false /\ String.eqb "dashes" y = false /\ String.eqb "options" y = false.

Lemma alias_step p a r D O :
  lookup "self.prefix" r = Some (VS p) -> lookup "dashes" r = Some (VL D) -> lookup "options" r = Some (VL O) ->
  exists r', exec_block (assign "alias" (VS a) r) alias_body = Ok (r', None)
    /\ lookup "self.prefix" r' = Some (VS p)
    /\ lookup "dashes" r' = Some (VL (D ++ [VS (fst (alias_parts a))]))
    /\ lookup "options" r' = Some (VL (O ++ [VS (p ++ snd (alias_parts a))]))
    /\ (forall y, untouched y -> lookup y r' = lookup y r).
Proof.
  intros Hp Hd Ho. unfold alias_body, alias_parts.
  cbn [exec_block]. rewrite exec_if. cbn [eval]. lk.
  destruct (prefixb "--" a) eqn:P2; cbn [truthy].
  - cbn [exec_block exec eval]. lk. rewrite Hp. cbn [strs_of option_map String.concat]. lk. rewrite Hd. lk. rewrite Ho.
    eexists. split; [reflexivity|]. lk. rewrite Hp. repeat split; try reflexivity.
    intros y [A [B [C [D' [E F]]]]]. repeat rewrite lookup_assign. rewrite ?A, ?B, ?C, ?D', ?E, ?F. reflexivity.
  - cbn [exec_block]. rewrite exec_if. cbn [eval]. lk.
    destruct (prefixb "-" a) eqn:P1; cbn [truthy].
    + cbn [exec_block exec eval]. lk. rewrite Hp. cbn [strs_of option_map String.concat]. lk. rewrite Hd. lk. rewrite Ho.
      eexists. split; [reflexivity|]. lk. rewrite Hp. repeat split; try reflexivity.
      intros y [A [B [C [D' [E F]]]]]. repeat rewrite lookup_assign. rewrite ?A, ?B, ?C, ?D', ?E, ?F. reflexivity.
    + cbn [exec_block exec eval]. lk. cbn [val_eqb truthy].
      destruct (Nat.eqb (String.length a) 1) eqn:L; cbn [exec_block exec eval truthy]; lk; rewrite Hp;
        cbn [strs_of option_map String.concat]; lk; rewrite Hd; lk; rewrite Ho;
        (eexists; split; [reflexivity|]; lk; rewrite Hp; unfold dash_for; rewrite L; repeat split; try reflexivity;
         intros y [A [B [C [D' [E F]]]]]; repeat rewrite lookup_assign; rewrite ?A, ?B, ?C, ?D', ?E, ?F; reflexivity).
Qed.

Lemma alias_loop p als : forall r D O,
  lookup "self.prefix" r = Some (VS p) -> lookup "dashes" r = Some (VL D) -> lookup "options" r = Some (VL O) ->
  exists r', iter_list (fun v r => exec_block (assign "alias" v r) alias_body) (map VS als) r = Ok (r', None)
    /\ lookup "dashes" r' = Some (VL (D ++ map (fun a => VS (fst (alias_parts a))) als))
    /\ lookup "options" r' = Some (VL (O ++ map (fun a => VS (p ++ snd (alias_parts a))) als))
    /\ (forall y, untouched y -> lookup y r' = lookup y r).
Proof.
  induction als as [|a t IH]; intros r D O Hp Hd Ho.
  - exists r. cbn [map iter_list]. rewrite !app_nil_r. auto.
  - destruct (alias_step p a r D O Hp Hd Ho) as [r1 [E1 [Hp1 [Hd1 [Ho1 F1]]]]].
    destruct (IH r1 _ _ Hp1 Hd1 Ho1) as [r2 [E2 [Hd2 [Ho2 F2]]]].
    exists r2. cbn [map iter_list]. rewrite E1, E2. rewrite <- !app_assoc in Hd2, Ho2. cbn [app] in Hd2, Ho2.
    repeat split; auto. intros y Hy. rewrite (F2 y Hy). exact (F1 y Hy).
Qed.

(* ---------- list algebra between the interpreter's two lists and the model's list of pairs ---------- *)
Lemma combine_fst_snd {A B} (l : list (A * B)) : combine (map fst l) (map snd l) = l.
Proof. induction l as [|[a b] t IH]; simpl; [reflexivity | now rewrite IH]. Qed.

Lemma filter_map_snd {A} (P : string -> bool) (l : list (A * string)) :
  filter P (map snd l) = map snd (filter (fun p => P (snd p)) l).
Proof. induction l as [|[a b] t IH]; simpl; [reflexivity|]. destruct (P b); simpl; now rewrite IH. Qed.

Lemma map_VS_app a b : (map VS a ++ map VS b)%list = map VS (a ++ b).
Proof. now rewrite map_app. Qed.

Lemma combine_app_local {A B} (a1 a2 : list A) (b1 b2 : list B) :
  List.length a1 = List.length b1 -> combine (a1 ++ a2) (b1 ++ b2) = (combine a1 b1 ++ combine a2 b2)%list.
Proof.
  revert b1. induction a1 as [|x t IH]; intros [|y u] H; simpl in *; try discriminate; [reflexivity|].
  f_equal. apply IH. congruence.
Qed.

(* the tail of the method, from the state reached after the alias loop: de-duplicate, sort *)
Lemma tail_pairs (base : list (string * string)) (both : bool) :
  let Os := map snd base in
  let extraO := if both then map us2dash (filter (has_char "_"%char) Os) else [] in
  let extraD := map dash_for extraO in
  combine (map fst base ++ extraD) (Os ++ extraO)
  = (base ++ (if both then map (fun p => let o := us2dash (snd p) in (dash_for o, o)) (filter (fun p => has_char "_"%char (snd p)) base) else []))%list.
Proof.
  cbv zeta. destruct both.
  - rewrite filter_map_snd.
    set (F := filter (fun p => has_char "_"%char (snd p)) base).
    assert (L : List.length (map fst base) = List.length (map snd base)) by now rewrite !map_length.
    rewrite combine_app_local by exact L. rewrite combine_fst_snd. f_equal.
    induction F as [|[a b] t IH]; simpl; [reflexivity | now rewrite IH].
  - simpl. rewrite !app_nil_r. apply combine_fst_snd.
Qed.

(* ---------- the whole method ---------- *)
Ltac interp := cbn [exec_block exec eval lookup assign String.eqb Ascii.eqb Bool.eqb truthy val_eqb strs_of option_map
                    app map fst snd env_of option_strings_locals dv_name gm_name nm_name name pfx aliases positional dv gm nm
                    iter_list wrapL List.length Nat.eqb negb].

Ltac step := interp; rewrite ?skipn_map, ?strs_of_map; cbn [head_char].

Lemma exec_block_app r a b :
  exec_block r (a ++ b) = match exec_block r a with
                          | Ok (r', None) => exec_block r' b
                          | Ok (r', Some v) => Ok (r', Some v)
                          | Err z => Err z end.
Proof.
  revert r. induction a as [|s t IH]; intros r; simpl; [destruct (exec_block r b) as [[? [?|]]|]; reflexivity|].
  destruct (exec r s) as [[r' [v|]]|]; auto.
Qed.

(* the method is: 13 straight-line statements, the loop over the aliases, 3 closing statements *)
Definition partA : block := firstn 13 option_strings_src.
Definition partC : block := skipn 14 option_strings_src.
Lemma src_split : option_strings_src = (partA ++ SFor "alias" (EVar "self.aliases") alias_body :: partC)%list.
Proof. reflexivity. Qed.

Ltac evalstep := cbn [eval lookup assign String.eqb Ascii.eqb Bool.eqb truthy val_eqb strs_of option_map app map fst snd
                       wrapL List.length Nat.eqb negb head_char]; rewrite ?skipn_map, ?strs_of_map.

Lemma eval_comp r body x iter cond :
  eval r (EComp body x iter cond) =
  match eval r iter with
  | Ok (VL l) => wrapL (comp_list (fun v => match cond with None => Ok (VB true) | Some c => eval (assign x v r) c end)
                                  (fun v => eval (assign x v r) body) l)
  | Ok _ => rerr | Err z => Err z end.
Proof. reflexivity. Qed.
Lemma eval_comp2 r body x y it1 it2 :
  eval r (EComp2 body x y it1 it2) =
  match eval r it1, eval r it2 with
  | Ok (VL l1), Ok (VL l2) => wrapL (comp2_list (fun v w => eval (assign y w (assign x v r)) body) l1 l2)
  | Ok _, Ok _ => rerr | Err z, _ => Err z | _, Err z => Err z end.
Proof. reflexivity. Qed.
Lemma eval_var r x : eval r (EVar x) = match lookup x r with Some v => Ok v | None => Err (Raise "NameError") end.
Proof. reflexivity. Qed.
Lemma eval_dedupe r a : eval r (EDedupe a) = match eval r a with
  | Ok (VL l) => match strs_of l with Some ss => Ok (VL (map VS (dedupe ss []))) | None => rerr end | Ok _ => rerr | Err z => Err z end.
Proof. reflexivity. Qed.
Lemma eval_sortlen r a : eval r (ESortLen a) = match eval r a with
  | Ok (VL l) => match strs_of l with Some ss => Ok (VL (map VS (sort_by String.length ss))) | None => rerr end | Ok _ => rerr | Err z => Err z end.
Proof. reflexivity. Qed.
Lemma exec_assign r x e : exec r (SAssign x e) = match eval r e with Ok v => Ok (assign x v r, None) | Err z => Err z end.
Proof. reflexivity. Qed.
Lemma exec_extend r x e : exec r (SExtend x e) = match lookup x r, eval r e with
  | Some (VL l), Ok (VL l2) => Ok (assign x (VL (l ++ l2)) r, None) | _, Err z => Err z | _, _ => rerr end.
Proof. reflexivity. Qed.
Lemma exec_return r e : exec r (SReturn e) = match eval r e with Ok v => Ok (r, Some v) | Err z => Err z end.
Proof. reflexivity. Qed.

Lemma partC_spec r dvn Ds Os :
  lookup "add_dash_variants" r = Some (VS dvn) -> lookup "dashes" r = Some (VL (map VS Ds)) -> lookup "options" r = Some (VL (map VS Os)) ->
  let both := String.eqb dvn "DashVariant.UNDERSCORE_AND_DASH" in
  let extraO := if both then map us2dash (filter (has_char "_"%char) Os) else [] in
  let extraD := map dash_for extraO in
  match exec_block r partC with Ok (_, Some v) => Ok v | Ok (_, None) => Ok VNone | Err z => Err z end
  = Ok (VL (map VS (sort_by String.length (dedupe (map (fun p => fst p ++ snd p) (combine (Ds ++ extraD) (Os ++ extraO))) [])))).
Proof.
  intros Hv Hd Ho. cbv zeta. unfold partC, option_strings_src. cbn [skipn exec_block]. rewrite exec_if.
  cbn [eval]. rewrite Hv. cbn [val_eqb truthy].
  destruct (String.eqb dvn "DashVariant.UNDERSCORE_AND_DASH") eqn:B.
  - (* both spellings: the two comprehensions, the two extends *)
    cbn [exec_block]. rewrite exec_assign, eval_comp, eval_var, Ho. rewrite comp_extra. cbn [wrapL].
    rewrite exec_assign, eval_comp, eval_var. lk. rewrite comp_dash_for. cbn [wrapL].
    rewrite exec_extend, eval_var. lk. rewrite Ho.
    rewrite exec_extend, eval_var. lk. rewrite Hd.
    cbn [exec_block]. rewrite exec_assign, eval_dedupe, eval_comp2, !eval_var. lk.
    rewrite !map_VS_app, comp2_fmt. cbn [wrapL]. rewrite strs_of_map.
    rewrite exec_return, eval_sortlen, eval_var. lk. rewrite strs_of_map. reflexivity.
  - cbn [exec_block]. rewrite exec_assign, eval_dedupe, eval_comp2, !eval_var, Hd, Ho, comp2_fmt. cbn [wrapL]. rewrite strs_of_map.
    rewrite exec_return, eval_sortlen, eval_var. lk. rewrite strs_of_map.
    cbn [map]. rewrite !app_nil_r. reflexivity.
Qed.

Lemma strs_of_inv l : forall ss, strs_of l = Some ss -> l = map VS ss.
Proof.
  induction l as [|v t IH]; intros ss H; simpl in H; [injection H as <-; reflexivity|].
  destruct v; try discriminate. destruct (strs_of t) as [u|] eqn:E; [|discriminate]. injection H as <-.
  simpl. f_equal. now apply IH.
Qed.
Lemma VL_as_map l (g : string -> string) al ss :
  strs_of l = Some ss -> VL (l ++ map (fun a => VS (g a)) al) = VL (map VS (ss ++ map g al)).
Proof. intros H. rewrite (strs_of_inv l ss H), map_app, map_map. reflexivity. Qed.

(* the model's generated (dash, option) pairs, before the aliases *)
Definition gen_pairs (c : cfg) (f : fw) : list (string * string) :=
  let dash := dash_for (name f) in
  let option0 := (pfx f ++ name f)%string in
  let nested0 := match nm c with NDefault => dest f | NWithoutRoot => join_dot (tl (split_dot (dest f))) end in
  let option := match dv c with DDash => us2dash option0 | _ => option0 end in
  let nested := match dv c with DDash => us2dash nested0 | _ => nested0 end in
  let candidates := match gm c with GFlat => [option] | GNested => [nested] | GBoth => [option; nested] end in
  (map (fun o => (dash, o)) candidates ++ (if String.eqb dash "-" then map (fun o => ("--", o)) candidates else []))%list.

Definition alias_pairs (f : fw) : list (string * string) :=
  map (fun a => (fst (alias_parts a), (pfx f ++ snd (alias_parts a))%string)) (aliases f).

Lemma raw_pairs_split c f :
  raw_pairs c f =
  ((gen_pairs c f ++ alias_pairs f)
   ++ (if match dv c with DBoth => true | _ => false end
       then map (fun p => let o := us2dash (snd p) in (dash_for o, o))
                (filter (fun p => has_char "_"%char (snd p)) (gen_pairs c f ++ alias_pairs f)) else []))%list.
Proof.
  unfold raw_pairs, gen_pairs, alias_pairs. cbv zeta.
  assert (M : map (fun a => let (d, n) := alias_parts a in (d, pfx f ++ n)) (aliases f)
              = map (fun a => (fst (alias_parts a), (pfx f ++ snd (alias_parts a))%string)) (aliases f)).
  { apply map_ext. intros a. destruct (alias_parts a). reflexivity. }
  rewrite M. destruct (dv c); reflexivity.
Qed.

(* the first 8 statements (straight-line assignments), for every configuration and field wrapper *)
Definition nested0_of (c : cfg) (f : fw) : string :=
  match nm c with NDefault => dest f | NWithoutRoot => join_dot (tl (split_dot (dest f))) end.
Definition envB (c : cfg) (f : fw) (nested0 : string) : env :=
  assign "nested_option" (VS nested0) (assign "option" (VS (pfx f ++ name f)) (assign "dash" (VS (dash_for (name f)))
  (assign "nested_mode" (VS (nm_name (nm c))) (assign "gen_mode" (VS (gm_name (gm c)))
  (assign "add_dash_variants" (VS (dv_name (dv c))) (assign "options" (VL []) (assign "dashes" (VL []) (env_of c f)))))))).

Lemma phaseA1 c f : exec_block (env_of c f) (firstn 8 option_strings_src) = Ok (envB c f (nested0_of c f), None).
Proof.
  destruct f as [pa n p al pos]. destruct c as [d g m].
  unfold option_strings_src, envB, nested0_of. cbn [firstn name pfx aliases dv gm nm]. unfold dash_for.
  destruct (Nat.eqb (String.length n) 1) eqn:L; destruct m; (step; rewrite ?L; do 4 step; reflexivity).
Qed.

Lemma src_split8 : option_strings_src = (firstn 8 option_strings_src ++ skipn 8 option_strings_src)%list.
Proof. reflexivity. Qed.
Lemma partA_split8 : partA = (firstn 8 option_strings_src ++ firstn 5 (skipn 8 option_strings_src))%list.
Proof. reflexivity. Qed.

(* phase A: the 13 statements before the alias loop.  After the first 8, the length of the name decides the dash: split on
   its first two characters, then both sides compute (names, prefixes, destinations, the nested spelling and the aliases stay
   symbolic: the evaluation is stuck on them on both sides alike) *)
Lemma phaseA c f :
  positional f = false ->
  exists rA, exec_block (env_of c f) partA = Ok (rA, None)
    /\ lookup "self.prefix" rA = Some (VS (pfx f))
    /\ lookup "self.aliases" rA = Some (VL (map VS (aliases f)))
    /\ lookup "add_dash_variants" rA = Some (VS (dv_name (dv c)))
    /\ lookup "dashes" rA = Some (VL (map VS (map fst (gen_pairs c f))))
    /\ lookup "options" rA = Some (VL (map VS (map snd (gen_pairs c f)))).
Proof.
  intros Hpos. rewrite partA_split8, exec_block_app, phaseA1.
  unfold gen_pairs. cbv zeta. change (match nm c with NDefault => dest f | NWithoutRoot => join_dot (tl (split_dot (dest f))) end) with (nested0_of c f).
  generalize (nested0_of c f) as no. intros no.
  destruct f as [pa n p al pos]. destruct c as [d g m]. cbn [positional] in Hpos. subst pos.
  destruct n as [|a [|b n']]; destruct d, g;
    (match goal with |- context [exec_block ?e ?b] =>
       let v := eval vm_compute in (exec_block e b) in
       match v with Ok (?r, None) => exists r; split; [vm_compute; reflexivity | repeat split; vm_compute; reflexivity] end end).
Qed.

Theorem src_is_model c f : positional f = false -> run_src c f = Ok (VL (map VS (option_strings c f))).
Proof.
  intros Hpos. unfold option_strings. rewrite Hpos. unfold raw_options. rewrite Hpos, raw_pairs_split.
  unfold run_src, run. rewrite src_split, exec_block_app.
  destruct (phaseA c f Hpos) as [rA [EA [Hp [Hal [Hv [Hd Ho]]]]]]. rewrite EA.
  cbn [exec_block]. rewrite exec_for, eval_var, Hal.
  destruct (alias_loop (pfx f) (aliases f) rA _ _ Hp Hd Ho) as [r1 [E1 [Hd1 [Ho1 F1]]]]. rewrite E1.
  assert (Hd1' : lookup "dashes" r1 = Some (VL (map VS (map fst (gen_pairs c f ++ alias_pairs f))))).
  { rewrite Hd1. unfold alias_pairs. rewrite !map_app, !map_map. reflexivity. }
  assert (Ho1' : lookup "options" r1 = Some (VL (map VS (map snd (gen_pairs c f ++ alias_pairs f))))).
  { rewrite Ho1. unfold alias_pairs. rewrite !map_app, !map_map. reflexivity. }
  assert (Hv1 : lookup "add_dash_variants" r1 = Some (VS (dv_name (dv c)))).
  { rewrite (F1 "add_dash_variants"); [exact Hv | repeat split; reflexivity]. }
  rewrite (partC_spec r1 _ _ _ Hv1 Hd1' Ho1').
  assert (B : String.eqb (dv_name (dv c)) "DashVariant.UNDERSCORE_AND_DASH" = match dv c with DBoth => true | _ => false end)
    by (destruct (dv c); reflexivity).
  rewrite B. rewrite (tail_pairs (gen_pairs c f ++ alias_pairs f) (match dv c with DBoth => true | _ => false end)).
  reflexivity.
Qed.

(* a positional field: the method returns its destination alone *)
Theorem src_is_model_positional c f : positional f = true -> run_src c f = Ok (VL (map VS (option_strings c f))).
Proof.
  intros Hpos. unfold option_strings. rewrite Hpos.
  destruct f as [pa n p al pos]. destruct c as [d g m]. cbn [positional] in Hpos. subst pos.
  unfold run_src, run. rewrite src_split8, exec_block_app, phaseA1. generalize (nested0_of (mkcfg d g m) (mkfw pa n p al true)) as no. intros no.
  destruct n as [|a [|b n']]; destruct d; vm_compute; reflexivity.
Qed.

(* hence: what the regenerated source returns for an unclashed field is exactly the documented set of spellings *)
Theorem src_options_documented c f s :
  wf_names f -> pfx f = "" -> positional f = false ->
  exists l, run_src c f = Ok (VL (map VS l)) /\ (In s l <-> In s (doc_options c (path f ++ [name f]) (name f) (aliases f))).
Proof.
  intros W P Pos. exists (option_strings c f). split; [exact (src_is_model c f Pos) | exact (options_are_documented c f s W P Pos)].
Qed.
