(* Proofs/SerialProofs.v — C05 / C13: the serialization model (instantiated with the regenerated facts) meets the spec,
   for all types and values (induction on the annotation; no depth bound). *)
From Coq Require Import Permutation.
From SPV Require Import Base.Str Model.Serial Model.SerialSpec Gen.FactsBool Gen.FactsSerial.
Local Open Scope Z_scope.

(* ====================================================================================================== *)
(* 0. induction principle for annotations (nested through lists)                                              *)

Section TyInd.
  Variable P : ty -> Prop.
  Hypothesis HBool : P TBool.
  Hypothesis HInt : P TInt.
  Hypothesis HFloat : P TFloat.
  Hypothesis HStr : P TStr.
  Hypothesis HPath : P TPath.
  Hypothesis HEnum : forall c ms, P (TEnum c ms).
  Hypothesis HLit : forall cs, P (TLit cs).
  Hypothesis HOpt : forall t, P t -> P (TOpt t).
  Hypothesis HUnion : forall ts, Forall P ts -> P (TUnion ts).
  Hypothesis HList : forall t, P t -> P (TList t).
  Hypothesis HTup : forall ts, Forall P ts -> P (TTup ts).
  Hypothesis HTupVar : forall t, P t -> P (TTupVar t).
  Hypothesis HSet : forall t, P t -> P (TSet t).
  Hypothesis HDict : forall k v, P k -> P v -> P (TDict k v).
  Hypothesis HDc : forall k c fs, Forall (fun f => P (snd f)) fs -> P (TDc k c fs).

  Fixpoint ty_ind' (t : ty) : P t :=
    match t with
    | TBool => HBool | TInt => HInt | TFloat => HFloat | TStr => HStr | TPath => HPath
    | TEnum c ms => HEnum c ms
    | TLit cs => HLit cs
    | TOpt t1 => HOpt t1 (ty_ind' t1)
    | TUnion ts => HUnion ts ((fix go (l : list ty) : Forall P l :=
                                 match l with [] => Forall_nil P | x :: r => Forall_cons x (ty_ind' x) (go r) end) ts)
    | TList t1 => HList t1 (ty_ind' t1)
    | TTup ts => HTup ts ((fix go (l : list ty) : Forall P l :=
                             match l with [] => Forall_nil P | x :: r => Forall_cons x (ty_ind' x) (go r) end) ts)
    | TTupVar t1 => HTupVar t1 (ty_ind' t1)
    | TSet t1 => HSet t1 (ty_ind' t1)
    | TDict k v => HDict k v (ty_ind' k) (ty_ind' v)
    | TDc k c fs => HDc k c fs ((fix go (l : list (string * fmeta * option value * ty))
                                   : Forall (fun f => P (snd f)) l :=
                                   match l with
                                   | [] => Forall_nil _
                                   | x :: r => Forall_cons x (ty_ind' (snd x)) (go r)
                                   end) fs)
    end.
End TyInd.

(* ====================================================================================================== *)
(* 1. the decoder, one equation per annotation form (by computation: this is where the regenerated            *)
(*    dispatch order and union strategy are used)                                                             *)

Section Equations.
  Variable decf : Z -> prim -> res value.
  Let dec := decode_gen decf.

  Definition first_ok (p : prim) : list ty -> res value :=
    fix first (ts : list ty) : res value :=
      match ts with [] => Ok (raw p) | t1 :: r => try_next (dec t1 p) (first r) end.

  Definition tup_go : list ty -> list prim -> res (list value) :=
    fix go (ts : list ty) (ps : list prim) : res (list value) :=
      match ps, ts with
      | [], _ => Ok []
      | _ :: _, [] => Err (Raise "IndexError")
      | q :: pr, t1 :: tr =>
          match dec t1 q with
          | Err e => Err e
          | Ok v => match go tr pr with Ok vs => Ok (v :: vs) | Err e => Err e end
          end
      end.

  Definition dc_go (kvs : list (prim * prim)) : list (string * fmeta * option value * ty) -> res (bool * list (string * fmeta * value)) :=
    fix go (fs : list (string * fmeta * option value * ty)) : res (bool * list (string * fmeta * value)) :=
      match fs with
      | [] => Ok (false, [])
      | (n, m, dflt, t1) :: r =>
          let this : res (bool * value) :=
            match dict_get prim_eqb (PStr n) kvs with
            | None => match dflt with Some d => Ok (false, d) | None => Ok (true, VNone) end
            | Some rawv =>
                match (match m.(m_dec) with Some h => decf h rawv | None => dec t1 rawv end) with
                | Ok v => Ok (false, v)
                | Err e => Err e
                end
            end in
          match this with
          | Err e => Err e
          | Ok (miss, v) =>
              match go r with
              | Err e => Err e
              | Ok (miss', out) => Ok (miss || miss', (n, m, v) :: out)
              end
          end
      end.

  Definition kv_dec (tk tv : ty) (kv : prim * prim) : res (value * value) :=
    match dec tk (fst kv) with
    | Err e => Err e
    | Ok k => match dec tv (snd kv) with Err e => Err e | Ok v => Ok (k, v) end
    end.

  Lemma dec_bool_eq p : dec TBool p = dec_bool decode_bool_str p. Proof. reflexivity. Qed.
  Lemma dec_int_eq p : dec TInt p = dec_int DECODE_INT_FLOAT_CMP p. Proof. reflexivity. Qed.
  Lemma dec_float_eq p : dec TFloat p = dec_float p. Proof. reflexivity. Qed.
  Lemma dec_str_eq p : dec TStr p = dec_str p. Proof. reflexivity. Qed.
  Lemma dec_path_eq p : dec TPath p = dec_path p. Proof. reflexivity. Qed.
  Lemma dec_enum_eq c ms p : dec (TEnum c ms) p = dec_enum c ms p. Proof. reflexivity. Qed.
  Lemma dec_lit_eq cs p : dec (TLit cs) p = dec_lit cs p. Proof. reflexivity. Qed.
  Lemma dec_opt_eq t1 p :
    dec (TOpt t1) p = match p with
                      | PNone => Ok VNone
                      | PBad => Err OutOfFuel
                      | _ => try_next (dec t1 p) (Ok (raw p))
                      end.
  Proof. reflexivity. Qed.
  Lemma dec_union_eq ts p :
    dec (TUnion ts) p = match p with PBad => Err OutOfFuel | _ => first_ok p ts end.
  Proof. reflexivity. Qed.
  Lemma dec_list_eq t1 p :
    dec (TList t1) p = match iter_items p with
                       | Err e => Err e
                       | Ok ps => match map_res (dec t1) ps with Ok vs => Ok (VList vs) | Err e => Err e end
                       end.
  Proof. reflexivity. Qed.
  Lemma dec_tupvar_eq t1 p :
    dec (TTupVar t1) p = match iter_items p with
                         | Err e => Err e
                         | Ok ps => match map_res (dec t1) ps with Ok vs => Ok (VTup vs) | Err e => Err e end
                         end.
  Proof. reflexivity. Qed.
  Lemma dec_tup_eq ts p :
    dec (TTup ts) p = match iter_items p with
                      | Err e => Err e
                      | Ok ps => match tup_go ts ps with Ok vs => Ok (VTup vs) | Err e => Err e end
                      end.
  Proof. reflexivity. Qed.
  Lemma dec_set_eq t1 p :
    dec (TSet t1) p = match iter_items p with
                      | Err e => Err e
                      | Ok ps => match map_res (dec t1) ps with
                                 | Ok vs => if all_hashable vs then Ok (VSet (canon_set vs)) else Err (Raise "TypeError")
                                 | Err e => Err e
                                 end
                      end.
  Proof. reflexivity. Qed.
  Lemma dec_dict_eq tk tv od kvs :
    dec (TDict tk tv) (PDict od kvs) =
    match map_res (kv_dec tk tv) kvs with
    | Err e => Err e
    | Ok dkvs => match dict_build [] dkvs with Ok d => Ok (VDict od d) | Err e => Err e end
    end.
  Proof. reflexivity. Qed.
  Lemma dec_dc_eq k c fs od kvs :
    dec (TDc k c fs) (PDict od kvs) =
    if match dict_get prim_eqb (PStr DC_TYPE_KEY) kvs with Some _ => true | None => false end
    then Err OutOfFuel else
    match dc_go kvs fs with
    | Err e => Err e
    | Ok (true, _) => Err (Raise "RuntimeError")
    | Ok (false, out) => Ok (VDc k c out)
    end.
  Proof. destruct k; reflexivity. Qed.
End Equations.

(* ====================================================================================================== *)
(* 2. every lenient raw encoding of v decodes to v                                                             *)

Lemma map_res_Forall2 {A B} (R : B -> A -> Prop) (f : A -> res B) :
  forall vs ps, (forall v p, R v p -> f p = Ok v) -> Forall2 R vs ps -> map_res f ps = Ok vs.
Proof.
  intros vs ps H HF. induction HF as [|v p vs ps Hvp HF IH]; simpl.
  - reflexivity.
  - rewrite (H _ _ Hvp), IH. reflexivity.
Qed.

Lemma map_res_Forall2_in {A B} (R : B -> A -> Prop) (f : A -> res B) :
  forall vs ps, Forall2 (fun v p => R v p /\ (R v p -> f p = Ok v)) vs ps -> map_res f ps = Ok vs.
Proof.
  intros vs ps HF. induction HF as [|v p vs ps [Hvp Himp] HF IH]; simpl.
  - reflexivity.
  - rewrite (Himp Hvp), IH. reflexivity.
Qed.

Lemma exact_lt_overflow : FLOAT_INT_EXACT < FLOAT_OVERFLOW.
Proof. vm_compute. reflexivity. Qed.

Lemma lit_prim_py_eqb p c : lit_choice p = true -> prim_eqb p c = true -> py_eqb p c = true.
Proof.
  intros Hl He. destruct p; simpl in Hl; try discriminate; destruct c; simpl in He; try discriminate; unfold py_eqb; simpl.
  - apply Bool.eqb_prop in He. subst. apply Z.eqb_refl.
  - exact He.
  - exact He.
Qed.

Lemma existsb_impl {A} (f g : A -> bool) l : (forall x, f x = true -> g x = true) -> existsb f l = true -> existsb g l = true.
Proof.
  intros H. induction l as [|x r IH]; simpl; [auto|].
  intros E. apply orb_true_iff in E as [E|E]; apply orb_true_iff; [left; auto | right; auto].
Qed.

Section LenientDecodes.
  Variable decf : Z -> prim -> res value.
  Let dec := decode_gen decf.
  Let len := lenient dec DC_TYPE_KEY decode_bool_str decf.

  Lemma seq_of_iter p ps : seq_of p ps -> iter_items p = Ok ps.
  Proof. intros [-> | ->]; reflexivity. Qed.

  Theorem lenient_decodes : forall t v p, len t v p -> dec t p = Ok v.
  Proof.
    unfold len, dec. induction t as [ | | | | | c ms | cs | t1 IH | ts IH | t1 IH | ts IH | t1 IH | t1 IH | tk tv IHk IHv | k c fs IH ]
      using ty_ind'; intros v p H; simpl in H.
    - destruct H as (b & -> & [-> | (s & -> & Hs)]); rewrite dec_bool_eq; simpl; [reflexivity | rewrite Hs; reflexivity].
    - destruct H as (z & -> & [-> | (s & -> & Hs)]); rewrite dec_int_eq; simpl.
      + reflexivity.
      + rewrite Hs. reflexivity.
    - destruct H as (r & -> & [-> | [(s & -> & Hs) | (z & -> & Hz & ->)]]); rewrite dec_float_eq; simpl.
      + reflexivity.
      + rewrite Hs. reflexivity.
      + assert (H1 : Z.abs z <? FLOAT_OVERFLOW = true) by (apply Z.ltb_lt; pose proof exact_lt_overflow; lia).
        assert (H2 : Z.abs z <? FLOAT_INT_EXACT = true) by (apply Z.ltb_lt; exact Hz).
        rewrite H1, H2. reflexivity.
    - destruct H as (s & -> & ->). reflexivity.
    - destruct H as (s & -> & -> & Hn). rewrite dec_path_eq; simpl. rewrite Hn. reflexivity.
    - destruct H as (m & -> & -> & Hm). rewrite dec_enum_eq; simpl. rewrite Hm. reflexivity.
    - destruct H as (Hl & He & ->). rewrite dec_lit_eq. unfold dec_lit.
      assert (E : existsb (py_eqb p) cs = true).
      { revert He. apply existsb_impl. intros c. apply lit_prim_py_eqb. exact Hl. }
      rewrite E. destruct p; simpl in Hl; try discriminate; reflexivity.
    - rewrite dec_opt_eq. destruct H as [[-> ->] | (Hn & Hb & Hl)]; [reflexivity|].
      rewrite (IH _ _ Hl). destruct p; try reflexivity; congruence.
    - destruct H as (Hb & Hpick). rewrite dec_union_eq.
      assert (E : first_ok decf p ts = Ok v).
      { clear Hb. induction IH as [|t1 r IH1 _ IHr]; simpl in *; [contradiction|].
        destruct Hpick as [Hl | [(e & He & Hne) Hr]].
        - rewrite (IH1 _ _ Hl). reflexivity.
        - rewrite He. destruct e; simpl; try (apply IHr; exact Hr). congruence. }
      destruct p; try exact E. congruence.
    - destruct H as (vs & ps & -> & Hs & HF). rewrite dec_list_eq, (seq_of_iter _ _ Hs).
      rewrite (map_res_Forall2 _ _ _ _ IH HF). reflexivity.
    - destruct H as (vs & ps & -> & Hs & Hgo). rewrite dec_tup_eq, (seq_of_iter _ _ Hs).
      assert (E : tup_go decf ts ps = Ok vs).
      { clear Hs. revert vs ps Hgo. induction IH as [|t1 r IH1 _ IHr]; intros vs ps Hgo.
        - destruct vs, ps; try contradiction. reflexivity.
        - destruct vs as [|x vr]; [contradiction|]. destruct ps as [|q pr]; [contradiction|].
          destruct Hgo as [Hx Hr]. simpl. rewrite (IH1 _ _ Hx). rewrite (IHr _ _ Hr). reflexivity. }
      rewrite E. reflexivity.
    - destruct H as (vs & ps & -> & Hs & HF). rewrite dec_tupvar_eq, (seq_of_iter _ _ Hs).
      rewrite (map_res_Forall2 _ _ _ _ IH HF). reflexivity.
    - destruct H as (vs & ps & vs' & -> & Hs & HF & Hh & Hc). rewrite dec_set_eq, (seq_of_iter _ _ Hs).
      rewrite (map_res_Forall2 _ _ _ _ IH HF). unfold all_hashable. rewrite Hh, Hc. reflexivity.
    - destruct H as (od & kvs & pkvs & kvs' & -> & -> & HF & Hb). rewrite dec_dict_eq.
      assert (E : map_res (kv_dec decf tk tv) pkvs = Ok kvs').
      { apply (map_res_Forall2 (fun kv pkv => lenient (decode_gen decf) DC_TYPE_KEY decode_bool_str decf tk (fst kv) (fst pkv) /\
                                             lenient (decode_gen decf) DC_TYPE_KEY decode_bool_str decf tv (snd kv) (snd pkv))); [|exact HF].
        intros [k1 v1] [pk pv] [H1 H2]. cbn [fst snd] in *. unfold kv_dec. cbn [fst snd].
        rewrite (IHk _ _ H1), (IHv _ _ H2). reflexivity. }
      rewrite E, Hb. reflexivity.
    - destruct H as (vfs & od & pkvs & -> & -> & Hkey & Hgo). rewrite dec_dc_eq, Hkey.
      assert (E : dc_go decf pkvs fs = Ok (false, vfs)).
      { clear Hkey. revert vfs Hgo. induction IH as [|f r IH1 _ IHr]; intros vfs Hgo.
        - destruct vfs; [reflexivity | contradiction].
        - destruct f as [[[n m] dflt] t1]. destruct vfs as [|[[n' m'] x] vr]; [contradiction|].
          destruct Hgo as (-> & -> & Hthis & Hr). simpl. rewrite (IHr _ Hr).
          destruct (dict_get prim_eqb (PStr n') pkvs) as [rawv|].
          + destruct (m_dec m') as [h|].
            * rewrite Hthis. reflexivity.
            * simpl in IH1. rewrite (IH1 _ _ Hthis). reflexivity.
          + rewrite Hthis. reflexivity. }
      rewrite E. reflexivity.
  Qed.
End LenientDecodes.

(* ====================================================================================================== *)
(* 3. leaves: decimal integers, booleans, set order                                                            *)

Definition dstep (acc d : Z) : Z := acc * 10 + d.
Definition is_dig (d : Z) : Prop := 0 <= d <= 9.

Lemma digits_be_value fuel : forall n acc,
  0 <= n < 2 ^ Z.of_nat fuel -> (fuel > 0)%nat ->
  fold_left dstep (digits_be fuel n acc) 0 = fold_left dstep acc n.
Proof.
  induction fuel as [|f IH]; intros n acc Hn Hf; [lia|].
  cbn [digits_be]. destruct (n <? 10) eqn:E.
  - cbn [fold_left]. unfold dstep at 2. reflexivity.
  - apply Z.ltb_ge in E.
    assert (Hf0 : (f > 0)%nat).
    { destruct f; [|lia]. change (2 ^ Z.of_nat 1) with 2 in Hn. lia. }
    rewrite IH; try assumption.
    + cbn [fold_left]. unfold dstep at 2. f_equal. pose proof (Z.div_mod n 10). lia.
    + rewrite Nat2Z.inj_succ, Z.pow_succ_r in Hn by lia. split.
      * apply Z.div_pos; lia.
      * apply Z.div_lt_upper_bound; lia.
Qed.

Lemma digits_be_range fuel : forall n acc,
  0 <= n < 2 ^ Z.of_nat fuel -> (fuel > 0)%nat -> Forall is_dig acc -> Forall is_dig (digits_be fuel n acc).
Proof.
  induction fuel as [|f IH]; intros n acc Hn Hf Ha; [lia|].
  cbn [digits_be]. destruct (n <? 10) eqn:E.
  - apply Z.ltb_lt in E. constructor; [unfold is_dig; lia | exact Ha].
  - apply Z.ltb_ge in E.
    assert (Hf0 : (f > 0)%nat).
    { destruct f; [|lia]. change (2 ^ Z.of_nat 1) with 2 in Hn. lia. }
    apply IH; try assumption.
    + rewrite Nat2Z.inj_succ, Z.pow_succ_r in Hn by lia. split.
      * apply Z.div_pos; lia.
      * apply Z.div_lt_upper_bound; lia.
    + constructor; [|exact Ha]. unfold is_dig. pose proof (Z.mod_pos_bound n 10). lia.
Qed.

Lemma digits_be_cons fuel : forall n acc, (fuel > 0)%nat -> exists d r, digits_be fuel n acc = d :: r.
Proof.
  induction fuel as [|f IH]; intros n acc Hf; [lia|].
  cbn [digits_be]. destruct (n <? 10).
  - eauto.
  - destruct f.
    + cbn [digits_be]. eauto.
    + apply IH. lia.
Qed.

Lemma is_dig_cases d : is_dig d -> d = 0 \/ d = 1 \/ d = 2 \/ d = 3 \/ d = 4 \/ d = 5 \/ d = 6 \/ d = 7 \/ d = 8 \/ d = 9.
Proof. unfold is_dig. lia. Qed.

Lemma digit_val_char d : is_dig d -> digit_val (digit_char d) = Some d.
Proof.
  intros H. apply is_dig_cases in H.
  repeat (destruct H as [H|H]; [subst; reflexivity|]). subst. reflexivity.
Qed.

Lemma parse_digits_ok ds : forall acc pd,
  Forall is_dig ds -> (ds <> [] \/ pd = true) ->
  parse_digits (string_of_chars (map digit_char ds)) acc pd = Some (fold_left dstep ds acc).
Proof.
  induction ds as [|d r IH]; intros acc pd Hd Hne; cbn [string_of_chars map parse_digits].
  - destruct Hne as [Hne | ->]; [congruence | reflexivity].
  - inversion Hd as [|? ? Hd1 Hdr]; subst. rewrite (digit_val_char _ Hd1).
    apply IH; [exact Hdr | right; reflexivity].
Qed.

Lemma log2_fuel n : 0 <= n -> 0 <= n < 2 ^ Z.of_nat (S (Z.to_nat (Z.log2 n))).
Proof.
  intros Hn. rewrite Nat2Z.inj_succ, Z2Nat.id by apply Z.log2_nonneg.
  destruct (Z.eq_dec n 0) as [->|Hz].
  - simpl. lia.
  - pose proof (Z.log2_spec n ltac:(lia)). lia.
Qed.

Lemma parse_digits_nat_dec n : 0 <= n ->
  parse_digits (nat_dec n) 0 false = Some n /\ parse_int_core (nat_dec n) = Some n.
Proof.
  intros Hn. unfold nat_dec.
  set (fuel := S (Z.to_nat (Z.log2 n))).
  pose proof (log2_fuel n Hn) as Hb. fold fuel in Hb.
  assert (Hf : (fuel > 0)%nat) by (unfold fuel; lia).
  pose proof (digits_be_range fuel n [] Hb Hf (Forall_nil _)) as Hr.
  pose proof (digits_be_value fuel n [] Hb Hf) as Hv. cbn [fold_left] in Hv.
  destruct (digits_be_cons fuel n [] Hf) as (d & r & E). rewrite E in *.
  assert (P : parse_digits (string_of_chars (map digit_char (d :: r))) 0 false = Some n).
  { rewrite parse_digits_ok; [rewrite Hv; reflexivity | exact Hr | left; congruence]. }
  split; [exact P|].
  inversion Hr as [|? ? Hd1 _]; subst.
  apply is_dig_cases in Hd1.
  repeat (destruct Hd1 as [Hd1|Hd1]; [subst d; exact P|]). subst d. exact P.
Qed.

Theorem parse_int_Z_to_dec z : parse_int (Z_to_dec z) = Some z.
Proof.
  unfold parse_int, Z_to_dec. destruct (z <? 0) eqn:E.
  - apply Z.ltb_lt in E.
    change (parse_int_core (String "-" (nat_dec (- z)))) with (option_map Z.opp (parse_digits (nat_dec (- z)) 0 false)).
    destruct (parse_digits_nat_dec (- z)) as [P _]; [lia|]. rewrite P. cbn [option_map]. f_equal. lia.
  - apply Z.ltb_ge in E. destruct (parse_digits_nat_dec z E) as [_ P]. rewrite P. reflexivity.
Qed.

Lemma Z_to_dec_inj a b : Z_to_dec a = Z_to_dec b -> a = b.
Proof. intros H. pose proof (parse_int_Z_to_dec a) as Ha. rewrite H, parse_int_Z_to_dec in Ha. congruence. Qed.

Lemma s2b_true : decode_bool_str "true" = Some true. Proof. vm_compute. reflexivity. Qed.
Lemma s2b_false : decode_bool_str "false" = Some false. Proof. vm_compute. reflexivity. Qed.

(* ---------- canonical set order ---------- *)
Lemma skey_nonneg s : 0 <= skey s.
Proof. induction s as [|a r IH]; cbn [skey]; [lia|]. pose proof (Nat2Z.is_nonneg (ascii_nat a)). lia. Qed.

Lemma skey_inj s1 : forall s2, skey s1 = skey s2 -> s1 = s2.
Proof.
  induction s1 as [|a r IH]; intros [|b q] H; cbn [skey] in H.
  - reflexivity.
  - pose proof (skey_nonneg q). pose proof (Nat2Z.is_nonneg (ascii_nat b)). lia.
  - pose proof (skey_nonneg r). pose proof (Nat2Z.is_nonneg (ascii_nat a)). lia.
  - pose proof (nat_ascii_bounded a) as Ha. pose proof (nat_ascii_bounded b) as Hb.
    unfold ascii_nat in H.
    assert (E1 : skey r = skey q) by lia.
    assert (E2 : nat_of_ascii a = nat_of_ascii b) by lia.
    f_equal; [|apply IH; exact E1].
    rewrite <- (ascii_nat_embedding a), <- (ascii_nat_embedding b), E2. reflexivity.
Qed.

Lemma value_eqb_vkey x y : value_eqb x y = true -> vkey x = vkey y.
Proof.
  destruct x, y; simpl; intros H; try discriminate; try reflexivity.
  - apply Bool.eqb_prop in H. subst. reflexivity.
  - apply Z.eqb_eq in H. exact H.
  - apply String.eqb_eq in H. subst. reflexivity.
  - apply String.eqb_eq in H. subst. reflexivity.
  - apply String.eqb_eq in H. subst. reflexivity.
  - apply andb_true_iff in H as [_ H]. apply String.eqb_eq in H. subst. reflexivity.
Qed.

Definition le_all (x : value) (l : list value) : Prop := Forall (fun y => vkey x <= vkey y) l.
Definition lt_all (x : value) (l : list value) : Prop := Forall (fun y => vkey x < vkey y) l.
Fixpoint sortedP (l : list value) : Prop :=
  match l with [] => True | x :: r => le_all x r /\ sortedP r end.
Fixpoint ssortedP (l : list value) : Prop :=
  match l with [] => True | x :: r => lt_all x r /\ ssortedP r end.

Lemma strictly_sorted_ssortedP l : strictly_sorted l = true -> ssortedP l.
Proof.
  induction l as [|x r IH]; simpl; [auto|].
  destruct r as [|y r'].
  - intros _. split; constructor.
  - intros H. apply andb_true_iff in H as [Hxy Hr]. apply Z.ltb_lt in Hxy.
    specialize (IH Hr). split; [|exact IH].
    destruct IH as [Hy _]. constructor; [exact Hxy|].
    unfold lt_all in *. eapply Forall_impl; [|exact Hy]. simpl. intros a Ha. lia.
Qed.

Lemma v_insert_perm x l : Permutation (v_insert x l) (x :: l).
Proof.
  induction l as [|y r IH]; simpl; [reflexivity|].
  destruct (vkey x <=? vkey y); [reflexivity|].
  rewrite IH. apply perm_swap.
Qed.

Lemma v_sort_perm l : Permutation (v_sort l) l.
Proof.
  induction l as [|x r IH]; simpl; [reflexivity|].
  rewrite v_insert_perm. constructor. exact IH.
Qed.

Lemma v_insert_sorted x l : sortedP l -> sortedP (v_insert x l).
Proof.
  induction l as [|y r IH]; simpl; intros Hs.
  - split; [constructor | exact I].
  - destruct Hs as [Hy Hr]. destruct (vkey x <=? vkey y) eqn:E.
    + apply Z.leb_le in E. simpl. split; [|split; assumption].
      constructor; [exact E|]. unfold le_all in *. eapply Forall_impl; [|exact Hy]. simpl. intros a Ha. lia.
    + apply Z.leb_gt in E. simpl. split; [|apply IH; exact Hr].
      unfold le_all. eapply Permutation_Forall; [symmetry; apply v_insert_perm|].
      constructor; [lia | exact Hy].
Qed.

Lemma v_sort_sorted l : sortedP (v_sort l).
Proof. induction l as [|x r IH]; simpl; [exact I | apply v_insert_sorted; exact IH]. Qed.

(* a sorted list that is a permutation of a strictly sorted one is that list *)
Lemma sorted_perm_eq l1 : forall l2, sortedP l1 -> ssortedP l2 -> Permutation l1 l2 -> l1 = l2.
Proof.
  induction l1 as [|x r IH]; intros l2 H1 H2 HP.
  - apply Permutation_nil in HP. subst. reflexivity.
  - destruct l2 as [|y q]; [apply Permutation_sym, Permutation_nil in HP; discriminate|].
    destruct H1 as [Hx Hr]. destruct H2 as [Hy Hq].
    assert (Exy : x = y).
    { assert (Ix : In x (y :: q)) by (eapply Permutation_in; [exact HP | left; reflexivity]).
      assert (Iy : In y (x :: r)) by (eapply Permutation_in; [symmetry; exact HP | left; reflexivity]).
      destruct Ix as [E|Ix]; [auto|]. destruct Iy as [E|Iy]; [auto|].
      unfold le_all, lt_all in *. rewrite Forall_forall in Hx, Hy.
      specialize (Hx _ Iy). specialize (Hy _ Ix). lia. }
    subst y. f_equal. apply IH; try assumption. eapply Permutation_cons_inv. exact HP.
Qed.

Lemma filter_all_id {A} (f : A -> bool) l : forallb f l = true -> filter f l = l.
Proof.
  induction l as [|x r IH]; simpl; [reflexivity|].
  intros H. apply andb_true_iff in H as [Hx Hr]. rewrite Hx, IH by exact Hr. reflexivity.
Qed.

Lemma v_dedupe_distinct l : ssortedP l -> forall l', Permutation l' l -> v_dedupe l' = l'.
Proof.
  intros Hs l'. revert l Hs. induction l' as [|x r IH]; intros l Hs HP; simpl; [reflexivity|].
  assert (Hd : forall y, In y r -> vkey x <> vkey y).
  { intros y Iy.
    (* x and y sit at different positions of a strictly sorted list *)
    clear IH. revert x r y HP Iy. induction l as [|a q IHl]; intros x r y HP Iy.
    - apply Permutation_sym, Permutation_nil in HP. discriminate.
    - destruct Hs as [Ha Hq]. unfold lt_all in Ha. rewrite Forall_forall in Ha.
      assert (Ix : In x (a :: q)) by (eapply Permutation_in; [exact HP | left; reflexivity]).
      assert (Iy' : In y (a :: q)) by (eapply Permutation_in; [exact HP | right; exact Iy]).
      destruct Ix as [<-|Ix].
      + apply Permutation_cons_inv in HP.
        assert (In y q) by (eapply Permutation_in; [exact HP | exact Iy]).
        specialize (Ha _ H). lia.
      + destruct Iy' as [<-|Iy'].
        * specialize (Ha _ Ix). lia.
        * (* both in q: remove a from x :: r *)
          assert (Ia : In a (x :: r)) by (eapply Permutation_in; [symmetry; exact HP | left; reflexivity]).
          destruct Ia as [->|Ia].
          { specialize (Ha _ Ix). lia. }
          destruct (in_split _ _ Ia) as (r1 & r2 & ->).
          assert (HP' : Permutation (x :: r1 ++ r2) q).
          { apply Permutation_cons_inv with (a := a).
            rewrite <- HP. rewrite perm_swap. constructor. apply Permutation_middle. }
          apply (IHl Hq x (r1 ++ r2)%list y HP').
          apply in_app_or in Iy. apply in_or_app. destruct Iy as [Iy|[<-|Iy]]; auto.
          exfalso. specialize (Ha _ Iy'). lia. }
  assert (Hs' : exists l0, ssortedP l0 /\ Permutation r l0).
  { clear IH Hd. revert x r HP. induction l as [|a q IHl]; intros x r HP.
    - apply Permutation_sym, Permutation_nil in HP. discriminate.
    - destruct Hs as [Ha Hq].
      assert (Ix : In x (a :: q)) by (eapply Permutation_in; [exact HP | left; reflexivity]).
      destruct Ix as [<-|Ix].
      + exists q. split; [exact Hq | eapply Permutation_cons_inv; exact HP].
      + assert (Ia : In a (x :: r)) by (eapply Permutation_in; [symmetry; exact HP | left; reflexivity]).
        destruct Ia as [->|Ia].
        { exists q. split; [exact Hq | eapply Permutation_cons_inv; exact HP]. }
        destruct (in_split _ _ Ia) as (r1 & r2 & ->).
        assert (HP' : Permutation (x :: r1 ++ r2) q).
        { apply Permutation_cons_inv with (a := a).
          rewrite <- HP. rewrite perm_swap. constructor. apply Permutation_middle. }
        destruct (IHl Hq x (r1 ++ r2)%list HP') as (l0 & Hl0 & HP0).
        exists (a :: l0). split.
        * simpl. split; [|exact Hl0]. unfold lt_all in *. rewrite Forall_forall in *. intros z Iz.
          apply Ha. eapply Permutation_in; [exact HP'|]. right. eapply Permutation_in; [symmetry; exact HP0 | exact Iz].
        * rewrite <- HP0. symmetry. apply Permutation_middle. }
  destruct Hs' as (l0 & Hl0 & HP0).
  rewrite (IH l0 Hl0 HP0). f_equal.
  apply filter_all_id. apply forallb_forall. intros y Iy. apply negb_true_iff.
  destruct (value_eqb x y) eqn:E; [|reflexivity]. apply value_eqb_vkey in E. exfalso. exact (Hd y Iy E).
Qed.

Theorem canon_set_perm vs vs' : strictly_sorted vs = true -> Permutation vs' vs -> canon_set vs' = vs.
Proof.
  intros Hs HP. apply strictly_sorted_ssortedP in Hs. unfold canon_set.
  rewrite (v_dedupe_distinct vs Hs vs' HP).
  apply sorted_perm_eq; [apply v_sort_sorted | exact Hs | rewrite v_sort_perm; exact HP].
Qed.

(* ====================================================================================================== *)
(* 4. the encoder, one equation per value form (uses the regenerated singledispatch table)                    *)

Section EncEquations.
  Variable sigma : list prim -> list prim.
  Variable encf : Z -> value -> prim.
  Let e := enc_gen sigma encf.

  Definition enc_kv (kv : value * value) : prim * prim := (e false (fst kv), e false (snd kv)).
  Definition enc_field_hooked (f : string * fmeta * value) : list (prim * prim) :=
    match f with (n, m, x) =>
      if m.(m_incl) then [(PStr n, match m.(m_enc) with Some h => encf h x | None => e true x end)] else [] end.
  Definition enc_field_generic (f : string * fmeta * value) : prim * prim :=
    match f with (n, m, x) => (PStr n, e false x) end.

  Lemma enc_list_eq pos vs : e pos (VList vs) = PList (map (e false) vs). Proof. reflexivity. Qed.
  Lemma enc_tup_eq pos vs : e pos (VTup vs) = PList (map (e false) vs). Proof. reflexivity. Qed.
  Lemma enc_set_eq pos vs : e pos (VSet vs) = PList (sigma (map (e false) vs)). Proof. reflexivity. Qed.
  Lemma enc_dict_eq pos od kvs : e pos (VDict od kvs) = enc_dict_go od (inl []) (map enc_kv kvs). Proof. reflexivity. Qed.
  Lemma enc_path_eq pos s : e pos (VPath s) = PStr s. Proof. reflexivity. Qed.
  Lemma enc_enum_eq pos c m : e pos (VEnum c m) = PStr m. Proof. reflexivity. Qed.
  Lemma enc_dc_eq pos k c fs :
    e pos (VDc k c fs) = if pos || is_ser k then PDict false (flat_map enc_field_hooked fs)
                         else PDict false (map enc_field_generic fs).
  Proof. reflexivity. Qed.
End EncEquations.

(* ====================================================================================================== *)
(* 5. C13: the output holds only primitives                                                                    *)

Lemma existsb_Forall {A} (P : A -> Prop) (f : A -> bool) l :
  Forall P l -> existsb f l = true -> exists x, In x l /\ P x /\ f x = true.
Proof.
  intros HF. induction HF as [|x r Hx HF IH]; simpl; [discriminate|].
  intros E. apply orb_true_iff in E as [E|E].
  - exists x. auto.
  - destruct (IH E) as (y & Iy & Py & Fy). exists y. auto.
Qed.

Definition entry_ok (kv : prim * prim) : bool := json_scalar (fst kv) && prim_only (snd kv).

Lemma dict_set_entry_ok k v d :
  entry_ok (k, v) = true -> forallb entry_ok d = true -> forallb entry_ok (dict_set prim_eqb k v d) = true.
Proof.
  intros Hkv. induction d as [|[k' v'] r IH]; simpl; intros Hd.
  - rewrite Hkv. reflexivity.
  - apply andb_true_iff in Hd as [H1 H2]. destruct (prim_eqb k' k).
    + simpl. unfold entry_ok in *. simpl in *. apply andb_true_iff in H1 as [H1 _]. apply andb_true_iff in Hkv as [_ Hv].
      rewrite H1, Hv, H2. reflexivity.
    + simpl. rewrite H1, IH by exact H2. reflexivity.
Qed.

Lemma json_scalar_hashable p : json_scalar p = true -> p_hashable p = true.
Proof. destruct p; simpl; congruence. Qed.

Lemma enc_dict_go_prim : forall l d,
  forallb entry_ok d = true -> forallb entry_ok l = true -> prim_only (enc_dict_go false (inl d) l) = true.
Proof.
  induction l as [|[k v] r IH]; intros d Hd Hl; simpl.
  - exact Hd.
  - simpl in Hl. apply andb_true_iff in Hl as [Hkv Hr].
    assert (Hh : p_hashable k = true).
    { apply json_scalar_hashable. unfold entry_ok in Hkv. simpl in Hkv. apply andb_true_iff in Hkv as [Hk _]. exact Hk. }
    rewrite Hh. apply IH; [apply dict_set_entry_ok; assumption | exact Hr].
Qed.

Opaque enc_gen.

Section Primitive.
  Variable sigma : list prim -> list prim.
  Variable encf : Z -> value -> prim.
  Hypothesis sigma_perm : forall l, Permutation (sigma l) l.
  Hypothesis encf_prim : forall k v, prim_only (encf k v) = true.
  Let e := enc_gen sigma encf.

  Lemma scalar_enc : forall t v pos, scalar_type t = true -> has_type v t = true -> json_scalar (e pos v) = true.
  Proof.
    unfold e. induction t as [ | | | | | c ms | cs | t1 IH | ts IH | t1 IH | ts IH | t1 IH | t1 IH | tk tv IHk IHv | k c fs IH ]
      using ty_ind'; intros v pos Hs Ht; simpl in Hs; try discriminate; simpl in Ht.
    - destruct v; try discriminate; reflexivity.
    - destruct v; try discriminate; reflexivity.
    - destruct v; try discriminate; reflexivity.
    - destruct v; try discriminate; reflexivity.
    - destruct v; try discriminate; reflexivity.
    - destruct v; try discriminate; reflexivity.
    - destruct v; simpl in Ht; try discriminate; reflexivity.
    - destruct v; try reflexivity; apply IH; assumption.
    - destruct (existsb_Forall _ _ _ IH Ht) as (t1 & I1 & P1 & H1).
      apply P1; [|exact H1]. rewrite forallb_forall in Hs. apply Hs. exact I1.
  Qed.

  Theorem encode_prim_only : forall t v pos,
    has_type v t = true -> plain_type t = true -> plain_value v = true -> prim_only (e pos v) = true.
  Proof.
    unfold e. induction t as [ | | | | | c ms | cs | t1 IH | ts IH | t1 IH | ts IH | t1 IH | t1 IH | tk tv IHk IHv | k c fs IH ]
      using ty_ind'; intros v pos Ht Hp Hv; simpl in Ht.
    - destruct v; try discriminate; reflexivity.
    - destruct v; try discriminate; reflexivity.
    - destruct v; try discriminate; reflexivity.
    - destruct v; try discriminate; reflexivity.
    - destruct v; try discriminate; reflexivity.
    - destruct v; try discriminate; reflexivity.
    - destruct v; simpl in Ht; try discriminate; reflexivity.
    - simpl in Hp. destruct v; try reflexivity; apply IH; assumption.
    - simpl in Hp. destruct (existsb_Forall _ _ _ IH Ht) as (t1 & I1 & P1 & H1).
      apply P1; [exact H1 | | exact Hv]. rewrite forallb_forall in Hp. apply Hp. exact I1.
    - simpl in Hp. destruct v as [ | | | | | | | vs | | | | ]; try discriminate.
      rewrite enc_list_eq. simpl. simpl in Hv.
      apply forallb_forall. intros p Ip. apply in_map_iff in Ip as (x & <- & Ix).
      rewrite forallb_forall in Ht, Hv. apply IH; [apply Ht | exact Hp | apply Hv]; exact Ix.
    - simpl in Hp. destruct v as [ | | | | | | | | vs | | | ]; try discriminate.
      rewrite enc_tup_eq. simpl. simpl in Hv.
      revert vs Ht Hv. induction IH as [|t1 r IH1 _ IHr]; intros vs Ht Hv.
      + destruct vs; [reflexivity | discriminate].
      + destruct vs as [|x vr]; [discriminate|]. simpl in Hp, Hv. 
        apply andb_true_iff in Ht as [Hx Hr]. apply andb_true_iff in Hp as [Hp1 Hpr]. apply andb_true_iff in Hv as [Hv1 Hvr].
        simpl. rewrite (IH1 x false Hx Hp1 Hv1). apply IHr; assumption.
    - simpl in Hp. destruct v as [ | | | | | | | | vs | | | ]; try discriminate.
      rewrite enc_tup_eq. simpl. simpl in Hv.
      apply forallb_forall. intros p Ip. apply in_map_iff in Ip as (x & <- & Ix).
      rewrite forallb_forall in Ht, Hv. apply IH; [apply Ht | exact Hp | apply Hv]; exact Ix.
    - simpl in Hp. destruct v as [ | | | | | | | | | vs | | ]; try discriminate.
      rewrite enc_set_eq. simpl. simpl in Hv. apply andb_true_iff in Ht as [Ht _].
      apply forallb_forall. intros p Ip.
      apply (Permutation_in _ (sigma_perm _)) in Ip. apply in_map_iff in Ip as (x & <- & Ix).
      rewrite forallb_forall in Ht, Hv. apply IH; [apply Ht | exact Hp | apply Hv]; exact Ix.
    - simpl in Hp. apply andb_true_iff in Hp as [Hsk Hpv].
      destruct v as [ | | | | | | | | | | od kvs | ]; try discriminate.
      simpl in Hv. apply andb_true_iff in Hv as [Hod Hv]. apply negb_true_iff in Hod. subst od.
      apply andb_true_iff in Ht as [Ht _].
      rewrite enc_dict_eq. apply enc_dict_go_prim; [reflexivity|].
      apply forallb_forall. intros kv Ikv. apply in_map_iff in Ikv as ([k1 v1] & <- & Ix).
      rewrite forallb_forall in Ht, Hv. specialize (Ht _ Ix). specialize (Hv _ Ix). simpl in Ht, Hv.
      apply andb_true_iff in Ht as [Htk Htv]. apply andb_true_iff in Hv as [Hvk Hvv].
      unfold entry_ok, enc_kv. simpl. apply andb_true_iff. split.
      + apply (scalar_enc tk); assumption.
      + apply IHv; assumption.
    - simpl in Hp. destruct v as [ | | | | | | | | | | | k' c' vfs ]; try discriminate.
      apply andb_true_iff in Ht as [_ Ht]. simpl in Hv.
      rewrite enc_dc_eq.
      assert (A : forallb entry_ok (flat_map (enc_field_hooked sigma encf) vfs) = true
                  /\ forallb entry_ok (map (enc_field_generic sigma encf) vfs) = true).
      { revert vfs Ht Hv. induction IH as [|f r IH1 _ IHr]; intros vfs Ht Hv.
        - destruct vfs; [split; reflexivity | discriminate].
        - destruct f as [[[n m] dflt] t1]. destruct vfs as [|[[n' m'] x] vr]; [discriminate|].
          simpl in Hp, Hv, IH1. apply andb_true_iff in Hp as [Hp1 Hpr]. apply andb_true_iff in Hv as [Hv1 Hvr].
          apply andb_true_iff in Ht as [Ht Hr]. apply andb_true_iff in Ht as [_ Hx].
          destruct (IHr Hpr vr Hr Hvr) as [A1 A2]. split.
          + simpl. destruct (m_incl m'); [|exact A1]. simpl. rewrite A1.
            destruct (m_enc m') as [h|].
            * unfold entry_ok. simpl. rewrite encf_prim. reflexivity.
            * unfold entry_ok. simpl. rewrite (IH1 x true Hx Hp1 Hv1). reflexivity.
          + simpl. rewrite A2. unfold entry_ok. simpl. rewrite (IH1 x false Hx Hp1 Hv1). reflexivity. }
      destruct A as [A1 A2]. destruct (pos || is_ser k'); simpl; assumption.
  Qed.
End Primitive.

(* ====================================================================================================== *)
(* 6. C05: the encoding of a well-typed value is one of its lenient encodings, before and after JSON            *)

Fixpoint distinctP {K} (eqb : K -> K -> bool) (ks : list K) : Prop :=
  match ks with [] => True | k :: r => Forall (fun k' => eqb k k' = false) r /\ distinctP eqb r end.

Lemma dict_set_app {K V} (eqb : K -> K -> bool) (k : K) (v : V) d :
  Forall (fun kv => eqb (fst kv) k = false) d -> dict_set eqb k v d = (d ++ [(k, v)])%list.
Proof.
  induction d as [|[k' v'] r IH]; simpl; intros H; [reflexivity|].
  inversion H as [|? ? H1 H2]; subst. simpl in H1. rewrite H1, IH by exact H2. reflexivity.
Qed.

Lemma distinctP_snoc {K} (eqb : K -> K -> bool) ks k :
  distinctP eqb ks -> Forall (fun k' => eqb k' k = false) ks -> distinctP eqb (ks ++ [k]).
Proof.
  induction ks as [|a r IH]; simpl; intros Hd Hk.
  - split; constructor.
  - destruct Hd as [Ha Hr]. inversion Hk as [|? ? Hk1 Hk2]; subst. split.
    + apply Forall_app. split; [exact Ha | constructor; [exact Hk1 | constructor]].
    + apply IH; assumption.
Qed.

(* folding d[k] = v over entries whose keys are pairwise distinct (and distinct from those present) appends them *)
Lemma fold_dict_set {K V} (eqb : K -> K -> bool) (l : list (K * V)) : forall acc,
  distinctP eqb (map fst acc ++ map fst l) ->
  fold_left (fun a kv => dict_set eqb (fst kv) (snd kv) a) l acc = (acc ++ l)%list.
Proof.
  induction l as [|[k v] r IH]; intros acc Hd; simpl.
  - rewrite app_nil_r. reflexivity.
  - assert (Hfresh : Forall (fun kv => eqb (fst kv) k = false) acc).
    { clear IH. induction acc as [|[a b] q IHq]; [constructor|].
      simpl in Hd. destruct Hd as [Ha Hq]. constructor.
      - simpl. rewrite Forall_forall in Ha. apply Ha. apply in_or_app. right. left. reflexivity.
      - apply IHq. exact Hq. }
    rewrite dict_set_app by exact Hfresh. rewrite IH.
    + rewrite <- app_assoc. reflexivity.
    + rewrite map_app. simpl. rewrite <- app_assoc. simpl. exact Hd.
Qed.

Lemma dict_build_app : forall kvs acc,
  distinctP value_eqb (map fst acc ++ map fst kvs) -> forallb (fun kv => v_hashable (fst kv)) kvs = true ->
  dict_build acc kvs = Ok (acc ++ kvs)%list.
Proof.
  induction kvs as [|[k v] r IH]; intros acc Hd Hh; simpl.
  - rewrite app_nil_r. reflexivity.
  - simpl in Hh. apply andb_true_iff in Hh as [Hk Hr]. rewrite Hk.
    assert (Hfresh : Forall (fun kv => value_eqb (fst kv) k = false) acc).
    { clear IH. induction acc as [|[a b] q IHq]; [constructor|].
      simpl in Hd. destruct Hd as [Ha Hq]. constructor.
      - simpl. rewrite Forall_forall in Ha. apply Ha. apply in_or_app. right. left. reflexivity.
      - apply IHq. exact Hq. }
    rewrite dict_set_app by exact Hfresh. rewrite IH.
    + rewrite <- app_assoc. reflexivity.
    + rewrite map_app. simpl. rewrite <- app_assoc. simpl. exact Hd.
    + exact Hr.
Qed.

Lemma enc_dict_go_app od : forall l acc,
  distinctP prim_eqb (map fst acc ++ map fst l) -> forallb (fun kv => p_hashable (fst kv)) l = true ->
  enc_dict_go od (inl acc) l = PDict od (acc ++ l)%list.
Proof.
  induction l as [|[k v] r IH]; intros acc Hd Hh; simpl.
  - rewrite app_nil_r. reflexivity.
  - simpl in Hh. apply andb_true_iff in Hh as [Hk Hr]. rewrite Hk.
    assert (Hfresh : Forall (fun kv => prim_eqb (fst kv) k = false) acc).
    { clear IH. induction acc as [|[a b] q IHq]; [constructor|].
      simpl in Hd. destruct Hd as [Ha Hq]. constructor.
      - simpl. rewrite Forall_forall in Ha. apply Ha. apply in_or_app. right. left. reflexivity.
      - apply IHq. exact Hq. }
    rewrite dict_set_app by exact Hfresh. rewrite IH.
    + rewrite <- app_assoc. reflexivity.
    + rewrite map_app. simpl. rewrite <- app_assoc. simpl. exact Hd.
    + exact Hr.
Qed.

Lemma keys_distinct_distinctP ks : keys_distinct ks = true -> distinctP value_eqb ks.
Proof.
  induction ks as [|k r IH]; simpl; [auto|].
  intros H. apply andb_true_iff in H as [H1 H2]. split; [|apply IH; exact H2].
  apply Forall_forall. intros k' Ik. rewrite forallb_forall in H1. specialize (H1 _ Ik).
  apply negb_true_iff in H1. exact H1.
Qed.

Definition jkey (p : prim) : prim := match json_key p with Some k => k | None => PBad end.

Lemma string_eqb_false_neq a b : String.eqb a b = false <-> a <> b.
Proof. apply String.eqb_neq. Qed.

Section ScalarEnc.
  Variable sigma : list prim -> list prim.
  Variable encf : Z -> value -> prim.
  Let e := enc_gen sigma encf.
  Lemma enc_none_eq pos : e pos VNone = PNone. Proof. reflexivity. Qed.
  Lemma enc_bool_eq pos b : e pos (VBool b) = PBool b. Proof. reflexivity. Qed.
  Lemma enc_int_eq pos z : e pos (VInt z) = PInt z. Proof. reflexivity. Qed.
  Lemma enc_flt_eq pos r : e pos (VFlt r) = PFlt r. Proof. reflexivity. Qed.
  Lemma enc_str_eq pos s : e pos (VStr s) = PStr s. Proof. reflexivity. Qed.
End ScalarEnc.

Ltac enc_scalar :=
  repeat first [ rewrite enc_none_eq | rewrite enc_bool_eq | rewrite enc_int_eq | rewrite enc_flt_eq
               | rewrite enc_str_eq | rewrite enc_path_eq | rewrite enc_enum_eq ].

Section Roundtrip.
  Variable sigma : list prim -> list prim.
  Variable encf : Z -> value -> prim.
  Variable decf : Z -> prim -> res value.
  Hypothesis sigma_perm : forall l, Permutation (sigma l) l.
  Let e := enc_gen sigma encf.
  Let dec := decode_gen decf.
  Let len := lenient (decode_gen decf) DC_TYPE_KEY decode_bool_str decf.

  (* p is an acceptable raw form of v, and so is what JSON makes of it *)
  Definition good (t : ty) (v : value) (p : prim) : Prop :=
    len t v p /\ len t v (json_rt p) /\ json_ok p = true /\ yaml_ok p = true.

  Lemma key_enc tk k pos :
    key_type tk = true -> has_type k tk = true ->
    json_scalar (e pos k) = true /\ json_key (e pos k) = Some (jkey (e pos k)) /\
    len tk k (e pos k) /\ len tk k (jkey (e pos k)) /\ json_rt (e pos k) = e pos k /\ v_hashable k = true
    /\ e pos k = e false k.
  Proof.
    unfold e, len. intros Hk Ht.
    destruct tk; simpl in Hk; try discriminate; simpl in Ht; destruct k; try discriminate; enc_scalar.
    - repeat split; try reflexivity; simpl.
      + exists b. split; [reflexivity | left; reflexivity].
      + exists b. split; [reflexivity|]. right. destruct b; eexists; (split; [reflexivity|]); [apply s2b_true | apply s2b_false].
    - repeat split; try reflexivity; simpl.
      + exists z. repeat split; auto.
      + exists z. repeat split; auto. right. eexists. split; [reflexivity | apply parse_int_Z_to_dec].
    - repeat split; try reflexivity; simpl.
      + exists r. split; [reflexivity | left; reflexivity].
      + exists r. split; [reflexivity|]. right. left. exists r. split; [reflexivity|]. unfold parse_float. rewrite Ht. reflexivity.
    - repeat split; try reflexivity; simpl; exists s; auto.
    - repeat split; try reflexivity; simpl; exists s; auto.
    - apply andb_true_iff in Ht as [Hc Hm]. apply String.eqb_eq in Hc. subst c0.
      repeat split; try reflexivity; simpl; exists m; auto.
  Qed.

  Lemma key_distinct tk k1 k2 :
    key_type tk = true -> has_type k1 tk = true -> has_type k2 tk = true -> value_eqb k1 k2 = false ->
    prim_eqb (e false k1) (e false k2) = false /\ prim_eqb (jkey (e false k1)) (jkey (e false k2)) = false.
  Proof.
    unfold e. intros Hk H1 H2 Hne.
    destruct tk; simpl in Hk; try discriminate; simpl in H1, H2;
      destruct k1; try discriminate; destruct k2; try discriminate; enc_scalar; simpl in Hne; simpl.
    - split; [exact Hne|]. destruct b, b0; simpl in *; try discriminate; reflexivity.
    - split; [exact Hne|]. apply String.eqb_neq. intros E. apply Z_to_dec_inj in E. apply Z.eqb_neq in Hne. contradiction.
    - split; exact Hne.
    - split; exact Hne.
    - split; exact Hne.
    - apply andb_true_iff in H1 as [C1 _]. apply andb_true_iff in H2 as [C2 _].
      apply String.eqb_eq in C1, C2. subst. rewrite String.eqb_refl in Hne. simpl in Hne. split; exact Hne.
  Qed.

  Lemma json_scalar_ok p : json_scalar p = true -> json_ok p = true.
  Proof. destruct p; simpl; congruence. Qed.
  Lemma json_scalar_yaml p : json_scalar p = true -> yaml_ok p = true.
  Proof. destruct p; simpl; congruence. Qed.

  Lemma good_of_key t v pos :
    key_type t = true -> has_type v t = true -> good t v (e pos v).
  Proof.
    intros Hk Ht. destruct (key_enc t v pos Hk Ht) as (H1 & H2 & H3 & H4 & H5 & H6 & H7).
    unfold good. rewrite H5. repeat split; try assumption; [apply json_scalar_ok | apply json_scalar_yaml]; exact H1.
  Qed.

  Lemma lit_in cs p0 : forallb lit_choice cs = true -> existsb (prim_eqb p0) cs = true -> lit_choice p0 = true.
  Proof.
    induction cs as [|c r IH]; simpl; [discriminate|].
    intros Hl He. apply andb_true_iff in Hl as [Hc Hr]. apply orb_true_iff in He as [He|He]; [|apply IH; assumption].
    destruct p0, c; simpl in *; try discriminate; reflexivity.
  Qed.

  Lemma Forall2_map_r {A B} (R : A -> B -> Prop) (f : A -> B) l :
    (forall x, In x l -> R x (f x)) -> Forall2 R l (map f l).
  Proof.
    induction l as [|x r IH]; simpl; intros H; constructor.
    - apply H. left. reflexivity.
    - apply IH. intros y Iy. apply H. right. exact Iy.
  Qed.

  (* a lenient form of a value other than None is neither None nor outside the model *)
  Lemma len_none : forall t v, len t v PNone -> v = VNone.
  Proof.
    unfold len. induction t as [ | | | | | c ms | cs | t1 IH | ts IH | t1 IH | ts IH | t1 IH | t1 IH | tk tv IHk IHv | k c fs IH ]
      using ty_ind'; intros v H; simpl in H.
    - destruct H as (b & _ & [H | (s & H & _)]); discriminate.
    - destruct H as (z & _ & [H | (s & H & _)]); discriminate.
    - destruct H as (r & _ & [H | [(s & H & _) | (z & H & _)]]); discriminate.
    - destruct H as (s & _ & H); discriminate.
    - destruct H as (s & _ & H & _); discriminate.
    - destruct H as (m & _ & H & _); discriminate.
    - destruct H as (H & _); discriminate.
    - destruct H as [[H _] | (H & _)]; [exact H | congruence].
    - destruct H as (_ & H). induction IH as [|t1 r IH1 _ IHr]; [contradiction|].
      destruct H as [H | [_ H]]; [apply IH1; exact H | apply IHr; exact H].
    - destruct H as (vs & ps & _ & [H|H] & _); discriminate.
    - destruct H as (vs & ps & _ & [H|H] & _); discriminate.
    - destruct H as (vs & ps & _ & [H|H] & _); discriminate.
    - destruct H as (vs & ps & vs' & _ & [H|H] & _); discriminate.
    - destruct H as (od & kvs & pkvs & kvs' & _ & H & _); discriminate.
    - destruct H as (vfs & od & pkvs & _ & H & _); discriminate.
  Qed.

  Lemma len_bad : forall t v, len t v PBad -> False.
  Proof.
    unfold len. induction t as [ | | | | | c ms | cs | t1 IH | ts IH | t1 IH | ts IH | t1 IH | t1 IH | tk tv IHk IHv | k c fs IH ]
      using ty_ind'; intros v H; simpl in H.
    - destruct H as (b & _ & [H | (s & H & _)]); discriminate.
    - destruct H as (z & _ & [H | (s & H & _)]); discriminate.
    - destruct H as (r & _ & [H | [(s & H & _) | (z & H & _)]]); discriminate.
    - destruct H as (s & _ & H); discriminate.
    - destruct H as (s & _ & H & _); discriminate.
    - destruct H as (m & _ & H & _); discriminate.
    - destruct H as (H & _); discriminate.
    - destruct H as [[_ H] | (_ & H & _)]; [discriminate | congruence].
    - destruct H as (H & _). congruence.
    - destruct H as (vs & ps & _ & [H|H] & _); discriminate.
    - destruct H as (vs & ps & _ & [H|H] & _); discriminate.
    - destruct H as (vs & ps & _ & [H|H] & _); discriminate.
    - destruct H as (vs & ps & vs' & _ & [H|H] & _); discriminate.
    - destruct H as (od & kvs & pkvs & kvs' & _ & H & _); discriminate.
    - destruct H as (vfs & od & pkvs & _ & H & _); discriminate.
  Qed.

  Lemma distinct_map {A B} (eqa : A -> A -> bool) (eqb : B -> B -> bool) (g : A -> B) (P : A -> Prop) ks :
    (forall a b, P a -> P b -> eqa a b = false -> eqb (g a) (g b) = false) ->
    Forall P ks -> distinctP eqa ks -> distinctP eqb (map g ks).
  Proof.
    intros Hg. induction ks as [|k r IH]; simpl; intros HP Hd; [exact I|].
    inversion HP as [|? ? Pk Pr]; subst. destruct Hd as [Hk Hr]. split; [|apply IH; assumption].
    apply Forall_forall. intros y Iy. apply in_map_iff in Iy as (x & <- & Ix).
    rewrite Forall_forall in Hk, Pr. apply Hg; [exact Pk | apply Pr; exact Ix | apply Hk; exact Ix].
  Qed.

  Lemma union_member_key t : union_member t = key_type t.
  Proof. destruct t; reflexivity. Qed.

  Lemma rejects_fails t p : rejects (decode_gen decf) t p = true -> fails (decode_gen decf) t p.
  Proof.
    unfold rejects, fails. destruct (decode_gen decf t p) as [x|er]; [discriminate|].
    intros H. exists er. split; [reflexivity|]. destruct er; try discriminate; congruence.
  Qed.

  Definition fields_names (fs : list (string * fmeta * option value * ty)) : list string :=
    map (fun f => match f with (n, _, _, _) => n end) fs.

  Lemma dict_get_fields_none key (g : value -> prim) : forall (vfs : list (string * fmeta * value)),
    str_in key (map (fun f => match f with (n, _, _) => n end) vfs) = false ->
    dict_get prim_eqb (PStr key) (map (fun f => match f with (n, m, x) => (PStr n, g x) end) vfs) = None.
  Proof.
    induction vfs as [|[[n m] x] r IH]; simpl; intros H; [reflexivity|].
    apply orb_false_iff in H as [H1 H2]. rewrite String.eqb_sym in H1. rewrite H1. apply IH. exact H2.
  Qed.


  Lemma fmeta_eqb_eq a b : fmeta_eqb a b = true -> a = b.
  Proof.
    destruct a as [i1 e1 d1], b as [i2 e2 d2]. unfold fmeta_eqb. simpl. intros H.
    apply andb_true_iff in H as [H Hd]. apply andb_true_iff in H as [Hi He].
    apply Bool.eqb_prop in Hi. subst.
    assert (E : forall x y, optZ_eqb x y = true -> x = y).
    { intros [x|] [y|]; simpl; try discriminate; auto. intros Q. apply Z.eqb_eq in Q. subst. reflexivity. }
    apply E in He. apply E in Hd. subst. reflexivity.
  Qed.

  Fixpoint aligned (R : ty -> value -> Prop) (fs : list (string * fmeta * option value * ty))
           (vfs : list (string * fmeta * value)) : Prop :=
    match fs, vfs with
    | [], [] => True
    | (n, m, _, t1) :: fr, (n', m', x) :: vr => n = n' /\ m = m' /\ m' = plain_meta /\ R t1 x /\ aligned R fr vr
    | _, _ => False
    end.

  Lemma aligned_impl (R1 R2 : ty -> value -> Prop) : (forall t x, R1 t x -> R2 t x) ->
    forall fs vfs, aligned R1 fs vfs -> aligned R2 fs vfs.
  Proof.
    intros H. induction fs as [|[[[n m] d] t1] fr IH]; intros [|[[n' m'] x] vr] A; simpl in *; try contradiction; auto.
    destruct A as (A1 & A2 & A3 & A4 & A5). repeat split; auto.
  Qed.

  Definition vnames (vfs : list (string * fmeta * value)) : list string :=
    map (fun f => match f with (n, _, _) => n end) vfs.
  Definition entries (g : value -> prim) (vfs : list (string * fmeta * value)) : list (prim * prim) :=
    map (fun f => match f with (n, m, x) => (PStr n, g x) end) vfs.

  Lemma aligned_names R : forall fs vfs, aligned R fs vfs -> vnames vfs = fields_names fs.
  Proof.
    induction fs as [|[[[n m] d] t1] fr IH]; intros [|[[n' m'] x] vr] A; simpl in *; try contradiction; auto.
    destruct A as (-> & _ & _ & _ & A5). f_equal. apply IH. exact A5.
  Qed.

  Lemma dict_get_entries_some g : forall vfs n m x,
    NoDup (vnames vfs) -> In (n, m, x) vfs -> dict_get prim_eqb (PStr n) (entries g vfs) = Some (g x).
  Proof.
    induction vfs as [|[[n0 m0] x0] r IH]; intros n m x Hnd Hin; [contradiction|].
    simpl in Hnd. inversion Hnd as [|? ? Hni Hnr]; subst. simpl. destruct Hin as [E|Hin].
    - inversion E; subst. rewrite String.eqb_refl. reflexivity.
    - assert (Hne : String.eqb n0 n = false).
      { apply String.eqb_neq. intros ->. apply Hni. unfold vnames. apply in_map_iff. exists (n, m, x). auto. }
      rewrite Hne. apply (IH n m x Hnr Hin).
  Qed.

  Lemma dc_go_from_aligned (g : value -> prim) pkvs : forall fs vfs,
    aligned (fun t1 x => len t1 x (g x)) fs vfs ->
    (forall n m x, In (n, m, x) vfs -> dict_get prim_eqb (PStr n) pkvs = Some (g x)) ->
    (fix go (fs : list (string * fmeta * option value * ty)) (vfs : list (string * fmeta * value)) : Prop :=
       match fs, vfs with
       | [], [] => True
       | (n, m, dflt, t1) :: fr, (n', m', x) :: vr =>
           n = n' /\ m = m' /\
           match dict_get prim_eqb (PStr n) pkvs with
           | None => dflt = Some x
           | Some rawv => match m.(m_dec) with
                          | Some h => decf h rawv = Ok x
                          | None => len t1 x rawv
                          end
           end /\ go fr vr
       | _, _ => False
       end) fs vfs.
  Proof.
    induction fs as [|[[[n m] d] t1] fr IH]; intros [|[[n' m'] x] vr] A Hget; simpl in A; try contradiction; auto.
    destruct A as (-> & -> & -> & A4 & A5). repeat split.
    - rewrite (Hget n' plain_meta x) by (left; reflexivity). simpl. exact A4.
    - apply IH; [exact A5|]. intros n m y Iy. apply (Hget n m y). right. exact Iy.
  Qed.

  Lemma distinct_pstr names : NoDup names -> distinctP prim_eqb (map PStr names).
  Proof.
    induction names as [|n r IH]; simpl; intros H; [exact I|].
    inversion H as [|? ? Hn Hr]; subst. split; [|apply IH; exact Hr].
    apply Forall_forall. intros p Ip. apply in_map_iff in Ip as (y & <- & Iy). simpl.
    apply String.eqb_neq. intros ->. contradiction.
  Qed.

  Lemma flat_hooked_plain : forall vfs,
    Forall (fun f => match f with (_, m, _) => m = plain_meta end) vfs ->
    flat_map (enc_field_hooked sigma encf) vfs = entries (e true) vfs.
  Proof.
    induction vfs as [|[[n m] x] r IH]; intros H; [reflexivity|].
    inversion H as [|? ? Hm Hr]; subst. simpl. rewrite IH by exact Hr. reflexivity.
  Qed.

  Lemma aligned_plain R : forall fs vfs, aligned R fs vfs ->
    Forall (fun f => match f with (_, m, _) => m = plain_meta end) vfs.
  Proof.
    induction fs as [|[[[n m] d] t1] fr IH]; intros [|[[n' m'] x] vr] A; simpl in A; try contradiction; constructor.
    - destruct A as (_ & _ & A3 & _). exact A3.
    - destruct A as (_ & _ & _ & _ & A5). apply (IH _ A5).
  Qed.

  Lemma aligned_in R : forall fs vfs, aligned R fs vfs -> forall n m x, In (n, m, x) vfs -> exists t1, R t1 x.
  Proof.
    induction fs as [|[[[n0 m0] d] t1] fr IH]; intros [|[[n' m'] y] vr] A n m x Hin; simpl in A; try contradiction.
    destruct A as (_ & _ & _ & A4 & A5). destruct Hin as [E|Hin].
    - inversion E; subst. exists t1. exact A4.
    - apply (IH _ A5 n m x Hin).
  Qed.

  Theorem enc_good : forall t v pos,
    ser_type DC_TYPE_KEY t = true -> has_type v t = true -> plain_value v = true ->
    union_safe (decode_gen decf) (e false) t v = true -> good t v (e pos v).
  Proof.
    unfold e. induction t as [ | | | | | c ms | cs | t1 IH | ts IH | t1 IH | ts IH | t1 IH | t1 IH | tk tv IHk IHv | k c fs IH ]
      using ty_ind'; intros v pos Hser Ht Hpv Hus.
    - apply good_of_key; auto.
    - apply good_of_key; auto.
    - apply good_of_key; auto.
    - apply good_of_key; auto.
    - apply good_of_key; auto.
    - apply good_of_key; auto.
    - (* Literal *)
      simpl in Hser, Ht. destruct (scalar_prim v) as [p0|] eqn:Ep; [|discriminate].
      pose proof (lit_in _ _ Hser Ht) as Hl.
      assert (Ev : enc_gen sigma encf pos v = p0 /\ raw p0 = v).
      { destruct v; simpl in Ep; try discriminate; inversion Ep; subst; enc_scalar; split; reflexivity. }
      destruct Ev as [Ev Er]. rewrite Ev.
      assert (Ej : json_rt p0 = p0) by (destruct p0; simpl in Hl; try discriminate; reflexivity).
      unfold good, len. rewrite Ej. simpl. repeat split; auto;
      destruct p0; simpl in Hl; try discriminate; reflexivity.
    - (* Optional *)
      simpl in Hser. destruct v.
      1: { enc_scalar. unfold good, len. simpl. repeat split; try reflexivity; left; split; reflexivity. }
      all: simpl in Ht, Hus; destruct (IH _ pos Hser Ht Hpv Hus) as (G1 & G2 & G3 & G4);
        unfold good, len; simpl; repeat split; try exact G3; try exact G4; right;
        (repeat split; [ intros E; fold len in G1, G2; first [rewrite E in G1; apply len_none in G1 | rewrite E in G2; apply len_none in G2]; discriminate
                       | intros E; fold len in G1, G2; first [rewrite E in G1; apply len_bad in G1 | rewrite E in G2; apply len_bad in G2]; contradiction
                       | assumption ]).
    - (* Union of scalars *)
      simpl in Hser, Ht, Hus.
      assert (Hmem : exists t1, In t1 ts /\ has_type v t1 = true).
      { apply existsb_exists in Ht. exact Ht. }
      destruct Hmem as (tm & Im & Hm).
      assert (Km : key_type tm = true).
      { rewrite forallb_forall in Hser. rewrite <- union_member_key. apply Hser. exact Im. }
      destruct (key_enc tm v pos Km Hm) as (K1 & K2 & K3 & K4 & K5 & K6 & K7). fold e in K1, K2, K3, K4, K5, K6, K7. unfold e in *.
      assert (Hpick : (fix pick (ts : list ty) : Prop :=
                         match ts with
                         | [] => False
                         | t1 :: r => len t1 v (enc_gen sigma encf pos v) \/ (fails (decode_gen decf) t1 (enc_gen sigma encf pos v) /\ pick r)
                         end) ts).
      { clear Ht Im IH. induction ts as [|t1 r IHr]; [discriminate|].
        simpl in Hser. apply andb_true_iff in Hser as [Hk1 Hkr]. rewrite union_member_key in Hk1.
        destruct (has_type v t1) eqn:E1.
        - left. destruct (key_enc t1 v pos Hk1 E1) as (_ & _ & L & _). exact L.
        - right. apply andb_true_iff in Hus as [Hrej Hr]. split.
          + rewrite K7. apply rejects_fails. exact Hrej.
          + apply IHr; assumption. }
      unfold good, len. simpl. rewrite K5. repeat split; try assumption.
      + intros E. rewrite E in K1. discriminate.
      + intros E. rewrite E in K1. discriminate.
      + apply json_scalar_ok. exact K1.
      + apply json_scalar_yaml. exact K1.
    - (* List *)
      simpl in Hser. destruct v as [ | | | | | | | vs | | | | ]; try discriminate. simpl in Ht, Hpv, Hus.
      rewrite enc_list_eq. rewrite forallb_forall in Ht, Hpv, Hus.
      assert (G : forall x, In x vs -> good t1 x (enc_gen sigma encf false x)).
      { intros x Ix. apply IH; auto. }
      unfold good, len. simpl. repeat split.
      + exists vs, (map (enc_gen sigma encf false) vs). repeat split; [left; reflexivity|].
        apply Forall2_map_r. intros x Ix. apply (G x Ix).
      + exists vs, (map json_rt (map (enc_gen sigma encf false) vs)). repeat split; [left; reflexivity|].
        rewrite map_map. apply Forall2_map_r. intros x Ix. apply (G x Ix).
      + apply forallb_forall. intros p Ip. apply in_map_iff in Ip as (x & <- & Ix). apply (G x Ix).
      + apply forallb_forall. intros p Ip. apply in_map_iff in Ip as (x & <- & Ix). apply (G x Ix).
    - (* Tuple, fixed *)
      simpl in Hser. destruct v as [ | | | | | | | | vs | | | ]; try discriminate. simpl in Ht, Hpv, Hus.
      rewrite enc_tup_eq.
      assert (G : (fix go (ts : list ty) (vs : list value) (ps : list prim) : Prop :=
                     match ts, vs, ps with
                     | [], [], [] => True
                     | t1 :: tr, x :: vr, q :: pr => len t1 x q /\ go tr vr pr
                     | _, _, _ => False
                     end) ts vs (map (enc_gen sigma encf false) vs)
                  /\ (fix go (ts : list ty) (vs : list value) (ps : list prim) : Prop :=
                     match ts, vs, ps with
                     | [], [], [] => True
                     | t1 :: tr, x :: vr, q :: pr => len t1 x q /\ go tr vr pr
                     | _, _, _ => False
                     end) ts vs (map json_rt (map (enc_gen sigma encf false) vs))
                  /\ forallb json_ok (map (enc_gen sigma encf false) vs) = true
                  /\ forallb yaml_ok (map (enc_gen sigma encf false) vs) = true).
      { revert vs Ht Hpv Hus. induction IH as [|t1 r IH1 _ IHr]; intros vs Ht Hpv Hus.
        - destruct vs; [repeat split | discriminate].
        - destruct vs as [|x vr]; [discriminate|]. simpl in Hser, Hpv.
          apply andb_true_iff in Hser as [Hs1 Hsr]. apply andb_true_iff in Ht as [Hx Hr].
          apply andb_true_iff in Hpv as [Hp1 Hpr].
          apply andb_true_iff in Hus as [Hu1 Hur].
          destruct (IH1 x false Hs1 Hx Hp1 Hu1) as (A1 & A2 & A3 & A4).
          destruct (IHr Hsr vr Hr Hpr Hur) as (B1 & B2 & B3 & B4).
          simpl. rewrite A3, B3, A4, B4. repeat split; assumption. }
      destruct G as (G1 & G2 & G3 & G4).
      unfold good, len. simpl. repeat split.
      + exists vs, (map (enc_gen sigma encf false) vs). repeat split; [left; reflexivity | exact G1].
      + exists vs, (map json_rt (map (enc_gen sigma encf false) vs)). repeat split; [left; reflexivity | exact G2].
      + exact G3.
      + exact G4.
    - (* Tuple, variadic *)
      simpl in Hser. destruct v as [ | | | | | | | | vs | | | ]; try discriminate. simpl in Ht, Hpv, Hus.
      rewrite enc_tup_eq. rewrite forallb_forall in Ht, Hpv, Hus.
      assert (G : forall x, In x vs -> good t1 x (enc_gen sigma encf false x)).
      { intros x Ix. apply IH; auto. }
      unfold good, len. simpl. repeat split.
      + exists vs, (map (enc_gen sigma encf false) vs). repeat split; [left; reflexivity|].
        apply Forall2_map_r. intros x Ix. apply (G x Ix).
      + exists vs, (map json_rt (map (enc_gen sigma encf false) vs)). repeat split; [left; reflexivity|].
        rewrite map_map. apply Forall2_map_r. intros x Ix. apply (G x Ix).
      + apply forallb_forall. intros p Ip. apply in_map_iff in Ip as (x & <- & Ix). apply (G x Ix).
      + apply forallb_forall. intros p Ip. apply in_map_iff in Ip as (x & <- & Ix). apply (G x Ix).
    - (* Set *)
      simpl in Hser. destruct v as [ | | | | | | | | | vs | | ]; try discriminate. simpl in Ht, Hpv, Hus.
      apply andb_true_iff in Ht as [Ht Hsorted].
      rewrite enc_set_eq.
      destruct (Permutation_map_inv _ _ (sigma_perm (map (enc_gen sigma encf false) vs))) as (vs' & Es & HP).
      rewrite Es. rewrite forallb_forall in Ht.
      assert (K : forall x, In x vs' -> key_type t1 = true /\ has_type x t1 = true).
      { intros x Ix. assert (In x vs) by (eapply Permutation_in; [symmetry; exact HP | exact Ix]). auto. }
      assert (Ej : map json_rt (map (enc_gen sigma encf false) vs') = map (enc_gen sigma encf false) vs').
      { rewrite map_map. apply map_ext_in. intros x Ix. destruct (K x Ix) as (K1 & K2).
        destruct (key_enc t1 x false K1 K2) as (_ & _ & _ & _ & J & _). exact J. }
      assert (L : len (TSet t1) (VSet vs) (PList (map (enc_gen sigma encf false) vs'))).
      { unfold len. simpl. exists vs, (map (enc_gen sigma encf false) vs'), vs'. repeat split.
        - left. reflexivity.
        - apply Forall2_map_r. intros x Ix. destruct (K x Ix) as (K1 & K2).
          destruct (key_enc t1 x false K1 K2) as (_ & _ & L & _). exact L.
        - apply forallb_forall. intros x Ix. destruct (K x Ix) as (K1 & K2).
          destruct (key_enc t1 x false K1 K2) as (_ & _ & _ & _ & _ & Hh & _). exact Hh.
        - apply canon_set_perm; [exact Hsorted | symmetry; exact HP]. }
      unfold good. simpl. rewrite Ej. repeat split; try exact L.
      + apply forallb_forall. intros p Ip. apply in_map_iff in Ip as (x & <- & Ix). destruct (K x Ix) as (K1 & K2).
        destruct (key_enc t1 x false K1 K2) as (Js & _). apply json_scalar_ok. exact Js.
      + apply forallb_forall. intros p Ip. apply in_map_iff in Ip as (x & <- & Ix). destruct (K x Ix) as (K1 & K2).
        destruct (key_enc t1 x false K1 K2) as (Js & _). apply json_scalar_yaml. exact Js.
    - (* Dict *)
      simpl in Hser. apply andb_true_iff in Hser as [Hkt Hsv].
      destruct v as [ | | | | | | | | | | od kvs | ]; try discriminate. simpl in Ht, Hpv, Hus.
      apply andb_true_iff in Ht as [Ht Hdist]. apply andb_true_iff in Hpv as [Hod Hpv].
      apply negb_true_iff in Hod. subst od.
      rewrite forallb_forall in Ht, Hpv, Hus.
      assert (K : forall kv, In kv kvs ->
                  has_type (fst kv) tk = true /\
                  good tv (snd kv) (enc_gen sigma encf false (snd kv))).
      { intros kv Ikv. specialize (Ht _ Ikv). specialize (Hpv _ Ikv). specialize (Hus _ Ikv).
        apply andb_true_iff in Ht as [T1 T2]. apply andb_true_iff in Hpv as [P1 P2].
        apply andb_true_iff in Hus as [U1 U2].
        repeat split; auto; apply IHv; auto. }
      assert (Hkeys : Forall (fun k => has_type k tk = true) (map fst kvs)).
      { apply Forall_forall. intros k Ik. apply in_map_iff in Ik as (kv & <- & Ikv). apply (K kv Ikv). }
      pose proof (keys_distinct_distinctP _ Hdist) as Hd.
      rewrite enc_dict_eq.
      assert (E1 : enc_dict_go false (inl []) (map (enc_kv sigma encf) kvs) = PDict false (map (enc_kv sigma encf) kvs)).
      { rewrite enc_dict_go_app; [reflexivity | | ].
        - simpl. rewrite map_map. unfold enc_kv. simpl.
          rewrite <- (map_map fst (enc_gen sigma encf false)).
          apply (distinct_map value_eqb prim_eqb _ (fun k => has_type k tk = true)); try assumption.
          intros a b Ha Hb Hab. apply (key_distinct tk a b Hkt Ha Hb Hab).
        - apply forallb_forall. intros p Ip. apply in_map_iff in Ip as (kv & <- & Ikv). unfold enc_kv. simpl.
          destruct (K kv Ikv) as (K1 & _).
          destruct (key_enc tk (fst kv) false Hkt K1) as (Js & _). apply json_scalar_hashable. exact Js. }
      rewrite E1.
      assert (E2 : json_rt (PDict false (map (enc_kv sigma encf) kvs)) =
                   PDict false (map (fun kv => (jkey (enc_gen sigma encf false (fst kv)), json_rt (enc_gen sigma encf false (snd kv)))) kvs)).
      { simpl. f_equal. rewrite map_map. unfold enc_kv. simpl.
        rewrite fold_dict_set; [reflexivity|].
        simpl. rewrite map_map. simpl.
        change (distinctP prim_eqb (map (fun x : value * value => jkey (enc_gen sigma encf false (fst x))) kvs)).
        rewrite <- (map_map fst (fun k => jkey (enc_gen sigma encf false k))).
        apply (distinct_map value_eqb prim_eqb _ (fun k => has_type k tk = true)); try assumption.
        intros a b Ha Hb Hab. apply (key_distinct tk a b Hkt Ha Hb Hab). }
      assert (Hbuild : dict_build [] kvs = Ok kvs).
      { rewrite dict_build_app; [reflexivity | exact Hd |].
        apply forallb_forall. intros kv Ikv. destruct (K kv Ikv) as (K1 & _).
        destruct (key_enc tk (fst kv) false Hkt K1) as (_ & _ & _ & _ & _ & Hh & _). exact Hh. }
      unfold good. rewrite E2. unfold len. simpl. repeat split.
      + exists false, kvs, (map (enc_kv sigma encf) kvs), kvs. repeat split; [|exact Hbuild].
        apply Forall2_map_r. intros kv Ikv. destruct (K kv Ikv) as (K1 & K3). unfold enc_kv. simpl. split.
        * destruct (key_enc tk (fst kv) false Hkt K1) as (_ & _ & L & _). exact L.
        * apply K3.
      + exists false, kvs, (map (fun kv => (jkey (enc_gen sigma encf false (fst kv)), json_rt (enc_gen sigma encf false (snd kv)))) kvs), kvs.
        repeat split; [|exact Hbuild].
        apply Forall2_map_r. intros kv Ikv. destruct (K kv Ikv) as (K1 & K3). simpl. split.
        * destruct (key_enc tk (fst kv) false Hkt K1) as (_ & _ & _ & L & _). exact L.
        * apply K3.
      + apply forallb_forall. intros p Ip. apply in_map_iff in Ip as (kv & <- & Ikv). unfold enc_kv. simpl.
        destruct (K kv Ikv) as (K1 & K3).
        destruct (key_enc tk (fst kv) false Hkt K1) as (_ & Jk & _). unfold e in Jk. rewrite Jk. simpl. apply K3.
      + apply forallb_forall. intros p Ip. apply in_map_iff in Ip as (kv & <- & Ikv). unfold enc_kv. simpl.
        destruct (K kv Ikv) as (K1 & K3).
        destruct (key_enc tk (fst kv) false Hkt K1) as (Js & _). unfold e in Js.
        rewrite (json_scalar_hashable _ Js), (json_scalar_yaml _ Js). simpl. apply K3.
    - (* dataclass *)
      simpl in Hser. apply andb_true_iff in Hser as [Hser Hnokey]. apply andb_true_iff in Hser as [Hfs Hnd].
      destruct v as [ | | | | | | | | | | | k' c' vfs ]; try discriminate. simpl in Ht, Hpv, Hus.
      apply andb_true_iff in Ht as [Ht Hgo]. apply andb_true_iff in Ht as [Hk Hc].
      apply String.eqb_eq in Hc. subst c'.
      assert (k' = k) by (destruct k, k'; simpl in Hk; try discriminate; reflexivity). subst k'.
      assert (A : aligned (fun t1 x => good t1 x (enc_gen sigma encf true x) /\ good t1 x (enc_gen sigma encf false x)) fs vfs).
      { clear Hnd Hnokey. revert vfs Hgo Hpv Hus. induction IH as [|f r IH1 _ IHr]; intros vfs Hgo Hpv Hus.
        - destruct vfs; [exact I | discriminate].
        - destruct f as [[[n m] d] t1]. destruct vfs as [|[[n' m'] x] vr]; [discriminate|].
          simpl in Hfs, Hpv, IH1. apply andb_true_iff in Hfs as [Hf1 Hfr]. apply andb_true_iff in Hf1 as [Hm Hs1].
          apply andb_true_iff in Hpv as [Hp1 Hpr].
          apply andb_true_iff in Hus as [Hu1 Hur].
          apply andb_true_iff in Hgo as [Hgo Hr]. apply andb_true_iff in Hgo as [Hgo Hx]. apply andb_true_iff in Hgo as [Hn Hmm].
          apply String.eqb_eq in Hn. apply fmeta_eqb_eq in Hm. apply fmeta_eqb_eq in Hmm. subst.
          simpl. split; [reflexivity|]. split; [reflexivity|]. split; [reflexivity|].
          split; [split; apply IH1; assumption | apply IHr; assumption]. }
      pose proof (aligned_names _ _ _ A) as Hnames.
      assert (Hnd' : NoDup (vnames vfs)) by (rewrite Hnames; apply str_nodupb_NoDup; exact Hnd).
      assert (Hkey : forall g, dict_get prim_eqb (PStr DC_TYPE_KEY) (entries g vfs) = None).
      { intros g. apply dict_get_fields_none. fold (vnames vfs). rewrite Hnames. apply negb_true_iff in Hnokey. exact Hnokey. }
      rewrite enc_dc_eq.
      set (b := pos || is_ser k).
      assert (Eb : (if b then PDict false (flat_map (enc_field_hooked sigma encf) vfs)
                    else PDict false (map (enc_field_generic sigma encf) vfs)) = PDict false (entries (enc_gen sigma encf b) vfs)).
      { destruct b; [rewrite (flat_hooked_plain vfs (aligned_plain _ _ _ A)); reflexivity | reflexivity]. }
      rewrite Eb. clear Eb.
      assert (Ab : aligned (fun t1 x => good t1 x (enc_gen sigma encf b x)) fs vfs).
      { eapply aligned_impl; [|exact A]. intros t1 x [G1 G2]. destruct b; assumption. }
      assert (Ej : json_rt (PDict false (entries (enc_gen sigma encf b) vfs)) =
                   PDict false (entries (fun x => json_rt (enc_gen sigma encf b x)) vfs)).
      { simpl. f_equal. unfold entries. rewrite map_map.
        rewrite fold_dict_set.
        - simpl. apply map_ext. intros [[n m] x]. reflexivity.
        - simpl. rewrite map_map.
          rewrite (map_ext _ (fun f : string * fmeta * value => PStr (match f with (n, _, _) => n end)))
            by (intros [[n m] x]; reflexivity).
          rewrite <- (map_map (fun f : string * fmeta * value => match f with (n, _, _) => n end) PStr).
          apply distinct_pstr. exact Hnd'. }
      unfold good. rewrite Ej. unfold len. simpl. repeat split.
      + exists vfs, false, (entries (enc_gen sigma encf b) vfs). repeat split; [apply Hkey|].
        apply (dc_go_from_aligned (enc_gen sigma encf b)).
        * eapply aligned_impl; [|exact Ab]. intros t1 x G. apply G.
        * intros n m x Hin. apply (dict_get_entries_some (enc_gen sigma encf b) vfs n m x Hnd' Hin).
      + exists vfs, false, (entries (fun x => json_rt (enc_gen sigma encf b x)) vfs). repeat split; [apply Hkey|].
        apply (dc_go_from_aligned (fun x => json_rt (enc_gen sigma encf b x))).
        * eapply aligned_impl; [|exact Ab]. intros t1 x G. apply G.
        * intros n m x Hin. apply (dict_get_entries_some (fun x => json_rt (enc_gen sigma encf b x)) vfs n m x Hnd' Hin).
      + apply forallb_forall. intros p Ip. apply in_map_iff in Ip as ([[n m] x] & <- & Hin). simpl.
        destruct (aligned_in _ _ _ Ab n m x Hin) as (t1 & G). apply G.
      + apply forallb_forall. intros p Ip. apply in_map_iff in Ip as ([[n m] x] & <- & Hin). simpl.
        destruct (aligned_in _ _ _ Ab n m x Hin) as (t1 & G). apply G.
  Qed.
End Roundtrip.

(* ====================================================================================================== *)
(* 7. main theorems                                                                                             *)

Section PrimInd.
  Variable P : prim -> Prop.
  Hypothesis HNone : P PNone.
  Hypothesis HBool : forall b, P (PBool b).
  Hypothesis HInt : forall z, P (PInt z).
  Hypothesis HFlt : forall r, P (PFlt r).
  Hypothesis HStr : forall s, P (PStr s).
  Hypothesis HList : forall ps, Forall P ps -> P (PList ps).
  Hypothesis HTuple : forall ps, Forall P ps -> P (PTuple ps).
  Hypothesis HDict : forall od kvs, Forall (fun kv => P (fst kv) /\ P (snd kv)) kvs -> P (PDict od kvs).
  Hypothesis HBad : P PBad.
  Fixpoint prim_ind' (p : prim) : P p :=
    match p with
    | PNone => HNone | PBool b => HBool b | PInt z => HInt z | PFlt r => HFlt r | PStr s => HStr s
    | PList ps => HList ps ((fix go (l : list prim) : Forall P l :=
                              match l with [] => Forall_nil P | x :: r => Forall_cons x (prim_ind' x) (go r) end) ps)
    | PTuple ps => HTuple ps ((fix go (l : list prim) : Forall P l :=
                                 match l with [] => Forall_nil P | x :: r => Forall_cons x (prim_ind' x) (go r) end) ps)
    | PDict od kvs => HDict od kvs ((fix go (l : list (prim * prim)) : Forall (fun kv => P (fst kv) /\ P (snd kv)) l :=
                                       match l with
                                       | [] => Forall_nil _
                                       | x :: r => Forall_cons x (conj (prim_ind' (fst x)) (prim_ind' (snd x))) (go r)
                                       end) kvs)
    | PBad => HBad
    end.
End PrimInd.

Lemma yaml_ok_no_bad : forall p, yaml_ok p = true -> has_bad p = false.
Proof.
  induction p as [ | | | | | ps IH | ps IH | od kvs IH | ] using prim_ind'; simpl; intros H; try reflexivity; try discriminate.
  - induction IH as [|x r Hx _ IHr]; simpl in *; [reflexivity|].
    apply andb_true_iff in H as [H1 H2]. rewrite (Hx H1), (IHr H2). reflexivity.
  - apply andb_true_iff in H as [_ H].
    induction IH as [|[k v] r [Hk Hv] _ IHr]; simpl in *; [reflexivity|].
    apply andb_true_iff in H as [H1 H2]. apply andb_true_iff in H1 as [H1 H3]. apply andb_true_iff in H1 as [_ H1].
    rewrite (Hk H1), (Hv H3), (IHr H2). reflexivity.
Qed.

Section Main.
  Variable sigma : list prim -> list prim.
  Variable encf : Z -> value -> prim.
  Variable decf : Z -> prim -> res value.
  Hypothesis sigma_perm : forall l, Permutation (sigma l) l.

  Definition roundtrip_domain (t : ty) (v : value) : Prop :=
    ser_type DC_TYPE_KEY t = true /\ has_type v t = true /\ plain_value v = true.

  Theorem roundtrip_all : forall t v tr,
    roundtrip_domain t v ->
    union_safe (decode_gen decf) (encode_gen sigma encf) t v = true ->
    bind (run_transport tr (to_dict_gen sigma encf v)) (decode_gen decf t) = Ok v.
  Proof.
    intros t v tr (Hs & Ht & Hp) Hu.
    destruct (enc_good sigma encf decf sigma_perm t v true Hs Ht Hp Hu) as (G1 & G2 & G3 & G4).
    change (to_dict_gen sigma encf v) with (enc_gen sigma encf true v).
    destruct tr; simpl.
    - apply lenient_decodes. exact G1.
    - unfold T_json. rewrite G3. simpl. apply lenient_decodes. exact G2.
    - unfold T_yaml. rewrite G4. simpl. apply lenient_decodes. exact G1.
    - unfold T_pickle. rewrite (yaml_ok_no_bad _ G4). simpl. apply lenient_decodes. exact G1.
  Qed.

  (* save(path) / load(path): the suffix picks the codec *)
  Theorem roundtrip_file : forall t v sfx tr,
    transport_of_suffix sfx = Some tr ->
    roundtrip_domain t v ->
    union_safe (decode_gen decf) (encode_gen sigma encf) t v = true ->
    bind (run_transport tr (to_dict_gen sigma encf v)) (decode_gen decf t) = Ok v.
  Proof. intros t v sfx tr _. apply roundtrip_all. Qed.

  Lemma suffix_table_ok :
    transport_of_suffix ".json" = Some TrJson /\ transport_of_suffix ".yaml" = Some TrYaml /\
    transport_of_suffix ".yml" = Some TrYaml /\ transport_of_suffix ".pkl" = Some TrPickle.
  Proof. vm_compute. repeat split; reflexivity. Qed.

  (* ---------- C13 hooks ---------- *)
  Theorem to_dict_keys : forall k c fs,
    dict_keys (to_dict_gen sigma encf (VDc k c fs)) = map PStr (spec_keys fs).
  Proof.
    intros k c fs. change (to_dict_gen sigma encf (VDc k c fs)) with (enc_gen sigma encf true (VDc k c fs)).
    rewrite enc_dc_eq. simpl. unfold spec_keys.
    induction fs as [|[[n m] x] r IH]; simpl; [reflexivity|].
    unfold enc_field_hooked at 1. destruct (m_incl m); simpl; [f_equal; exact IH | exact IH].
  Qed.

  Lemma lookup_absent : forall r n, ~ In n (vnames r) ->
    dict_get prim_eqb (PStr n) (flat_map (enc_field_hooked sigma encf) r) = None.
  Proof.
    induction r as [|[[n1 m1] x1] r' IHr]; intros n Hni; simpl; [reflexivity|].
    assert (Hne : String.eqb n1 n = false).
    { apply String.eqb_neq. intros ->. apply Hni. simpl. left. reflexivity. }
    destruct (m_incl m1); simpl; [rewrite Hne|]; apply IHr; intros I1; apply Hni; right; exact I1.
  Qed.

  Theorem to_dict_entry : forall k c fs n,
    NoDup (vnames fs) ->
    dict_lookup (to_dict_gen sigma encf (VDc k c fs)) n = spec_entry encf (to_dict_gen sigma encf) fs n.
  Proof.
    intros k c fs n. change (to_dict_gen sigma encf (VDc k c fs)) with (enc_gen sigma encf true (VDc k c fs)).
    rewrite enc_dc_eq. simpl. unfold spec_entry.
    induction fs as [|[[n0 m] x] r IH]; intros Hnd; simpl; [reflexivity|].
    simpl in Hnd. inversion Hnd as [|? ? Hni Hnr]; subst.
    destruct (String.eqb n0 n) eqn:E.
    - apply String.eqb_eq in E. subst n0. destruct (m_incl m); simpl.
      + rewrite String.eqb_refl. reflexivity.
      + apply lookup_absent. exact Hni.
    - destruct (m_incl m); simpl; [rewrite E|]; apply IH; exact Hnr.
  Qed.

  (* a Serializable instance inside a container is encoded by its own to_dict (metadata honoured) *)
  Theorem registered_in_container : forall c fs,
    encode_gen sigma encf (VDc KSer c fs) = to_dict_gen sigma encf (VDc KSer c fs).
  Proof. reflexivity. Qed.

  Lemma dc_go_hooks kvs : forall fs b out,
    dc_go decf kvs fs = Ok (b, out) ->
    forall n m x, In (n, m, x) out ->
    forall rawv, dict_get prim_eqb (PStr n) kvs = Some rawv ->
    match m.(m_dec) with
    | Some h => decf h rawv = Ok x
    | None => exists dflt t1, In (n, m, dflt, t1) fs /\ decode_gen decf t1 rawv = Ok x
    end.
  Proof.
    induction fs as [|[[[n0 m0] d0] t0] r IH]; intros b out E n m x Hin rawv Hget.
    - simpl in E. inversion E; subst. contradiction.
    - simpl in E.
      assert (Hrest : forall b' out', dc_go decf kvs r = Ok (b', out') -> In (n, m, x) out' ->
                match m.(m_dec) with
                | Some h => decf h rawv = Ok x
                | None => exists dflt t1, In (n, m, dflt, t1) ((n0, m0, d0, t0) :: r) /\ decode_gen decf t1 rawv = Ok x
                end).
      { intros b' out' Er Hin'. specialize (IH _ _ Er n m x Hin' rawv Hget). destruct (m_dec m) as [h|]; [exact IH|].
        destruct IH as (dflt & t1 & I1 & D1). exists dflt, t1. split; [right; exact I1 | exact D1]. }
      destruct (dict_get prim_eqb (PStr n0) kvs) as [raw0|] eqn:G0.
      + destruct (match m_dec m0 with Some h => decf h raw0 | None => decode_gen decf t0 raw0 end) as [v0|e0] eqn:D0; [|discriminate].
        destruct (dc_go decf kvs r) as [[miss' out']|er'] eqn:Er; [|discriminate].
        inversion E; subst. destruct Hin as [Hin|Hin]; [|apply (Hrest _ _ eq_refl Hin)].
        inversion Hin; subst. rewrite G0 in Hget. inversion Hget; subst.
        destruct (m_dec m) as [h|]; [exact D0|]. exists d0, t0. split; [left; reflexivity | exact D0].
      + destruct d0 as [dv|];
          (destruct (dc_go decf kvs r) as [[miss' out']|er'] eqn:Er; [|discriminate]);
          inversion E; subst; (destruct Hin as [Hin|Hin]; [|apply (Hrest _ _ eq_refl Hin)]);
          inversion Hin; subst; rewrite G0 in Hget; discriminate.
  Qed.

  Theorem from_dict_hooks : forall k c fs od kvs k' c' out,
    decode_gen decf (TDc k c fs) (PDict od kvs) = Ok (VDc k' c' out) ->
    forall n m x, In (n, m, x) out ->
    forall rawv, dict_get prim_eqb (PStr n) kvs = Some rawv ->
    match m.(m_dec) with
    | Some h => decf h rawv = Ok x
    | None => exists dflt t1, In (n, m, dflt, t1) fs /\ decode_gen decf t1 rawv = Ok x
    end.
  Proof.
    intros k c fs od kvs k' c' out H. rewrite dec_dc_eq in H.
    destruct (match dict_get prim_eqb (PStr DC_TYPE_KEY) kvs with Some _ => true | None => false end); [discriminate|].
    destruct (dc_go decf kvs fs) as [[miss out']|er] eqn:E; [|discriminate].
    destruct miss; [discriminate|]. inversion H; subst. clear H.
    apply (dc_go_hooks kvs fs false out E).
  Qed.
End Main.

(* ====================================================================================================== *)
(* 8. full-strength statements that are false of the faithful model (defects of the code), with witnesses     *)

Definition sigma_id (l : list prim) : list prim := l.
Definition sigma_rev (l : list prim) : list prim := rev l.
Lemma sigma_id_perm : forall l, Permutation (sigma_id l) l. Proof. intros l. apply Permutation_refl. Qed.
Lemma sigma_rev_perm : forall l, Permutation (sigma_rev l) l. Proof. intros l. apply Permutation_sym, Permutation_rev. Qed.
Definition no_encf (k : Z) (v : value) : prim := PNone.
Definition no_decf (k : Z) (p : prim) : res value := Err (Raise "NoHook").

(* "a value that already is an instance of one member of a Union comes back unchanged" *)
Definition union_full_statement : Prop :=
  forall ts v, forallb union_member ts = true -> has_type v (TUnion ts) = true ->
  decode_gen no_decf (TUnion ts) (encode_gen sigma_id no_encf v) = Ok v.

Theorem union_full_refuted_int_str : ~ union_full_statement.
Proof.
  intros H. specialize (H [TInt; TStr] (VStr "123") eq_refl eq_refl).
  vm_compute in H. discriminate.
Qed.
Theorem union_int_str_witness :
  decode_gen no_decf (TUnion [TInt; TStr]) (encode_gen sigma_id no_encf (VStr "123")) = Ok (VInt 123).
Proof. vm_compute. reflexivity. Qed.
Theorem union_int_float_witness :
  decode_gen no_decf (TUnion [TInt; TFloat]) (encode_gen sigma_id no_encf (VFlt "1.5")) = Ok (VInt 1).
Proof. vm_compute. reflexivity. Qed.

(* the round trip without the union_safe side condition *)
Definition roundtrip_full_statement : Prop :=
  forall t v, roundtrip_domain t v ->
  bind (run_transport TrDict (to_dict_gen sigma_id no_encf v)) (decode_gen no_decf t) = Ok v.

Definition wit_dc (t : ty) : ty := TDc KSer "A" [("x", plain_meta, None, t)].
Definition wit_val (v : value) : value := VDc KSer "A" [("x", plain_meta, v)].

Theorem roundtrip_full_refuted : ~ roundtrip_full_statement.
Proof.
  intros H. specialize (H (wit_dc (TUnion [TInt; TFloat])) (wit_val (VFlt "1.5"))).
  assert (D : roundtrip_domain (wit_dc (TUnion [TInt; TFloat])) (wit_val (VFlt "1.5"))).
  { unfold roundtrip_domain. vm_compute. repeat split; reflexivity. }
  specialize (H D). vm_compute in H. discriminate.
Qed.

(* ints beyond the float range come back unchanged (they used to end in OverflowError: _decode_int evaluated float(v)) *)
Theorem roundtrip_huge_int :
  roundtrip_domain (wit_dc TInt) (wit_val (VInt (10 ^ 400))) /\
  union_safe (decode_gen no_decf) (encode_gen sigma_id no_encf) (wit_dc TInt) (wit_val (VInt (10 ^ 400))) = true /\
  bind (run_transport TrJson (to_dict_gen sigma_id no_encf (wit_val (VInt (10 ^ 400))))) (decode_gen no_decf (wit_dc TInt))
  = Ok (wit_val (VInt (10 ^ 400))).
Proof. unfold roundtrip_domain. vm_compute. repeat split; reflexivity. Qed.

(* C13: primitives only — false for an OrderedDict value and for a dict keyed by tuples *)
Theorem primitive_ordered_dict_refuted :
  exists t v, has_type v t = true /\ plain_type t = true /\ prim_only (to_dict_gen sigma_id no_encf v) = false.
Proof.
  exists (wit_dc (TDict TStr TInt)), (wit_val (VDict true [(VStr "a", VInt 1)])). vm_compute. repeat split; reflexivity.
Qed.
Theorem primitive_tuple_keys_refuted :
  exists t v, has_type v t = true /\ plain_value v = true /\ prim_only (to_dict_gen sigma_id no_encf v) = false
              /\ to_dict_gen sigma_id no_encf v = PDict false [(PStr "x", PList [PTuple [PList [PInt 1; PInt 2]; PInt 3]])].
Proof.
  exists (wit_dc (TDict (TTup [TInt; TInt]) TInt)), (wit_val (VDict false [(VTup [VInt 1; VInt 2], VInt 3)])).
  vm_compute. repeat split; reflexivity.
Qed.

(* C13: equal instances, equal output — only for a fixed iteration order of sets *)
Theorem function_of_value : forall sigma encf v w, v = w -> to_dict_gen sigma encf v = to_dict_gen sigma encf w.
Proof. intros sigma encf v w ->. reflexivity. Qed.
Theorem function_across_orders_refuted :
  exists v s1 s2, (forall l, Permutation (s1 l) l) /\ (forall l, Permutation (s2 l) l) /\
                  has_type v (wit_dc (TSet TInt)) = true /\
                  to_dict_gen s1 no_encf v <> to_dict_gen s2 no_encf v.
Proof.
  exists (wit_val (VSet [VInt 0; VInt 8])), sigma_id, sigma_rev.
  split; [apply sigma_id_perm|]. split; [apply sigma_rev_perm|]. split; [vm_compute; reflexivity|].
  vm_compute. discriminate.
Qed.

(* C13: per-field metadata inside containers — honoured for registered (Serializable) classes only *)
Definition container_hooks_statement : Prop :=
  forall k c fs, dict_keys (encode_gen sigma_id no_encf (VDc k c fs)) = map PStr (spec_keys fs).
Theorem container_hooks_refuted : ~ container_hooks_statement.
Proof.
  intros H. specialize (H KPlain "P" [("a", plain_meta, VInt 1); ("h", mkmeta false None None, VInt 2)]).
  vm_compute in H. discriminate.
Qed.
Theorem container_hooks_registered : forall sigma encf c fs,
  dict_keys (encode_gen sigma encf (VDc KSer c fs)) = map PStr (spec_keys fs).
Proof. intros. rewrite registered_in_container. apply to_dict_keys. Qed.

(* ====================================================================================================== *)
(* 9. facts added by the tie audit                                                                            *)

(* from_dict works on a copy: the caller's dict is what it was (the DC_TYPE_KEY entries included) *)
Theorem from_dict_leaves_argument : forall p, from_dict_arg_after FROM_DICT_POP DC_TYPE_KEY p = p.
Proof. intros p. reflexivity. Qed.

Theorem from_dict_none : forall decf k c fs, decode_gen decf (TDc k c fs) PNone = Ok VNone.
Proof. intros decf k c fs. destruct k; reflexivity. Qed.

Lemma api_table_ok :
  transport_of_api "dict" = Some TrDict /\ transport_of_api "json" = Some TrJson /\ transport_of_api "yaml" = Some TrYaml.
Proof. vm_compute. repeat split; reflexivity. Qed.

(* the three metadata keys are written by field() and read back: the effective hooks are the declared ones *)
Lemma hooks_wired_ok : forall m,
  eff_incl HOOKS_WIRED m = m.(m_incl) /\ eff_enc HOOKS_WIRED m = m.(m_enc) /\ eff_dec HOOKS_WIRED m = m.(m_dec).
Proof. intros m. repeat split; reflexivity. Qed.
