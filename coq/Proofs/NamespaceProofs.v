(* Proofs/NamespaceProofs.v — order independence of distinct options; unmentioned destinations keep their value. *)
From Coq Require Import Permutation.
From SPV Require Import Base.Str Model.Namespace.

Section P.
  Variable V : Type.
  Implicit Types n : ns V.

  Lemma lookup_set n d v d' :
    lookup d' (set_ns n d v) = if String.eqb d d' then Some v else lookup d' n.
  Proof.
    induction n as [|[k x] r IH]; simpl.
    - reflexivity.
    - destruct (String.eqb k d) eqn:E; simpl.
      + apply String.eqb_eq in E. subst k. destruct (String.eqb d d'); reflexivity.
      + rewrite IH. destruct (String.eqb k d') eqn:E2; [|reflexivity].
        apply String.eqb_eq in E2. subst k. rewrite String.eqb_sym, E. reflexivity.
  Qed.

  Lemma lookup_apply_notin occs : forall n d,
    ~ In d (map fst occs) -> lookup d (apply_all occs n) = lookup d n.
  Proof.
    induction occs as [|[k v] r IH]; intros n d H; simpl in *; [reflexivity|].
    change (apply_all ((k, v) :: r) n) with (apply_all r (set_ns n k v)). rewrite IH by tauto. rewrite lookup_set.
    destruct (String.eqb k d) eqn:E; [|reflexivity]. apply String.eqb_eq in E. exfalso. apply H. now left.
  Qed.

  (* a destination written exactly once ends up with the written value, wherever it stands in the command line *)
  Lemma lookup_apply_in occs : forall n d v,
    NoDup (map fst occs) -> In (d, v) occs -> lookup d (apply_all occs n) = Some v.
  Proof.
    induction occs as [|[k x] r IH]; intros n d v N H; simpl in *; [contradiction|].
    inversion N as [|? ? Hk Hr]; subst. destruct H as [H|H].
    - injection H as -> ->. change (apply_all ((d, v) :: r) n) with (apply_all r (set_ns n d v)).
      rewrite (lookup_apply_notin r _ d Hk). rewrite lookup_set, String.eqb_refl. reflexivity.
    - change (apply_all ((k, x) :: r) n) with (apply_all r (set_ns n k x)). apply IH; assumption.
  Qed.

  (* C02: the result does not depend on the order in which the options appear *)
  Theorem order_independent occs occs' n d :
    NoDup (map fst occs) -> Permutation occs occs' ->
    lookup d (apply_all occs n) = lookup d (apply_all occs' n).
  Proof.
    intros N P.
    assert (N' : NoDup (map fst occs')) by (eapply Permutation_NoDup; [apply Permutation_map; exact P | exact N]).
    destruct (in_dec string_dec d (map fst occs)) as [Hin|Hnin].
    - apply in_map_iff in Hin as [[k v] [E Hin]]. simpl in E. subst k.
      rewrite (lookup_apply_in occs n d v N Hin).
      symmetry. apply lookup_apply_in; [exact N'|]. eapply Permutation_in; eauto.
    - rewrite (lookup_apply_notin occs n d Hnin). symmetry. apply lookup_apply_notin.
      intros H. apply Hnin. eapply Permutation_in; [apply Permutation_sym, Permutation_map; exact P | exact H].
  Qed.

  (* C02: every field not mentioned keeps its default *)
  Theorem unmentioned_keeps_default occs n d :
    ~ In d (map fst occs) -> lookup d (apply_all occs n) = lookup d n.
  Proof. apply lookup_apply_notin. Qed.

  Theorem mentioned_gets_value occs n d v :
    NoDup (map fst occs) -> In (d, v) occs -> lookup d (apply_all occs n) = Some v.
  Proof. apply lookup_apply_in. Qed.
End P.
