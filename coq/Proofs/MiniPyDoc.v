(* Proofs/MiniPyDoc.v — regenerated source (Gen/FactsDocSrc.v) of the line scanner of simple_parsing/docstring.py against the
   hand model Model/DocScan.v instantiated with the regenerated facts (Gen/FactsDoc.v). *)
From SPV Require Import Base.Str Model.DocScan Gen.FactsDoc.
From SPV Require Import Model.MiniPy Gen.FactsDocSrc Proofs.MiniPyLemmas.

Ltac ops := cbn [op_attr op_getattr op_hasattr op_vars op_getitem op_dictget op_copy op_keys op_values op_items op_zip op_splitdest
                   op_isconst bind2 st_unpack st_setpath st_popattr st_pop st_delattr op_strip op_isident].
Ltac hy := repeat match goal with H : lookup ?x ?r = Some _ |- context [lookup ?x ?r] => rewrite H end.
Ltac fin := repeat (progress (lk; hy; cbv beta iota; ops; cbv beta iota)).
Ltac nx :=
  rewrite exec_block_cons;
  first [rewrite exec_assign | rewrite exec_if | rewrite exec_return | rewrite exec_assert | rewrite exec_raise
        | rewrite exec_append' | rewrite exec_unpack];
  cbn [eval]; lk.
Ltac go := nx; fin.
Ltac unp := cbn [seq_items List.length Nat.eqb combine fold_left fst snd].

(* ---------- the string primitives of the interpreter are those of the model ---------- *)
Lemma skip_eq : forall n s, skip_chars n s = skip_n n s.
Proof. induction n; destruct s; cbn; auto. Qed.
Lemma split_first_eq tok : forall s, MiniPy.split_first tok s = DocScan.split_first tok s.
Proof. induction s as [|a r IH]; [reflexivity|]. cbn [MiniPy.split_first DocScan.split_first]. rewrite IH, skip_eq. reflexivity. Qed.
Lemma is_ident_eq s : MiniPy.is_ident s = DocScan.is_ident s.
Proof. reflexivity. Qed.
Lemma contains_eq tok s : tok <> "" -> MiniPy.contains tok s = DocScan.contains tok s.
Proof.
  intros NE. unfold DocScan.contains. induction s as [|a r IH].
  - destruct tok; [congruence|reflexivity].
  - cbn [MiniPy.contains DocScan.split_first]. destruct (prefixb tok (String a r)); [reflexivity|]. cbn [orb]. rewrite IH.
    destruct (DocScan.split_first tok r) as [[]|]; reflexivity.
Qed.

Lemma split_first_char c : forall s,
  MiniPy.split_first (String c "") s = match after_char c s with Some a => Some (before_char c s, a) | None => None end.
Proof.
  induction s as [|a r IH]; [reflexivity|]. cbn [MiniPy.split_first prefixb after_char before_char String.length skip_chars].
  rewrite (Ascii.eqb_sym c a). destruct (Ascii.eqb a c) eqn:E; cbn [andb].
  - reflexivity.
  - rewrite IH. destruct (after_char c r); reflexivity.
Qed.
Lemma after_char_has c : forall s, after_char c s = None -> has_char c s = false /\ before_char c s = s.
Proof.
  induction s as [|a r IH]; [auto|]. cbn [after_char has_char before_char]. destruct (Ascii.eqb a c); [discriminate|].
  intros H. destruct (IH H) as [A B]. rewrite B. auto.
Qed.
Lemma after_char_has' c : forall s a, after_char c s = Some a -> has_char c s = true.
Proof. induction s as [|x r IH]; [discriminate|]. cbn [after_char has_char]. destruct (Ascii.eqb x c); [reflexivity|]. intros a. apply IH. Qed.

Lemma partition_char c s :
  op_partition (String c "") (Ok (VS s))
  = Ok (VT [VS (before_char c s); VS (if has_char c s then String c "" else ""); VS (match after_char c s with Some a => a | None => "" end)]).
Proof.
  unfold op_partition. rewrite split_first_char. destruct (after_char c s) as [a|] eqn:E.
  - rewrite (after_char_has' c s a E). reflexivity.
  - destruct (after_char_has c s E) as [H B]. rewrite H, B. reflexivity.
Qed.
Lemma eval_partition r a c : eval r (EPartition a (String c "")) = op_partition (String c "") (eval r a).
Proof. reflexivity. Qed.
Lemma eval_in_char r c a s : eval r a = Ok (VS s) -> eval r (EIn (EStr (String c "")) a) = Ok (VB (has_char c s)).
Proof. intros H. cbn [eval]. rewrite H. reflexivity. Qed.

(* ---------- _contains_field_definition ---------- *)
Theorem contains_field_definition_is_model line :
  run [("line", VS line)] contains_field_definition_src = Ok (VB (contains_def_gen line)).
Proof.
  unfold run, contains_field_definition_src, contains_def_gen, contains_def, HASH, COLON, EQUALS.
  rewrite exec_block_cons, exec_unpack, eval_partition. cbn [eval lookup String.eqb Ascii.eqb Bool.eqb]. rewrite partition_char.
  cbn [st_unpack]. unp.
  set (l1 := before_char "#" line).
  go. destruct (has_char ":" l1); cbn [negb truthy]; [|go; reflexivity].
  rewrite exec_block_nil. go.
  destruct (has_char "=" l1); cbn [truthy].
  - rewrite exec_block_cons, exec_unpack, eval_partition. cbn [eval]. lk. rewrite partition_char. cbn [st_unpack]. unp. rewrite exec_block_nil.
    set (at_ := before_char "=" l1).
    rewrite exec_block_cons, exec_unpack, eval_partition. cbn [eval]. lk. rewrite partition_char. cbn [st_unpack]. unp.
    go. go. destruct (has_char ":" match after_char ":" at_ with Some a => a | None => "" end); cbn [truthy]; [go; reflexivity|].
    rewrite exec_block_nil. go.
    destruct (strip (before_char ":" at_)) as [|c0 rest] eqn:FN; cbn [truthy negb String.eqb]; [go; reflexivity|].
    rewrite exec_block_nil. go. reflexivity.
  - go. rewrite exec_block_nil.
    rewrite exec_block_cons, exec_unpack, eval_partition. cbn [eval]. lk. rewrite partition_char. cbn [st_unpack]. unp.
    go. go. destruct (has_char ":" match after_char ":" l1 with Some a => a | None => "" end); cbn [truthy]; [go; reflexivity|].
    rewrite exec_block_nil. go.
    destruct (strip (before_char ":" l1)) as [|c0 rest] eqn:FN; cbn [truthy negb String.eqb]; [go; reflexivity|].
    rewrite exec_block_nil. go. reflexivity.
Qed.

(* a call t = f(..) of a dumped helper whose body is known to compute v *)
Lemma callret_run r t body ins r0 v :
  bind_ins r ins [] = Ok r0 -> run r0 body = Ok v -> exec r (SCallRet t body ins []) = Ok (assign t v r, None).
Proof.
  intros B R. rewrite exec_callret, B. unfold run in R.
  destruct (exec_block r0 body) as [[r1 [w|]]|]; inversion R; subst; reflexivity.
Qed.
Lemma callret_err r t body ins r0 z :
  bind_ins r ins [] = Ok r0 -> run r0 body = Err z -> exec r (SCallRet t body ins []) = Err z.
Proof.
  intros B R. rewrite exec_callret, B. unfold run in R.
  destruct (exec_block r0 body) as [[r1 [w|]]|]; inversion R; subst; reflexivity.
Qed.

(* ---------- _is_empty, _is_comment ---------- *)
Theorem is_empty_is_model line : run [("line_str", VS line)] is_empty_src = Ok (VB (String.eqb (strip line) "")).
Proof. reflexivity. Qed.
Theorem is_comment_is_model line : run [("line_str", VS line)] is_comment_src = Ok (VB (prefixb "#" (strip line))).
Proof. reflexivity. Qed.

(* ---------- _split_at_comment ---------- *)
Definition enc_quote (q : option ascii) : val := match q with Some c => VS (String c "") | None => VNone end.
Definition enc_split (line : string) (o : option (string * string)) : val :=
  match o with Some (a, b) => VT [VS a; VS b] | None => VT [VS line; VNone] end.

Lemma length_app a b : String.length (a ++ b) = String.length a + String.length b.
Proof. induction a; cbn; auto. Qed.
Lemma get_app pre c s : String.get (String.length pre) (pre ++ String c s) = Some c.
Proof. induction pre; cbn; auto. Qed.
Lemma substring_pre pre s : String.substring 0 (String.length pre) (pre ++ s) = pre.
Proof. induction pre as [|a p IH]; cbn; [destruct s; reflexivity|]. rewrite IH. reflexivity. Qed.
Lemma substring_all s : String.substring 0 (String.length s) s = s.
Proof. induction s as [|a p IH]; cbn; [reflexivity|]. rewrite IH. reflexivity. Qed.
Lemma substring_post pre s : String.substring (String.length pre) (String.length s) (pre ++ s) = s.
Proof. induction pre as [|a p IH]; cbn; [apply substring_all | exact IH]. Qed.
Lemma app_assoc_s (a b c : string) : (a ++ b) ++ c = a ++ (b ++ c).
Proof. induction a; cbn; congruence. Qed.
Lemma app_empty_r (a : string) : a ++ "" = a.
Proof. induction a; cbn; congruence. Qed.
Lemma app_char pre c s : pre ++ String c s = (pre ++ String c "") ++ s.
Proof. rewrite app_assoc_s. reflexivity. Qed.

Definition sac_body : list stmt :=
  [SAssign "char" (EGetItem (EVar "line") (EVar "i")); SIf (ENot (EIsNone (EVar "quote"))) [SIf (EEq (EVar "char") (EStr "\")) [SAssign "i" (EAdd (EVar "i") (ENat 1))] [SIf (EEq (EVar "char") (EVar "quote")) [SAssign "quote" ENone] []]] [SIf (EOr (EEq (EVar "char") (EStr """")) (EEq (EVar "char") (EStr "'"))) [SAssign "quote" (EVar "char")] [SIf (EEq (EVar "char") (EStr "#")) [SReturn (ETuple [(ESlice (EVar "line") None (Some (EVar "i"))); (ESlice (EVar "line") (Some (EAdd (EVar "i") (ENat 1))) None)])] []]]; SAssign "i" (EAdd (EVar "i") (ENat 1))].
Definition sac_test : expr := EGt (ELen (EVar "line")) (EVar "i").

Definition sac_inv (r : env) (pre s : string) (q : option ascii) : Prop :=
  lookup "line" r = Some (VS (pre ++ s)) /\ lookup "i" r = Some (VN (String.length pre)) /\ lookup "quote" r = Some (enc_quote q).

(* one character: what the body does, by the regenerated decision chain split_step_gen *)
Lemma sac_step r pre c s q :
  sac_inv r pre (String c s) q ->
  match split_step_gen q c with
  | DocScan.SReturn => exists r', exec_block r sac_body = Ok (r', Some (VT [VS pre; VS s]))
  | SSkipNext => exists r', exec_block r sac_body = Ok (r', None)
                            /\ lookup "line" r' = Some (VS (pre ++ String c s)) /\ lookup "i" r' = Some (VN (String.length pre + 2))
                            /\ lookup "quote" r' = Some (enc_quote q)
  | SQuote q' => exists r', exec_block r sac_body = Ok (r', None) /\ sac_inv r' (pre ++ String c "") s q'
  | SKeep => exists r', exec_block r sac_body = Ok (r', None) /\ sac_inv r' (pre ++ String c "") s q
  end.
Proof.
  intros [HL [HI HQ]]. unfold sac_body.
  rewrite exec_block_cons, exec_assign. cbn [eval]. rewrite HL, HI. cbn [op_getitem bind2]. rewrite get_app.
  set (r1 := assign "char" (VS (String c "")) r).
  assert (KL : lookup "line" r1 = Some (VS (pre ++ String c s))) by (unfold r1; lk; exact HL).
  assert (KI : lookup "i" r1 = Some (VN (String.length pre))) by (unfold r1; lk; exact HI).
  assert (KQ : lookup "quote" r1 = Some (enc_quote q)) by (unfold r1; lk; exact HQ).
  assert (KC : lookup "char" r1 = Some (VS (String c ""))) by (unfold r1; lk; reflexivity).
  clearbody r1.
  assert (LEN : forall p, String.length (p ++ String c "") = String.length p + 1) by (intros; rewrite length_app; reflexivity).
  assert (INV : forall r2 q2, lookup "line" r2 = Some (VS (pre ++ String c s)) -> lookup "i" r2 = Some (VN (String.length pre + 1)) ->
                              lookup "quote" r2 = Some (enc_quote q2) -> sac_inv r2 (pre ++ String c "") s q2).
  { intros r2 q2 A B C. unfold sac_inv. rewrite <- app_char, LEN. auto. }
  rewrite exec_block_cons, exec_if. cbn [eval]. rewrite KQ.
  destruct q as [qc|]; cbn [enc_quote split_step_gen negb truthy].
  - (* inside a string literal *)
    rewrite exec_block_cons, exec_if. cbn [eval]. rewrite KC. cbn [val_eqb String.eqb]. 
    replace (if Ascii.eqb c "\" then true else false) with (Ascii.eqb c "\"%char) by (destruct (Ascii.eqb c "\"); reflexivity).
    destruct (Ascii.eqb c "\"%char) eqn:E1; cbn [truthy].
    + go. repeat (rewrite exec_block_nil; cbv beta iota). go. rewrite exec_block_nil. eexists. split; [reflexivity|]. repeat split; lk; hy; try reflexivity.
      f_equal. f_equal. rewrite <- Nat.add_assoc. reflexivity.
    + rewrite exec_block_cons, exec_if. cbn [eval]. rewrite KC, KQ. cbn [enc_quote val_eqb String.eqb].
      replace (if Ascii.eqb c qc then true else false) with (Ascii.eqb c qc) by (destruct (Ascii.eqb c qc); reflexivity).
      destruct (Ascii.eqb c qc); cbn [truthy].
      * go. repeat (rewrite exec_block_nil; cbv beta iota). go. rewrite exec_block_nil. eexists. split; [reflexivity|]. apply INV; lk; hy; reflexivity.
      * repeat (rewrite exec_block_nil; cbv beta iota). go. rewrite exec_block_nil. eexists. split; [reflexivity|]. apply INV; lk; hy; reflexivity.
  - (* outside *)
    rewrite exec_block_cons, exec_if. cbn [eval]. rewrite KC. cbn [val_eqb String.eqb truthy].
    replace (if Ascii.eqb c """" then true else false) with (Ascii.eqb c """"%char) by (destruct (Ascii.eqb c """"); reflexivity).
    replace (if Ascii.eqb c "'" then true else false) with (Ascii.eqb c "'"%char) by (destruct (Ascii.eqb c "'"); reflexivity).
    destruct (Ascii.eqb c """"%char) eqn:E1; cbn [truthy orb].
    + go. repeat (rewrite exec_block_nil; cbv beta iota). go. rewrite exec_block_nil. eexists. split; [reflexivity|]. apply (INV _ (Some c)); lk; hy; reflexivity.
    + destruct (Ascii.eqb c "'"%char) eqn:E2; cbn [truthy].
      * go. repeat (rewrite exec_block_nil; cbv beta iota). go. rewrite exec_block_nil. eexists. split; [reflexivity|]. apply (INV _ (Some c)); lk; hy; reflexivity.
      * rewrite exec_block_cons, exec_if. cbn [eval]. rewrite KC. cbn [val_eqb String.eqb].
        replace (if Ascii.eqb c "#" then true else false) with (Ascii.eqb c "#"%char) by (destruct (Ascii.eqb c "#"); reflexivity).
        destruct (Ascii.eqb c "#"%char); cbn [truthy].
        -- rewrite exec_block_cons, exec_return. cbn [eval]. rewrite KL, KI. cbn [op_slice].
           rewrite Nat.sub_0_r, substring_pre.
           replace (String.length (pre ++ String c s) - (String.length pre + 1)) with (String.length s)
             by (rewrite length_app; cbn [String.length]; lia).
           rewrite app_char, <- LEN, substring_post. eexists. reflexivity.
        -- repeat (rewrite exec_block_nil; cbv beta iota). go. rewrite exec_block_nil. eexists. split; [reflexivity|]. apply (INV _ None); lk; hy; reflexivity.
Qed.

Lemma sac_test_eval r pre s q : sac_inv r pre s q -> eval r sac_test = Ok (VB (Nat.ltb (String.length pre) (String.length (pre ++ s)))).
Proof. intros [HL [HI _]]. unfold sac_test. cbn [eval]. rewrite HL, HI. reflexivity. Qed.

Lemma sac_loop : forall fuel s pre q r, String.length s <= fuel -> sac_inv r pre s q ->
  match split_run split_step_gen s q false with
  | Some (a, b) => exists r', while_loop fuel (fun r => eval r sac_test) (fun r => exec_block r sac_body) r = Ok (r', Some (VT [VS (pre ++ a); VS b]))
  | None => exists r', while_loop fuel (fun r => eval r sac_test) (fun r => exec_block r sac_body) r = Ok (r', None)
                       /\ lookup "line" r' = Some (VS (pre ++ s))
  end.
Proof.
  induction fuel as [|k IH]; intros s pre q r LE INV.
  - destruct s; [|cbn in LE; lia]. cbn [split_run while_loop]. rewrite (sac_test_eval r pre "" q INV).
    rewrite length_app. cbn [String.length]. rewrite Nat.add_0_r, Nat.ltb_irrefl. cbn [truthy]. exists r. split; [reflexivity|apply INV].
  - destruct s as [|c s'].
    + cbn [split_run while_loop]. rewrite (sac_test_eval r pre "" q INV).
      rewrite length_app. cbn [String.length]. rewrite Nat.add_0_r, Nat.ltb_irrefl. cbn [truthy]. exists r. split; [reflexivity|apply INV].
    + cbn [while_loop]. rewrite (sac_test_eval r pre _ q INV).
      assert (LT : Nat.ltb (String.length pre) (String.length (pre ++ String c s')) = true)
        by (apply Nat.ltb_lt; rewrite length_app; cbn [String.length]; lia).
      rewrite LT. cbn [truthy].
      pose proof (sac_step r pre c s' q INV) as ST. cbn [split_run]. cbn [String.length] in LE.
      destruct (split_step_gen q c) as [| |q'|].
      * destruct ST as [r' E]. rewrite E. cbn [is_cont is_brk]. exists r'. rewrite (app_empty_r pre). reflexivity.
      * destruct ST as [r' [E [L1 [L2 L3]]]]. rewrite E.
        destruct s' as [|c' s''].
        -- cbn [split_run pre_char]. exists r'. split; [|exact L1].
           destruct k; cbn [while_loop]; unfold sac_test; cbn [eval]; rewrite L1, L2;
             (replace (Nat.ltb (String.length pre + 2) (String.length (pre ++ String c ""))) with false
                by (symmetry; apply Nat.ltb_ge; rewrite length_app; cbn [String.length]; lia)); reflexivity.
        -- cbn [split_run]. cbn [String.length] in LE.
           assert (INV2 : sac_inv r' (pre ++ String c (String c' "")) s'' q).
           { unfold sac_inv. rewrite app_assoc_s. cbn [append]. rewrite length_app. cbn [String.length]. auto. }
           specialize (IH s'' (pre ++ String c (String c' "")) q r' ltac:(lia) INV2).
           destruct (split_run split_step_gen s'' q false) as [[a b]|]; cbn [pre_char].
           ++ destruct IH as [r2 E2]. exists r2. rewrite E2, app_assoc_s. reflexivity.
           ++ destruct IH as [r2 [E2 L]]. exists r2. split; [exact E2|]. rewrite L, app_assoc_s. reflexivity.
      * destruct ST as [r' [E INV2]]. rewrite E.
        specialize (IH s' (pre ++ String c "") q' r' ltac:(lia) INV2).
        destruct (split_run split_step_gen s' q' false) as [[a b]|]; cbn [pre_char].
        -- destruct IH as [r2 E2]. exists r2. rewrite E2, app_assoc_s. reflexivity.
        -- destruct IH as [r2 [E2 L]]. exists r2. split; [exact E2|]. rewrite L, app_assoc_s. reflexivity.
      * destruct ST as [r' [E INV2]]. rewrite E.
        specialize (IH s' (pre ++ String c "") q r' ltac:(lia) INV2).
        destruct (split_run split_step_gen s' q false) as [[a b]|]; cbn [pre_char].
        -- destruct IH as [r2 E2]. exists r2. rewrite E2, app_assoc_s. reflexivity.
        -- destruct IH as [r2 [E2 L]]. exists r2. split; [exact E2|]. rewrite L, app_assoc_s. reflexivity.
Qed.

Lemma split_at_comment_shape :
  split_at_comment_src = [SAssign "quote" ENone; SAssign "i" (ENat 0); SWhile doc_while_fuel sac_test sac_body; SReturn (ETuple [EVar "line"; ENone])].
Proof. reflexivity. Qed.

Theorem split_at_comment_is_model line :
  String.length line <= doc_while_fuel ->
  run [("line", VS line)] split_at_comment_src = Ok (enc_split line (split_run split_step_gen line None false)).
Proof.
  intros LE. rewrite split_at_comment_shape. unfold run.
  go. go. rewrite exec_block_cons, exec_while.
  match goal with |- context [while_loop _ _ _ ?r1] =>
    pose proof (sac_loop doc_while_fuel line "" None r1 LE) as L end.
  destruct (split_run split_step_gen line None false) as [[a b]|]; cbn [enc_split].
  - destruct L as [r' E]; [repeat split; lk; reflexivity|]. rewrite E. reflexivity.
  - destruct L as [r' [E K]]; [repeat split; lk; reflexivity|]. rewrite E. go. reflexivity.
Qed.

(* ---------- calls of the helpers ---------- *)
Lemma call_cfd r t e l : eval r e = Ok (VS l) ->
  exec r (SCallRet t contains_field_definition_src [("line", e)] []) = Ok (assign t (VB (contains_def_gen l)) r, None).
Proof. intros H. apply callret_run with (r0 := [("line", VS l)]); [cbn [bind_ins]; rewrite H; reflexivity | apply contains_field_definition_is_model]. Qed.
Lemma call_is_empty r t e l : eval r e = Ok (VS l) ->
  exec r (SCallRet t is_empty_src [("line_str", e)] []) = Ok (assign t (VB (String.eqb (strip l) "")) r, None).
Proof. intros H. apply callret_run with (r0 := [("line_str", VS l)]); [cbn [bind_ins]; rewrite H; reflexivity | apply is_empty_is_model]. Qed.
Lemma call_is_comment r t e l : eval r e = Ok (VS l) ->
  exec r (SCallRet t is_comment_src [("line_str", e)] []) = Ok (assign t (VB (prefixb "#" (strip l))) r, None).
Proof. intros H. apply callret_run with (r0 := [("line_str", VS l)]); [cbn [bind_ins]; rewrite H; reflexivity | apply is_comment_is_model]. Qed.
Lemma call_sac r t e l : eval r e = Ok (VS l) -> String.length l <= doc_while_fuel ->
  exec r (SCallRet t split_at_comment_src [("line", e)] []) = Ok (assign t (enc_split l (split_run split_step_gen l None false)) r, None).
Proof. intros H LE. apply callret_run with (r0 := [("line", VS l)]); [cbn [bind_ins]; rewrite H; reflexivity | apply split_at_comment_is_model; exact LE]. Qed.

(* ---------- _line_contains_definition_for ---------- *)
Lemma lcdf_shape :
  line_contains_definition_for_src =
  [SAssign "line" (EStrip (EVar "line"));
   SCallRet "_contains_field_definition#1" contains_field_definition_src [("line", EVar "line")] [];
   SIf (ENot (EVar "_contains_field_definition#1")) [SReturn (EBool false)] [];
   SUnpack ["attribute"; "_"; "type_and_value_assignment"] (EPartition (EVar "line") ":");
   SAssign "attribute" (EStrip (EVar "attribute"));
   SReturn (EAnd (EIsIdent (EVar "attribute")) (EEq (EVar "attribute") (EVar "field_name")))].
Proof. reflexivity. Qed.

Theorem line_contains_definition_for_is_model line f :
  run [("line", VS line); ("field_name", VS f)] line_contains_definition_for_src
  = Ok (VB (match def_name HASH COLON EQUALS line with Some n => String.eqb n f | None => false end)).
Proof.
  rewrite lcdf_shape. unfold run, def_name. fold contains_def_gen. unfold COLON.
  assert (H1 : lookup "line" [("line", VS line); ("field_name", VS f)] = Some (VS line)) by reflexivity.
  assert (H2 : lookup "field_name" [("line", VS line); ("field_name", VS f)] = Some (VS f)) by reflexivity.
  set (r0 := [("line", VS line); ("field_name", VS f)]) in *. clearbody r0.
  go. rewrite exec_block_cons, (call_cfd _ _ _ (strip line)) by (cbn [eval]; lk; hy; reflexivity).
  go. destruct (contains_def_gen (strip line)); cbn [negb truthy]; [|go; reflexivity].
  rewrite exec_block_nil.
  rewrite exec_block_cons, exec_unpack, eval_partition. cbn [eval]. lk. rewrite partition_char. cbn [st_unpack]. unp.
  go. go. rewrite is_ident_eq. destruct (DocScan.is_ident (strip (before_char ":" (strip line)))); reflexivity.
Qed.

(* ---------- _get_comment_at_line ---------- *)
Lemma gcal_shape :
  get_comment_at_line_src =
  [SAssign "line_str" (EGetItem (EVar "code_lines") (EVar "line"));
   SCallRet "_contains_field_definition#1" contains_field_definition_src [("line", EVar "line_str")] [];
   SAssert (ENot (EVar "_contains_field_definition#1"));
   SIf (ENot (EIn (EStr "#") (EVar "line_str"))) [SReturn (EStr "")] [];
   SAssign "parts" (ESplitN (EVar "line_str") (EStr "#") 1);
   SAssign "comment" (EStrip (EIndex (EVar "parts") 1));
   SReturn (EVar "comment")].
Proof. reflexivity. Qed.

Lemma nth_map_VS lines n : nth_error (map VS lines) n = option_map VS (nth_error lines n).
Proof. apply nth_error_map. Qed.

Theorem get_comment_at_line_is_model lines n :
  run [("code_lines", VL (map VS lines)); ("line", VN n)] get_comment_at_line_src
  = match nth_error lines n with
    | None => Err (Raise "IndexError")
    | Some l => if contains_def_gen l then Err (Raise "AssertionError") else Ok (VS (comment_of HASH l))
    end.
Proof.
  rewrite gcal_shape. unfold run, comment_of, HASH.
  assert (H1 : lookup "code_lines" [("code_lines", VL (map VS lines)); ("line", VN n)] = Some (VL (map VS lines))) by reflexivity.
  assert (H2 : lookup "line" [("code_lines", VL (map VS lines)); ("line", VN n)] = Some (VN n)) by reflexivity.
  set (r0 := [("code_lines", VL (map VS lines)); ("line", VN n)]) in *. clearbody r0.
  go. rewrite nth_map_VS. destruct (nth_error lines n) as [l|]; cbn [option_map]; [|reflexivity].
  rewrite exec_block_cons, (call_cfd _ _ _ l) by (cbn [eval]; lk; hy; reflexivity).
  go. destruct (contains_def_gen l); cbn [negb truthy]; [reflexivity|].
  go. destruct (after_char "#" l) as [a|] eqn:E.
  - rewrite (after_char_has' _ _ _ E). cbn [negb truthy]. rewrite exec_block_nil.
    rewrite exec_block_cons, exec_assign. cbn [eval]. lk. cbn [op_splitn bind2 split_n]. rewrite split_first_char, E. cbn [map].
    go. cbn [nth_error]. fin. go. reflexivity.
  - destruct (after_char_has _ _ E) as [H _]. rewrite H. cbn [negb truthy]. go. reflexivity.
Qed.

(* ---------- _get_inline_comment_at_line ---------- *)
Lemma gical_shape :
  get_inline_comment_at_line_src =
  [SAssert (EAnd (ENot (EGt (ENat 0) (EVar "line"))) (EGt (ELen (EVar "code_lines")) (EVar "line")));
   SCallRet "_contains_field_definition#1" contains_field_definition_src [("line", EGetItem (EVar "code_lines") (EVar "line"))] [];
   SAssert (EVar "_contains_field_definition#1");
   SAssign "line_str" (EGetItem (EVar "code_lines") (EVar "line"));
   SCallRet "_split_at_comment#2" split_at_comment_src [("line", EVar "line_str")] [];
   SUnpack ["_"; "comment"] (EVar "_split_at_comment#2");
   SIf (EIsNone (EVar "comment")) [SReturn (EStr "")] [];
   SReturn (EStrip (EVar "comment"))].
Proof. reflexivity. Qed.

Theorem get_inline_comment_at_line_is_model lines n :
  Forall (fun l => String.length l <= doc_while_fuel) lines ->
  run [("code_lines", VL (map VS lines)); ("line", VN n)] get_inline_comment_at_line_src
  = match nth_error lines n with
    | None => Err (Raise "AssertionError")                    (* assert 0 <= line < len(code_lines) *)
    | Some l => if contains_def_gen l then Ok (VS (inline_of split_step_gen l)) else Err (Raise "AssertionError")
    end.
Proof.
  intros FA. rewrite gical_shape. unfold run, inline_of.
  assert (H1 : lookup "code_lines" [("code_lines", VL (map VS lines)); ("line", VN n)] = Some (VL (map VS lines))) by reflexivity.
  assert (H2 : lookup "line" [("code_lines", VL (map VS lines)); ("line", VN n)] = Some (VN n)) by reflexivity.
  set (r0 := [("code_lines", VL (map VS lines)); ("line", VN n)]) in *. clearbody r0.
  rewrite exec_block_cons, exec_assert. cbn [eval]. lk. hy. rewrite (proj2 (Nat.ltb_ge n 0) (Nat.le_0_l n)). cbn [negb truthy]. rewrite map_length.
  destruct (nth_error lines n) as [l|] eqn:N.
  - assert (LT : Nat.ltb n (List.length lines) = true) by (apply Nat.ltb_lt, nth_error_Some; congruence).
    rewrite LT. cbn [truthy].
    rewrite exec_block_cons, (call_cfd _ _ _ l) by (cbn [eval]; lk; hy; cbn [op_getitem bind2]; rewrite nth_map_VS, N; reflexivity).
    go. destruct (contains_def_gen l); cbn [truthy]; [|reflexivity].
    go. rewrite nth_map_VS, N. cbn [option_map].
    rewrite exec_block_cons, (call_sac _ _ _ l) by (first [cbn [eval]; lk; hy; reflexivity | exact (proj1 (Forall_forall _ _) FA l (nth_error_In _ _ N))]).
    destruct (split_run split_step_gen l None false) as [[a b]|]; cbn [enc_split].
    + go. unp. go. cbn [truthy]. rewrite exec_block_nil. go. reflexivity.
    + go. unp. go. cbn [truthy]. go. reflexivity.
  - assert (LT : Nat.ltb n (List.length lines) = false) by (apply Nat.ltb_ge, nth_error_None; exact N).
    rewrite LT. reflexivity.
Qed.

(* ---------- _get_comment_ending_at_line: one round of the upward walk ---------- *)
Definition gcel_walk_body : list stmt :=
  [SAssign "line_str" (EGetItem (EVar "code_lines") (EVar "start_line"));
   SCallRet "_contains_field_definition#1" contains_field_definition_src [("line", EVar "line_str")] [];
   SIf (EVar "_contains_field_definition#1") [SBreak] [];
   SCallRet "_is_empty#2" is_empty_src [("line_str", EVar "line_str")] [];
   SCallRet "_is_comment#3" is_comment_src [("line_str", EVar "line_str")] [];
   SIf (ENot (EOr (EVar "_is_empty#2") (EVar "_is_comment#3"))) [SBreak] [];
   SAssign "start_line" (ESub (EVar "start_line") (ENat 1))].
Definition gcel_collect_body : list stmt :=
  [SCallRet "_is_empty#4" is_empty_src [("line_str", EGetItem (EVar "code_lines") (EVar "i"))] [];
   SIf (EVar "_is_empty#4") [SContinue] [];
   SCallRet "_contains_field_definition#5" contains_field_definition_src [("line", EGetItem (EVar "code_lines") (EVar "i"))] [];
   SAssert (ENot (EVar "_contains_field_definition#5"));
   SCallRet "comment" get_comment_at_line_src [("code_lines", EVar "code_lines"); ("line", EVar "i")] [];
   SAppend "lines" (EVar "comment")].
Lemma gcel_shape :
  get_comment_ending_at_line_src =
  [SAssign "start_line" (EVar "line"); SAssign "end_line" (EVar "line");
   SWhile doc_while_fuel (EGt (EVar "start_line") (ENat 0)) gcel_walk_body;
   SAssign "start_line" (EAdd (EVar "start_line") (ENat 1));
   SAssign "lines" (EList []);
   SForC "i" (ERange (EVar "start_line") (EAdd (EVar "end_line") (ENat 1))) gcel_collect_body;
   SReturn (EStrip (EJoin (String (Ascii.ascii_of_nat 10) "") (EVar "lines")))].
Proof. reflexivity. Qed.

(* the body of the while loop at line k+1 = l: it breaks exactly when the model's walk stops at l (walk_stop with the regenerated
   facts FIX_WALK, walk_stops_at_quote_lines_gen), otherwise it moves one line up *)
Theorem comment_walk_round_is_model r lines k l :
  lookup "code_lines" r = Some (VL (map VS lines)) -> lookup "start_line" r = Some (VN (S k)) -> nth_error lines (S k) = Some l ->
  exists r', exec_block r gcel_walk_body
             = Ok (r', if walk_stop FIX_WALK walk_stops_at_quote_lines_gen (view_gen l) then Some BRK else None)
             /\ lookup "code_lines" r' = Some (VL (map VS lines))
             /\ (walk_stop FIX_WALK walk_stops_at_quote_lines_gen (view_gen l) = false -> lookup "start_line" r' = Some (VN k)).
Proof.
  intros HC HS HN. unfold gcel_walk_body, walk_stop, FIX_WALK, walk_stops_at_quote_lines_gen.
  change (v_isdef (view_gen l)) with (contains_def_gen l).
  change (v_empty (view_gen l)) with (String.eqb (strip l) ""). change (v_iscomment (view_gen l)) with (prefixb "#" (strip l)).
  cbn [andb orb]. rewrite Bool.orb_false_r.
  go. rewrite nth_map_VS, HN. cbn [option_map].
  rewrite exec_block_cons, (call_cfd _ _ _ l) by (cbn [eval]; lk; reflexivity).
  go. destruct (contains_def_gen l); cbn [truthy orb].
  - rewrite exec_block_cons, exec_break. eexists. split; [reflexivity|]. split; [lk; exact HC | discriminate].
  - rewrite exec_block_nil.
    rewrite exec_block_cons, (call_is_empty _ _ _ l) by (cbn [eval]; lk; reflexivity). cbv beta iota.
    rewrite exec_block_cons, (call_is_comment _ _ _ l) by (cbn [eval]; lk; reflexivity). cbv beta iota.
    go. destruct (String.eqb (strip l) ""); cbn [truthy orb negb].
    + rewrite exec_block_nil. go. cbn [Nat.leb Nat.sub]. rewrite ?Nat.sub_0_r. eexists. split; [reflexivity|]. split; lk; [exact HC | reflexivity].
    + destruct (prefixb "#" (strip l)); cbn [truthy negb].
      * rewrite exec_block_nil. go. cbn [Nat.leb Nat.sub]. rewrite ?Nat.sub_0_r. eexists. split; [reflexivity|]. split; lk; [exact HC | reflexivity].
      * rewrite exec_block_cons, exec_break. eexists. split; [reflexivity|]. split; [lk; exact HC | discriminate].
Qed.

(* ---------- _get_docstring_starting_at_line ---------- *)
Definition gdsl_open_part : list stmt :=
  [SCallRet "_is_empty#1" is_empty_src [("line_str", EVar "line_str")] [];
   SIf (EVar "_is_empty#1") [SAssign "i" (EAdd (EVar "i") (ENat 1)); SContinue]
     [SCallRet "_contains_field_definition#2" contains_field_definition_src [("line", EVar "line_str")] [];
      SCallRet "_is_comment#3" is_comment_src [("line_str", EVar "line_str")] [];
      SIf (EOr (EVar "_contains_field_definition#2") (EVar "_is_comment#3")) [SReturn (EStr "")]
        [SIf (EAnd (EIn (EVar "triple_single") (EVar "line_str")) (EIn (EVar "triple_double") (EVar "line_str")))
           [SAssign "triple_single_index" (EIndexOf (EVar "line_str") (EVar "triple_single"));
            SAssign "triple_double_index" (EIndexOf (EVar "line_str") (EVar "triple_double"));
            SIf (EGt (EVar "triple_double_index") (EVar "triple_single_index")) [SAssign "token" (EVar "triple_single")] [SAssign "token" (EVar "triple_double")]]
           [SIf (EIn (EVar "triple_double") (EVar "line_str")) [SAssign "token" (EVar "triple_double")]
              [SIf (EIn (EVar "triple_single") (EVar "line_str")) [SAssign "token" (EVar "triple_single")] [SReturn (EStr "")]]]]];
   SAssign "parts" (ESplitN (EVar "line_str") (EVar "token") 2);
   SIf (EEq (ELen (EVar "parts")) (ENat 3))
     [SAssign "between_tokens" (EStrip (EIndex (EVar "parts") 1)); SAppend "docstring_contents" (EVar "between_tokens"); SBreak]
     [SIf (EEq (ELen (EVar "parts")) (ENat 2)) [SAssign "after_token" (EStrip (EIndex (EVar "parts") 1)); SAppend "docstring_contents" (EVar "after_token")] []]].
Definition gdsl_body_part : list stmt :=
  [SIf (EIn (EVar "token") (EVar "line_str"))
     [SAssign "before" (EIndex (ESplitN (EVar "line_str") (EVar "token") 1) 0); SAppend "docstring_contents" (EStrip (EVar "before")); SBreak]
     [SAppend "docstring_contents" (EStrip (EVar "line_str"))]].
Definition gdsl_body : list stmt :=
  [SAssign "line_str" (EGetItem (EVar "code_lines") (EVar "i"));
   SIf (EIsNone (EVar "token")) gdsl_open_part gdsl_body_part;
   SAssign "i" (EAdd (EVar "i") (ENat 1))].
Definition gdsl_test : expr := EGt (ELen (EVar "code_lines")) (EVar "i").
Lemma gdsl_shape :
  get_docstring_starting_at_line_src =
  [SAssign "i" (EVar "line"); SAssign "token" ENone; SAssign "triple_single" (EStr "'''"); SAssign "triple_double" (EStr """""""");
   SIf (ENot (EGt (ELen (EVar "code_lines")) (EVar "line"))) [SReturn (EStr "")] [];
   SAssign "docstring_contents" (EList []);
   SWhile doc_while_fuel gdsl_test gdsl_body;
   SReturn (EJoin (String (Ascii.ascii_of_nat 10) "") (EVar "docstring_contents"))].
Proof. reflexivity. Qed.
