(* Proofs/SubgroupsProofs.v — the rounds of _resolve_subgroups terminate after (nesting depth) rounds, pick for every
   subgroup the last key given (else the declared default), and the value built afterwards is what the top-down
   specification demands; for ALL subgroup trees (mutual induction on dc / sgfs / alts), no depth bound. *)
From SPV Require Import Base.Str Model.Subgroups Model.SubgroupsSpec Gen.FactsSubgroups.

Scheme dc_mind := Induction for dc Sort Prop
  with sgfs_mind := Induction for sgfs Sort Prop
  with alts_mind := Induction for alts Sort Prop.
Combined Scheme dc_sgfs_alts_ind from dc_mind, sgfs_mind, alts_mind.

(* ---------- paths ---------- *)
Lemma path_eqb_refl p : path_eqb p p = true.
Proof. induction p as [|x r IH]; cbn; [reflexivity | now rewrite String.eqb_refl, IH]. Qed.

Lemma path_eqb_eq a b : path_eqb a b = true <-> a = b.
Proof.
  revert b. induction a as [|x r IH]; intros [|y s]; cbn; split; intros H; try congruence; try reflexivity.
  - apply andb_true_iff in H as [H1 H2]. apply String.eqb_eq in H1. apply IH in H2. congruence.
  - injection H as -> ->. now rewrite String.eqb_refl, path_eqb_refl.
Qed.

Lemma path_eqb_neq a b : path_eqb a b = false <-> a <> b.
Proof.
  split; intros H.
  - intros E. apply path_eqb_eq in E. congruence.
  - destruct (path_eqb a b) eqn:E; [apply path_eqb_eq in E; contradiction | reflexivity].
Qed.

Lemma path_in_In p l : path_in p l = true <-> In p l.
Proof.
  unfold path_in. rewrite existsb_exists. split.
  - intros [x [Hx He]]. apply path_eqb_eq in He. now subst.
  - intros H. exists p. split; [exact H | apply path_eqb_refl].
Qed.

Lemma path_in_false p l : path_in p l = false <-> ~ In p l.
Proof.
  rewrite <- path_in_In. destruct (path_in p l); split; intros H; congruence.
Qed.

(* ---------- depth: the loop's measure ---------- *)
Lemma pred_max a b : Nat.pred (Nat.max a b) = Nat.max (Nat.pred a) (Nat.pred b).
Proof. destruct a, b; cbn; try lia. Qed.

Lemma find_alt_depth k t src n : find_alt k t = Some (src, n) -> depth_dc n <= depth_alts t.
Proof.
  induction t as [|k' s d r IH]; cbn; [discriminate|].
  destruct (String.eqb k' k).
  - intros H. injection H as _ <-. lia.
  - intros H. apply IH in H. lia.
Qed.

Lemma unres_depth :
  (forall d, unres_dc d = false <-> depth_dc d = 0)
  /\ (forall s, unres s = false <-> depth_sg s = 0)
  /\ (forall t : alts, True).
Proof.
  apply dc_sgfs_alts_ind; try (intros; exact I).
  - intros c l s IH. cbn. exact IH.
  - cbn. tauto.
  - intros f dflt t _ r IHr. cbn [unres depth_sg]. split; intros H; [discriminate | lia].
  - intros f dflt t _ k src n IHn r IHr. cbn [unres depth_sg]. rewrite orb_false_iff, IHn, IHr. lia.
Qed.

Lemma unres_pos d : unres_dc d = true -> 1 <= depth_dc d.
Proof.
  intros U. destruct (depth_dc d) eqn:D; [|lia]. apply (proj1 unres_depth) in D. congruence.
Qed.

(* ---------- unfolding equations (the Section-parametrised mutual fixpoints do not refold under cbn) ---------- *)
Lemma round_dc_eq sa va es argv p c l s :
  round_dc sa va es argv p (Dc c l s) = match round_sg sa va es argv p s with Ok s' => Ok (Dc c l s') | Err e => Err e end.
Proof. reflexivity. Qed.
Lemma round_sg_nil sa va es argv p : round_sg sa va es argv p SNil = Ok SNil.
Proof. reflexivity. Qed.
Lemma round_sg_un sa va es argv p f dflt t r :
  round_sg sa va es argv p (SUn f dflt t r) =
  match pick_v va dflt (keys t) (given sa es argv (snoc p f)) with
  | Err e => Err e
  | Ok k => match find_alt k t with
            | None => Err (Raise "AssertionError")
            | Some (src, n) => match round_sg sa va es argv p r with
                               | Ok r' => Ok (SRe f dflt t k src n r')
                               | Err e => Err e
                               end
            end
  end.
Proof. reflexivity. Qed.
(* with choices=keys in the argument options *)
Lemma round_sg_un_t sa es argv p f dflt t r :
  round_sg sa true es argv p (SUn f dflt t r) =
  match pick dflt (keys t) (given sa es argv (snoc p f)) with
  | Err e => Err e
  | Ok k => match find_alt k t with
            | None => Err (Raise "AssertionError")
            | Some (src, n) => match round_sg sa true es argv p r with
                               | Ok r' => Ok (SRe f dflt t k src n r')
                               | Err e => Err e
                               end
            end
  end.
Proof. reflexivity. Qed.
Lemma round_sg_re sa va es argv p f dflt t k src n r :
  round_sg sa va es argv p (SRe f dflt t k src n r) =
  match round_dc sa va es argv (snoc p f) n with
  | Err e => Err e
  | Ok n' => match round_sg sa va es argv p r with
             | Ok r' => Ok (SRe f dflt t k src n' r')
             | Err e => Err e
             end
  end.
Proof. reflexivity. Qed.
Lemma asserts_dc_eq idf pw b c l s : asserts_dc idf pw b (Dc c l s) = asserts_sg idf pw b s.
Proof. reflexivity. Qed.
Lemma asserts_sg_un idf pw b f dflt t r :
  asserts_sg idf pw b (SUn f dflt t r) = negb (b && is_some dflt) && asserts_sg idf pw b r.
Proof. reflexivity. Qed.
Lemma asserts_sg_re idf pw b f dflt t k src n r :
  asserts_sg idf pw b (SRe f dflt t k src n r) = asserts_dc idf pw (presets idf pw src) n && asserts_sg idf pw b r.
Proof. reflexivity. Qed.
Lemma value_dc_eq ma pk idf es argv p src c l s :
  value_dc ma pk idf es argv p src (Dc c l s) =
  V c (map (fun nd => (fst nd, leafval ma es argv (snoc p (fst nd)) (snd nd))) (eff_leaves pk idf src l))
    (value_sg ma pk idf es argv p s).
Proof. reflexivity. Qed.
Lemma value_sg_un ma pk idf es argv p f dflt t r :
  value_sg ma pk idf es argv p (SUn f dflt t r) = value_sg ma pk idf es argv p r.
Proof. reflexivity. Qed.
Lemma value_sg_re ma pk idf es argv p f dflt t k src n r :
  value_sg ma pk idf es argv p (SRe f dflt t k src n r) =
  VCons f (value_dc ma pk idf es argv (snoc p f) src n) (value_sg ma pk idf es argv p r).
Proof. reflexivity. Qed.

Section Rounds.
  Variables (sa idf pw va sees : bool).      (* sub_abbrev, inst_default, preset_wins: irrelevant for termination *)

  Lemma round_depth es argv :
    (forall d p d', round_dc sa va es argv p d = Ok d' -> depth_dc d' <= Nat.pred (depth_dc d))
    /\ (forall s p s', round_sg sa va es argv p s = Ok s' -> depth_sg s' <= Nat.pred (depth_sg s))
    /\ (forall t : alts, True).
  Proof.
    apply dc_sgfs_alts_ind; try (intros; exact I).
    - intros c l s IH p d' H. rewrite round_dc_eq in H. destruct (round_sg sa va es argv p s) as [s'|e] eqn:E; [|discriminate].
      injection H as <-. cbn. apply (IH p). exact E.
    - intros p s' H. rewrite round_sg_nil in H. injection H as <-. cbn. lia.
    - intros f dflt t _ r IHr p s' H. rewrite round_sg_un in H.
      destruct (pick_v va dflt (keys t) _) as [k|e]; [|discriminate].
      destruct (find_alt k t) as [[src n]|] eqn:F; [|discriminate].
      destruct (round_sg sa va es argv p r) as [r'|e] eqn:E; [|discriminate].
      injection H as <-. cbn [depth_sg]. apply find_alt_depth in F. apply IHr in E.
      rewrite pred_max. cbn [Nat.pred]. lia.
    - intros f dflt t _ k src n IHn r IHr p s' H. rewrite round_sg_re in H.
      destruct (round_dc sa va es argv (snoc p f) n) as [n'|e] eqn:En; [|discriminate].
      destruct (round_sg sa va es argv p r) as [r'|e] eqn:E; [|discriminate].
      injection H as <-. cbn [depth_sg]. apply IHn in En. apply IHr in E. rewrite pred_max. lia.
  Qed.

  (* a round never runs out of fuel: it ends with a value, an argparse error or the round's own assertion *)
  Lemma round_err es argv :
    (forall d p e, round_dc sa va es argv p d = Err e -> e = Exit 2 \/ e = Raise "AssertionError")
    /\ (forall s p e, round_sg sa va es argv p s = Err e -> e = Exit 2 \/ e = Raise "AssertionError")
    /\ (forall t : alts, True).
  Proof.
    apply dc_sgfs_alts_ind; try (intros; exact I).
    - intros c l s IH p e H. rewrite round_dc_eq in H. destruct (round_sg sa va es argv p s) eqn:E; [discriminate|].
      injection H as <-. eapply IH. exact E.
    - intros p e H. discriminate.
    - intros f dflt t _ r IHr p e H. rewrite round_sg_un in H.
      destruct (pick_v va dflt (keys t) _) as [k|e'] eqn:P.
      + destruct (find_alt k t) as [[src n]|]; [|injection H as <-; now right].
        destruct (round_sg sa va es argv p r) eqn:E; [discriminate|]. injection H as <-. eapply IHr. exact E.
      + injection H as <-. unfold pick_v in P.
        destruct (negb va || forallb _ _); [|injection P as <-; now left].
        destruct (last_opt _); [discriminate|]. destruct dflt; [discriminate|]. injection P as <-. now left.
    - intros f dflt t _ k src n IHn r IHr p e H. rewrite round_sg_re in H.
      destruct (round_dc sa va es argv (snoc p f) n) eqn:En.
      + destruct (round_sg sa va es argv p r) eqn:E; [discriminate|]. injection H as <-. eapply IHr. exact E.
      + injection H as <-. eapply IHn. exact En.
  Qed.

  Lemma round_not_oof tb argv root d e : round sa idf pw va tb argv root d = Err e -> e <> OutOfFuel.
  Proof.
    unfold round. destruct (asserts_dc idf pw false d).
    - intros H. apply (proj1 (round_err _ argv)) in H. destruct H; subst; discriminate.
    - intros H. injection H as <-. discriminate.
  Qed.

  Lemma round_measure tb argv root d d' :
    round sa idf pw va tb argv root d = Ok d' -> depth_dc d' <= Nat.pred (depth_dc d).
  Proof.
    unfold round. destruct (asserts_dc idf pw false d); [|discriminate].
    apply (proj1 (round_depth _ argv)).
  Qed.

  (* with the loop's `break`: (nesting depth) rounds are enough, whatever is on the command line *)
  Lemma loop_indep tb argv root : forall f1 f2 d,
    unres_dc d = true -> depth_dc d <= f1 -> depth_dc d <= f2 ->
    loop sa idf pw true va f1 tb argv root d = loop sa idf pw true va f2 tb argv root d.
  Proof.
    induction f1 as [|a IH]; intros f2 d U L1 L2.
    - apply unres_pos in U. lia.
    - destruct f2 as [|b]; [apply unres_pos in U; lia|].
      cbn [loop]. destruct (round sa idf pw va tb argv root d) as [d'|e] eqn:R; [|reflexivity].
      pose proof (round_measure _ _ _ _ _ R) as M.
      cbn [andb]. destruct (unres_dc d') eqn:U'; cbn [negb]; [|reflexivity].
      apply IH; [exact U' | lia | lia].
  Qed.

  Lemma loop_not_oof tb argv root : forall fuel d,
    unres_dc d = true -> depth_dc d <= fuel -> loop sa idf pw true va fuel tb argv root d <> Err OutOfFuel.
  Proof.
    induction fuel as [|k IH]; intros d U L.
    - apply unres_pos in U. lia.
    - cbn [loop]. destruct (round sa idf pw va tb argv root d) as [d'|e] eqn:R.
      + pose proof (round_measure _ _ _ _ _ R) as M.
        cbn [andb]. destruct (unres_dc d') eqn:U'; cbn [negb]; [|discriminate].
        apply IH; [exact U' | lia].
      + intros E. injection E as ->. eapply round_not_oof; [exact R | reflexivity].
  Qed.

  Lemma resolve_fuel tb argv root fuel d :
    depth_dc d <= fuel ->
    resolve sa idf pw true va sees fuel tb argv root d <> Err OutOfFuel
    /\ resolve sa idf pw true va sees fuel tb argv root d = resolve sa idf pw true va sees (depth_dc d) tb argv root d.
  Proof.
    intros L. unfold resolve. destruct (unres_dc d) eqn:U; cbn [negb].
    - split; [apply loop_not_oof; assumption | apply loop_indep; [exact U | exact L | lia]].
    - split; [discriminate | reflexivity].
  Qed.
End Rounds.

(* ---------- reading the written options ---------- *)
Lemma exact_cons o' p' r o : exact ((o', p') :: r) o = if String.eqb o' o then Some p' else exact r o.
Proof. unfold exact. cbn [filter fst snd]. destruct (String.eqb o' o); reflexivity. Qed.

Lemma exact_nil o : exact [] o = None.
Proof. reflexivity. Qed.

Lemma exact_none es o : exact es o = None <-> (forall e, In e es -> fst e <> o).
Proof.
  induction es as [|[o' p'] r IH].
  - split; [intros _ e [] | reflexivity].
  - rewrite exact_cons. destruct (String.eqb o' o) eqn:E.
    + apply String.eqb_eq in E. split; [discriminate|]. intros H. exfalso. apply (H (o', p')); [now left | exact E].
    + apply String.eqb_neq in E. rewrite IH. split.
      * intros H e [<-|He]; [exact E | now apply H].
      * intros H e He. apply H. now right.
Qed.

Lemma exact_in es o p : exact es o = Some p -> In (o, p) es.
Proof.
  induction es as [|[o' p'] r IH]; [discriminate|].
  rewrite exact_cons. destruct (String.eqb o' o) eqn:E.
  - apply String.eqb_eq in E. intros H. injection H as <-. subst. now left.
  - intros H. right. now apply IH.
Qed.

Lemma exact_restrict tb reg o :
  str_nodupb (map fst tb) = true ->
  exact (restrict tb reg) o =
  match exact tb o with Some p => if path_in p reg then Some p else None | None => None end.
Proof.
  induction tb as [|[o' p'] r IH]; intros ND; [reflexivity|].
  cbn [map fst str_nodupb] in ND. apply andb_true_iff in ND as [N1 N2]. apply negb_true_iff in N1.
  rewrite exact_cons. unfold restrict. cbn [filter snd]. fold (restrict r reg).
  destruct (String.eqb o' o) eqn:E.
  - apply String.eqb_eq in E. subst o'. destruct (path_in p' reg) eqn:P.
    + rewrite exact_cons, String.eqb_refl. reflexivity.
    + rewrite (IH N2). assert (X : exact r o = None).
      { apply exact_none. intros e He Ee. apply str_in_false in N1. apply N1. rewrite <- Ee. now apply in_map. }
      now rewrite X.
  - destruct (path_in p' reg); [rewrite exact_cons, E|]; apply IH; exact N2.
Qed.

Lemma classify_false es o : classify false es o = exact es o.
Proof. unfold classify. destruct (exact es o); reflexivity. Qed.

Lemma restrict_incl tb reg e : In e (restrict tb reg) -> In e tb.
Proof. unfold restrict. intros H. apply filter_In in H. tauto. Qed.

Lemma filter_nil {A} (f : A -> bool) l : (forall x, In x l -> f x = false) -> filter f l = [].
Proof.
  induction l as [|x r IH]; intros H; [reflexivity|].
  cbn. rewrite (H x) by now left. apply IH. intros y Hy. apply H. now right.
Qed.

(* an option that is a registered spelling, or that no registered spelling starts with, is not read as an abbreviation *)
Definition tok_plain (es : optab) (o : string) : bool :=
  is_some (exact es o) || forallb (fun e => negb (prefixb o (fst e))) es.

Lemma classify_plain ma es o : tok_plain es o = true -> classify ma es o = exact es o.
Proof.
  intros P. unfold classify. destruct (exact es o) eqn:E; [reflexivity|].
  destruct (ma && prefixb "--" o); [|reflexivity].
  unfold tok_plain in P. rewrite E in P. cbn [is_some orb] in P. rewrite forallb_forall in P.
  rewrite filter_nil; [reflexivity|]. intros e He. specialize (P e He). now apply negb_true_iff in P.
Qed.

Lemma plain_tok tb reg argv t : plain_for tb reg argv = true -> In t argv -> tok_plain (restrict tb reg) (fst t) = true.
Proof. unfold plain_for. rewrite forallb_forall. intros H Ht. exact (H t Ht). Qed.

(* the static sufficient condition: nothing written is a proper prefix of any spelling of the table *)
Lemma plain_plain_for tb reg argv : plain tb argv = true -> plain_for tb reg argv = true.
Proof.
  unfold plain, plain_for. rewrite !forallb_forall. intros H t Ht. specialize (H t Ht). rewrite forallb_forall in H.
  destruct (exact (restrict tb reg) (fst t)) eqn:E; [reflexivity|]. cbn [is_some orb].
  apply forallb_forall. intros e He. apply negb_true_iff.
  destruct (prefixb (fst t) (fst e)) eqn:P; [|reflexivity]. exfalso.
  specialize (H e (restrict_incl _ _ _ He)). rewrite P in H. cbn in H. apply String.eqb_eq in H.
  apply (proj1 (exact_none _ _) E e He). now symmetry.
Qed.

Lemma filter_ext_in' {A} (f g : A -> bool) l : (forall x, In x l -> f x = g x) -> filter f l = filter g l.
Proof.
  induction l as [|x r IH]; intros H; [reflexivity|].
  cbn. rewrite (H x) by now left. rewrite IH; [reflexivity|]. intros y Hy. apply H. now right.
Qed.

(* for a registered destination, the values the parser sees are exactly the values written for it *)
Lemma sel_restrict tb reg o q :
  str_nodupb (map fst tb) = true -> path_in q reg = true ->
  match exact (restrict tb reg) o with Some q' => path_eqb q' q | None => false end =
  match exact tb o with Some q' => path_eqb q' q | None => false end.
Proof.
  intros ND Q. rewrite exact_restrict by exact ND.
  destruct (exact tb o) as [q'|]; [|reflexivity].
  destruct (path_in q' reg) eqn:P; [reflexivity|].
  symmetry. apply path_eqb_neq. intros ->. congruence.
Qed.

Lemma given_sub tb vis argv q :
  str_nodupb (map fst tb) = true -> path_in q vis = true ->
  given false (restrict tb vis) argv q = xgiven tb argv q.
Proof.
  intros ND Q. unfold given, xgiven. f_equal. apply filter_ext_in'. intros t _.
  rewrite classify_false. now apply sel_restrict.
Qed.

Lemma given_main ma tb reg argv q :
  str_nodupb (map fst tb) = true -> plain_for tb reg argv = true -> path_in q reg = true ->
  given ma (restrict tb reg) argv q = xgiven tb argv q.
Proof.
  intros ND PL Q. unfold given, xgiven. f_equal. apply filter_ext_in'. intros t Ht.
  rewrite classify_plain by (eapply plain_tok; eassumption). now apply sel_restrict.
Qed.

Lemma igiven_intents tb argv q : igiven (intents_of tb argv) q = xgiven tb argv q.
Proof.
  unfold igiven, intents_of, xgiven. induction argv as [|t r IH]; [reflexivity|].
  cbn [map filter fst snd]. destruct (exact tb (fst t)) as [q'|]; [destruct (path_eqb q' q)|]; cbn [map snd]; now rewrite IH.
Qed.

(* ---------- keys ---------- *)
Lemma pick_unfold dflt ks g :
  pick dflt ks g =
  if forallb (fun k => str_in k ks) g then
    match last_opt g with
    | Some k => Ok k
    | None => match dflt with Some k => Ok k | None => Err (Exit 2) end
    end
  else Err (Exit 2).
Proof. reflexivity. Qed.

Lemma pick_spec_key dflt ks g k : pick dflt ks g = Ok k -> spec_key dflt ks g = Some k.
Proof.
  rewrite pick_unfold. unfold spec_key. destruct (forallb _ g); [|discriminate].
  destruct (last_opt g); [intros H; now injection H as <-|]. destruct dflt; [intros H; now injection H as <-|discriminate].
Qed.

Lemma pick_err dflt ks g e : pick dflt ks g = Err e -> spec_key dflt ks g = None /\ e = Exit 2.
Proof.
  rewrite pick_unfold. unfold spec_key. destruct (forallb _ g); [|intros H; now injection H as <-].
  destruct (last_opt g); [discriminate|]. destruct dflt; [discriminate|]. intros H; now injection H as <-.
Qed.

Lemma pick_valid dflt ks g k : pick dflt ks g = Ok k -> forallb (fun x => str_in x ks) g = true.
Proof. rewrite pick_unfold. destruct (forallb _ g); [reflexivity | discriminate]. Qed.

Lemma last_opt_in {A} (l : list A) x : last_opt l = Some x -> In x l.
Proof.
  unfold last_opt. intros H. apply in_rev. destruct (rev l); [discriminate|]. injection H as <-. now left.
Qed.

Lemma pick_last dflt ks g k v : pick dflt ks g = Ok k -> last_opt g = Some v -> v = k.
Proof.
  rewrite pick_unfold. destruct (forallb _ g); [|discriminate]. intros H L. rewrite L in H. now injection H.
Qed.

Lemma pick_in_keys dflt ks g k :
  match dflt with Some d => str_in d ks | None => true end = true -> pick dflt ks g = Ok k -> str_in k ks = true.
Proof.
  intros W H. pose proof (pick_valid _ _ _ _ H) as V. rewrite pick_unfold in H. rewrite V in H.
  destruct (last_opt g) eqn:L.
  - injection H as <-. apply last_opt_in in L. rewrite forallb_forall in V. now apply V.
  - destruct dflt; [injection H as <-; exact W | discriminate].
Qed.

Lemma find_alt_keys k t : str_in k (keys t) = true -> find_alt k t <> None.
Proof.
  induction t as [|k' s d r IH]; cbn; [discriminate|].
  rewrite (String.eqb_sym k k'). destruct (String.eqb k' k); [discriminate | exact IH].
Qed.

(* ---------- what the rounds preserve ---------- *)
Definition dflt_ok (dflt : option string) (t : alts) : bool :=
  match dflt with Some k => str_in k (keys t) | None => true end.

(* static shape: tables are declarations and default keys are keys *)
Fixpoint good_dc (d : dc) : bool :=
  match d with Dc _ _ s => good_sg s end
with good_sg (s : sgfs) : bool :=
  match s with
  | SNil => true
  | SUn _ dflt t r => dflt_ok dflt t && good_alts t && good_sg r
  | SRe _ dflt t _ src n r => dflt_ok dflt t && good_alts t && good_dc n && good_sg r
  end
with good_alts (t : alts) : bool :=
  match t with
  | ANil => true
  | ACons _ src d r => declared_dc d && good_dc d && good_alts r
  end.

Lemma good_of_hyps :
  (forall d, declared_dc d = true -> wf_dc d = true -> good_dc d = true)
  /\ (forall s, declared_sg s = true -> wf_sg s = true -> good_sg s = true)
  /\ (forall t, declared_alts t = true -> wf_alts t = true -> good_alts t = true).
Proof.
  apply dc_sgfs_alts_ind.
  - intros c l s IH D W. cbn in *. now apply IH.
  - reflexivity.
  - intros f dflt t IHt r IHr D W. cbn [declared_sg wf_sg good_sg] in *.
    apply andb_true_iff in D as [D1 D2].
    apply andb_true_iff in W as [W12 W3]. apply andb_true_iff in W12 as [W1 W2].
    unfold dflt_ok. rewrite W1. rewrite (IHt D1 W2), (IHr D2 W3). reflexivity.
  - intros f dflt t _ k src n _ r _ D. discriminate.
  - reflexivity.
  - intros k src d IHd r IHr D W. cbn [declared_alts wf_alts good_alts] in *.
    apply andb_true_iff in D as [D1 D2]. apply andb_true_iff in W as [W1 W2].
    rewrite D1, (IHd D1 W1), (IHr D2 W2). reflexivity.
Qed.

Lemma find_alt_good k t src n :
  good_alts t = true -> find_alt k t = Some (src, n) -> declared_dc n = true /\ good_dc n = true.
Proof.
  induction t as [|k' s d r IH]; cbn [find_alt good_alts]; [discriminate|].
  intros G. apply andb_true_iff in G as [G12 G3]. apply andb_true_iff in G12 as [G1 G2].
  destruct (String.eqb k' k).
  - intros H. injection H as <- <-. tauto.
  - now apply IH.
Qed.

Lemma presets_inst idf pw src : presets idf pw src = true -> src_inst src = true.
Proof. destruct src; cbn; intros H; try discriminate; reflexivity. Qed.

(* on a crash-free shape the round's assertions hold *)
Lemma crash_asserts idf pw :
  (forall d b b', (b' = true -> b = true) -> crash_free_dc b d = true -> asserts_dc idf pw b' d = true)
  /\ (forall s b b', (b' = true -> b = true) -> crash_free_sg b s = true -> asserts_sg idf pw b' s = true)
  /\ (forall t : alts, True).
Proof.
  apply dc_sgfs_alts_ind; try (intros; exact I).
  - intros c l s IH b b' I G. rewrite asserts_dc_eq. now apply (IH b b').
  - reflexivity.
  - intros f dflt t _ r IHr b b' I G. rewrite asserts_sg_un. cbn [crash_free_sg] in G.
    apply andb_true_iff in G as [G12 G3]. apply andb_true_iff in G12 as [G1 G2].
    rewrite (IHr b b' I G3). rewrite andb_true_r.
    destruct b'; [|reflexivity]. rewrite (I eq_refl) in G1. exact G1.
  - intros f dflt t _ k src n IHn r IHr b b' I G. rewrite asserts_sg_re. cbn [crash_free_sg] in G.
    apply andb_true_iff in G as [G12 G3]. apply andb_true_iff in G12 as [G1 G2].
    rewrite (IHr b b' I G3), andb_true_r. apply (IHn (src_inst src)); [apply presets_inst | exact G2].
Qed.

(* when no default instance is pushed into a subgroup field (preset_wins = false: the repaired DataclassWrapper),
   the assertions of a round hold on every shape *)
Lemma asserts_no_preset idf :
  (forall d, asserts_dc idf false false d = true)
  /\ (forall s, asserts_sg idf false false s = true)
  /\ (forall t : alts, True).
Proof.
  apply dc_sgfs_alts_ind; try (intros; exact I).
  - intros c l s IH. now rewrite asserts_dc_eq.
  - reflexivity.
  - intros f dflt t _ r IHr. rewrite asserts_sg_un, IHr. reflexivity.
  - intros f dflt t _ k src n IHn r IHr. rewrite asserts_sg_re, IHr.
    assert (P : presets idf false src = false) by (destruct src; cbn; [reflexivity | reflexivity | apply andb_false_r]).
    now rewrite P, IHn.
Qed.

Lemma find_alt_crash k t src n :
  crash_free_alts t = true -> find_alt k t = Some (src, n) -> crash_free_dc (src_inst src) n = true.
Proof.
  induction t as [|k' s d r IH]; cbn [find_alt crash_free_alts]; [discriminate|].
  intros G. apply andb_true_iff in G as [G1 G2].
  destruct (String.eqb k' k).
  - intros H. injection H as <- <-. exact G1.
  - now apply IH.
Qed.

(* ... and the shape stays crash-free *)
Lemma round_crash sa va es argv :
  (forall d p b d', crash_free_dc b d = true -> round_dc sa va es argv p d = Ok d' -> crash_free_dc b d' = true)
  /\ (forall s p b s', crash_free_sg b s = true -> round_sg sa va es argv p s = Ok s' -> crash_free_sg b s' = true)
  /\ (forall t : alts, True).
Proof.
  apply dc_sgfs_alts_ind; try (intros; exact I).
  - intros c l s IH p b d' C R. rewrite round_dc_eq in R.
    destruct (round_sg sa va es argv p s) as [s'|e] eqn:E; [|discriminate]. injection R as <-. exact (IH p b s' C E).
  - intros p b s' _ R. rewrite round_sg_nil in R. now injection R as <-.
  - intros f dflt t _ r IHr p b s' C R. rewrite round_sg_un in R.
    destruct (pick_v va dflt (keys t) _) as [k|e]; [|discriminate].
    destruct (find_alt k t) as [[src n]|] eqn:F; [|discriminate].
    destruct (round_sg sa va es argv p r) as [r'|e] eqn:E; [|discriminate]. injection R as <-.
    cbn [crash_free_sg] in *. apply andb_true_iff in C as [C12 C3]. apply andb_true_iff in C12 as [C1 C2].
    now rewrite C2, (find_alt_crash _ _ _ _ C2 F), (IHr p b r' C3 E).
  - intros f dflt t _ k src n IHn r IHr p b s' C R. rewrite round_sg_re in R.
    destruct (round_dc sa va es argv (snoc p f) n) as [n'|e] eqn:En; [|discriminate].
    destruct (round_sg sa va es argv p r) as [r'|e] eqn:E; [|discriminate]. injection R as <-.
    cbn [crash_free_sg] in *. apply andb_true_iff in C as [C12 C3]. apply andb_true_iff in C12 as [C1 C2].
    now rewrite C1, (IHn _ _ n' C2 En), (IHr p b r' C3 E).
Qed.

(* dynamic part: every recorded choice is the key `pick` reads for that destination, and the exposed dataclass is
   the table entry's *)
Fixpoint inv_dc (xg : path -> list string) (p : path) (d : dc) : Prop :=
  match d with Dc _ _ s => inv_sg xg p s end
with inv_sg (xg : path -> list string) (p : path) (s : sgfs) : Prop :=
  match s with
  | SNil => True
  | SUn _ _ _ r => inv_sg xg p r
  | SRe f dflt t k src n r =>
      pick dflt (keys t) (xg (snoc p f)) = Ok k /\ find_alt k t = Some (src, erase_dc n)
      /\ inv_dc xg (snoc p f) n /\ inv_sg xg p r
  end.

Lemma declared_facts xg :
  (forall d, declared_dc d = true -> erase_dc d = d /\ forall p, inv_dc xg p d)
  /\ (forall s, declared_sg s = true -> erase_sg s = s /\ forall p, inv_sg xg p s)
  /\ (forall t : alts, True).
Proof.
  apply dc_sgfs_alts_ind; try (intros; exact I).
  - intros c l s IH D. cbn in D. destruct (IH D) as [E I]. split; [cbn; now rewrite E | exact I].
  - intros _. split; [reflexivity | intros; exact I].
  - intros f dflt t _ r IHr D. cbn [declared_sg] in D. apply andb_true_iff in D as [_ D].
    destruct (IHr D) as [E I]. split; [cbn; now rewrite E | intros p; cbn; apply I].
  - intros f dflt t _ k src n _ r _ D. discriminate.
Qed.

Section Preserve.
  Variables (tb : optab) (argv : list tok).
  Let xg := xgiven tb argv.
  Variable es : optab.

  Lemma round_ok :
    (forall d p d',
        (forall q, In q (map i_path (sg_info_dc p d)) -> given false es argv q = xg q) ->
        good_dc d = true -> inv_dc xg p d -> round_dc false true es argv p d = Ok d' ->
        good_dc d' = true /\ inv_dc xg p d' /\ erase_dc d' = erase_dc d)
    /\ (forall s p s',
        (forall q, In q (map i_path (sg_info p s)) -> given false es argv q = xg q) ->
        good_sg s = true -> inv_sg xg p s -> round_sg false true es argv p s = Ok s' ->
        good_sg s' = true /\ inv_sg xg p s' /\ erase_sg s' = erase_sg s)
    /\ (forall t : alts, True).
  Proof.
    apply dc_sgfs_alts_ind; try (intros; exact I).
    - intros c l s IH p d' Hg G I R. rewrite round_dc_eq in R.
      destruct (round_sg false true es argv p s) as [s'|e] eqn:E; [|discriminate]. injection R as <-.
      destruct (IH p s' Hg G I E) as [G' [I' E']]. repeat split; [exact G' | exact I' | cbn; now rewrite E'].
    - intros p s' _ _ _ R. rewrite round_sg_nil in R. injection R as <-. repeat split.
    - intros f dflt t _ r IHr p s' Hg G I R. rewrite round_sg_un_t in R.
      cbn [sg_info map i_path] in Hg. rewrite (Hg (snoc p f)) in R by now left.
      destruct (pick dflt (keys t) (xg (snoc p f))) as [k|e] eqn:P; [|discriminate].
      destruct (find_alt k t) as [[src n]|] eqn:F; [|discriminate].
      destruct (round_sg false true es argv p r) as [r'|e] eqn:E; [|discriminate]. injection R as <-.
      cbn [good_sg] in G.
      apply andb_true_iff in G as [G12 G3]. apply andb_true_iff in G12 as [G1 G2].
      destruct (find_alt_good _ _ _ _ G2 F) as [Dn Gn].
      destruct (proj1 (declared_facts xg) n Dn) as [En In].
      destruct (IHr p r' (fun q Hq => Hg q (or_intror Hq)) G3 I E) as [G' [I' E']].
      repeat split.
      + cbn [good_sg]. now rewrite G1, G2, Gn, G'.
      + exact P.
      + now rewrite En.
      + apply In.
      + exact I'.
      + cbn. now rewrite E'.
    - intros f dflt t _ k src n IHn r IHr p s' Hg G I R. rewrite round_sg_re in R.
      cbn [sg_info map i_path] in Hg. rewrite map_app in Hg.
      destruct (round_dc false true es argv (snoc p f) n) as [n'|e] eqn:En; [|discriminate].
      destruct (round_sg false true es argv p r) as [r'|e] eqn:E; [|discriminate]. injection R as <-.
      cbn [good_sg] in G.
      apply andb_true_iff in G as [G123 G4]. apply andb_true_iff in G123 as [G12 G3]. apply andb_true_iff in G12 as [G1 G2].
      cbn [inv_sg] in I. destruct I as [P [F [In Ir]]].
      destruct (IHn (snoc p f) n' (fun q Hq => Hg q (or_intror (in_or_app _ _ _ (or_introl Hq)))) G3 In En)
        as [Gn' [In' En']].
      destruct (IHr p r' (fun q Hq => Hg q (or_intror (in_or_app _ _ _ (or_intror Hq)))) G4 Ir E) as [G' [I' E']].
      repeat split.
      + cbn [good_sg]. now rewrite G1, G2, Gn', G'.
      + exact P.
      + now rewrite En'.
      + exact In'.
      + exact I'.
      + cbn. now rewrite E'.
  Qed.
End Preserve.

(* ---------- the top-down specification on partially resolved trees ---------- *)
Lemma sp_sg_erase its p inst s : sp_sg its p inst (erase_sg s) = sp_sg its p inst s.
Proof.
  induction s as [|f dflt t r IH|f dflt t k src n r IH]; [reflexivity| |]; cbn [erase_sg sp_sg]; now rewrite IH.
Qed.

Lemma sp_dc_erase its p src d : sp_dc its p src (erase_dc d) = sp_dc its p src d.
Proof. destruct d as [c l s]. cbn [erase_dc sp_dc]. now rewrite sp_sg_erase. Qed.

Lemma sp_alts_find its q k t src n : find_alt k t = Some (src, n) -> sp_alts its q k t = sp_dc its q src n.
Proof.
  induction t as [|k' s d r IH]; cbn [find_alt sp_alts]; [discriminate|].
  destruct (String.eqb k' k); [intros H; now injection H as <- <- | exact IH].
Qed.

Section Fail.
  Variables (tb : optab) (argv : list tok) (its : list itok).
  Let xg := xgiven tb argv.
  Hypothesis Hi : forall q, igiven its q = xg q.
  Variable es : optab.

  (* a round that ends with an error ends with argparse's, and the specification rejects the command line too *)
  Lemma round_fail :
    (forall d p e src,
        (forall q, In q (map i_path (sg_info_dc p d)) -> given false es argv q = xg q) ->
        good_dc d = true -> inv_dc xg p d -> round_dc false true es argv p d = Err e ->
        e = Exit 2 /\ sp_dc its p src d = None)
    /\ (forall s p e inst,
        (forall q, In q (map i_path (sg_info p s)) -> given false es argv q = xg q) ->
        good_sg s = true -> inv_sg xg p s -> round_sg false true es argv p s = Err e ->
        e = Exit 2 /\ sp_sg its p inst s = None)
    /\ (forall t : alts, True).
  Proof.
    apply dc_sgfs_alts_ind; try (intros; exact I).
    - intros c l s IH p e src Hg G I R. rewrite round_dc_eq in R.
      destruct (round_sg false true es argv p s) as [s'|e'] eqn:E; [discriminate|]. injection R as <-.
      destruct (IH p e' (src_is_inst src) Hg G I E) as [E1 E2]. split; [exact E1|].
      cbn [sp_dc]. now rewrite E2.
    - intros p e inst _ _ _ R. discriminate.
    - intros f dflt t _ r IHr p e inst Hg G I R. rewrite round_sg_un_t in R.
      cbn [sg_info map i_path] in Hg. rewrite (Hg (snoc p f)) in R by now left.
      cbn [good_sg] in G.
      apply andb_true_iff in G as [G12 G4]. apply andb_true_iff in G12 as [G2 G3].
      cbn [sp_sg]. rewrite Hi.
      destruct (pick dflt (keys t) (xg (snoc p f))) as [k|e'] eqn:P.
      + pose proof (pick_in_keys _ _ _ _ G2 P) as K. apply find_alt_keys in K.
        destruct (find_alt k t) as [[src n]|] eqn:F; [|congruence].
        destruct (round_sg false true es argv p r) as [r'|e'] eqn:E; [discriminate|]. injection R as <-.
        destruct (IHr p e' inst (fun q Hq => Hg q (or_intror Hq)) G4 I E) as [E1 E2]. split; [exact E1|].
        rewrite E2. destruct (spec_key _ _ _); [|reflexivity]. destruct (sp_alts _ _ _ _) as [[[[? ?] ?] ?]|]; reflexivity.
      + injection R as <-. destruct (pick_err _ _ _ _ P) as [S ->]. split; [reflexivity|]. now rewrite S.
    - intros f dflt t _ k src n IHn r IHr p e inst Hg G I R. rewrite round_sg_re in R.
      cbn [sg_info map i_path] in Hg. rewrite map_app in Hg.
      cbn [good_sg] in G.
      apply andb_true_iff in G as [G123 G4]. apply andb_true_iff in G123 as [G12 G3]. apply andb_true_iff in G12 as [G1 G2].
      cbn [inv_sg] in I. destruct I as [P [F [In Ir]]].
      cbn [sp_sg]. rewrite Hi, (pick_spec_key _ _ _ _ P), (sp_alts_find _ _ _ _ _ _ F), sp_dc_erase.
      destruct (round_dc false true es argv (snoc p f) n) as [n'|e'] eqn:En.
      + destruct (round_sg false true es argv p r) as [r'|e''] eqn:E; [discriminate|]. injection R as <-.
        destruct (IHr p e'' inst (fun q Hq => Hg q (or_intror (in_or_app _ _ _ (or_intror Hq)))) G4 Ir E) as [E1 E2].
        split; [exact E1|]. rewrite E2. destruct (sp_dc _ _ _ _) as [[[[? ?] ?] ?]|]; reflexivity.
      + injection R as <-.
        destruct (IHn (snoc p f) e' src (fun q Hq => Hg q (or_intror (in_or_app _ _ _ (or_introl Hq)))) G3 In En)
          as [E1 E2].
        split; [exact E1|]. now rewrite E2.
  Qed.
End Fail.

(* ---------- a fully resolved tree: the value built is the value demanded ---------- *)
Lemma chosen_of_app a b : chosen_of (a ++ b) = (chosen_of a ++ chosen_of b)%list.
Proof. unfold chosen_of. apply flat_map_app. Qed.

Lemma override_names l ov : map fst (override l ov) = map fst l.
Proof. unfold override. rewrite map_map. reflexivity. Qed.

Lemma eff_spec_leaves src l : eff_leaves true true src l = spec_leaves src l.
Proof. destruct src; reflexivity. Qed.

Lemma spec_leaves_names src l : map fst (spec_leaves src l) = map fst l.
Proof. destruct src; cbn [spec_leaves]; [reflexivity | apply override_names | apply override_names]. Qed.

Section Resolved.
  Variables (tb : optab) (argv : list tok) (its : list itok) (ma : bool) (es : optab).
  Let xg := xgiven tb argv.
  Hypothesis Hi : forall q, igiven its q = xg q.

  Lemma leaf_agree q dv : given ma es argv q = xg q -> leafval ma es argv q dv = sleaf its q dv.
  Proof. intros H. unfold leafval, sleaf. now rewrite H, Hi. Qed.

  Lemma leaves_agree p src l :
    (forall q, In q (map (fun nd => snoc p (fst nd)) l) -> given ma es argv q = xg q) ->
    map (fun nd => (fst nd, leafval ma es argv (snoc p (fst nd)) (snd nd))) (eff_leaves true true src l)
    = map (fun nd => (fst nd, sleaf its (snoc p (fst nd)) (snd nd))) (spec_leaves src l).
  Proof.
    intros H. rewrite eff_spec_leaves. apply map_ext_in. intros nd Hnd. f_equal. apply leaf_agree. apply H.
    assert (Hn : In (fst nd) (map fst l)) by (rewrite <- (spec_leaves_names src l); now apply in_map).
    apply in_map_iff in Hn as [nd0 [E0 H0]]. apply in_map_iff. exists nd0. split; [now rewrite E0 | exact H0].
  Qed.

  Lemma resolved_value :
    (forall d p src,
        unres_dc d = false -> inv_dc xg p d ->
        (forall q, In q (leaf_paths_dc p d) -> given ma es argv q = xg q) ->
        exists soft, sp_dc its p src d =
                     Some (value_dc ma true true es argv p src d, chosen_of (sg_info_dc p d), leaf_paths_dc p d, soft))
    /\ (forall s p inst,
        unres s = false -> inv_sg xg p s ->
        (forall q, In q (leaf_paths p s) -> given ma es argv q = xg q) ->
        exists soft, sp_sg its p inst s =
                     Some (value_sg ma true true es argv p s, chosen_of (sg_info p s), leaf_paths p s, soft))
    /\ (forall t : alts, True).
  Proof.
    apply dc_sgfs_alts_ind; try (intros; exact I).
    - intros c l s IH p src U I Hl. cbn [unres_dc inv_dc leaf_paths_dc] in *.
      destruct (IH p (src_is_inst src) U I (fun q Hq => Hl q (in_or_app _ _ _ (or_intror Hq)))) as [soft E].
      exists soft. cbn [sp_dc sg_info_dc]. rewrite E, value_dc_eq.
      rewrite (leaves_agree p src l (fun q Hq => Hl q (in_or_app _ _ _ (or_introl Hq)))). reflexivity.
    - intros p inst _ _ _. exists false. reflexivity.
    - intros f dflt t _ r _ p inst U. discriminate.
    - intros f dflt t _ k src n IHn r IHr p inst U I Hl.
      cbn [unres] in U. apply orb_false_iff in U as [Un Ur].
      cbn [inv_sg] in I. destruct I as [P [F [In Ir]]].
      cbn [leaf_paths] in Hl.
      destruct (IHn (snoc p f) src Un In (fun q Hq => Hl q (in_or_app _ _ _ (or_introl Hq)))) as [s1 E1].
      destruct (IHr p inst Ur Ir (fun q Hq => Hl q (in_or_app _ _ _ (or_intror Hq)))) as [s2 E2].
      eexists. cbn [sp_sg]. rewrite Hi, (pick_spec_key _ _ _ _ P), (sp_alts_find _ _ _ _ _ _ F), sp_dc_erase, E1, E2.
      rewrite value_sg_re. cbn [sg_info leaf_paths]. unfold chosen_of at 3. cbn [flat_map i_key i_path].
      fold (chosen_of (sg_info_dc (snoc p f) n ++ sg_info p r)). rewrite chosen_of_app. reflexivity.
  Qed.

  Lemma inv_info :
    (forall d p, inv_dc xg p d ->
        forall i k, In i (sg_info_dc p d) -> i_key i = Some k -> pick (i_dflt i) (i_keys i) (xg (i_path i)) = Ok k)
    /\ (forall s p, inv_sg xg p s ->
        forall i k, In i (sg_info p s) -> i_key i = Some k -> pick (i_dflt i) (i_keys i) (xg (i_path i)) = Ok k)
    /\ (forall t : alts, True).
  Proof.
    apply dc_sgfs_alts_ind; try (intros; exact I).
    - intros c l s IH p I. exact (IH p I).
    - intros p _ i k [].
    - intros f dflt t _ r IHr p I i k Hin K. cbn [sg_info] in Hin. destruct Hin as [<-|Hin]; [discriminate|].
      cbn [inv_sg] in I. exact (IHr p I i k Hin K).
    - intros f dflt t _ k0 src n IHn r IHr p I i k Hin K. cbn [inv_sg] in I. destruct I as [P [F [In Ir]]].
      cbn [sg_info] in Hin. destruct Hin as [<-|Hin].
      + cbn in K. injection K as <-. exact P.
      + apply in_app_or in Hin as [Hin|Hin]; [exact (IHn _ In i k Hin K) | exact (IHr _ Ir i k Hin K)].
  Qed.

  Lemma resolved_keys :
    (forall d p, unres_dc d = false -> forall i, In i (sg_info_dc p d) -> i_key i <> None)
    /\ (forall s p, unres s = false -> forall i, In i (sg_info p s) -> i_key i <> None)
    /\ (forall t : alts, True).
  Proof.
    apply dc_sgfs_alts_ind; try (intros; exact I).
    - intros c l s IH p U. exact (IH p U).
    - intros p _ i [].
    - intros f dflt t _ r _ p U. discriminate.
    - intros f dflt t _ k src n IHn r IHr p U i Hin. cbn [unres] in U. apply orb_false_iff in U as [Un Ur].
      cbn [sg_info] in Hin. destruct Hin as [<-|Hin]; [discriminate|].
      apply in_app_or in Hin as [Hin|Hin]; [exact (IHn _ Un i Hin) | exact (IHr _ Ur i Hin)].
  Qed.
End Resolved.

Lemma chosen_paths info : (forall i, In i info -> i_key i <> None) -> map fst (chosen_of info) = map i_path info.
Proof.
  induction info as [|i r IH]; intros H; [reflexivity|].
  unfold chosen_of. cbn [flat_map]. fold (chosen_of r).
  destruct (i_key i) eqn:K; [|exfalso; apply (H i); [now left | exact K]].
  cbn. f_equal. apply IH. intros j Hj. apply H. now right.
Qed.

Lemma info_at_some q info i : info_at q info = Some i -> In i info /\ i_path i = q.
Proof.
  induction info as [|j r IH]; cbn [info_at]; [discriminate|].
  destruct (path_eqb (i_path j) q) eqn:E.
  - intros H. injection H as <-. apply path_eqb_eq in E. split; [now left | exact E].
  - intros H. destruct (IH H). split; [now right | assumption].
Qed.

Lemma info_at_none q info : info_at q info = None -> path_in q (map i_path info) = false.
Proof.
  induction info as [|j r IH]; cbn [info_at]; [reflexivity|].
  destruct (path_eqb (i_path j) q) eqn:E; [discriminate|].
  intros H. specialize (IH H). unfold path_in in *. cbn [map existsb]. rewrite IH. apply path_eqb_neq in E.
  assert (X : path_eqb q (i_path j) = false) by (apply path_eqb_neq; congruence). now rewrite X.
Qed.

Lemma path_in_app q a b : path_in q (a ++ b) = path_in q a || path_in q b.
Proof. unfold path_in. apply existsb_app. Qed.

Lemma in_xgiven tb argv t q : In t argv -> exact tb (fst t) = Some q -> In (snd t) (xgiven tb argv q).
Proof.
  intros Ht E. unfold xgiven. apply in_map. apply filter_In. split; [exact Ht|]. rewrite E. apply path_eqb_refl.
Qed.

Lemma report_chosen ma es tb argv info :
  (forall i k, In i info -> i_key i = Some k -> pick (i_dflt i) (i_keys i) (xgiven tb argv (i_path i)) = Ok k) ->
  (forall i, In i info -> given ma es argv (i_path i) = xgiven tb argv (i_path i)) ->
  report ma true es argv info = chosen_of info.
Proof.
  induction info as [|i r IH]; intros Hp Hg; [reflexivity|].
  unfold report, chosen_of. cbn [flat_map]. fold (report ma true es argv r). fold (chosen_of r).
  rewrite IH; [| intros j k Hj Kj; apply Hp; [now right | exact Kj] | intros j Hj; apply Hg; now right].
  destruct (i_key i) as [k|] eqn:K; [|reflexivity].
  rewrite (Hg i (or_introl eq_refl)).
  destruct (last_opt (xgiven tb argv (i_path i))) as [v|] eqn:L; [|reflexivity].
  now rewrite (pick_last _ _ _ _ _ (Hp i k (or_introl eq_refl) K) L).
Qed.

Lemma forallb_map {A B} (g : B -> bool) (f : A -> B) l : forallb g (map f l) = forallb (fun x => g (f x)) l.
Proof. induction l as [|x r IH]; cbn; [reflexivity | now rewrite IH]. Qed.

Lemma forallb_ext_in {A} (f g : A -> bool) l : (forall x, In x l -> f x = g x) -> forallb f l = forallb g l.
Proof.
  induction l as [|x r IH]; intros H; [reflexivity|].
  cbn. rewrite (H x) by now left. rewrite IH; [reflexivity|]. intros y Hy. apply H. now right.
Qed.

(* the main parser accepts exactly the command lines whose every option denotes something selected *)
Lemma toks_agree ma tb argv info lp :
  str_nodupb (map fst tb) = true -> plain_for tb (map i_path info ++ lp) argv = true ->
  (forall i, In i info -> i_key i <> None) ->
  (forall i k, In i info -> i_key i = Some k -> pick (i_dflt i) (i_keys i) (xgiven tb argv (i_path i)) = Ok k) ->
  forallb (tok_ok ma (restrict tb (map i_path info ++ lp)) info) argv
  = forallb (intent_ok (chosen_of info) lp) (intents_of tb argv).
Proof.
  intros ND PL Hk Hp. unfold intents_of. rewrite forallb_map. apply forallb_ext_in. intros t Ht.
  unfold tok_ok, intent_ok. cbn [fst snd].
  rewrite classify_plain by (eapply plain_tok; eassumption).
  rewrite exact_restrict by exact ND. rewrite (chosen_paths info Hk).
  destruct (exact tb (fst t)) as [q|] eqn:E; [|reflexivity].
  rewrite path_in_app.
  destruct (info_at q info) as [i|] eqn:A.
  - destruct (info_at_some _ _ _ A) as [Hin Hq].
    assert (Q : path_in q (map i_path info) = true).
    { apply path_in_In. rewrite <- Hq. now apply in_map. }
    rewrite Q. cbn [orb]. rewrite A.
    destruct (i_key i) as [k|] eqn:K; [|exfalso; now apply (Hk i Hin)].
    pose proof (pick_valid _ _ _ _ (Hp i k Hin K)) as V. rewrite forallb_forall in V. apply V.
    rewrite Hq. now apply in_xgiven.
  - rewrite (info_at_none _ _ A). cbn [orb].
    destruct (path_in q lp); [now rewrite A | reflexivity].
Qed.

(* ---------- the loop ---------- *)
Lemma sg_paths_in tb vis argv q :
  str_nodupb (map fst tb) = true -> In q vis -> given false (restrict tb vis) argv q = xgiven tb argv q.
Proof. intros ND H. apply given_sub; [exact ND | now apply path_in_In]. Qed.

Section Loop.
  Variables (idf pw : bool) (tb : optab) (argv : list tok) (root : path).
  Let xg := xgiven tb argv.
  Let its := intents_of tb argv.
  Hypothesis ND : str_nodupb (map fst tb) = true.

  (* how a round can end: one level further with everything recorded so far intact; argparse's error, and then the
     specification rejects the command line as well; or the round's own assertion, on a shape that is not crash-free *)
  Lemma round_step d :
    good_dc d = true -> inv_dc xg root d ->
    match round false idf pw true tb argv root d with
    | Ok d' => good_dc d' = true /\ inv_dc xg root d' /\ erase_dc d' = erase_dc d
               /\ (crash_free_dc false d = true -> crash_free_dc false d' = true)
    | Err e => (e = Exit 2 /\ sp_dc its root SType d = None)
               \/ (e = Raise "AssertionError" /\ crash_free_dc false d = false /\ pw = true)
    end.
  Proof.
    intros G I. unfold round.
    destruct (asserts_dc idf pw false d) eqn:A.
    - set (es := restrict tb (map i_path (sg_info_dc root d))).
      assert (Hg : forall q, In q (map i_path (sg_info_dc root d)) -> given false es argv q = xg q).
      { intros q Hq. apply sg_paths_in; assumption. }
      destruct (round_dc false true es argv root d) as [d'|e] eqn:R.
      + destruct (proj1 (round_ok tb argv es) d root d' Hg G I R) as [G' [I' E']].
        repeat split; try assumption. intros C. exact (proj1 (round_crash false true es argv) d root false d' C R).
      + left. exact (proj1 (round_fail tb argv its (igiven_intents tb argv) es) d root e SType Hg G I R).
    - right. split; [reflexivity|]. split.
      + destruct (crash_free_dc false d) eqn:C; [|reflexivity].
        rewrite (proj1 (crash_asserts idf pw) d false false (fun H => H) C) in A. discriminate.
      + destruct pw; [reflexivity|]. rewrite (proj1 (asserts_no_preset idf) d) in A. discriminate.
  Qed.

  Lemma loop_ok : forall fuel d,
    good_dc d = true -> inv_dc xg root d ->
    match loop false idf pw true true fuel tb argv root d with
    | Ok r => good_dc r = true /\ inv_dc xg root r /\ erase_dc r = erase_dc d /\ unres_dc r = false
    | Err e => e = OutOfFuel \/ (e = Exit 2 /\ sp_dc its root SType d = None)
               \/ (e = Raise "AssertionError" /\ crash_free_dc false d = false /\ pw = true)
    end.
  Proof.
    induction fuel as [|k IH]; intros d G I; [now left|].
    cbn [loop]. pose proof (round_step d G I) as S.
    destruct (round false idf pw true tb argv root d) as [d'|e].
    - destruct S as [G' [I' [E' C']]]. cbn [andb]. destruct (unres_dc d') eqn:U; cbn [negb].
      + specialize (IH d' G' I'). destruct (loop false idf pw true true k tb argv root d') as [r|e].
        * destruct IH as [A [B [C D]]]. repeat split; try assumption. congruence.
        * destruct IH as [->|[[-> N]|[-> [N P]]]]; [now left| |].
          -- right. left. split; [reflexivity|].
             rewrite <- (sp_dc_erase its root SType d), <- E', sp_dc_erase. exact N.
          -- right. right. split; [reflexivity|]. split; [|exact P]. destruct (crash_free_dc false d); [|reflexivity].
             rewrite (C' eq_refl) in N. discriminate.
      + repeat split; assumption.
    - right. exact S.
  Qed.

  Lemma resolve_ok fuel d :
    good_dc d = true -> inv_dc xg root d ->
    match resolve false idf pw true true true fuel tb argv root d with
    | Ok r => good_dc r = true /\ inv_dc xg root r /\ erase_dc r = erase_dc d /\ unres_dc r = false
    | Err e => e = OutOfFuel \/ (e = Exit 2 /\ sp_dc its root SType d = None)
               \/ (e = Raise "AssertionError" /\ crash_free_dc false d = false /\ pw = true)
    end.
  Proof.
    intros G I. unfold resolve. destruct (unres_dc d) eqn:U; cbn [negb]; [now apply loop_ok|]. repeat split; assumption.
  Qed.
End Loop.

(* ---------- comparing outcomes ---------- *)
Scheme val_mind := Induction for val Sort Prop
  with vals_mind := Induction for vals Sort Prop.
Combined Scheme val_vals_ind from val_mind, vals_mind.

Lemma leaves_eqb_refl l : leaves_eqb l l = true.
Proof. induction l as [|[n v] r IH]; cbn; [reflexivity | now rewrite String.eqb_refl, Z.eqb_refl, IH]. Qed.

Lemma val_eqb_refl : (forall v, val_eqb v v = true) /\ (forall vs, vals_eqb vs vs = true).
Proof.
  apply val_vals_ind.
  - intros c l s IH. cbn [val_eqb]. now rewrite String.eqb_refl, leaves_eqb_refl, IH.
  - reflexivity.
  - intros f v IHv r IHr. cbn [vals_eqb]. now rewrite String.eqb_refl, IHv, IHr.
Qed.

Lemma rep_eqb_refl a : rep_eqb a a = true.
Proof.
  unfold rep_eqb. rewrite Nat.eqb_refl. cbn [andb]. apply forallb_forall. intros x Hx.
  apply existsb_exists. exists x. split; [exact Hx|]. now rewrite path_eqb_refl, String.eqb_refl.
Qed.

(* ---------- the theorems, about the model instantiated with the regenerated facts ---------- *)
(* the main parser knows the subgroup options as well as the leaves *)
Lemma registered_gen_eq root r :
  registered_gen root r = (map i_path (sg_info_dc root r) ++ leaf_paths_dc root r)%list.
Proof. reflexivity. Qed.

Section Main.
  Variables (tb : optab) (argv : list tok) (root : path) (d : dc) (fuel : nat).
  Hypothesis D : declared_dc d = true.
  Hypothesis W : wf_dc d = true.
  Hypothesis ND : str_nodupb (map fst tb) = true.
  Hypothesis L : depth_dc d <= fuel.
  Let xg := xgiven tb argv.
  Let its := intents_of tb argv.

  Lemma resolve_gen_cases :
    match resolve_gen fuel tb argv root d with
    | Ok r => good_dc r = true /\ inv_dc xg root r /\ erase_dc r = d /\ unres_dc r = false
    | Err e => e = Exit 2 /\ sp_dc its root SType d = None
    end.
  Proof.
    pose proof (proj1 good_of_hyps d D W) as G.
    destruct (proj1 (declared_facts xg) d D) as [Ed I].
    pose proof (resolve_ok inst_default_gen preset_wins_gen tb argv root ND fuel d G (I root)) as R.
    pose proof (proj1 (resolve_fuel false inst_default_gen preset_wins_gen true true tb argv root fuel d L)) as NF.
    unfold resolve_gen. change sub_abbrev_gen with false. change loop_breaks_gen with true.
    change validates_gen with true. change setup_sees_argv_gen with true.
    destruct (resolve false inst_default_gen preset_wins_gen true true true fuel tb argv root d) as [r|e].
    - rewrite Ed in R. exact R.
    - destruct R as [->|[R|[_ [_ P]]]]; [congruence | exact R |].
      (* preset_wins_gen is false since DataclassWrapper no longer pushes a default instance's attribute into a subgroup
         field: the round's assertion cannot fail any more *)
      vm_compute in P. discriminate.
  Qed.

  (* C07_key *)
  Lemma resolved_keys_spec r :
    resolve_gen fuel tb argv root d = Ok r ->
    erase_dc r = d /\ unres_dc r = false
    /\ forall i, In i (sg_info_dc root r) ->
                 exists k, i_key i = Some k /\ spec_key (i_dflt i) (i_keys i) (xg (i_path i)) = Some k.
  Proof.
    intros R. pose proof resolve_gen_cases as C. rewrite R in C. destruct C as [G [I [E U]]].
    repeat split; try assumption. intros i Hi.
    destruct (i_key i) as [k|] eqn:K; [|exfalso; exact (proj1 resolved_keys r root U i Hi K)].
    exists k. split; [reflexivity|]. apply pick_spec_key. exact (proj1 (inv_info tb argv) r root I i k Hi K).
  Qed.

  (* what a completed parse computes (C07_value, C07_namespace) *)
  Lemma final_spec r :
    plain_for tb (registered_gen root r) argv = true ->
    resolve_gen fuel tb argv root d = Ok r ->
    exists v soft,
      sp_dc its root SType d = Some (v, chosen_of (sg_info_dc root r), leaf_paths_dc root r, soft)
      /\ final_gen tb argv root r =
         if forallb (intent_ok (chosen_of (sg_info_dc root r)) (leaf_paths_dc root r)) its
         then Ok (v, chosen_of (sg_info_dc root r)) else Err (Exit 2).
  Proof.
    intros PL R. pose proof resolve_gen_cases as C. rewrite R in C. destruct C as [G [I [E U]]].
    set (info := sg_info_dc root r). set (lp := leaf_paths_dc root r).
    set (es := restrict tb (registered_gen root r)).
    assert (Hreg : forall q, In q (registered_gen root r) -> given main_abbrev_gen es argv q = xg q).
    { intros q Hq. apply given_main; [exact ND | exact PL | now apply path_in_In]. }
    destruct (proj1 (resolved_value tb argv its main_abbrev_gen es (igiven_intents tb argv)) r root SType U I)
      as [soft Es].
    { intros q Hq. apply Hreg. rewrite registered_gen_eq. apply in_or_app. now right. }
    exists (value_dc main_abbrev_gen true true es argv root SType r), soft. split.
    - rewrite <- E at 1. rewrite sp_dc_erase. exact Es.
    - pose proof (proj1 resolved_keys r root U) as Hk.
      pose proof (proj1 (inv_info tb argv) r root I) as Hp.
      unfold final_gen, final. fold (registered_gen root r). fold info. fold es. fold lp.
      assert (T : forallb (tok_ok main_abbrev_gen es info) argv = forallb (intent_ok (chosen_of info) lp) its).
      { unfold es. rewrite registered_gen_eq. fold info. fold lp. apply toks_agree; [assumption | | assumption | assumption].
        unfold info, lp. rewrite <- registered_gen_eq. exact PL. }
      rewrite T. destruct (forallb (intent_ok (chosen_of info) lp) its); [|reflexivity].
      change instantiates_bottom_up_gen with true. cbn [orb].
      assert (Rp : report main_abbrev_gen report_ns_gen es argv info = chosen_of info).
      { change report_ns_gen with true. apply (report_chosen main_abbrev_gen es tb argv info).
        - exact Hp.
        - intros i Hi. apply Hreg. rewrite registered_gen_eq. apply in_or_app. left. now apply in_map. }
      now rewrite Rp.
  Qed.

  (* the possible outcomes: a value or argparse's error, on EVERY declared tree *)
  Theorem no_crash :
    (exists x, parse_gen fuel tb argv root d = Ok x) \/ parse_gen fuel tb argv root d = Err (Exit 2).
  Proof.
    unfold parse_gen, parse.
    fold (resolve_gen fuel tb argv root d). pose proof resolve_gen_cases as C.
    destruct (resolve_gen fuel tb argv root d) as [r|e].
    - unfold final. destruct (forallb _ argv); [left; eexists; reflexivity | now right].
    - destruct C as [-> _]. now right.
  Qed.

  (* no written option is read as an abbreviation by the main parser (vacuous when the set-up does not complete) *)
  Definition no_abbrev : bool :=
    match resolve_gen fuel tb argv root d with
    | Ok r => plain_for tb (registered_gen root r) argv
    | Err _ => true
    end.

  Theorem meets_spec_partial :
    no_abbrev = true ->
    expect_allows (spec d root its) (parse_gen fuel tb argv root d) = true.
  Proof.
    intros PL. unfold parse_gen, parse.
    fold (resolve_gen fuel tb argv root d). fold (final_gen tb argv root).
    pose proof resolve_gen_cases as C. pose proof final_spec as F. unfold no_abbrev in PL.
    destruct (resolve_gen fuel tb argv root d) as [r|e].
    - destruct (F r PL eq_refl) as [v [soft [S Fi]]]. rewrite Fi. unfold spec. rewrite S.
      destruct (forallb _ its); [|reflexivity].
      destruct soft; cbn [expect_allows]; [reflexivity|]. now rewrite (proj1 val_eqb_refl), rep_eqb_refl.
    - destruct C as [-> N]. unfold spec. rewrite N. reflexivity.
  Qed.

  (* whatever the specification rejects (unknown key, required key missing, an option of an unselected alternative,
     an option that denotes nothing, a non-int value) ends with argparse's error *)
  Theorem rejected_partial :
    no_abbrev = true ->
    spec d root its = MustReject -> parse_gen fuel tb argv root d = Err (Exit 2).
  Proof.
    intros PL S. pose proof (meets_spec_partial PL) as M. rewrite S in M.
    destruct no_crash as [[x E]|E]; rewrite E in *; [discriminate | reflexivity].
  Qed.

  Theorem value_namespace r v rep :
    plain_for tb (registered_gen root r) argv = true ->
    resolve_gen fuel tb argv root d = Ok r -> final_gen tb argv root r = Ok (v, rep) ->
    rep = chosen_of (sg_info_dc root r)
    /\ exists lp soft, sp_dc its root SType d = Some (v, rep, lp, soft).
  Proof.
    intros PL R Fi. destruct (final_spec r PL R) as [v' [soft [S F']]]. rewrite F' in Fi.
    destruct (forallb _ its); [|discriminate]. injection Fi as <- <-. split; [reflexivity|]. now exists (leaf_paths_dc root r), soft.
  Qed.
  Lemma plain_no_abbrev : plain tb argv = true -> no_abbrev = true.
  Proof. intros P. unfold no_abbrev. destruct (resolve_gen fuel tb argv root d); [now apply plain_plain_for | reflexivity]. Qed.
End Main.

(* an option no registered spelling starts with is refused, whatever the tree and the table (C07_foreign_rejected) *)
Lemma prefixb_refl s : prefixb s s = true.
Proof. induction s as [|a r IH]; cbn; [reflexivity | now rewrite Ascii.eqb_refl, IH]. Qed.

Theorem foreign_rejected tb argv root r o v :
  In (o, v) argv ->
  (forall e, In e tb -> prefixb o (fst e) = true -> ~ In (snd e) (registered_gen root r)) ->
  final_gen tb argv root r = Err (Exit 2).
Proof.
  intros Ht Hf. unfold final_gen, final. fold (registered_gen root r).
  set (es := restrict tb (registered_gen root r)).
  assert (X : classify main_abbrev_gen es o = None).
  { assert (N : forall e, In e es -> prefixb o (fst e) = false).
    { intros e He. destruct (prefixb o (fst e)) eqn:P; [|reflexivity]. exfalso.
      unfold es, restrict in He. apply filter_In in He as [He1 He2]. apply path_in_In in He2. exact (Hf e He1 P He2). }
    unfold classify.
    assert (E : exact es o = None).
    { apply exact_none. intros e He Ee. specialize (N e He). rewrite Ee, prefixb_refl in N. discriminate. }
    rewrite E. destruct (main_abbrev_gen && prefixb "--" o); [|reflexivity].
    now rewrite (filter_nil _ es N). }
  assert (F : forallb (tok_ok main_abbrev_gen es (sg_info_dc root r)) argv = false).
  { apply not_true_iff_false. intros A. rewrite forallb_forall in A. specialize (A (o, v) Ht).
    unfold tok_ok in A. cbn [fst] in A. rewrite X in A. discriminate. }
  now rewrite F.
Qed.

(* ---------- Union[A, B] sub-command fields (argparse's own cutting of the command line is an input) ---------- *)
Lemma cmd_selects ptab stabs cname pleaves cf before k after c l :
  forallb (flat_ok main_abbrev_gen ptab) before = true ->
  assoc_str k (cf_table cf) = Some (c, l) ->
  forallb (flat_ok main_abbrev_gen (match assoc_str k stabs with Some s => s | None => [] end)) after = true ->
  cmd_parse_gen cname pleaves cf ptab stabs before (Some k) after =
  Ok (V cname (flat_val main_abbrev_gen ptab before pleaves)
        (VCons (cf_name cf)
               (V c (flat_val main_abbrev_gen (match assoc_str k stabs with Some s => s | None => [] end) after l) VNil) VNil)).
Proof. intros B T A. unfold cmd_parse_gen, cmd_parse. now rewrite B, T, A. Qed.

Lemma cmd_unknown ptab stabs cname pleaves cf before k after :
  assoc_str k (cf_table cf) = None ->
  cmd_parse_gen cname pleaves cf ptab stabs before (Some k) after = Err (Exit 2).
Proof. intros T. unfold cmd_parse_gen, cmd_parse. destruct (forallb _ before); cbn [negb]; [now rewrite T | reflexivity]. Qed.

Lemma cmd_required ptab stabs cname pleaves cf before :
  cf_default cf = None ->
  cmd_parse_gen cname pleaves cf ptab stabs before None [] = Err (Exit 2).
Proof. intros T. unfold cmd_parse_gen, cmd_parse. destruct (forallb _ before); cbn [negb]; [now rewrite T | reflexivity]. Qed.

Lemma flat_ok_unknown ma es o v :
  (forall e, In e es -> prefixb o (fst e) = false) -> flat_ok ma es (o, v) = false.
Proof.
  intros N. unfold flat_ok. cbn [fst snd].
  set (es' := map (fun e => (fst e, [snd e])) es).
  assert (N' : forall e, In e es' -> prefixb o (fst e) = false).
  { intros e He. unfold es' in He. apply in_map_iff in He as [e0 [<- H0]]. cbn [fst]. now apply N. }
  unfold classify.
  assert (E : exact es' o = None).
  { apply exact_none. intros [a b] He Ee. cbn [fst] in Ee. subst a. specialize (N' _ He). cbn [fst] in N'.
    rewrite prefixb_refl in N'. discriminate. }
  rewrite E. destruct (ma && prefixb "--" o); [|reflexivity].
  assert (Fl : filter (fun e : string * path => prefixb o (fst e)) es' = []) by (apply filter_nil; exact N').
  now rewrite Fl.
Qed.

(* an option that is not (a prefix of) one of the chosen member's spellings is refused after the sub-command token,
   and one that is not the parent's is refused before it *)
Lemma cmd_foreign_after ptab stabs cname pleaves cf before k after o v :
  In (o, v) after ->
  (forall e, In e (match assoc_str k stabs with Some s => s | None => [] end) -> prefixb o (fst e) = false) ->
  cmd_parse_gen cname pleaves cf ptab stabs before (Some k) after = Err (Exit 2).
Proof.
  intros Ht N. unfold cmd_parse_gen, cmd_parse. destruct (forallb _ before); cbn [negb]; [|reflexivity].
  destruct (assoc_str k (cf_table cf)) as [[c l]|]; [|reflexivity].
  assert (F : forallb (flat_ok main_abbrev_gen (match assoc_str k stabs with Some s => s | None => [] end)) after = false).
  { apply not_true_iff_false. intros A. rewrite forallb_forall in A. specialize (A (o, v) Ht).
    rewrite (flat_ok_unknown _ _ _ _ N) in A. discriminate. }
  now rewrite F.
Qed.

Lemma cmd_foreign_before ptab stabs cname pleaves cf before name after o v :
  In (o, v) before -> (forall e, In e ptab -> prefixb o (fst e) = false) ->
  cmd_parse_gen cname pleaves cf ptab stabs before name after = Err (Exit 2).
Proof.
  intros Ht N. unfold cmd_parse_gen, cmd_parse.
  assert (F : forallb (flat_ok main_abbrev_gen ptab) before = false).
  { apply not_true_iff_false. intros A. rewrite forallb_forall in A. specialize (A (o, v) Ht).
    rewrite (flat_ok_unknown _ _ _ _ N) in A. discriminate. }
  now rewrite F.
Qed.

(* ---------- witnesses for the statements that are false of the code ---------- *)
Definition W_TREE : dc :=
  Dc "Cfg" [("seed", 0%Z)]
     (SUn "model" (Some "small")
          (ACons "small" SType (Dc "Sgd" [("lr", 1%Z); ("momentum", 2%Z)] SNil)
          (ACons "adamish" (SInst [("lrd", 11%Z); ("beta", 22%Z)]) (Dc "Adam" [("lrd", 10%Z); ("beta", 20%Z)] SNil) ANil))
          SNil).
Definition W_TB : optab :=
  [("--seed", ["c"; "seed"]); ("--model", ["c"; "model"]); ("--lr", ["c"; "model"; "lr"]);
   ("--momentum", ["c"; "model"; "momentum"]); ("--lrd", ["c"; "model"; "lrd"]); ("--beta", ["c"; "model"; "beta"])].

Definition W_CRASH : dc :=
  Dc "T" []
     (SUn "m" (Some "ia")
          (ACons "ia" (SInst [("x", 7%Z)])
                 (Dc "A" [("x", 1%Z)] (SUn "inner" (Some "i1") (ACons "i1" SType (Dc "L" [("y", 2%Z)] SNil) ANil) SNil))
                 ANil)
          SNil).

Definition or_dc (x : res dc) : dc := match x with Ok r => r | Err _ => Dc "" [] SNil end.
Definition or_out (x : res (val * list (path * string))) : val * list (path * string) :=
  match x with Ok o => o | Err _ => (V "" [] VNil, []) end.

(* `--mod adamish`: skipped by the rounds, read as --model by the main parser *)
Definition W_NS_ARGV : list tok := [("--mod", "adamish")].
Definition W_NS_R : dc := Eval vm_compute in or_dc (resolve_gen 1 W_TB W_NS_ARGV ["c"] W_TREE).
Definition W_NS_OUT : val * list (path * string) := Eval vm_compute in or_out (final_gen W_TB W_NS_ARGV ["c"] W_NS_R).

Lemma namespace_refuted :
  exists tb argv root d fuel r v rep,
    declared_dc d = true /\ wf_dc d = true /\ str_nodupb (map fst tb) = true /\ depth_dc d <= fuel /\
    resolve_gen fuel tb argv root d = Ok r /\ final_gen tb argv root r = Ok (v, rep) /\
    rep <> chosen_of (sg_info_dc root r).
Proof.
  exists W_TB, W_NS_ARGV, ["c"], W_TREE, 1, W_NS_R, (fst W_NS_OUT), (snd W_NS_OUT).
  split; [vm_compute; reflexivity|]. split; [vm_compute; reflexivity|]. split; [vm_compute; reflexivity|].
  split; [vm_compute; lia|]. split; [vm_compute; reflexivity|]. split; [vm_compute; reflexivity|].
  vm_compute. discriminate.
Qed.

(* W_CRASH (a frozen-instance entry whose class has a defaulted subgroup field) used to end with the round's own
   AssertionError; it is kept as a regression witness: corpus/C07/instance_entry_nested_default.json and
   Properties/C07.v C07_nonvacuous. *)

(* `--lr 5` while only Adam's `--lrd` is registered *)
Definition W_FX_ARGV : list tok := [("--model", "adamish"); ("--lr", "5")].
Definition W_FX_R : dc := Eval vm_compute in or_dc (resolve_gen 1 W_TB W_FX_ARGV ["c"] W_TREE).
Definition W_FX_OUT : val * list (path * string) := Eval vm_compute in or_out (final_gen W_TB W_FX_ARGV ["c"] W_FX_R).

Lemma foreign_exact_refuted :
  exists tb argv root d fuel r o v q x,
    declared_dc d = true /\ wf_dc d = true /\ str_nodupb (map fst tb) = true /\ depth_dc d <= fuel /\
    resolve_gen fuel tb argv root d = Ok r /\ In (o, v) argv /\ exact tb o = Some q /\ ~ In q (registered_gen root r) /\
    final_gen tb argv root r = Ok x.
Proof.
  exists W_TB, W_FX_ARGV, ["c"], W_TREE, 1, W_FX_R, "--lr", "5", ["c"; "model"; "lr"], W_FX_OUT.
  split; [vm_compute; reflexivity|]. split; [vm_compute; reflexivity|]. split; [vm_compute; reflexivity|].
  split; [vm_compute; lia|]. split; [vm_compute; reflexivity|].
  split; [right; now left|]. split; [vm_compute; reflexivity|].
  split; [|vm_compute; reflexivity].
  vm_compute. intros H. repeat (destruct H as [H|H]; [discriminate|]). exact H.
Qed.
