(* Proofs/ReplaceMapping.v - a mapping assigned to a field that does not hold a dataclass instance is a VALUE: it arrives
   unchanged whatever its keys are (dotted keys included).  Only the TOP level of the change set is required to be in normal
   form (keys_ok); nothing is assumed about the mapping itself - the theorems under deep_nf do not cover such values. *)
From SPV Require Import Base.Str Model.Replace Model.ReplaceSpec Gen.FactsReplace Proofs.ReplaceProofs.

Lemma mapping_value_is_leaf_F0 cls fs cs o' k d v :
  wf_obj (VDc cls fs) = true -> keys_ok cs = true ->
  replace F0 (VDc cls fs) cs = Ok o' ->
  dget cs k = Some (VDict d) -> flookup fs k = Some (FInit, v) -> is_dc v = false ->
  get o' [k] = Some (VDict d).
Proof.
  intros W K R G L D.
  assert (N : NoDup (map fname fs)).
  { cbn [wf_obj] in W. apply andb_true_iff in W as [W _]. now apply nodup_names. }
  rewrite (replace_dc_char cls fs cs N K) in R.
  apply bind_ok in R as [fs' [E R]].
  destruct (forallb (fun kv => has_field fs (fst kv)) cs); [|discriminate].
  injection R as <-.
  pose proof (each_lookup _ _ _ _ E k) as EL. rewrite L in EL. destruct EL as [nv [Hnv Hl]].
  unfold newval in Hnv. cbn [fknd fname fval fst snd] in Hnv. rewrite G, D in Hnv. injection Hnv as <-.
  cbn [get]. unfold child. rewrite Hl. reflexivity.
Qed.

Theorem mapping_value_is_leaf cls fs cs o' k d v :
  wf_obj (VDc cls fs) = true -> keys_ok cs = true ->
  replace_gen (VDc cls fs) cs = Ok o' ->
  dget cs k = Some (VDict d) -> flookup fs k = Some (FInit, v) -> is_dc v = false ->
  get o' [k] = Some (VDict d).
Proof. unfold replace_gen. rewrite facts_are_expected. exact (mapping_value_is_leaf_F0 cls fs cs o' k d v). Qed.

(* non-vacuity: a mapping with dotted keys (outside deep_nf) assigned to a dict-typed field arrives unchanged *)
Example mapping_value_dotted_keys_example :
  let o := VDc "C0" [("tags", FInit, VDict [("old", VLeaf "int" "1")]); ("n", FInit, VLeaf "int" "2")] in
  let d := [("git.sha", VLeaf "str" "'abc'"); ("x.y.z", VDict [("a.b", VLeaf "int" "0")])] in
  exists o', replace_gen o [("tags", VDict d)] = Ok o' /\ get o' ["tags"] = Some (VDict d) /\ deep_nf [("tags", VDict d)] = false.
Proof. eexists. split; [vm_compute; reflexivity|]. split; vm_compute; reflexivity. Qed.
