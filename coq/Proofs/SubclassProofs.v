From SPV Require Import Base.Str Model.Subclass Model.SubclassSpec Gen.FactsSubclass.

(* ---------- stable insertion sort: same elements, ascending keys ---------- *)
Fixpoint sorted_by {A} (key : A -> nat) (l : list A) : Prop :=
  match l with [] => True | x :: r => (forall y, In y r -> key x <= key y) /\ sorted_by key r end.

Lemma ins_by_In {A} (key : A -> nat) x y l : In y (ins_by key x l) <-> y = x \/ In y l.
Proof.
  induction l as [|z r IH]; simpl.
  - intuition.
  - destruct (Nat.ltb (key x) (key z)); simpl; [intuition|]. rewrite IH. intuition.
Qed.

Lemma ins_by_sorted {A} (key : A -> nat) x l : sorted_by key l -> sorted_by key (ins_by key x l).
Proof.
  induction l as [|z r IH]; simpl; intros H.
  - split; [intros y []|exact I].
  - destruct H as [Hz Hr]. destruct (Nat.ltb (key x) (key z)) eqn:E.
    + apply Nat.ltb_lt in E. simpl. split; [|split; assumption].
      intros y [<-|Hy]; [lia|]. specialize (Hz y Hy). lia.
    + apply Nat.ltb_ge in E. simpl. split; [|apply IH; exact Hr].
      intros y Hy. apply ins_by_In in Hy as [->|Hy]; [exact E|apply Hz; exact Hy].
Qed.

Lemma fold_ins_In {A} (key : A -> nat) l : forall acc y,
  In y (fold_left (fun a x => ins_by key x a) l acc) <-> In y acc \/ In y l.
Proof.
  induction l as [|x r IH]; intros acc y; simpl; [intuition|].
  rewrite IH, ins_by_In. intuition.
Qed.

Lemma fold_ins_sorted {A} (key : A -> nat) l : forall acc,
  sorted_by key acc -> sorted_by key (fold_left (fun a x => ins_by key x a) l acc).
Proof.
  induction l as [|x r IH]; intros acc H; simpl; [exact H|]. apply IH, ins_by_sorted, H.
Qed.

Lemma sort_by_In {A} (key : A -> nat) l y : In y (sort_by key l) <-> In y l.
Proof. unfold sort_by. rewrite fold_ins_In. simpl. intuition. Qed.

Lemma sort_by_sorted {A} (key : A -> nat) l : sorted_by key (sort_by key l).
Proof. unfold sort_by. apply fold_ins_sorted. exact I. Qed.

Lemma find_sorted_min {A} (key : A -> nat) (P : A -> bool) l x :
  sorted_by key l -> find P l = Some x -> forall y, In y l -> P y = true -> key x <= key y.
Proof.
  induction l as [|z r IH]; simpl; intros Hs Hf y Hy Py; [contradiction|].
  destruct Hs as [Hz Hr]. destruct (P z) eqn:Pz.
  - injection Hf as <-. destruct Hy as [<-|Hy]; [lia|apply Hz, Hy].
  - destruct Hy as [<-|Hy]; [congruence|]. eapply IH; eauto.
Qed.

(* ---------- small list facts ---------- *)
Lemma has_all_In c keys : has_all c keys = true <-> (forall k, In k keys -> In k (field_names c)).
Proof.
  unfold has_all. rewrite forallb_forall. split; intros H k Hk.
  - apply str_in_In, H, Hk.
  - apply str_in_In, H, Hk.
Qed.

Lemma has_all_ext c k1 k2 : (forall k, In k k1 <-> In k k2) -> has_all c k1 = has_all c k2.
Proof.
  intros H. destruct (has_all c k1) eqn:E1, (has_all c k2) eqn:E2; try reflexivity.
  - rewrite has_all_In in E1. assert (X : has_all c k2 = true) by (apply has_all_In; intros k Hk; apply E1, H, Hk). congruence.
  - rewrite has_all_In in E2. assert (X : has_all c k1 = true) by (apply has_all_In; intros k Hk; apply E2, H, Hk). congruence.
Qed.

Lemma filter_nil_all {A} (p : A -> bool) l : (forall x, In x l -> p x = false) -> filter p l = [].
Proof.
  induction l as [|x r IH]; simpl; intros H; [reflexivity|].
  rewrite (H x (or_introl eq_refl)). apply IH. intros y Hy. apply H. right. exact Hy.
Qed.

Lemma filter_all {A} (p : A -> bool) l : (forall x, In x l -> p x = true) -> filter p l = l.
Proof.
  induction l as [|x r IH]; simpl; intros H; [reflexivity|].
  rewrite (H x (or_introl eq_refl)). f_equal. apply IH. intros y Hy. apply H. right. exact Hy.
Qed.

Lemma find_class_some h n c : find_class h n = Some c -> In c h /\ c_name c = n.
Proof. unfold find_class. intros H. apply find_some in H as [H1 H2]. apply String.eqb_eq in H2. auto. Qed.

Lemma find_class_unique h c : NoDup (map c_name h) -> In c h -> find_class h (c_name c) = Some c.
Proof.
  unfold find_class. induction h as [|x r IH]; simpl; intros Hn Hin; [contradiction|].
  inversion Hn as [|? ? Hx Hr]; subst.
  destruct (String.eqb (c_name x) (c_name c)) eqn:E.
  - destruct Hin as [->|Hin]; [reflexivity|].
    apply String.eqb_eq in E. exfalso. apply Hx. rewrite E. apply in_map, Hin.
  - destruct Hin as [->|Hin]; [rewrite String.eqb_refl in E; discriminate|]. apply IH; assumption.
Qed.

Lemma find_field_some c k f : find_field c k = Some f -> In f (c_fields c) /\ f_name f = k.
Proof. unfold find_field. intros H. apply find_some in H as [H1 H2]. apply String.eqb_eq in H2. auto. Qed.

Lemma find_field_unique c f : NoDup (field_names c) -> In f (c_fields c) -> find_field c (f_name f) = Some f.
Proof.
  unfold find_field, field_names. induction (c_fields c) as [|x r IH]; simpl; intros Hn Hin; [contradiction|].
  inversion Hn as [|? ? Hx Hr]; subst.
  destruct (String.eqb (f_name x) (f_name f)) eqn:E.
  - destruct Hin as [->|Hin]; [reflexivity|].
    apply String.eqb_eq in E. exfalso. apply Hx. rewrite E. apply in_map, Hin.
  - destruct Hin as [->|Hin]; [rewrite String.eqb_refl in E; discriminate|]. apply IH; assumption.
Qed.

Lemma ftype_of_field c f : NoDup (field_names c) -> In f (c_fields c) -> ftype_of c (f_name f) = Some (f_ty f).
Proof. intros Hn Hin. unfold ftype_of. rewrite find_field_unique by assumption. reflexivity. Qed.

Lemma ftype_of_some c k t : ftype_of c k = Some t -> exists f, In f (c_fields c) /\ f_name f = k /\ f_ty f = t.
Proof.
  unfold ftype_of. destruct (find_field c k) as [f|] eqn:E; simpl; intros H; [|discriminate].
  injection H as <-. apply find_field_some in E as [H1 H2]. eauto.
Qed.

Lemma in_names_field c k : In k (field_names c) -> exists f, In f (c_fields c) /\ f_name f = k.
Proof. unfold field_names. intros H. apply in_map_iff in H as [f [H1 H2]]. eauto. Qed.

(* ---------- vfields as association lists ---------- *)
Fixpoint vf_list (fs : vfields) : list (string * value) :=
  match fs with VNil => [] | VCons k v r => (k, v) :: vf_list r end.
Fixpoint vf_of (l : list (string * value)) : vfields :=
  match l with [] => VNil | (k, v) :: r => VCons k v (vf_of r) end.
Definition getd (k : string) (fs : vfields) : value := match vf_get k fs with Some v => v | None => VInt 0 end.

Lemma vf_get_in k fs : In k (vf_keys fs) -> exists v, vf_get k fs = Some v.
Proof.
  induction fs as [|k' v r IH]; simpl; intros H; [contradiction|].
  destruct (String.eqb k' k) eqn:E; [eauto|].
  destruct H as [->|H]; [rewrite String.eqb_refl in E; discriminate|auto].
Qed.

Lemma rebuild_list fs : forall names, vf_keys fs = names -> NoDup names ->
  map (fun n => (n, getd n fs)) names = vf_list fs.
Proof.
  induction fs as [|k v r IH]; intros names Hk Hn; simpl in Hk; subst names; simpl; [reflexivity|].
  inversion Hn as [|? ? Hx Hr]; subst.
  unfold getd at 1. simpl. rewrite String.eqb_refl. f_equal.
  rewrite <- (IH (vf_keys r) eq_refl Hr). apply map_ext_in. intros n Hin.
  unfold getd. simpl. destruct (String.eqb k n) eqn:E; [|reflexivity].
  apply String.eqb_eq in E. subst. contradiction.
Qed.

Lemma vf_of_list fs : vf_of (vf_list fs) = fs.
Proof. induction fs as [|k v r IH]; simpl; [reflexivity|now rewrite IH]. Qed.

(* ---------- collect / fill over a list of fields ---------- *)
Lemma collect_map (g : fdecl -> value) dec l :
  (forall f, In f l -> assoc (f_name f) dec = Some (Ok (g f))) ->
  collect l dec = Ok (map (fun f => (f_name f, g f)) l).
Proof.
  induction l as [|f r IH]; simpl; intros H; [reflexivity|].
  rewrite (H f (or_introl eq_refl)). rewrite IH; [reflexivity|]. intros x Hx. apply H. right. exact Hx.
Qed.

Lemma fill_map err (g : fdecl -> value) present l :
  (forall f, In f l -> assoc (f_name f) present = Some (g f)) ->
  fill err l present = Ok (vf_of (map (fun f => (f_name f, g f)) l)).
Proof.
  induction l as [|f r IH]; simpl; intros H; [reflexivity|].
  rewrite (H f (or_introl eq_refl)). rewrite IH; [reflexivity|]. intros x Hx. apply H. right. exact Hx.
Qed.

Lemma assoc_map_names {A} (g : string -> A) names k : In k names -> assoc k (map (fun n => (n, g n)) names) = Some (g k).
Proof.
  induction names as [|n r IH]; simpl; intros H; [contradiction|].
  destruct (String.eqb n k) eqn:E; [apply String.eqb_eq in E; subst; reflexivity|].
  destruct H as [->|H]; [rewrite String.eqb_refl in E; discriminate|auto].
Qed.

Lemma collect_keys l dec present : collect l dec = Ok present ->
  forall k, In k (map fst present) <-> (In k (map f_name l) /\ assoc k dec <> None).
Proof.
  revert present. induction l as [|f r IH]; simpl; intros present H k.
  - injection H as <-. simpl. intuition.
  - destruct (assoc (f_name f) dec) as [[v|e]|] eqn:E; try discriminate.
    + destruct (collect r dec) as [p|] eqn:Ec; [|discriminate]. injection H as <-. simpl.
      rewrite (IH p eq_refl k). split.
      * intros [<-|[H1 H2]]; [split; [left; reflexivity|congruence]|split; [right; exact H1|exact H2]].
      * intros [[<-|H1] H2]; [left; reflexivity|right; split; assumption].
    + rewrite (IH present H k). split.
      * intros [H1 H2]. split; [right; exact H1|exact H2].
      * intros [[<-|H1] H2]; [congruence|split; assumption].
Qed.

Lemma fill_keys err l present vs : fill err l present = Ok vs -> vf_keys vs = map f_name l.
Proof.
  revert vs. induction l as [|f r IH]; simpl; intros vs H.
  - injection H as <-. reflexivity.
  - destruct (match assoc (f_name f) present with Some v => Some v | None => f_default f end); [|discriminate].
    destruct (fill err r present) as [w|]; [|discriminate]. injection H as <-. simpl. f_equal. apply IH. reflexivity.
Qed.

Lemma find_ext' {A} (p q : A -> bool) l : (forall x, p x = q x) -> find p l = find q l.
Proof. intros H. induction l as [|x r IH]; simpl; [reflexivity|]. rewrite H, IH. reflexivity. Qed.

Lemma strs_eq_eq a b : strs_eq a b = true -> a = b.
Proof.
  revert b. induction a as [|x r IH]; intros [|y s]; simpl; intros H; try discriminate; [reflexivity|].
  apply andb_true_iff in H as [H1 H2]. apply String.eqb_eq in H1. subst. f_equal. apply IH, H2.
Qed.


Scheme value_mind := Induction for value Sort Prop
  with vfields_mind := Induction for vfields Sort Prop.
Combined Scheme value_vfields_mutind from value_mind, vfields_mind.

(* ====================================================================================== *)
(* The model, for arbitrary facts satisfying what the property needs of them               *)
(* ====================================================================================== *)
Section Main.
  Variable TYPE_KEY : string.
  Variable skey : sortkey.
  Variable cmp : cmpop.
  Variable cset : candset.
  Variable rset : reqset.
  Variable pk : pick.
  Variable drule : droprule.
  Variable dis_absent : bool.
  Variable child_drop : option bool.
  Variable fwd : fwdrule.
  Variable list_item_drop dict_value_drop dc_preset : option bool.
  Variable item_save : bool.
  Variable construct_err locate_err : string.
  Variable h : hier.
  Variable modname : string.
  Variable enum : string -> list string.

  Hypothesis Hskey : skey = KAllCount.
  Hypothesis Hcset : cset = FAll.
  Hypothesis Hrset : rset = ReqAll.
  Hypothesis Hfwd : fwd = FwdDataclassNotNone.     (* drop_extra_fields reaches the decoder of a dataclass-typed field *)
  Hypothesis Hcerr : construct_err = "RuntimeError".
  Hypothesis Hcd : child_drop = Some false.       (* the chosen subclass is entered with drop_extra_fields=False *)
  Hypothesis Hcmp : cmp = CGe.
  Hypothesis Hpk : pk = PickFirst.
  Hypothesis Hwf : wf_hier TYPE_KEY h = true.
  (* the enumeration lists exactly the classes below, in ANY order (repetitions allowed) *)
  Hypothesis Henum : forall b n, In n (enum b) <-> In n (map c_name (descendants h b)).

  Notation fser := (from_ser TYPE_KEY skey cmp cset rset pk drule dis_absent child_drop fwd list_item_drop dict_value_drop dc_preset construct_err locate_err h modname enum).
  Notation dkvs := (decode_kvs TYPE_KEY skey cmp cset rset pk drule dis_absent child_drop fwd list_item_drop dict_value_drop dc_preset construct_err locate_err h modname enum).
  Notation ditems := (decode_items TYPE_KEY skey cmp cset rset pk drule dis_absent child_drop fwd list_item_drop dict_value_drop dc_preset construct_err locate_err h modname enum).
  Notation bld := (build skey cmp cset rset pk drule dis_absent child_drop construct_err h enum).
  Notation tser := (to_ser TYPE_KEY item_save modname).
  Notation fldser := (fields_ser TYPE_KEY item_save modname).
  Notation chs := (choose skey cmp cset pk h enum).
  Notation cands := (candidates h enum).

  (* the effective drop_extra_fields of a call on class n *)
  Notation model_drop := (resolve_drop drule dis_absent h).

  (* ---------- what well-formedness gives ---------- *)
  Lemma wf_names : NoDup (map c_name h).
  Proof. unfold wf_hier in Hwf. apply andb_true_iff in Hwf as [H _]. apply str_nodupb_NoDup, H. Qed.

  Lemma wf_class_of c : In c h -> wf_class TYPE_KEY h c = true.
  Proof.
    intros Hin. unfold wf_hier in Hwf. apply andb_true_iff in Hwf as [_ H].
    rewrite forallb_forall in H. apply H, Hin.
  Qed.

  Lemma wf_fields_nodup c : In c h -> NoDup (field_names c).
  Proof.
    intros Hin. pose proof (wf_class_of c Hin) as H. unfold wf_class in H.
    repeat (apply andb_true_iff in H as [H ?]).
    match goal with X : str_nodupb (field_names c) = true |- _ => apply str_nodupb_NoDup, X end.
  Qed.

  Lemma wf_no_type_key c : In c h -> ~ In TYPE_KEY (field_names c).
  Proof.
    intros Hin. pose proof (wf_class_of c Hin) as H. unfold wf_class in H.
    repeat (apply andb_true_iff in H as [H ?]).
    match goal with X : negb (str_in TYPE_KEY _) = true |- _ => apply negb_true_iff, str_in_false in X; exact X end.
  Qed.

  Lemma wf_acyclic c : In c h -> ~ In (c_name c) (ancestors h (c_name c)).
  Proof.
    intros Hin. pose proof (wf_class_of c Hin) as H. unfold wf_class in H.
    repeat (apply andb_true_iff in H as [H ?]).
    match goal with X : negb (str_in (c_name c) _) = true |- _ => apply negb_true_iff, str_in_false in X; exact X end.
  Qed.

  Lemma wf_ancestor c a : In c h -> In a (ancestors h (c_name c)) ->
    exists A, find_class h a = Some A /\ fields_sub A c = true.
  Proof.
    intros Hin Ha. pose proof (wf_class_of c Hin) as H. unfold wf_class in H.
    apply andb_true_iff in H as [_ H]. rewrite forallb_forall in H. specialize (H a Ha).
    destruct (find_class h a) as [A|]; [eauto|discriminate].
  Qed.

  Lemma fields_sub_spec A c f : fields_sub A c = true -> In f (c_fields A) ->
    exists t, ftype_of c (f_name f) = Some t /\ (f_ty f = TInt <-> t = TInt).
  Proof.
    unfold fields_sub. rewrite forallb_forall. intros H Hin. specialize (H f Hin).
    destruct (ftype_of c (f_name f)) as [t|]; [|discriminate]. exists t. split; [reflexivity|].
    destruct t, (f_ty f); try discriminate; split; intros; congruence.
  Qed.

  Lemma fields_sub_names A c : fields_sub A c = true -> forall k, In k (field_names A) -> In k (field_names c).
  Proof.
    intros H k Hk. apply in_names_field in Hk as [f [Hf <-]].
    destruct (fields_sub_spec A c f H Hf) as [t [Ht _]]. apply ftype_of_some in Ht as [g [Hg [Hn _]]].
    rewrite <- Hn. apply in_map, Hg.
  Qed.

  Lemma in_descendants c b : In c (descendants h b) <-> In c h /\ In b (ancestors h (c_name c)).
  Proof. unfold descendants. rewrite filter_In, str_in_In. reflexivity. Qed.

  (* ---------- candidates = the classes below, whatever the enumeration order ---------- *)
  Lemma candidates_iff b C : In C (cands b) <-> In C (descendants h b).
  Proof.
    unfold candidates. rewrite in_flat_map. split.
    - intros [n [Hn HC]]. destruct (String.eqb n b); [contradiction|].
      destruct (find_class h n) as [c|] eqn:E; [|contradiction]. destruct HC as [<-|[]].
      apply find_class_some in E as [Hin Hname].
      apply Henum, in_map_iff in Hn as [c' [Hc' Hd]].
      assert (c' = c).
      { pose proof Hd as Hd'. apply in_descendants in Hd' as [Hin' _].
        pose proof (find_class_unique h c' wf_names Hin') as U1.
        pose proof (find_class_unique h c wf_names Hin) as U2. rewrite Hc', <- Hname in U1. congruence. }
      subst. exact Hd.
    - intros Hd. pose proof Hd as Hd'. apply in_descendants in Hd' as [Hin Hanc].
      exists (c_name C). split; [apply Henum, in_map, Hd|].
      destruct (String.eqb (c_name C) b) eqn:E.
      + apply String.eqb_eq in E. subst b. exfalso. eapply wf_acyclic; eauto.
      + rewrite (find_class_unique h C wf_names Hin). left. reflexivity.
  Qed.

  Lemma cmp_is_has_all c req : cmp_holds cmp (cand_names cset c) req = has_all c req.
  Proof. unfold cmp_holds, cand_names. rewrite Hcmp, Hcset. reflexivity. Qed.

  Lemma key_is_nfields c : key_of skey c = nfields c.
  Proof. unfold key_of. rewrite Hskey. reflexivity. Qed.

  Lemma choose_some b req R : chs b req = Some R ->
    In R (descendants h b) /\ has_all R req = true
    /\ forall C, In C (descendants h b) -> has_all C req = true -> nfields R <= nfields C.
  Proof.
    unfold choose. rewrite Hpk. intros H.
    pose proof (find_some _ _ H) as [Hin HP]. cbv beta in HP. rewrite sort_by_In in Hin. rewrite cmp_is_has_all in HP.
    split; [apply candidates_iff, Hin|]. split; [exact HP|].
    intros C HC HCa. rewrite <- !key_is_nfields.
    eapply (find_sorted_min (key_of skey)); [apply sort_by_sorted|exact H| |].
    - apply sort_by_In, candidates_iff, HC.
    - cbv beta. rewrite cmp_is_has_all. exact HCa.
  Qed.

  Lemma choose_none b req : chs b req = None -> forall C, In C (descendants h b) -> has_all C req = false.
  Proof.
    unfold choose. rewrite Hpk. intros H C HC.
    pose proof (find_none _ _ H C) as X. cbv beta in X. rewrite cmp_is_has_all in X. apply X.
    apply sort_by_In, candidates_iff, HC.
  Qed.

  (* the required names: the extra keys and every field found in the dict, init or not *)
  Lemma req_names_In c extra present k :
    In k (req_names rset c extra present) <-> In k (extra ++ map fst present)%list.
  Proof.
    unfold req_names. rewrite Hrset. rewrite !in_app_iff, !in_map_iff. split.
    - intros [H|[[kv [E H]]|[kv [E H]]]]; [left; exact H| |]; right; exists kv; apply filter_In in H as [H _]; auto.
    - intros [H|[kv [E H]]]; [left; exact H|]. right.
      destruct (is_init c (fst kv)) eqn:Ei.
      + left. exists kv. split; [exact E|]. apply filter_In. auto.
      + right. exists kv. split; [exact E|]. apply filter_In. rewrite Ei. auto.
  Qed.

  (* ---------- one entry of the dict, as decode_kvs treats it ---------- *)
  Definition decode_one (t : fty) (drop : bool) (s : ser) : res value :=
    match t with
    | TInt => decode_int s
    | TDc b => fser b (fwd_drop fwd dc_preset drop) s
    | TList b => match s with
                 | SList items => match seq_items (ditems b (unforwarded dc_preset list_item_drop) items) with Ok vs => Ok (VList vs) | Err e => Err e end
                 | _ => Err (Raise "TypeError")
                 end
    | TDict b => match s with
                 | SMap items => match seq_items (ditems b (unforwarded dc_preset dict_value_drop) items) with Ok vs => Ok (VDict vs) | Err e => Err e end
                 | _ => Err (Raise "AttributeError")
                 end
    end.

  Lemma dkvs_cons ft drop k s r :
    dkvs ft drop (SCons k s r) =
    if String.eqb k TYPE_KEY then dkvs ft drop r
    else match ft k with
         | None => dkvs ft drop r
         | Some t => (k, decode_one t drop s) :: dkvs ft drop r
         end.
  Proof.
    cbn [decode_kvs]. destruct (String.eqb k TYPE_KEY); [reflexivity|].
    destruct (ft k) as [[| b | b | b]|]; reflexivity.
  Qed.

  Lemma assoc_decode ft drop kvs k :
    assoc k (dkvs ft drop kvs) =
    if String.eqb k TYPE_KEY then None
    else match ft k with None => None | Some t => option_map (decode_one t drop) (sf_get k kvs) end.
  Proof.
    induction kvs as [|k' s r IH].
    - cbn [decode_kvs assoc sf_get]. destruct (String.eqb k TYPE_KEY); [reflexivity|]. destruct (ft k); reflexivity.
    - rewrite dkvs_cons. cbn [sf_get]. destruct (String.eqb k' TYPE_KEY) eqn:Et.
      + rewrite IH. destruct (String.eqb k TYPE_KEY) eqn:Ek; [reflexivity|].
        destruct (String.eqb k' k) eqn:Ekk; [|reflexivity].
        apply String.eqb_eq in Ekk. subst. congruence.
      + destruct (String.eqb k' k) eqn:Ekk.
        * apply String.eqb_eq in Ekk. subst k'. rewrite Et.
          destruct (ft k) as [t|]; [|rewrite IH, Et; reflexivity].
          cbn [assoc]. rewrite String.eqb_refl. reflexivity.
        * destruct (ft k') as [t|]; [|exact IH]. cbn [assoc]. rewrite Ekk. exact IH.
  Qed.

  (* ---------- unfolding from_dict on a dict ---------- *)
  Definition keys_of (kvs : sfields) : list string :=
    filter (fun k => negb (String.eqb k TYPE_KEY)) (sf_keys kvs).

  Lemma fser_plain cls dropo kvs :
    sf_get TYPE_KEY kvs = None ->
    fser cls dropo (SMap kvs) =
    match find_class h cls with
    | Some c => bld (fun ft drop => dkvs ft drop kvs) (keys_of kvs) c dropo
    | None => Err (Raise "KeyError")
    end.
  Proof. intros H1. cbn [from_ser]. rewrite H1. reflexivity. Qed.

  Lemma fser_typed cls dropo kvs t :
    sf_get TYPE_KEY kvs = Some (SStr t) ->
    fser cls dropo (SMap kvs) =
    match locate h modname t with
    | Some live => bld (fun ft drop => dkvs ft drop kvs) (keys_of kvs) live dropo
    | None => Err (Raise locate_err)
    end.
  Proof. intros H1. cbn [from_ser]. rewrite H1. reflexivity. Qed.

  Lemma sf_get_none k kvs : sf_get k kvs = None <-> ~ In k (sf_keys kvs).
  Proof.
    induction kvs as [|k' s r IH]; simpl; [intuition|].
    destruct (String.eqb k' k) eqn:E.
    - apply String.eqb_eq in E. subst. split; [discriminate|]. intros H. exfalso. apply H. left. reflexivity.
    - rewrite IH. apply String.eqb_neq in E. intuition.
  Qed.

  Lemma keys_of_plain kvs : sf_get TYPE_KEY kvs = None -> keys_of kvs = sf_keys kvs.
  Proof.
    intros H. apply sf_get_none in H. unfold keys_of. apply filter_all. intros k Hk.
    apply negb_true_iff, String.eqb_neq. intros ->. contradiction.
  Qed.

  Lemma extras_nil_iff c keys : extras_of c keys = [] <-> has_all c keys = true.
  Proof.
    unfold extras_of, has_all. induction keys as [|k r IH]; simpl; [intuition|].
    destruct (str_in k (field_names c)); simpl; [exact IH|]. split; discriminate.
  Qed.

  Lemma has_all_self c : has_all c (field_names c) = true.
  Proof. apply has_all_In. auto. Qed.

  Lemma ftype_of_in c k : In k (field_names c) -> exists t, ftype_of c k = Some t.
  Proof.
    intros H. apply in_names_field in H as [f [Hf Hn]]. unfold ftype_of, find_field.
    destruct (find (fun f0 => String.eqb (f_name f0) k) (c_fields c)) as [g|] eqn:E; [eexists; reflexivity|].
    pose proof (find_none _ _ E f Hf) as X. cbv beta in X. rewrite Hn, String.eqb_refl in X. discriminate.
  Qed.

  Lemma construct_inv c present v : construct construct_err c present = Ok v ->
    exists vs, v = VObj (c_name c) vs /\ vf_keys vs = field_names c.
  Proof.
    unfold construct. destruct (fill construct_err (c_fields c) present) as [vs|] eqn:E; [|discriminate].
    intros H. injection H as <-. exists vs. split; [reflexivity|]. eapply fill_keys, E.
  Qed.

  Lemma build_inv dec keys c dropo v : bld dec keys c dropo = Ok v ->
    exists present, collect (c_fields c) (dec (ftype_of c) (model_drop (c_name c) dropo)) = Ok present /\
    ( ((extras_of c keys = [] \/ model_drop (c_name c) dropo = true) /\ construct construct_err c present = Ok v)
      \/ (extras_of c keys <> [] /\ model_drop (c_name c) dropo = false /\ exists child present2,
            chs (c_name c) (req_names rset c (extras_of c keys) present) = Some child /\
            collect (c_fields child) (dec (ftype_of child) (model_drop (c_name child) child_drop)) = Ok present2 /\
            construct construct_err child present2 = Ok v) ).
  Proof.
    unfold build.
    destruct (collect (c_fields c) (dec (ftype_of c) (model_drop (c_name c) dropo))) as [present|] eqn:Ec; [|discriminate].
    intros H. exists present. split; [reflexivity|].
    destruct (extras_of c keys) as [|e es] eqn:Ee.
    - left. split; [left; reflexivity|exact H].
    - destruct (model_drop (c_name c) dropo) eqn:Ed.
      + left. split; [right; reflexivity|exact H].
      + right. split; [discriminate|]. split; [reflexivity|].
        destruct (chs (c_name c) (req_names rset c (e :: es) present)) as [child|] eqn:Ech; [|discriminate].
        destruct (collect (c_fields child) (dec (ftype_of child) (model_drop (c_name child) child_drop))) as [p2|] eqn:Ec2; [|discriminate].
        destruct (extras_of child keys); [|discriminate].
        exists child, p2. auto.
  Qed.

  Lemma build_child dec keys c dropo present child p2 :
    collect (c_fields c) (dec (ftype_of c) (model_drop (c_name c) dropo)) = Ok present ->
    extras_of c keys <> [] -> model_drop (c_name c) dropo = false ->
    chs (c_name c) (req_names rset c (extras_of c keys) present) = Some child ->
    collect (c_fields child) (dec (ftype_of child) (model_drop (c_name child) child_drop)) = Ok p2 ->
    extras_of child keys = [] ->
    bld dec keys c dropo = construct construct_err child p2.
  Proof.
    intros Hc He Hd Hch Hc2 He2. unfold build. rewrite Hc, Hd.
    destruct (extras_of c keys) as [|e es]; [congruence|]. rewrite Hch, Hc2, He2. reflexivity.
  Qed.

  Lemma build_self dec keys c dropo present :
    collect (c_fields c) (dec (ftype_of c) (model_drop (c_name c) dropo)) = Ok present ->
    (extras_of c keys = [] \/ model_drop (c_name c) dropo = true) ->
    bld dec keys c dropo = construct construct_err c present.
  Proof.
    intros Hc H. unfold build. rewrite Hc.
    destruct (extras_of c keys) as [|e es]; [reflexivity|]. destruct H as [H|H]; [discriminate|]. rewrite H. reflexivity.
  Qed.

  (* the keys the search looks at = the keys of the dict *)
  Lemma req_keys c drop kvs present : In c h -> sf_get TYPE_KEY kvs = None ->
    collect (c_fields c) (dkvs (ftype_of c) drop kvs) = Ok present ->
    forall k, In k (extras_of c (sf_keys kvs) ++ map fst present)%list <-> In k (sf_keys kvs).
  Proof.
    intros Hin Ht Hc k. rewrite in_app_iff. rewrite (collect_keys _ _ _ Hc k). unfold extras_of. rewrite filter_In.
    rewrite assoc_decode. split.
    - intros [[H _]|[_ H]]; [exact H|].
      destruct (String.eqb k TYPE_KEY); [congruence|]. destruct (ftype_of c k); [|congruence].
      destruct (sf_get k kvs) eqn:E; [|simpl in H; congruence].
      destruct (in_dec string_dec k (sf_keys kvs)) as [Y|N]; [exact Y|]. apply sf_get_none in N. congruence.
    - intros Hk. destruct (str_in k (field_names c)) eqn:E.
      + right. apply str_in_In in E. split; [exact E|].
        assert (Hne : String.eqb k TYPE_KEY = false).
        { apply String.eqb_neq. intros ->. apply sf_get_none in Ht. contradiction. }
        rewrite Hne. destruct (ftype_of_in c k E) as [t ->].
        destruct (sf_get k kvs) eqn:Eg; [simpl; congruence|]. apply sf_get_none in Eg. contradiction.
      + left. split; [exact Hk|reflexivity].
  Qed.

  (* ---------- C14_superset / C14_drop (class part): which class a dict loads as ---------- *)
  Theorem result_admissible base dropo kvs v :
    sf_get TYPE_KEY kvs = None ->
    fser base dropo (SMap kvs) = Ok v ->
    exists R fs r, v = VObj R fs /\ find_class h R = Some r /\ vf_keys fs = field_names r
                   /\ admissible h base (sf_keys kvs) (model_drop base dropo) R = true.
  Proof.
    intros Ht H. rewrite (fser_plain _ _ _ Ht) in H. rewrite (keys_of_plain _ Ht) in H.
    destruct (find_class h base) as [B|] eqn:EB; [|discriminate].
    pose proof (find_class_some _ _ _ EB) as [HB HBn].
    apply build_inv in H as [present [Hc [[Hcase Hcon]|[Hex [Hd [child [p2 [Hch [Hc2 Hcon]]]]]]]]].
    - apply construct_inv in Hcon as [vs [-> Hk]]. exists (c_name B), vs, B.
      rewrite HBn in *. split; [reflexivity|]. split; [exact EB|]. split; [exact Hk|].
      unfold admissible. rewrite EB. destruct Hcase as [He|Hd].
      + apply extras_nil_iff in He. rewrite He, orb_true_r. apply String.eqb_refl.
      + rewrite Hd. apply String.eqb_refl.
    - apply construct_inv in Hcon as [vs [-> Hk]].
      rewrite HBn in *. apply choose_some in Hch as [Hdesc [Hall Hmin]].
      pose proof Hdesc as Hd'. apply in_descendants in Hd' as [Hchild Hanc].
      pose proof (find_class_unique h child wf_names Hchild) as Hfc.
      exists (c_name child), vs, child. split; [reflexivity|]. split; [exact Hfc|]. split; [exact Hk|].
      unfold admissible. rewrite EB, Hd.
      assert (HnB : has_all B (sf_keys kvs) = false).
      { destruct (has_all B (sf_keys kvs)) eqn:E; [|reflexivity]. apply extras_nil_iff in E. contradiction. }
      rewrite HnB. simpl. unfold min_superset. rewrite Hfc.
      assert (Hreq : forall k, In k (req_names rset B (extras_of B (sf_keys kvs)) present) <-> In k (sf_keys kvs)).
      { intros k. rewrite req_names_In. apply (req_keys B _ kvs present HB Ht Hc). }
      apply andb_true_iff. split; [apply andb_true_iff; split|].
      + apply str_in_In, Hanc.
      + rewrite <- (has_all_ext child _ _ Hreq). exact Hall.
      + apply forallb_forall. intros C HC. destruct (has_all C (sf_keys kvs)) eqn:E; [|reflexivity]. simpl.
        apply Nat.leb_le, Hmin; [exact HC|]. rewrite (has_all_ext C _ _ Hreq). exact E.
  Qed.

  (* ---------- C14_drop (class part), with or without init=False fields ---------- *)
  Theorem drop_exact_thm base dropo kvs v :
    sf_get TYPE_KEY kvs = None -> model_drop base dropo = true ->
    fser base dropo (SMap kvs) = Ok v ->
    exists B fs, find_class h base = Some B /\ v = VObj base fs /\ vf_keys fs = field_names B.
  Proof.
    intros Ht Hd H. rewrite (fser_plain _ _ _ Ht) in H.
    destruct (find_class h base) as [B|] eqn:EB; [|discriminate].
    pose proof (find_class_some _ _ _ EB) as [HB HBn]. rewrite <- HBn in Hd.
    apply build_inv in H as [present [Hc [[_ Hcon]|[_ [Hd' _]]]]]; [|congruence].
    apply construct_inv in Hcon as [vs [-> Hk]]. exists B, vs. rewrite HBn. auto.
  Qed.

  (* ---------- an instance's own dict, decoded as its own class ---------- *)
  Lemma tser_obj save c fs :
    tser save (VObj c fs) = SMap (if save then SCons TYPE_KEY (SStr (qual modname c)) (fldser save fs) else fldser save fs).
  Proof. reflexivity. Qed.
  Lemma tser_int save z : tser save (VInt z) = SInt z.
  Proof. reflexivity. Qed.
  Lemma sf_keys_fldser save fs : sf_keys (fldser save fs) = vf_keys fs.
  Proof. induction fs as [|k v r IH]; cbn [fields_ser sf_keys vf_keys]; [reflexivity|now rewrite IH]. Qed.

  Lemma sf_get_fldser save k fs : sf_get k (fldser save fs) = option_map (tser save) (vf_get k fs).
  Proof.
    induction fs as [|k' v r IH]; cbn [fields_ser sf_get vf_get option_map]; [reflexivity|]. destruct (String.eqb k' k); [reflexivity|exact IH].
  Qed.

  Lemma map_fields_names {A} (g : string -> A) c :
    map (fun f => (f_name f, g (f_name f))) (c_fields c) = map (fun n => (n, g n)) (field_names c).
  Proof. unfold field_names. rewrite map_map. reflexivity. Qed.

  (* if every field of c decodes to the value fs holds for it, the class is rebuilt with exactly fs *)
  Lemma collect_construct_full c fs D : In c h -> vf_keys fs = field_names c ->
    (forall f, In f (c_fields c) -> assoc (f_name f) D = Some (Ok (getd (f_name f) fs))) ->
    exists present, collect (c_fields c) D = Ok present /\ construct construct_err c present = Ok (VObj (c_name c) fs).
  Proof.
    intros Hin Hk HD. eexists. split; [apply (collect_map (fun f => getd (f_name f) fs)), HD|].
    unfold construct. rewrite (fill_map construct_err (fun f => getd (f_name f) fs)).
    - rewrite (map_fields_names (fun n => getd n fs)).
      rewrite (rebuild_list fs (field_names c) Hk (wf_fields_nodup c Hin)), vf_of_list. reflexivity.
    - intros f Hf. rewrite (map_fields_names (fun n => getd n fs)).
      apply (assoc_map_names (fun n => getd n fs)). apply in_map, Hf.
  Qed.

  Lemma entry_of_instance c save drop fs f : In c h -> In f (c_fields c) -> In (f_name f) (vf_keys fs) ->
    (forall v, vf_get (f_name f) fs = Some v -> decode_one (f_ty f) drop (tser save v) = Ok v) ->
    forall pre, (pre = SNil \/ exists q, pre = SCons TYPE_KEY q SNil) ->
    assoc (f_name f) (dkvs (ftype_of c) drop
                        (match pre with SCons k q _ => SCons k q (fldser save fs) | _ => fldser save fs end))
    = Some (Ok (getd (f_name f) fs)).
  Proof.
    intros Hin Hf Hk Hdec pre Hpre.
    assert (Hne : String.eqb (f_name f) TYPE_KEY = false).
    { apply String.eqb_neq. intros E. apply (wf_no_type_key c Hin). rewrite <- E. apply in_map, Hf. }
    assert (Hget : exists v, vf_get (f_name f) fs = Some v).
    { apply vf_get_in. exact Hk. }
    destruct Hget as [v Hv].
    rewrite assoc_decode, Hne, (ftype_of_field c f (wf_fields_nodup c Hin) Hf).
    assert (Hs : sf_get (f_name f) (match pre with SCons k q _ => SCons k q (fldser save fs) | _ => fldser save fs end)
                 = Some (tser save v)).
    { destruct Hpre as [->|[q ->]].
      - rewrite sf_get_fldser, Hv. reflexivity.
      - cbn [sf_get]. rewrite String.eqb_sym, Hne. rewrite sf_get_fldser, Hv. reflexivity. }
    rewrite Hs. simpl. rewrite (Hdec v Hv). unfold getd. rewrite Hv. reflexivity.
  Qed.

  (* ---------- flat instances ---------- *)
  Lemma flat_get fs k v : flat_fields fs = true -> vf_get k fs = Some v -> exists z, v = VInt z.
  Proof.
    induction fs as [|k' v' r IH]; simpl; intros Hf Hg; [discriminate|].
    destruct v'; try discriminate. destruct (String.eqb k' k); [injection Hg as <-; eauto|auto].
  Qed.

  Lemma flat_class_ty c f : flat_class c = true -> In f (c_fields c) -> f_ty f = TInt.
  Proof.
    unfold flat_class. rewrite forallb_forall. intros H Hf. specialize (H f Hf). destruct (f_ty f); congruence.
  Qed.

  Lemma flat_entry c d drop fs f : In c h -> In f (c_fields c) -> f_ty f = TInt -> In (f_name f) (field_names d) ->
    vf_keys fs = field_names d -> flat_fields fs = true -> ~ In TYPE_KEY (field_names d) ->
    assoc (f_name f) (dkvs (ftype_of c) drop (fldser false fs)) = Some (Ok (getd (f_name f) fs)).
  Proof.
    intros Hin Hf Hty Hnd Hk Hflat Hnt.
    assert (Hne : String.eqb (f_name f) TYPE_KEY = false).
    { apply String.eqb_neq. intros E. apply Hnt. rewrite <- E. exact Hnd. }
    rewrite assoc_decode, Hne, (ftype_of_field c f (wf_fields_nodup c Hin) Hf), Hty, sf_get_fldser.
    destruct (vf_get_in (f_name f) fs) as [v Hv]; [rewrite Hk; exact Hnd|].
    rewrite Hv. destruct (flat_get fs _ v Hflat Hv) as [z ->]. simpl. unfold getd. rewrite Hv. reflexivity.
  Qed.

  Lemma nodup_same_fields R d : NoDup (field_names d) -> has_all R (field_names d) = true ->
    nfields R <= nfields d -> has_all d (field_names R) = true.
  Proof.
    intros Hn Ha Hl. apply has_all_In. rewrite has_all_In in Ha.
    apply NoDup_length_incl; [exact Hn| |exact Ha].
    unfold field_names. rewrite !map_length. exact Hl.
  Qed.

  Lemma fields_sub_ty A c f : fields_sub A c = true -> In f (c_fields A) -> ftype_of c (f_name f) = Some (f_ty f).
  Proof.
    unfold fields_sub. rewrite forallb_forall. intros H Hin. specialize (H f Hin).
    destruct (ftype_of c (f_name f)) as [t|]; [|discriminate].
    destruct t, (f_ty f); try discriminate; try reflexivity; apply String.eqb_eq in H; subst; reflexivity.
  Qed.

  (* ---------- C14_identified ---------- *)
  (* the core: an instance of an identified class, each of whose field values decodes back (without dropping) from
     its own serialized form, loads through the base as itself *)
  Lemma identified_core base dropo d fs :
    In d h -> identified h base d = true -> vf_keys fs = field_names d ->
    (forall f, In f (c_fields d) -> forall v, vf_get (f_name f) fs = Some v ->
               decode_one (f_ty f) false (tser false v) = Ok v) ->
    model_drop base dropo = false ->
    fser base dropo (tser false (VObj (c_name d) fs)) = Ok (VObj (c_name d) fs).
  Proof.
    intros Hd Hid Hk Hent Hdrop.
    pose proof (wf_no_type_key d Hd) as Hnt.
    rewrite tser_obj.
    assert (Hkeys : sf_keys (fldser false fs) = field_names d) by (rewrite sf_keys_fldser; exact Hk).
    assert (Ht : sf_get TYPE_KEY (fldser false fs) = None) by (apply sf_get_none; rewrite Hkeys; exact Hnt).
    rewrite (fser_plain _ _ _ Ht), (keys_of_plain _ Ht), Hkeys.
    unfold identified in Hid. apply andb_true_iff in Hid as [Hcone Hall].
    rewrite forallb_forall in Hall.
    assert (Hself : extras_of d (field_names d) = []) by (apply extras_nil_iff, has_all_self).
    assert (Hfull : exists present,
               collect (c_fields d) (dkvs (ftype_of d) false (fldser false fs)) = Ok present
               /\ construct construct_err d present = Ok (VObj (c_name d) fs)).
    { apply collect_construct_full; [exact Hd|exact Hk|]. intros f Hf.
      apply (entry_of_instance d false false fs f Hd Hf) with (pre := SNil).
      - rewrite Hk. apply in_map, Hf.
      - apply Hent, Hf.
      - left. reflexivity. }
    unfold in_cone in Hcone. apply orb_true_iff in Hcone as [Heq|Hanc].
    - (* loaded through its own class *)
      apply String.eqb_eq in Heq. subst base. rewrite (find_class_unique h d wf_names Hd).
      destruct Hfull as [present [Hc Hcon]].
      rewrite (build_self _ _ _ _ present); [exact Hcon|rewrite Hdrop; exact Hc|left; exact Hself].
    - apply str_in_In in Hanc.
      destruct (wf_ancestor d base Hd Hanc) as [B [EB Hsub]]. rewrite EB.
      pose proof (find_class_some _ _ _ EB) as [HB HBn].
      assert (Hne : c_name B <> c_name d).
      { rewrite HBn. intros E. apply (wf_acyclic d Hd). rewrite E in Hanc. exact Hanc. }
      rewrite <- HBn in Hdrop.
      (* the base's own fields decode: they are d's fields, with d's types *)
      assert (HcB : exists present, collect (c_fields B)
                 (dkvs (ftype_of B) (model_drop (c_name B) dropo) (fldser false fs)) = Ok present).
      { eexists. apply (collect_map (fun f => getd (f_name f) fs)). intros f Hf. rewrite Hdrop.
        pose proof (fields_sub_ty B d f Hsub Hf) as Hty. apply ftype_of_some in Hty as [g [Hg [Hgn Hgt]]].
        assert (Hin : In (f_name f) (vf_keys fs)) by (rewrite Hk, <- Hgn; apply in_map, Hg).
        apply (entry_of_instance B false false fs f HB Hf Hin) with (pre := SNil); [|left; reflexivity].
        intros v Hv. rewrite <- Hgt. apply (Hent g Hg). rewrite Hgn. exact Hv. }
      destruct HcB as [present HcB].
      (* the base lacks one of d's fields *)
      assert (HBcone : In B (cone h base)).
      { unfold cone. apply filter_In. split; [exact HB|]. unfold in_cone. rewrite HBn, String.eqb_refl. reflexivity. }
      pose proof (Hall B HBcone) as HB2. apply orb_true_iff in HB2 as [E|HB2]; [apply String.eqb_eq in E; contradiction|].
      apply negb_true_iff in HB2. unfold same_fields in HB2.
      assert (HdB : has_all d (field_names B) = true) by (apply has_all_In; intros k; apply (fields_sub_names B d Hsub)).
      rewrite HdB, andb_true_r in HB2.
      assert (Hex : extras_of B (field_names d) <> []).
      { intros E. apply extras_nil_iff in E. congruence. }
      assert (Hreq : forall k, In k (req_names rset B (extras_of B (field_names d)) present) <-> In k (field_names d)).
      { intros k. rewrite req_names_In. pose proof (req_keys B _ _ present HB Ht HcB k) as X. rewrite Hkeys in X. exact X. }
      assert (Hddesc : In d (descendants h (c_name B))).
      { apply in_descendants. split; [exact Hd|]. rewrite HBn. exact Hanc. }
      destruct (chs (c_name B) (req_names rset B (extras_of B (field_names d)) present)) as [child|] eqn:Ech.
      + pose proof (choose_some _ _ _ Ech) as [Hcd' [Hca Hmin]].
        rewrite (has_all_ext child _ _ Hreq) in Hca.
        assert (Hle : nfields child <= nfields d).
        { apply Hmin; [exact Hddesc|]. rewrite (has_all_ext d _ _ Hreq). apply has_all_self. }
        pose proof Hcd' as Hcd''. apply in_descendants in Hcd'' as [Hchild Hcanc].
        assert (Hccone : In child (cone h base)).
        { unfold cone. apply filter_In. split; [exact Hchild|]. unfold in_cone.
          rewrite HBn in Hcanc. apply str_in_In in Hcanc. rewrite Hcanc. apply orb_true_r. }
        pose proof (Hall child Hccone) as Hc2. apply orb_true_iff in Hc2 as [E|Hc2].
        * apply String.eqb_eq in E.
          assert (child = d).
          { pose proof (find_class_unique h child wf_names Hchild) as U1.
            pose proof (find_class_unique h d wf_names Hd) as U2. rewrite E in U1. congruence. }
          subst child. destruct Hfull as [p2 [Hc2 Hcon]].
          rewrite (build_child _ _ B dropo present d p2); auto.
          replace (model_drop (c_name d) child_drop) with false by (rewrite Hcd; reflexivity). exact Hc2.
        * exfalso. apply negb_true_iff in Hc2. unfold same_fields in Hc2.
          rewrite Hca in Hc2. simpl in Hc2.
          rewrite (nodup_same_fields child d (wf_fields_nodup d Hd) Hca Hle) in Hc2. discriminate.
      + exfalso. pose proof (choose_none _ _ Ech d Hddesc) as X.
        rewrite (has_all_ext d _ _ Hreq), has_all_self in X. discriminate.
  Qed.

  (* flat instances *)
  Theorem identified_thm base dropo d fs :
    In d h -> identified h base d = true -> flat_class d = true -> flat_fields fs = true ->
    vf_keys fs = field_names d -> model_drop base dropo = false ->
    fser base dropo (tser false (VObj (c_name d) fs)) = Ok (VObj (c_name d) fs).
  Proof.
    intros Hd Hid Hfc Hff Hk Hdrop. apply identified_core; auto.
    intros f Hf v Hv. rewrite (flat_class_ty d f Hfc Hf). destruct (flat_get fs _ v Hff Hv) as [z ->]. reflexivity.
  Qed.

  (* every level reached through dataclass-typed fields: the flag travels down the recursion *)
  Lemma hid_mutual :
    (forall v base dropo, hid h base v = true -> model_drop base dropo = false -> fser base dropo (tser false v) = Ok v)
    /\ (forall fs d, hid_fields h d fs = true -> forall k v, vf_get k fs = Some v ->
          exists t, ftype_of d k = Some t /\ decode_one t false (tser false v) = Ok v).
  Proof.
    apply value_vfields_mutind.
    - intros z base dropo H. discriminate.
    - intros c fs IH base dropo Hh Hdrop. cbn [hid] in Hh.
      destruct (find_class h c) as [d|] eqn:Ed; [|discriminate].
      apply andb_true_iff in Hh as [Hh Hfs]. apply andb_true_iff in Hh as [Hid Hkeys]. apply strs_eq_eq in Hkeys.
      pose proof (find_class_some _ _ _ Ed) as [Hd Hdn]. rewrite <- Hdn.
      apply identified_core; auto.
      intros f Hf v Hv. destruct (IH d Hfs _ _ Hv) as [t [Ht Hdec]].
      rewrite (ftype_of_field d f (wf_fields_nodup d Hd) Hf) in Ht. injection Ht as <-. exact Hdec.
    - intros items _ base dropo H. discriminate.
    - intros items _ base dropo H. discriminate.
    - intros d _ k v H. discriminate.
    - intros k v IHv r IHr d Hh k' v' Hget.
      cbn [hid_fields] in Hh. apply andb_true_iff in Hh as [Hhead Hrest].
      cbn [vf_get] in Hget. destruct (String.eqb k k') eqn:E.
      + apply String.eqb_eq in E. subst k'. injection Hget as <-.
        destruct (ftype_of d k) as [t|] eqn:Et; [|discriminate]. exists t. split; [reflexivity|].
        destruct t as [|b|b|b]; destruct v as [z|c fs|items|items]; try discriminate.
        * reflexivity.
        * cbn [decode_one].
          replace (fwd_drop fwd dc_preset false) with (Some false) by (unfold fwd_drop; rewrite Hfwd; reflexivity).
          apply IHv; [exact Hhead|reflexivity].
        * destruct items; [reflexivity|discriminate].
        * destruct items; [reflexivity|discriminate].
      + eapply IHr; eauto.
  Qed.

  Theorem hid_thm v base dropo :
    hid h base v = true -> model_drop base dropo = false -> fser base dropo (tser false v) = Ok v.
  Proof. apply (proj1 hid_mutual). Qed.

  (* ---------- C14_drop on flat data: exactly the base, unknown keys dropped ---------- *)
  Definition int_entry (kvs : sfields) (k : string) : option value :=
    match sf_get k kvs with Some (SInt z) => Some (VInt z) | _ => None end.
  Definition present_of (kvs : sfields) (l : list fdecl) : list (string * value) :=
    flat_map (fun f => match int_entry kvs (f_name f) with Some v => [(f_name f, v)] | None => [] end) l.

  Lemma int_get kvs k s : int_kvs kvs = true -> sf_get k kvs = Some s -> exists z, s = SInt z.
  Proof.
    induction kvs as [|k' s' r IH]; simpl; intros Hi Hg; [discriminate|].
    destruct s'; try discriminate. destruct (String.eqb k' k); [injection Hg as <-; eauto|auto].
  Qed.

  Lemma collect_flat kvs dec l :
    (forall f, In f l -> assoc (f_name f) dec = option_map Ok (int_entry kvs (f_name f))) ->
    collect l dec = Ok (present_of kvs l).
  Proof.
    induction l as [|f r IH]; simpl; intros H; [reflexivity|].
    rewrite (H f (or_introl eq_refl)). assert (IH' := IH (fun x Hx => H x (or_intror Hx))).
    destruct (int_entry kvs (f_name f)); simpl; rewrite IH'; reflexivity.
  Qed.

  Lemma assoc_present_notin kvs l k : ~ In k (map f_name l) -> assoc k (present_of kvs l) = None.
  Proof.
    induction l as [|f r IH]; simpl; intros H; [reflexivity|].
    destruct (int_entry kvs (f_name f)); simpl.
    - destruct (String.eqb (f_name f) k) eqn:E; [apply String.eqb_eq in E; exfalso; apply H; left; exact E|].
      apply IH. intros X. apply H. right. exact X.
    - apply IH. intros X. apply H. right. exact X.
  Qed.

  Lemma assoc_present kvs l f : NoDup (map f_name l) -> In f l ->
    assoc (f_name f) (present_of kvs l) = int_entry kvs (f_name f).
  Proof.
    induction l as [|g r IH]; simpl; intros Hn Hin; [contradiction|].
    inversion Hn as [|? ? Hx Hr]; subst. destruct Hin as [->|Hin].
    - destruct (int_entry kvs (f_name f)) eqn:E; simpl.
      + rewrite String.eqb_refl. reflexivity.
      + apply assoc_present_notin, Hx.
    - assert (Hne : String.eqb (f_name g) (f_name f) = false).
      { apply String.eqb_neq. intros E. apply Hx. rewrite E. apply in_map, Hin. }
      destruct (int_entry kvs (f_name g)); simpl; rewrite ?Hne; apply IH; assumption.
  Qed.

  Lemma fill_spec kvs present l : int_kvs kvs = true ->
    (forall f, In f l -> assoc (f_name f) present = int_entry kvs (f_name f)) ->
    fill construct_err l present = match spec_fill l kvs with Some vs => Ok vs | None => Err (Raise "RuntimeError") end.
  Proof.
    rewrite Hcerr. intros Hi. induction l as [|f r IH]; simpl; intros H; [reflexivity|].
    rewrite (H f (or_introl eq_refl)). rewrite (IH (fun x Hx => H x (or_intror Hx))).
    unfold int_entry. destruct (sf_get (f_name f) kvs) as [s|] eqn:E.
    - destruct (int_get kvs _ s Hi E) as [z ->]. destruct (spec_fill r kvs); reflexivity.
    - destruct (f_default f); [|reflexivity]. destruct (spec_fill r kvs); reflexivity.
  Qed.

  Theorem drop_flat_thm base dropo kvs B :
    find_class h base = Some B -> flat_class B = true -> int_kvs kvs = true ->
    sf_get TYPE_KEY kvs = None -> model_drop base dropo = true ->
    fser base dropo (SMap kvs) = spec_drop B kvs.
  Proof.
    intros EB Hflat Hi Ht Hdrop. pose proof (find_class_some _ _ _ EB) as [HB HBn].
    rewrite (fser_plain _ _ _ Ht), EB. rewrite <- HBn in Hdrop.
    assert (Hc : collect (c_fields B) (dkvs (ftype_of B) (model_drop (c_name B) dropo) kvs) = Ok (present_of kvs (c_fields B))).
    { apply collect_flat. intros f Hf.
      assert (Hne : String.eqb (f_name f) TYPE_KEY = false).
      { apply String.eqb_neq. intros E. apply (wf_no_type_key B HB). rewrite <- E. apply in_map, Hf. }
      rewrite assoc_decode, Hne, (ftype_of_field B f (wf_fields_nodup B HB) Hf), (flat_class_ty B f Hflat Hf).
      unfold int_entry. destruct (sf_get (f_name f) kvs) as [s|] eqn:E; [|reflexivity].
      destruct (int_get kvs _ s Hi E) as [z ->]. reflexivity. }
    rewrite (build_self _ _ _ _ _ Hc (or_intror Hdrop)).
    unfold construct, spec_drop. rewrite (fill_spec kvs _ _ Hi).
    - destruct (spec_fill (c_fields B) kvs); reflexivity.
    - intros f Hf. apply assoc_present; [apply (wf_fields_nodup B HB)|exact Hf].
  Qed.

  (* ---------- C14_dc_types: the type entries restore every class reached through dataclass-typed fields ---------- *)
  Lemma qual_inj a b : qual modname a = qual modname b -> a = b.
  Proof. unfold qual. intros H. apply append_inv_head in H. apply append_inv_head in H. exact H. Qed.

  Lemma locate_qual c C : find_class h c = Some C -> locate h modname (qual modname c) = Some C.
  Proof.
    unfold locate, find_class. intros H. rewrite <- H. apply find_ext'. intros x.
    destruct (String.eqb (c_name x) c) eqn:E.
    - apply String.eqb_eq in E. rewrite E. apply String.eqb_refl.
    - apply String.eqb_neq. intros X. apply qual_inj in X. apply String.eqb_neq in E. contradiction.
  Qed.

  Lemma dc_types_mutual :
    (forall v, wt h v = true -> dc_only v = true -> forall b dropo, fser b dropo (tser true v) = Ok v)
    /\ (forall fs, forall C drop, wt_fields h C fs = true -> dc_only_fields fs = true ->
          forall k v, vf_get k fs = Some v ->
          exists t, ftype_of C k = Some t /\ decode_one t drop (tser true v) = Ok v).
  Proof.
    apply value_vfields_mutind.
    - intros z H. discriminate.
    - intros c fs IH Hwt Hdc b dropo. cbn [wt] in Hwt.
      destruct (find_class h c) as [C|] eqn:EC; [|discriminate].
      apply andb_true_iff in Hwt as [Hkeys Hwf']. apply strs_eq_eq in Hkeys.
      pose proof (find_class_some _ _ _ EC) as [HC HCn]. cbn [dc_only] in Hdc.
      rewrite tser_obj.
      rewrite (fser_typed b dropo _ (qual modname c)); [|cbn [sf_get]; rewrite String.eqb_refl; reflexivity].
      rewrite (locate_qual c C EC).
      assert (Hk : keys_of (SCons TYPE_KEY (SStr (qual modname c)) (fldser true fs)) = field_names C).
      { unfold keys_of. cbn [sf_keys filter]. rewrite String.eqb_refl. cbn [negb].
        rewrite sf_keys_fldser, Hkeys. apply filter_all. intros k Hk.
        apply negb_true_iff, String.eqb_neq. intros ->. exact (wf_no_type_key C HC Hk). }
      rewrite Hk.
      destruct (collect_construct_full C fs
                  (dkvs (ftype_of C) (model_drop (c_name C) dropo) (SCons TYPE_KEY (SStr (qual modname c)) (fldser true fs)))
                  HC Hkeys) as [present [Hc Hcon]].
      { intros f Hf.
        assert (Hin : In (f_name f) (vf_keys fs)) by (rewrite Hkeys; apply in_map, Hf).
        apply (entry_of_instance C true _ fs f HC Hf Hin) with (pre := SCons TYPE_KEY (SStr (qual modname c)) SNil).
        - intros v Hv. destruct (IH C (model_drop (c_name C) dropo) Hwf' Hdc _ _ Hv) as [t [Ht Hd]].
          rewrite (ftype_of_field C f (wf_fields_nodup C HC) Hf) in Ht. injection Ht as <-. exact Hd.
        - right. eexists. reflexivity. }
      rewrite (build_self _ _ _ _ _ Hc).
      + rewrite Hcon, HCn. reflexivity.
      + left. apply extras_nil_iff, has_all_self.
    - intros items _ H. discriminate.
    - intros items _ H. discriminate.
    - intros C drop _ _ k v H. discriminate.
    - intros k v IHv r IHr C drop Hwt Hdc k' v' Hget.
      cbn [wt_fields] in Hwt. apply andb_true_iff in Hwt as [Hhead Hrest].
      cbn [dc_only_fields] in Hdc. apply andb_true_iff in Hdc as [Hdv Hdr].
      cbn [vf_get] in Hget. destruct (String.eqb k k') eqn:E.
      + apply String.eqb_eq in E. subst k'. injection Hget as <-.
        destruct (ftype_of C k) as [t|] eqn:Et; [|discriminate]. exists t. split; [reflexivity|].
        destruct t as [|b|b|b]; destruct v as [z|c fs|items|items]; try discriminate.
        * reflexivity.
        * cbn [decode_one]. apply IHv; assumption.
        * destruct items; [reflexivity|discriminate].
        * destruct items; [reflexivity|discriminate].
      + eapply IHr; eauto.
  Qed.

  Theorem dc_types_thm v b dropo :
    wt h v = true -> dc_only v = true -> fser b dropo (tser true v) = Ok v.
  Proof. intros H1 H2. apply (proj1 dc_types_mutual); assumption. Qed.
End Main.

From Coq Require Import Permutation.

(* ====================================================================================== *)
(* The model instantiated with the REGENERATED facts                                        *)
(* ====================================================================================== *)
(* the enumeration order is arbitrary: all that is used is that it lists exactly the classes below *)
Definition enum_ok (h : hier) (enum : string -> list string) : Prop :=
  forall b n, In n (enum b) <-> In n (map c_name (descendants h b)).

Definition eff_drop_gen (h : hier) (base : string) (dropo : option bool) : bool :=
  resolve_drop DROP_RULE_GEN DIS_ABSENT_GEN h base dropo.

(* bridges: what the property needs of the generated facts (each closes by computation, or the build breaks here) *)
(* the search looks at ALL the fields that to_dict writes (init or not): count, candidate names, required names *)
Lemma bridge_sort_key : SORT_KEY_GEN = KAllCount.
Proof. reflexivity. Qed.
Lemma bridge_cand_fields : CAND_FIELDS_GEN = FAll.
Proof. reflexivity. Qed.
Lemma bridge_required : REQUIRED_GEN = ReqAll.
Proof. reflexivity. Qed.
Lemma bridge_superset_cmp : SUPERSET_CMP_GEN = CGe.
Proof. reflexivity. Qed.
Lemma bridge_pick : PICK_GEN = PickFirst.
Proof. reflexivity. Qed.
(* the chosen subclass is entered with drop_extra_fields=False: the flag travels down the recursion *)
Lemma bridge_child_drop : CHILD_DROP_GEN = Some false.
Proof. reflexivity. Qed.
(* ... and into the decoder of every dataclass-typed field (decode_field) *)
Lemma bridge_field_forward : FIELD_FORWARD_GEN = FwdDataclassNotNone.
Proof. reflexivity. Qed.
(* cls(..) failing is reported as the RuntimeError the spec names; an unresolvable type entry as an ImportError *)
Lemma bridge_construct_error : CONSTRUCT_ERROR_GEN = "RuntimeError".
Proof. reflexivity. Qed.
Lemma bridge_locate_error : LOCATE_ERROR_GEN = "ImportError".
Proof. reflexivity. Qed.
(* items of List[..] / Dict[str, ..] are decoded without drop_extra_fields (the item class's own default applies) and
   encoded without type entries: the extent of C14_dc_types_refuted / dc_only *)
Lemma bridge_item_flags :
  LIST_ITEM_DROP_GEN = None /\ DICT_VALUE_DROP_GEN = None /\ DC_DECODER_PRESET_GEN = None /\ ITEM_SAVE_TYPES_GEN = false.
Proof. repeat split; reflexivity. Qed.
(* get_decoding_fn: a registered decoder (cls.from_dict of a Serializable, _decode_int) is preferred, a dataclass is decoded
   by from_dict before any container test, Dict[..] and List[..] reach decode_dict / decode_list *)
Definition dispatch_ok (l : list dkind) : bool :=
  match l with
  | KRegistered :: KDataclass :: r =>
      existsb (fun k => match k with KDict => true | _ => false end) r
      && existsb (fun k => match k with KList => true | _ => false end) r
  | _ => false
  end.
Lemma bridge_dispatch : dispatch_ok DECODE_DISPATCH_GEN = true.
Proof. reflexivity. Qed.
(* drop_extra_fields defaults to "not decode_into_subclasses"; an explicit value is used as given *)
Lemma bridge_drop_rule h base :
  eff_drop_gen h base None = negb (dis_of_gen h base) /\ forall b, eff_drop_gen h base (Some b) = b.
Proof. split; reflexivity. Qed.
Lemma bridge_type_key : DC_TYPE_KEY = SPEC_TYPE_KEY.
Proof. reflexivity. Qed.

Lemma result_admissible_gen h modname enum base dropo kvs v :
  wf_hier_gen h = true -> enum_ok h enum -> sf_get DC_TYPE_KEY kvs = None ->
  from_ser_gen h modname enum base dropo (SMap kvs) = Ok v ->
  exists R fs r, v = VObj R fs /\ find_class h R = Some r /\ vf_keys fs = field_names r
                 /\ admissible h base (sf_keys kvs) (eff_drop_gen h base dropo) R = true.
Proof.
  intros Hwf He. unfold from_ser_gen, eff_drop_gen.
  apply result_admissible; auto using bridge_sort_key, bridge_superset_cmp, bridge_pick, bridge_cand_fields, bridge_required, bridge_child_drop, bridge_field_forward, bridge_construct_error.
Qed.

Lemma superset_gen h modname enum base dropo kvs R fs B :
  wf_hier_gen h = true -> enum_ok h enum -> sf_get DC_TYPE_KEY kvs = None ->
  find_class h base = Some B -> has_all B (sf_keys kvs) = false -> eff_drop_gen h base dropo = false ->
  from_ser_gen h modname enum base dropo (SMap kvs) = Ok (VObj R fs) ->
  min_superset h base (sf_keys kvs) R = true.
Proof.
  intros Hwf He Ht HB Hx Hd H.
  destruct (result_admissible_gen _ _ _ _ _ _ _ Hwf He Ht H) as [R' [fs' [r [Hv [_ [_ Ha]]]]]].
  injection Hv as <- <-. unfold admissible in Ha. rewrite HB, Hd, Hx in Ha. exact Ha.
Qed.

Lemma no_extras_gen h modname enum base dropo kvs R fs B :
  wf_hier_gen h = true -> enum_ok h enum -> sf_get DC_TYPE_KEY kvs = None ->
  find_class h base = Some B -> has_all B (sf_keys kvs) = true ->
  from_ser_gen h modname enum base dropo (SMap kvs) = Ok (VObj R fs) ->
  R = base.
Proof.
  intros Hwf He Ht HB Hx H.
  destruct (result_admissible_gen _ _ _ _ _ _ _ Hwf He Ht H) as [R' [fs' [r [Hv [_ [_ Ha]]]]]].
  injection Hv as <- <-. unfold admissible in Ha. rewrite HB, Hx, orb_true_r in Ha. apply String.eqb_eq, Ha.
Qed.

Lemma identified_gen h modname enum base dropo d fs :
  wf_hier_gen h = true -> enum_ok h enum ->
  In d h -> identified h base d = true -> flat_class d = true -> flat_fields fs = true ->
  vf_keys fs = field_names d -> eff_drop_gen h base dropo = false ->
  from_ser_gen h modname enum base dropo (to_ser_gen modname false (VObj (c_name d) fs)) = Ok (VObj (c_name d) fs).
Proof.
  intros Hwf He. unfold from_ser_gen, to_ser_gen, eff_drop_gen.
  apply identified_thm; auto using bridge_sort_key, bridge_superset_cmp, bridge_pick, bridge_cand_fields, bridge_required, bridge_child_drop, bridge_field_forward, bridge_construct_error.
Qed.

Lemma identified_nested_gen h modname enum base dropo v :
  wf_hier_gen h = true -> enum_ok h enum ->
  hid h base v = true -> eff_drop_gen h base dropo = false ->
  from_ser_gen h modname enum base dropo (to_ser_gen modname false v) = Ok v.
Proof.
  intros Hwf He. unfold from_ser_gen, to_ser_gen, eff_drop_gen.
  apply hid_thm; auto using bridge_sort_key, bridge_superset_cmp, bridge_pick, bridge_cand_fields, bridge_required,
    bridge_child_drop, bridge_field_forward.
Qed.

Lemma drop_exact_base_gen h modname enum base dropo kvs v :
  sf_get DC_TYPE_KEY kvs = None -> eff_drop_gen h base dropo = true ->
  from_ser_gen h modname enum base dropo (SMap kvs) = Ok v ->
  exists B fs, find_class h base = Some B /\ v = VObj base fs /\ vf_keys fs = field_names B.
Proof. unfold from_ser_gen, eff_drop_gen. apply drop_exact_thm. Qed.

Lemma drop_flat_gen h modname enum base dropo kvs B :
  wf_hier_gen h = true ->
  find_class h base = Some B -> flat_class B = true -> int_kvs kvs = true ->
  sf_get DC_TYPE_KEY kvs = None -> eff_drop_gen h base dropo = true ->
  from_ser_gen h modname enum base dropo (SMap kvs) = spec_drop B kvs.
Proof.
  intros Hwf. unfold from_ser_gen, eff_drop_gen. apply drop_flat_thm; auto.
Qed.

Lemma dc_types_partial_gen h modname enum base dropo v :
  wf_hier_gen h = true -> wt h v = true -> dc_only v = true ->
  from_ser_gen h modname enum base dropo (to_ser_gen modname true v) = Ok v.
Proof.
  intros Hwf. unfold from_ser_gen, to_ser_gen. apply dc_types_thm; auto.
Qed.

(* the full-strength claim ("at every nesting level") is false of the faithful model: a dataclass inside a List[..]
   is encoded by the registered cls.to_dict with default arguments, so its type entry is never written *)
Definition refute_h : hier :=
  [ mkc "Base" [] [mkf "a" TInt (Some (VInt 0)) true] (Some true);
    mkc "D1" ["Base"] [mkf "a" TInt (Some (VInt 0)) true; mkf "b" TInt (Some (VInt 0)) true] None;
    mkc "D3" ["Base"] [mkf "a" TInt (Some (VInt 0)) true; mkf "b" TInt (Some (VInt 0)) true] None;
    mkc "H" [] [mkf "xs" (TList "Base") (Some (VList VNil)) true] None ].
Definition refute_enum (b : string) : list string := rev (map c_name (descendants refute_h b)).
Definition refute_v : value :=
  VObj "H" (VCons "xs" (VList (VCons "" (VObj "D1" (VCons "a" (VInt 1) (VCons "b" (VInt 2) VNil))) VNil)) VNil).

(* the witness of the repaired defect (a derived class with a field(init=False) could not be loaded through its base):
   kept as an input of Example C14_nonvacuous and in corpus/C14 *)
Definition noninit_h : hier :=
  [ mkc "Base" [] [mkf "a" TInt (Some (VInt 0)) true] (Some true);
    mkc "D1" ["Base"] [mkf "a" TInt (Some (VInt 0)) true; mkf "b" TInt (Some (VInt 0)) true;
                       mkf "n" TInt (Some (VInt 70)) false] None;
    mkc "D2" ["Base"] [mkf "a" TInt (Some (VInt 0)) true; mkf "b" TInt (Some (VInt 0)) true] None ].
Definition noninit_enum (b : string) : list string := map c_name (descendants noninit_h b).
Definition noninit_v : value := VObj "D1" (VCons "a" (VInt 1) (VCons "b" (VInt 2) (VCons "n" (VInt 9) VNil))).
Definition noninit_v2 : value := VObj "D2" (VCons "a" (VInt 1) (VCons "b" (VInt 2) VNil)).

Lemma refute_enum_ok : enum_ok refute_h refute_enum.
Proof. intros b n. unfold refute_enum. rewrite <- in_rev. reflexivity. Qed.

Lemma dc_types_refuted :
  exists h modname enum base dropo v,
    wf_hier_gen h = true /\ enum_ok h enum /\ wt h v = true
    /\ from_ser_gen h modname enum base dropo (to_ser_gen modname true v) <> Ok v.
Proof.
  exists refute_h, "m", refute_enum, "H", None, refute_v.
  split; [vm_compute; reflexivity|]. split; [exact refute_enum_ok|]. split; [vm_compute; reflexivity|].
  vm_compute. discriminate.
Qed.

Lemma perm_enum_ok h enum :
  (forall b, Permutation (enum b) (map c_name (descendants h b))) -> enum_ok h enum.
Proof.
  intros H b n. split; intros X.
  - eapply Permutation_in; [apply H|exact X].
  - eapply Permutation_in; [apply Permutation_sym, H|exact X].
Qed.

(* the concrete inputs of Example C14_nonvacuous *)
Definition ex_h : hier :=
  [ mkc "Base" [] [mkf "a" TInt (Some (VInt 10)) true] (Some true);
    mkc "D1" ["Base"] [mkf "a" TInt (Some (VInt 10)) true; mkf "b" TInt (Some (VInt 20)) true] None;
    mkc "D3" ["Base"] [mkf "a" TInt (Some (VInt 10)) true; mkf "b" TInt (Some (VInt 20)) true] None;
    mkc "G" ["D1"] [mkf "a" TInt (Some (VInt 10)) true; mkf "b" TInt (Some (VInt 20)) true; mkf "c" TInt (Some (VInt 30)) true] (Some false);
    mkc "H" [] [mkf "x" (TDc "Base") None true; mkf "xs" (TList "Base") (Some (VList VNil)) true] None;
    mkc "O" [] [mkf "h" (TDc "H") None true] None ].
Definition ex_enum (b : string) : list string := rev (map c_name (descendants ex_h b)).
Definition ex_g : value := VObj "G" (VCons "a" (VInt 1) (VCons "b" (VInt 2) (VCons "c" (VInt 3) VNil))).
Definition ex_d1 : value := VObj "D1" (VCons "a" (VInt 1) (VCons "b" (VInt 2) VNil)).
Definition ex_o : value := VObj "O" (VCons "h" (VObj "H" (VCons "x" ex_g (VCons "xs" (VList VNil) VNil))) VNil).


(* Derived(Base) with a dataclass-typed field opt: Opt holding an Adam(Opt); nothing sets decode_into_subclasses *)
Definition nest_h : hier :=
  [ mkc "Opt" [] [mkf "lr" TInt (Some (VInt 1)) true] None;
    mkc "Adam" ["Opt"] [mkf "lr" TInt (Some (VInt 1)) true; mkf "beta" TInt (Some (VInt 9)) true] None;
    mkc "Base" [] [mkf "a" TInt (Some (VInt 0)) true] None;
    mkc "Derived" ["Base"] [mkf "a" TInt (Some (VInt 0)) true; mkf "opt" (TDc "Opt") None true] None ].
Definition nest_enum (b : string) : list string := map c_name (descendants nest_h b).
Definition nest_v : value :=
  VObj "Derived" (VCons "a" (VInt 3) (VCons "opt" (VObj "Adam" (VCons "lr" (VInt 5) (VCons "beta" (VInt 7) VNil))) VNil)).
