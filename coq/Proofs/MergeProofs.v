(* Proofs/MergeProofs.v — the ALWAYS_MERGE model (instantiated with the REGENERATED facts) against the C11 spec:
   for every n >= 2, every destination list, every token list.  No bound on n or on the number of tokens. *)
From SPV Require Import Base.Str Model.Merge Model.MergeSpec Gen.FactsBool Gen.FactsMerge.

(* ====================================================================== *)
(* bridge: the weakest facts about the regenerated chains that the theorems need (finite, by computation)        *)
(* ====================================================================== *)

(* the outcome of the final chain of duplicate_if_needed only depends on the two length tests *)
Fixpoint chain_result (chain : list (len_test * dup_act)) (els : dup_act) (eqn eq1 : bool) : dup_act :=
  match chain with
  | [] => els
  | (LenEqN, a) :: r => if eqn then a else chain_result r els eqn eq1
  | (LenEqOne, a) :: r => if eq1 then a else chain_result r els eqn eq1
  end.

Lemma bridge_dup_n : chain_result DUP_CHAIN DUP_ELSE true false = DAsIs.
Proof. vm_compute. reflexivity. Qed.
Lemma bridge_dup_1 : chain_result DUP_CHAIN DUP_ELSE false true = DTimesN.
Proof. vm_compute. reflexivity. Qed.
Lemma bridge_dup_other : chain_result DUP_CHAIN DUP_ELSE false false = DInconsistent.
Proof. vm_compute. reflexivity. Qed.

(* the short-cut asks for nesting level >= 2, and is guarded against list and tuple fields *)
Definition needs_level2 (a : sc_atom) : bool := match a with ScLevelEq j => Nat.leb 2 j | _ => false end.
Lemma bridge_sc_level : existsb needs_level2 SC_CONDS = true.
Proof. vm_compute. reflexivity. Qed.
Lemma bridge_sc_guard_tuple : existsb (fun g => match g with GNotTuple => true | _ => false end) SC_GUARDS = true.
Proof. vm_compute. reflexivity. Qed.
Lemma bridge_sc_guard_list : existsb (fun g => match g with GNotList => true | _ => false end) SC_GUARDS = true.
Proof. vm_compute. reflexivity. Qed.

(* both packaging tests are present *)
Lemma bridge_pk_notlist : existsb (fun t => match t with PkNotIsList => true | _ => false end) PK_CHAIN = true.
Proof. vm_compute. reflexivity. Qed.
Lemma bridge_pk_len : existsb (fun t => match t with PkContainerTypeAndLenNeN => true | _ => false end) PK_CHAIN = true.
Proof. vm_compute. reflexivity. Qed.

Lemma bridge_nargs : NARGS_REQUIRED = NPlus /\ NARGS_OPTIONAL = NStar.
Proof. split; reflexivity. Qed.
(* on the regenerated `required` chain a merged field of the model is required exactly when it has no default *)
Lemma bridge_required : is_required REQ_ELSE REQ_CHAIN true = Some true /\ is_required REQ_ELSE REQ_CHAIN false = Some false.
Proof. split; vm_compute; reflexivity. Qed.
(* the wrappers of a conflict come in registration order and nested destinations follow the parent's *)
Lemma bridge_discovery : CONFLICT_DISCOVERY_ORDER && NESTED_DESTS_FROM_PARENT = true.
Proof. vm_compute. reflexivity. Qed.
(* int, float and str tokens are parsed by the type's own constructor *)
Lemma bridge_primitives : forallb (fun t => str_in t PRIMITIVE_PARSERS) ["int"; "float"; "str"] = true.
Proof. vm_compute. reflexivity. Qed.
(* FieldWrapper.default asks the parent's defaults before the field's own default / default_factory, nothing else applies *)
Lemma bridge_sources :
  forall pdefs cd,
    pick_source DEFAULT_SOURCES pdefs cd =
    match pdefs with
    | [] => match cd with Some d => Some (d, true) | None => None end
    | [e] => Some (e, true)
    | es => Some (VList es, false)
    end.
Proof. intros [|e [|e2 r]] [[]|]; reflexivity. Qed.
Lemma bridge_defaults_property : DEFAULTS_TOP_FRESH = true /\ DEFAULTS_NESTED_SEEDED = true.
Proof. split; reflexivity. Qed.
Lemma bridge_bare : BARE_LITERAL_WRAPPED = false.
Proof. reflexivity. Qed.
Lemma bridge_merge : MERGE_FIRST_SORTED = true /\ MERGE_REST_UNSORTED = true /\ MERGE_DEDUPES = true.
Proof. repeat split; reflexivity. Qed.

(* the regenerated boolean vocabulary is the property's vocabulary (as sets) *)
Definition seteq (a b : list string) : bool :=
  forallb (fun x => str_in x b) a && forallb (fun x => str_in x a) b.
Lemma seteq_str_in a b : seteq a b = true -> forall v, str_in v a = str_in v b.
Proof.
  unfold seteq. intros H v. apply andb_true_iff in H as [Hab Hba].
  rewrite forallb_forall in Hab, Hba.
  destruct (str_in v a) eqn:Ea; destruct (str_in v b) eqn:Eb; try reflexivity.
  - apply str_in_In in Ea. apply Hab in Ea. congruence.
  - apply str_in_In in Eb. apply Hba in Eb. congruence.
Qed.
Lemma bridge_true_set : seteq TRUE_STRINGS SPEC_TRUE = true.
Proof. vm_compute. reflexivity. Qed.
Lemma bridge_false_set : seteq FALSE_STRINGS SPEC_FALSE = true.
Proof. vm_compute. reflexivity. Qed.
Lemma str2bool_is_spec v : is_padded v = false -> str2bool_gen v = spec_word v.
Proof.
  unfold is_padded, str2bool_gen, spec_word. intros H.
  apply negb_false_iff, String.eqb_eq in H. rewrite H.
  rewrite (seteq_str_in _ _ bridge_true_set), (seteq_str_in _ _ bridge_false_set). reflexivity.
Qed.

(* ====================================================================== *)
(* small list facts                                                        *)
(* ====================================================================== *)
Lemma list_times_single {A} (v : A) n : list_times [v] n = repeat v n.
Proof. induction n as [|n IH]; simpl; [reflexivity | now rewrite IH]. Qed.

Lemma map_res_repeat {A B} (f : A -> res B) a b n : f a = Ok b -> map_res f (repeat a n) = Ok (repeat b n).
Proof. intros H. induction n as [|n IH]; simpl; [reflexivity | now rewrite H, IH]. Qed.

Lemma map_res_length {A B} (f : A -> res B) l l' : map_res f l = Ok l' -> List.length l' = List.length l.
Proof.
  revert l'. induction l as [|x r IH]; simpl; intros l' H.
  - injection H as <-. reflexivity.
  - destruct (f x); [|discriminate]. destruct (map_res f r) as [ys|]; [|discriminate].
    injection H as <-. simpl. f_equal. apply IH. reflexivity.
Qed.

Lemma firstn_length_eq {A} (l : list A) : firstn (List.length l) l = l.
Proof. apply firstn_all. Qed.

Lemma val_eqb_refl : forall v, val_eqb v v = true.
Proof.
  fix IH 1. intros [z|n m e|s|b|s|l|l]; simpl.
  - apply Z.eqb_refl.
  - rewrite eqb_reflx, Z.eqb_refl, Nat.eqb_refl. reflexivity.
  - apply String.eqb_refl.
  - apply eqb_reflx.
  - apply String.eqb_refl.
  - induction l as [|x r IHr]; [reflexivity|]. rewrite (IH x). exact IHr.
  - induction l as [|x r IHr]; [reflexivity|]. rewrite (IH x). exact IHr.
Qed.
Lemma vals_eqb_refl l : vals_eqb l l = true.
Proof. induction l as [|x r IH]; simpl; [reflexivity|]. rewrite val_eqb_refl. exact IH. Qed.

(* ====================================================================== *)
(* what "the observed/model outcome r meets the expectation e" means       *)
(* ====================================================================== *)
Definition meets (e : expect) (r : res (list val)) : Prop :=
  match e with
  | MustBe vs => r = Ok vs
  | MustReject => r = Err (Exit 2) \/ r = Err Inconsistent
  | MustInconsistent => r = Err Inconsistent
  | Unspecified => (exists vs, r = Ok vs) \/ r = Err (Exit 2) \/ r = Err Inconsistent
  end.

Lemma meets_allows e r : meets e r -> expect_allows e r = true.
Proof.
  destruct e as [vs| | |]; simpl.
  - intros ->. apply vals_eqb_refl.
  - intros [->| ->]; reflexivity.
  - intros ->. reflexivity.
  - intros [[vs ->]|[->| ->]]; reflexivity.
Qed.

(* every successful outcome has one value per destination *)
Definition sized (n : nat) (r : res (list val)) : Prop := forall out, r = Ok out -> List.length out = n.

(* ====================================================================== *)
(* duplicate_if_needed                                                     *)
(* ====================================================================== *)
Definition scalar_val (v : val) : bool := negb (is_container v).

Lemma level_scalars pv : forallb scalar_val pv = true ->
  fold_right (fun x acc => Nat.max (nesting_level x) acc) 0 pv = 0.
Proof.
  induction pv as [|x r IH]; simpl; [reflexivity|]. intros H. apply andb_true_iff in H as [Hx Hr].
  rewrite (IH Hr). destruct x; simpl in *; try reflexivity; discriminate.
Qed.

Lemma sc_never_on_scalars conds n pv :
  existsb needs_level2 conds = true -> forallb scalar_val pv = true ->
  forallb (fun a => sc_atom_holds a n pv) conds = false.
Proof.
  intros He Hs. induction conds as [|a r IH]; simpl in *; [discriminate|].
  apply orb_true_iff in He as [Ha|Hr].
  - destruct a as [j|j|]; try (simpl in Ha; discriminate).
    unfold needs_level2 in Ha. apply Nat.leb_le in Ha.
    cbn [sc_atom_holds nesting_level]. rewrite (level_scalars pv Hs). destruct (Nat.eqb 1 j) eqn:E; [apply Nat.eqb_eq in E; lia | reflexivity].
  - rewrite (IH Hr). apply andb_false_r.
Qed.

Lemma forallb_false_of_exists {A} (p f : A -> bool) l :
  existsb p l = true -> (forall g, p g = true -> f g = false) -> forallb f l = false.
Proof.
  intros He Hp. induction l as [|x r IH]; simpl in *; [discriminate|].
  apply orb_true_iff in He as [Hx|Hr].
  - rewrite (Hp x Hx). reflexivity.
  - rewrite (IH Hr). apply andb_false_r.
Qed.

Lemma sc_guard_containers guards k :
  existsb (fun g => match g with GNotTuple => true | _ => false end) guards = true ->
  existsb (fun g => match g with GNotList => true | _ => false end) guards = true ->
  scalar_kind k = false ->
  forallb (fun g => sc_guard_holds g k) guards = false.
Proof.
  intros Ht Hl Hk. unfold scalar_kind in Hk. apply negb_false_iff, orb_true_iff in Hk. destruct Hk as [Hk|Hk].
  - apply (forallb_false_of_exists _ _ _ Hl). intros g Hg. destruct g; try discriminate. simpl. now rewrite Hk.
  - apply (forallb_false_of_exists _ _ _ Ht). intros g Hg. destruct g; try discriminate. simpl. now rewrite Hk.
Qed.

Lemma run_dup_result chain els n pv :
  run_dup els chain n pv =
  do_dup (chain_result chain els (Nat.eqb (List.length pv) n) (Nat.eqb (List.length pv) 1)) n pv.
Proof.
  induction chain as [|[t a] r IH]; simpl; [reflexivity|].
  destruct t; simpl.
  - destruct (Nat.eqb (List.length pv) n); [reflexivity | exact IH].
  - destruct (Nat.eqb (List.length pv) 1); [reflexivity | exact IH].
Qed.

(* the count rule, as a function of the values that reached the action *)
Definition by_count (n : nat) (pv : list val) : res (list val) :=
  match pv with
  | [v] => Ok (repeat v n)
  | _ => if Nat.eqb (List.length pv) n then Ok pv else Err Inconsistent
  end.

Lemma dup_by_count n k pv :
  2 <= n -> (scalar_kind k = true -> forallb scalar_val pv = true) ->
  duplicate_gen n k pv = by_count n pv.
Proof.
  intros Hn Hs. unfold duplicate_gen, duplicate.
  assert (Hsc : forallb (fun g => sc_guard_holds g k) SC_GUARDS && forallb (fun a => sc_atom_holds a n pv) SC_CONDS = false).
  { destruct (scalar_kind k) eqn:Ek.
    - rewrite (sc_never_on_scalars SC_CONDS n pv bridge_sc_level (Hs eq_refl)). apply andb_false_r.
    - rewrite (sc_guard_containers SC_GUARDS k bridge_sc_guard_tuple bridge_sc_guard_list Ek). reflexivity. }
  rewrite Hsc, run_dup_result. unfold by_count.
  destruct pv as [|v [|w r]].
  - simpl List.length. destruct n as [|[|n]]; try lia. cbn [Nat.eqb]. rewrite bridge_dup_other. reflexivity.
  - simpl List.length. destruct n as [|[|n]]; try lia. cbn [Nat.eqb]. rewrite bridge_dup_1. unfold do_dup.
    rewrite list_times_single. reflexivity.
  - assert (E1 : Nat.eqb (List.length (v :: w :: r)) 1 = false) by reflexivity. rewrite E1.
    destruct (Nat.eqb (List.length (v :: w :: r)) n).
    + rewrite bridge_dup_n. reflexivity.
    + rewrite bridge_dup_other. reflexivity.
Qed.

(* ====================================================================== *)
(* packaging of the default                                                *)
(* ====================================================================== *)
Lemma run_pk_scalar chain single n d :
  existsb (fun t => match t with PkNotIsList => true | _ => false end) chain = true ->
  (match d with VList _ => False | _ => True end) ->
  run_pk chain false single n d = Ok (VList (repeat d n)).
Proof.
  intros He Hd. induction chain as [|t r IH]; simpl in *; [discriminate|].
  destruct t; simpl in *.
  - destruct single; [reflexivity | apply IH; exact He].
  - apply IH. exact He.
  - destruct d; try reflexivity. contradiction.
Qed.

Lemma run_pk_perdest chain is_tl n l :
  List.length l = n -> run_pk chain is_tl false n (VList l) = Ok (VList l).
Proof.
  intros Hl. induction chain as [|t r IH]; simpl; [reflexivity|].
  destruct t.
  - exact IH.
  - destruct is_tl; [|exact IH]. simpl. rewrite Hl, Nat.eqb_refl. exact IH.
  - exact IH.
Qed.

Lemma run_pk_list_ne chain single n l :
  existsb (fun t => match t with PkContainerTypeAndLenNeN => true | _ => false end) chain = true ->
  List.length l <> n ->
  run_pk chain true single n (VList l) = Ok (VList (repeat (VList l) n)).
Proof.
  intros He Hl. induction chain as [|t r IH]; simpl in *; [discriminate|].
  destruct t; simpl in *.
  - destruct single; [reflexivity | apply IH; exact He].
  - apply Nat.eqb_neq in Hl. rewrite Hl. reflexivity.
  - apply IH. exact He.
Qed.

Lemma run_pk_tuple chain single n l :
  existsb (fun t => match t with PkNotIsList => true | _ => false end) chain = true ->
  run_pk chain true single n (VTuple l) = Ok (VList (repeat (VTuple l) n)).
Proof.
  intros He. induction chain as [|t r IH]; simpl in *; [discriminate|].
  destruct t; simpl in *.
  - destruct single; [reflexivity | apply IH; exact He].
  - destruct (Nat.eqb (List.length l) n); [apply IH; exact He | reflexivity].
  - reflexivity.
Qed.

Lemma package_of_run_pk n k single d :
  run_pk PK_CHAIN (is_list_kind k || is_tuple_kind k) single n d = Ok (VList (repeat d n)) ->
  package_default_gen n k single d = Ok (repeat d n).
Proof.
  intros H. unfold package_default_gen, package_default. rewrite H. rewrite repeat_length, Nat.eqb_refl. reflexivity.
Qed.

(* a default the packaging treats as ONE value.  The regenerated chain selects the condition: when its first test is
   `single_value` (the repaired FieldWrapper.default) every default qualifies; on a tree without that test a list
   default must not have length n (there it would be dealt element-wise: the retired defect #4). *)
Definition single_first (chain : list pk_test) : bool :=
  match chain with PkSingleValue :: _ => true | _ => false end.
Definition default_safe (n : nat) (k : kind) (d : val) : bool :=
  single_first PK_CHAIN ||
  match d with
  | VList l => is_list_kind k && negb (Nat.eqb (List.length l) n)
  | VTuple _ => is_tuple_kind k
  | _ => scalar_kind k
  end.

Lemma run_pk_single_first chain is_tl n d :
  single_first chain = true -> run_pk chain is_tl true n d = Ok (VList (repeat d n)).
Proof. destruct chain as [|[| |] r]; try discriminate. reflexivity. Qed.

Lemma package_single n k d : default_safe n k d = true -> package_default_gen n k true d = Ok (repeat d n).
Proof.
  intros H. apply package_of_run_pk. unfold default_safe in H.
  destruct (single_first PK_CHAIN) eqn:Es; [apply run_pk_single_first; exact Es|]. cbn [orb] in H.
  destruct d; simpl in H.
  1-5: unfold scalar_kind in H; apply negb_true_iff in H; rewrite H;
       apply run_pk_scalar; [exact bridge_pk_notlist | exact I].
  - apply andb_true_iff in H as [Hk Hl]. rewrite Hk. cbn [orb].
    apply run_pk_list_ne; [exact bridge_pk_len|]. apply negb_true_iff, Nat.eqb_neq in Hl. exact Hl.
  - rewrite H, orb_true_r. apply run_pk_tuple. exact bridge_pk_notlist.
Qed.

Lemma package_perdest n k d : package_default_gen n k false (VList (repeat d n)) = Ok (repeat d n).
Proof.
  unfold package_default_gen, package_default.
  rewrite run_pk_perdest by apply repeat_length. rewrite repeat_length, Nat.eqb_refl. reflexivity.
Qed.

(* ====================================================================== *)
(* tokens: the model's converter against the spec's reading                *)
(* ====================================================================== *)
(* v' (what the converter built) becomes v at the destination, and cannot trigger the short-cut *)
Definition goodv (k : kind) (v' v : val) : Prop :=
  postprocess_gen k v' = Ok v /\ (scalar_kind k = true -> scalar_val v' = true).

Definition tok_rel (k : kind) (t : tok) : Prop :=
  match spec_token k t with
  | Den v => exists v', convert_gen k t = Ok v' /\ goodv k v' v
  | NoDen => convert_gen k t = Err (Exit 2)
  | UnspecDen => (exists v' v, convert_gen k t = Ok v' /\ goodv k v' v) \/ convert_gen k t = Err (Exit 2)
  end.

Lemma scalar_tok_rel k t : scalar_kind k = true -> tok_rel k t.
Proof.
  intros Hk. unfold tok_rel, spec_token, convert_gen, convert.
  destruct k as [| | | |ms|e|e a]; try discriminate; unfold spec_scalar.
  - destruct (is_padded (t_raw t)).
    + destruct (parse_int (t_raw t)) as [z|]; simpl; [left; exists (VInt z), (VInt z); repeat split; reflexivity | right; reflexivity].
    + destruct (parse_int (t_raw t)) as [z|]; simpl; [exists (VInt z); repeat split; reflexivity | reflexivity].
  - destruct (is_padded (t_raw t)).
    + destruct (parse_dec (t_raw t)) as [[[n m] e]|]; simpl;
        [left; exists (VFloat n m e), (VFloat n m e); repeat split; reflexivity | right; reflexivity].
    + destruct (parse_dec (t_raw t)) as [[[n m] e]|]; simpl; [exists (VFloat n m e); repeat split; reflexivity | reflexivity].
  - exists (VStr (t_raw t)). repeat split; reflexivity.
  - destruct (is_padded (t_raw t)) eqn:P.
    + destruct (str2bool_gen (t_raw t)) as [b|]; simpl; [left; exists (VBool b), (VBool b); repeat split; reflexivity | right; reflexivity].
    + rewrite (str2bool_is_spec _ P). destruct (spec_word (t_raw t)) as [b|]; simpl;
        [exists (VBool b); repeat split; reflexivity | reflexivity].
  - destruct (str_in (t_raw t) ms) eqn:E; [|reflexivity].
    exists (VStr (t_raw t)). split; [reflexivity|]. split; [|reflexivity].
    cbv [postprocess_gen postprocess POST_CHAIN run_post post_test_holds do_post]. rewrite E. reflexivity.
Qed.

(* a bracketed literal whose items have the item type (and, for a fixed tuple, the right arity) *)
Definition item_matches (e : ety) (l : lit) : bool :=
  match e, l with EInt, LInt _ | EStr, LStr _ => true | _, _ => false end.
Definition item_val (l : lit) : val := match l with LInt z => VInt z | LStr s => VStr s | _ => VStr "" end.
Definition tok_bracketed (k : kind) (t : tok) : bool :=
  match k, t_lit t with
  | KList e, Some (LSeq _ items) => forallb (item_matches e) items
  | KTuple e a, Some (LSeq _ items) => forallb (item_matches e) items && arity_ok a (map item_val items)
  | _, _ => false
  end.

Lemma conv_items e items : forallb (item_matches e) items = true ->
  map_opt (conv_item_lit e) items = Some (map item_val items).
Proof.
  induction items as [|x r IH]; simpl; [reflexivity|]. intros H. apply andb_true_iff in H as [Hx Hr].
  rewrite (IH Hr). destruct e, x; simpl in *; try discriminate; reflexivity.
Qed.
Lemma spec_items e items : forallb (item_matches e) items = true ->
  denote_all (spec_item e) items = Dens (map item_val items).
Proof.
  induction items as [|x r IH]; simpl; [reflexivity|]. intros H. apply andb_true_iff in H as [Hx Hr].
  rewrite (IH Hr). destruct e, x; simpl in *; try discriminate; reflexivity.
Qed.

Lemma bracketed_tok_rel k t : tok_bracketed k t = true -> tok_rel k t.
Proof.
  unfold tok_bracketed, tok_rel, spec_token, convert_gen, convert, parse_container, spec_container, parse_literal.
  destruct k as [| | | |ms|e|e a]; try discriminate; destruct (t_lit t) as [[z|s|tp items|]|]; try discriminate; intros H.
  - rewrite (spec_items e items H), (conv_items e items H). cbn.
    exists (VList (map item_val items)). repeat split; try reflexivity. discriminate.
  - apply andb_true_iff in H as [Hi Ha].
    rewrite (spec_items e items Hi), (conv_items e items Hi), Ha. cbn.
    exists (VTuple (map item_val items)). repeat split; try reflexivity. discriminate.
Qed.

(* ----- lists of tokens ----- *)
Lemma toks_weak k toks : Forall (tok_rel k) toks ->
  map_res (convert_gen k) toks = Err (Exit 2) \/
  exists vs' vs, map_res (convert_gen k) toks = Ok vs' /\ Forall2 (goodv k) vs' vs.
Proof.
  induction 1 as [|t r Ht _ IH]; simpl.
  - right. exists [], []. split; [reflexivity | constructor].
  - unfold tok_rel in Ht. destruct (spec_token k t) as [v| |].
    + destruct Ht as [v' [-> G]]. destruct IH as [->|[vs' [vs [-> F]]]]; [left; reflexivity|].
      right. exists (v' :: vs'), (v :: vs). split; [reflexivity | constructor; assumption].
    + rewrite Ht. left. reflexivity.
    + destruct Ht as [[v' [v [-> G]]]| ->]; [|left; reflexivity].
      destruct IH as [->|[vs' [vs [-> F]]]]; [left; reflexivity|].
      right. exists (v' :: vs'), (v :: vs). split; [reflexivity | constructor; assumption].
Qed.

Lemma toks_dens k toks vs : Forall (tok_rel k) toks -> denote_all (spec_token k) toks = Dens vs ->
  exists vs', map_res (convert_gen k) toks = Ok vs' /\ Forall2 (goodv k) vs' vs.
Proof.
  intros H. revert vs. induction H as [|t r Ht _ IH]; simpl; intros vs E.
  - injection E as <-. exists []. split; [reflexivity | constructor].
  - unfold tok_rel in Ht. destruct (spec_token k t) as [v| |]; try discriminate.
    + destruct (denote_all (spec_token k) r) as [ws| |]; try discriminate. injection E as <-.
      destruct Ht as [v' [-> G]]. destruct (IH ws eq_refl) as [vs' [-> F]].
      exists (v' :: vs'). split; [reflexivity | constructor; assumption].
    + destruct (denote_all (spec_token k) r); discriminate.
Qed.

Lemma toks_nodens k toks : Forall (tok_rel k) toks -> denote_all (spec_token k) toks = NoDens ->
  map_res (convert_gen k) toks = Err (Exit 2).
Proof.
  intros H. induction H as [|t r Ht Hr IH]; simpl; intros E; [discriminate|].
  unfold tok_rel in Ht. destruct (spec_token k t) as [v| |].
  - destruct Ht as [v' [-> G]]. destruct (denote_all (spec_token k) r) as [ws| |]; try discriminate.
    rewrite (IH eq_refl). reflexivity.
  - rewrite Ht. reflexivity.
  - destruct (denote_all (spec_token k) r) as [ws| |]; try discriminate.
    destruct Ht as [[v' [v [-> G]]]| ->]; [|reflexivity]. rewrite (IH eq_refl). reflexivity.
Qed.

Lemma goodv_scalars k vs' vs : Forall2 (goodv k) vs' vs -> scalar_kind k = true -> forallb scalar_val vs' = true.
Proof.
  induction 1 as [|a b ra rb [_ G] _ IH]; simpl; intros Hk; [reflexivity|]. rewrite (G Hk), (IH Hk). reflexivity.
Qed.
Lemma goodv_post k vs' vs : Forall2 (goodv k) vs' vs -> map_res (postprocess_gen k) vs' = Ok vs.
Proof. induction 1 as [|a b ra rb [G _] _ IH]; simpl; [reflexivity|]. rewrite G, IH. reflexivity. Qed.
Lemma Forall2_len {A B} (R : A -> B -> Prop) l1 l2 : Forall2 R l1 l2 -> List.length l1 = List.length l2.
Proof. induction 1; simpl; congruence. Qed.

(* ====================================================================== *)
(* distribute                                                              *)
(* ====================================================================== *)
Lemma collect_gen_eq k pd cli :
  collect_gen k pd cli =
  match cli with
  | None => match pd with Some l => Ok l | None => Err (Exit 2) end
  | Some toks => match toks, (match pd with None => NPlus | Some _ => NStar end) with
                 | [], NPlus => Err (Exit 2)
                 | _, _ => map_res (convert_gen k) toks
                 end
  end.
Proof.
  unfold collect_gen, collect. destruct bridge_required as [Ht Hf]. destruct bridge_nargs as [Hr Ho].
  destruct pd; cbv beta iota; [rewrite Hf | rewrite Ht]; destruct cli; try rewrite Hr; try rewrite Ho; reflexivity.
Qed.

Lemma distribute_gen_eq n k pd cli :
  distribute_gen n k pd cli =
  bind (collect_gen k pd cli) (fun pv => bind (duplicate_gen n k pv) (fun vs => map_res (postprocess_gen k) (firstn n vs))).
Proof. reflexivity. Qed.

(* the values reached the action: duplicate + postprocess follow the count rule *)
Lemma distribute_values n k pd toks vs' vs :
  2 <= n -> toks <> [] \/ pd <> None ->
  map_res (convert_gen k) toks = Ok vs' -> Forall2 (goodv k) vs' vs ->
  distribute_gen n k pd (Some toks) = by_count n vs.
Proof.
  intros Hn Hne Hc F. rewrite distribute_gen_eq, collect_gen_eq.
  assert (Hcol : (match toks, (match pd with None => NPlus | Some _ => NStar end) with
                  | [], NPlus => Err (Exit 2)
                  | _, _ => map_res (convert_gen k) toks
                  end) = Ok vs').
  { destruct toks as [|t r]; [|exact Hc]. destruct pd; [exact Hc|]. destruct Hne as [Hne|Hne]; congruence. }
  rewrite Hcol. cbn [bind].
  rewrite (dup_by_count n k vs' Hn (goodv_scalars k vs' vs F)).
  assert (L := Forall2_len _ _ _ F).
  unfold by_count. destruct F as [|a b ra rb G F]; [|destruct F as [|a2 b2 ra2 rb2 G2 F2]].
  - simpl. destruct n as [|[|n]]; try lia. reflexivity.
  - cbn [bind]. rewrite firstn_all2 by (rewrite repeat_length; lia).
    destruct G as [G _]. rewrite (map_res_repeat _ a b n G). reflexivity.
  - simpl in L. simpl List.length. rewrite <- L.
    destruct (Nat.eqb (S (S (List.length ra2))) n) eqn:E; [|reflexivity].
    cbn [bind]. apply Nat.eqb_eq in E. rewrite <- E.
    change (S (S (List.length ra2))) with (List.length (a :: a2 :: ra2)). rewrite firstn_all.
    apply (goodv_post k (a :: a2 :: ra2) (b :: b2 :: rb2)). constructor; [exact G|]. constructor; assumption.
Qed.

(* the option written without any value *)
Lemma distribute_no_value n k pd : 2 <= n ->
  distribute_gen n k pd (Some []) = match pd with None => Err (Exit 2) | Some _ => Err Inconsistent end.
Proof.
  intros Hn. rewrite distribute_gen_eq, collect_gen_eq. destruct pd; cbn [map_res bind]; [|reflexivity].
  rewrite dup_by_count by (auto; intros; reflexivity). unfold by_count.
  destruct n as [|[|n]]; try lia. reflexivity.
Qed.

Lemma by_count_sized n vs : sized n (by_count n vs).
Proof.
  unfold sized, by_count. intros out. destruct vs as [|v [|w r]].
  - destruct (Nat.eqb (List.length (@nil val)) n) eqn:E; [|discriminate]. intros H. injection H as <-. now apply Nat.eqb_eq in E.
  - intros H. injection H as <-. apply repeat_length.
  - destruct (Nat.eqb (List.length (v :: w :: r)) n) eqn:E; [|discriminate]. intros H. injection H as <-. now apply Nat.eqb_eq in E.
Qed.

(* the default d reaches every destination unchanged *)
Definition default_fixed (k : kind) (d : val) : Prop :=
  postprocess_gen k d = Ok d /\ (scalar_kind k = true -> scalar_val d = true).

Lemma by_count_repeat n d : 2 <= n -> by_count n (repeat d n) = Ok (repeat d n).
Proof.
  intros Hn. unfold by_count. destruct n as [|[|n]]; try lia.
  change (repeat d (S (S n))) with (d :: d :: repeat d n).
  change (List.length (d :: d :: repeat d n)) with (S (S (List.length (repeat d n)))).
  rewrite repeat_length, Nat.eqb_refl. reflexivity.
Qed.

Lemma scalars_repeat d n : scalar_val d = true -> forallb scalar_val (repeat d n) = true.
Proof. intros H. induction n; simpl; [reflexivity | now rewrite H]. Qed.

Lemma distribute_absent n k d : 2 <= n -> default_fixed k d ->
  distribute_gen n k (Some (repeat d n)) None = Ok (repeat d n).
Proof.
  intros Hn [Hp Hs]. rewrite distribute_gen_eq, collect_gen_eq. cbn [bind].
  rewrite (dup_by_count n k (repeat d n) Hn (fun Hk => scalars_repeat d n (Hs Hk))).
  rewrite (by_count_repeat n d Hn). cbn [bind].
  rewrite firstn_all2 by (rewrite repeat_length; lia). apply map_res_repeat. exact Hp.
Qed.

(* model vs spec for one merged option, given that every token is related *)
Theorem distribute_meets n k cd cli :
  2 <= n ->
  (forall d, cd = Some d -> default_fixed k d) ->
  (forall toks, cli = Some toks -> Forall (tok_rel k) toks) ->
  meets (spec_expect k (repeat cd n) cli) (distribute_gen n k (option_map (fun d => repeat d n) cd) cli)
  /\ sized n (distribute_gen n k (option_map (fun d => repeat d n) cd) cli).
Proof.
  intros Hn Hd Ht. unfold spec_expect. rewrite repeat_length.
  destruct cli as [toks|].
  - specialize (Ht toks eq_refl).
    set (pd := option_map (fun d => repeat d n) cd).
    destruct (denote_all (spec_token k) toks) as [vs| |] eqn:E.
    + destruct (toks_dens k toks vs Ht E) as [vs' [Hc F]].
      destruct toks as [|t0 tr].
      * (* the option without a value *)
        simpl in E. injection E as <-. rewrite (distribute_no_value n k pd Hn).
        split; [|intros out; destruct pd; discriminate].
        simpl. destruct pd; [right | left]; reflexivity.
      * assert (Hne : t0 :: tr <> [] \/ pd <> None) by (left; discriminate).
        rewrite (distribute_values n k pd (t0 :: tr) vs' vs Hn Hne Hc F).
        split; [|apply by_count_sized].
        unfold by_count. destruct vs as [|v [|w r]].
        -- apply Forall2_len in F. apply map_res_length in Hc. simpl in *. lia.
        -- simpl. reflexivity.
        -- destruct (Nat.eqb (List.length (v :: w :: r)) n); simpl; reflexivity.
    + assert (Hcol : collect_gen k pd (Some toks) = Err (Exit 2)).
      { rewrite collect_gen_eq. destruct toks as [|t0 tr]; [simpl in E; discriminate|].
        exact (toks_nodens k (t0 :: tr) Ht E). }
      split; [simpl; left|intros out]; rewrite distribute_gen_eq, Hcol; [reflexivity | discriminate].
    + destruct toks as [|t0 tr]; [simpl in E; discriminate|].
      destruct (toks_weak k (t0 :: tr) Ht) as [Hc|[vs' [vs [Hc F]]]].
      * split; [simpl; right; left|intros out]; rewrite distribute_gen_eq, collect_gen_eq; cbv beta iota;
          rewrite Hc; [reflexivity | discriminate].
      * assert (Hne : t0 :: tr <> [] \/ pd <> None) by (left; discriminate).
        rewrite (distribute_values n k pd (t0 :: tr) vs' vs Hn Hne Hc F).
        split; [|apply by_count_sized]. simpl. unfold by_count. destruct vs as [|v [|w r]].
        -- destruct (Nat.eqb (List.length (@nil val)) n); [left; eexists; reflexivity | right; right; reflexivity].
        -- left. eexists. reflexivity.
        -- destruct (Nat.eqb (List.length (v :: w :: r)) n); [left; eexists; reflexivity | right; right; reflexivity].
  - destruct cd as [d|]; simpl.
    + assert (A : all_some (repeat (Some d) n) = Some (repeat d n)).
      { clear. induction n; simpl; [reflexivity | now rewrite IHn]. }
      rewrite A. rewrite (distribute_absent n k d Hn (Hd d eq_refl)).
      split; [reflexivity|]. intros out H. injection H as <-. apply repeat_length.
    + assert (A : all_some (repeat (@None val) n) = None) by (destruct n; [lia | reflexivity]).
      rewrite A. split; [left; reflexivity | intros out; discriminate].
Qed.

(* ====================================================================== *)
(* which wrapper survives the merge; order of the destinations             *)
(* ====================================================================== *)
Lemma sort_head_fold (key : string -> nat) d0 rest : forall acc,
  (forall d, In d rest -> key d0 <= key d) ->
  exists tl, fold_left (fun a x => ins_by key x a) rest (d0 :: acc) = d0 :: tl.
Proof.
  induction rest as [|x r IH]; intros acc H; simpl.
  - exists acc. reflexivity.
  - assert (Hx : key d0 <= key x) by (apply H; left; reflexivity).
    destruct (Nat.ltb (key x) (key d0)) eqn:E; [apply Nat.ltb_lt in E; lia|].
    apply IH. intros d Hd. apply H. right. exact Hd.
Qed.

Lemma sort_head (key : string -> nat) d0 rest :
  (forall d, In d rest -> key d0 <= key d) -> exists tl, sort_by key (d0 :: rest) = d0 :: tl.
Proof. intros H. unfold sort_by. simpl. apply sort_head_fold. exact H. Qed.

Lemma merge_one acc d : ~ In d acc -> merge_dests MERGE_DEDUPES acc [d] = (acc ++ [d])%list.
Proof.
  intros H. unfold merge_dests. cbn [fold_left]. apply str_in_false in H. rewrite H, andb_false_r. reflexivity.
Qed.

Lemma merge_fold rest : forall acc, NoDup (acc ++ rest) ->
  fold_left (fun a d => merge_dests MERGE_DEDUPES a [d]) rest acc = (acc ++ rest)%list.
Proof.
  induction rest as [|d r IH]; intros acc H; cbn [fold_left].
  - now rewrite app_nil_r.
  - rewrite merge_one.
    + rewrite IH; rewrite <- app_assoc; [reflexivity | exact H].
    + apply NoDup_remove_2 in H. intros Hin. apply H. apply in_or_app. left. exact Hin.
Qed.

(* the wrappers are merged into the first registered one, and the destinations keep the registration order,
   provided the first registered wrapper is (one of) the least nested *)
Theorem merge_order d0 rest :
  NoDup (d0 :: rest) -> (forall d, In d rest -> level d0 <= level d) ->
  fix_conflict_merge_gen (d0 :: rest) = Ok (d0 :: rest).
Proof.
  intros Hnd Hlv. unfold fix_conflict_merge_gen, fix_conflict_merge.
  destruct bridge_merge as [-> [-> _]].
  destruct (sort_head level d0 rest Hlv) as [tl ->]. cbn [hd].
  assert (Hin : str_in d0 rest = false) by (apply str_in_false; inversion Hnd; assumption).
  rewrite Hin. rewrite (merge_fold rest [d0] Hnd). reflexivity.
Qed.

(* without that proviso the statement is false of the model (and of the code: defect #20) *)
Theorem merge_order_refuted :
  exists dests, NoDup dests /\ fix_conflict_merge_gen dests = Err (Raise "ValueError").
Proof.
  exists ["t.a"; "t.b"; "top"]. split.
  - apply str_nodupb_NoDup. vm_compute. reflexivity.
  - vm_compute. reflexivity.
Qed.

(* ====================================================================== *)
(* the whole pipeline on a layout                                          *)
(* ====================================================================== *)
Definition layout_ok (dests : list string) : Prop :=
  match dests with
  | [] => False
  | d0 :: rest => NoDup dests /\ (forall d, In d rest -> level d0 <= level d)
                  /\ (level d0 = 1 -> forall d, In d rest -> level d = 1)
  end.

Lemma observe_all first_top cd : forall dests out ext,
  NoDup dests -> List.length out = List.length dests ->
  (first_top = true -> forall d, In d dests -> level d = 1) ->
  (forall d, In d dests -> assoc d ext = assoc d (combine dests out)) ->
  map_res (fun d => observe first_top cd d (assoc d ext)) dests = Ok out.
Proof.
  induction dests as [|d r IH]; intros out ext Hnd Hlen Hlv Hext.
  - destruct out; [reflexivity | discriminate].
  - destruct out as [|o ro]; [discriminate|]. simpl.
    rewrite (Hext d (or_introl eq_refl)). simpl. rewrite String.eqb_refl.
    assert (Hobs : observe first_top cd d (Some o) = Ok o).
    { unfold observe. destruct first_top; [|reflexivity].
      rewrite (Hlv eq_refl d (or_introl eq_refl)). reflexivity. }
    rewrite Hobs. inversion Hnd as [|x l Hnin Hnd']; subst.
    rewrite (IH ro ext Hnd'); [reflexivity | simpl in Hlen; lia | |].
    + intros Ht x Hx. apply (Hlv Ht). right. exact Hx.
    + intros x Hx. rewrite (Hext x (or_intror Hx)). simpl.
      destruct (String.eqb d x) eqn:E; [apply String.eqb_eq in E; subst; contradiction | reflexivity].
Qed.

(* run = distribute, once the layout is one where the first registered wrapper survives *)
Lemma run_is_distribute dests k cd cli :
  layout_ok dests -> 2 <= List.length dests ->
  (level (hd "" dests) <> 1 -> cd <> None) ->
  (level (hd "" dests) = 1 -> forall d, cd = Some d -> package_default_gen (List.length dests) k true d = Ok (repeat d (List.length dests))) ->
  sized (List.length dests) (distribute_gen (List.length dests) k (option_map (fun d => repeat d (List.length dests)) cd) cli) ->
  run_gen dests k cd (repeat None (List.length dests)) cli =
  distribute_gen (List.length dests) k (option_map (fun d => repeat d (List.length dests)) cd) cli.
Proof.
  intros Hl Hn2 Hcd Hpk Hs. unfold run_gen, run. rewrite bridge_discovery. cbn [negb].
  destruct dests as [|d0 rest]; [contradiction|]. destruct Hl as [Hnd [Hlv Htop]].
  fold (fix_conflict_merge_gen (d0 :: rest)). rewrite (merge_order d0 rest Hnd Hlv). cbn [bind hd].
  cbn [hd] in Hcd, Hpk.
  set (n := List.length (d0 :: rest)) in *.
  assert (Hdo : bind (default_object DEFAULT_SOURCES DEFAULTS_TOP_FRESH DEFAULTS_NESTED_SEEDED (Nat.eqb (level d0) 1) n cd (repeat None n))
                   (fun dobj => match dobj with
                                | None => Ok None
                                | Some (d, single) => bind (package_default PK_CHAIN n k single d) (fun l => Ok (Some l))
                                end) = Ok (option_map (fun d => repeat d n) cd)).
  { assert (Hr : repeat (@None val) n = None :: repeat None (n - 1)).
    { unfold n. simpl. now rewrite Nat.sub_0_r. }
    unfold default_object, parent_defaults. destruct bridge_defaults_property as [Hf Hsd]. rewrite Hf, Hsd, Hr.
    destruct (Nat.eqb (level d0) 1) eqn:E1.
    - apply Nat.eqb_eq in E1. cbn [orb negb]. rewrite bridge_sources. cbv beta iota.
      destruct cd as [d|]; [|reflexivity]. cbn [bind option_map].
      fold (package_default_gen n k true d). rewrite (Hpk E1 d eq_refl). reflexivity.
    - apply Nat.eqb_neq in E1. destruct cd as [d|]; [|exfalso; apply (Hcd E1); reflexivity].
      rewrite bridge_sources. cbv beta iota.
      assert (Hrd : repeat d n = d :: d :: repeat d (n - 2)).
      { destruct n as [|[|n']]; try lia. simpl. now rewrite Nat.sub_0_r. }
      rewrite Hrd at 1. cbv beta iota.
      cbn [bind option_map]. fold (package_default_gen n k false (VList (repeat d n))). rewrite package_perdest. reflexivity. }
  destruct (default_object DEFAULT_SOURCES DEFAULTS_TOP_FRESH DEFAULTS_NESTED_SEEDED (Nat.eqb (level d0) 1) n cd (repeat None n))
    as [dobj|e]; [|discriminate].
  cbn [bind] in Hdo |- *. rewrite Hdo. cbn [bind].
  fold (distribute_gen n k (option_map (fun d => repeat d n) cd) cli).
  destruct (distribute_gen n k (option_map (fun d => repeat d n) cd) cli) as [out|e] eqn:Er; [|reflexivity]. cbn [bind].
  apply observe_all.
  - exact Hnd.
  - apply Hs. reflexivity.
  - intros Ht d Hd. apply Nat.eqb_eq in Ht. destruct Hd as [<-|Hd]; [exact Ht | apply (Htop Ht d Hd)].
  - intros d _. reflexivity.
Qed.

(* a default of the field's own type *)
Definition typed_default (k : kind) (d : val) : bool :=
  match k, d with
  | KInt, VInt _ | KFloat, VFloat _ _ _ | KStr, VStr _ | KBool, VBool _ | KEnum _, VEnum _
  | KList _, VList _ | KTuple _ _, VTuple _ => true
  | _, _ => false
  end.

Lemma typed_fixed k d : typed_default k d = true -> default_fixed k d.
Proof. destruct k, d; try discriminate; intros _; split; try reflexivity; discriminate. Qed.

Lemma typed_scalar_safe n k d : scalar_kind k = true -> typed_default k d = true -> default_safe n k d = true.
Proof. unfold default_safe. destruct k, d; try discriminate; intros _ _; apply orb_true_r. Qed.

(* ----- the general statement: model meets spec whenever every token is related and the default is safe ----- *)
Theorem run_meets dests k cd cli :
  layout_ok dests -> 2 <= List.length dests ->
  (level (hd "" dests) <> 1 -> cd <> None) ->
  (forall d, cd = Some d -> typed_default k d = true) ->
  (level (hd "" dests) = 1 -> forall d, cd = Some d -> default_safe (List.length dests) k d = true) ->
  (forall toks, cli = Some toks -> Forall (tok_rel k) toks) ->
  meets (spec_expect k (repeat cd (List.length dests)) cli)
        (run_gen dests k cd (repeat None (List.length dests)) cli).
Proof.
  intros Hl Hn Hcd Hty Hsafe Htoks.
  destruct (distribute_meets (List.length dests) k cd cli Hn (fun d E => typed_fixed k d (Hty d E)) Htoks) as [M S].
  rewrite (run_is_distribute dests k cd cli Hl Hn Hcd); [exact M | | exact S].
  intros Ht d E. apply package_single. apply (Hsafe Ht d E).
Qed.

(* scalar kinds: no side condition on tokens or defaults *)
Theorem scalar_meets_spec dests k cd cli :
  layout_ok dests -> 2 <= List.length dests -> scalar_kind k = true ->
  (level (hd "" dests) <> 1 -> cd <> None) ->
  (forall d, cd = Some d -> typed_default k d = true) ->
  meets (spec_expect k (repeat cd (List.length dests)) cli)
        (run_gen dests k cd (repeat None (List.length dests)) cli).
Proof.
  intros Hl Hn Hk Hcd Hty. apply run_meets; try assumption.
  - intros _ d E. apply typed_scalar_safe; [exact Hk | apply (Hty d E)].
  - intros toks _. apply Forall_forall. intros t _. apply scalar_tok_rel. exact Hk.
Qed.

(* the count rule on the values that reached the action, for scalar kinds, any n >= 2, any number of values *)
Theorem scalar_count_rule n k vals :
  2 <= n -> scalar_kind k = true -> forallb scalar_val vals = true ->
  duplicate_gen n k vals =
  match vals with
  | [v] => Ok (repeat v n)
  | _ => if Nat.eqb (List.length vals) n then Ok vals else Err Inconsistent
  end.
Proof. intros Hn Hk Hs. apply (dup_by_count n k vals Hn). intros _. exact Hs. Qed.

(* container kinds, full statement: every token list (inside the model's scope), every typed default *)
Definition container_full_statement : Prop :=
  forall dests k cd cli,
    layout_ok dests -> 2 <= List.length dests -> scalar_kind k = false ->
    (level (hd "" dests) <> 1 -> cd <> None) ->
    (forall d, cd = Some d -> typed_default k d = true) ->
    meets (spec_expect k (repeat cd (List.length dests)) cli)
          (run_gen dests k cd (repeat None (List.length dests)) cli).

Lemma layout_two_flat : layout_ok ["d0"; "d1"].
Proof.
  simpl. split; [apply str_nodupb_NoDup; reflexivity|]. split.
  - intros d [<-|[]]. vm_compute. lia.
  - intros _ d [<-|[]]. reflexivity.
Qed.

(* (the witness of defect #4 - a list default of length n dealt element-wise - is retired: repaired by the
   `single_value` test of FieldWrapper.default; the shrunk input stays in corpus/C11 and is replayed first) *)

(* witness 2 (defect #5): `--xs 7` puts the scalar 7 into a List[int] field *)
Definition t7 := mktok "7" (Some (LInt 7)).
Definition w_bare := run_gen ["d0"; "d1"] (KList EInt) (Some (VList [])) [None; None] (Some [t7]).
Lemma w_bare_model : w_bare = Ok [VInt 7; VInt 7].
Proof. vm_compute. reflexivity. Qed.
Lemma w_bare_spec : spec_expect (KList EInt) [Some (VList []); Some (VList [])] (Some [t7]) = MustBe [VList [VInt 7]; VList [VInt 7]].
Proof. vm_compute. reflexivity. Qed.

(* witness 3 (defect #5): `--t 3 4` with n = 2 raises TypeError *)
Definition t3 := mktok "3" (Some (LInt 3)).
Definition t4 := mktok "4" (Some (LInt 4)).
Definition w_type := run_gen ["d0"; "d1"] (KTuple EInt None) (Some (VTuple [])) [None; None] (Some [t3; t4]).
Lemma w_type_model : w_type = Err (Raise "TypeError").
Proof. vm_compute. reflexivity. Qed.
Lemma w_type_spec : spec_expect (KTuple EInt None) [Some (VTuple []); Some (VTuple [])] (Some [t3; t4])
                    = MustBe [VTuple [VInt 3]; VTuple [VInt 4]].
Proof. vm_compute. reflexivity. Qed.

(* witness 4 (defect #5): the arity of a merged fixed tuple is not checked *)
Definition t345 := mktok "(3,4,5)" (Some (LSeq true [LInt 3; LInt 4; LInt 5])).
Definition w_arity := run_gen ["d0"; "d1"] (KTuple EInt (Some 2)) (Some (VTuple [VInt 1; VInt 2])) [None; None] (Some [t345]).
Lemma w_arity_model : w_arity = Ok [VTuple [VInt 3; VInt 4; VInt 5]; VTuple [VInt 3; VInt 4; VInt 5]].
Proof. vm_compute. reflexivity. Qed.
Lemma w_arity_spec : spec_expect (KTuple EInt (Some 2)) [Some (VTuple [VInt 1; VInt 2]); Some (VTuple [VInt 1; VInt 2])] (Some [t345])
                     = MustReject.
Proof. vm_compute. reflexivity. Qed.

Theorem container_full_refuted : ~ container_full_statement.
Proof.
  intros H.
  specialize (H ["d0"; "d1"] (KList EInt) (Some (VList [])) (Some [t7]) layout_two_flat (le_n 2) eq_refl).
  assert (M : meets (MustBe [VList [VInt 7]; VList [VInt 7]]) (Ok [VInt 7; VInt 7])).
  { rewrite <- w_bare_spec, <- w_bare_model. apply H.
    - intros Hlv. exfalso. apply Hlv. reflexivity.
    - intros d E. injection E as <-. reflexivity. }
  simpl in M. discriminate.
Qed.

(* each of the three remaining behaviours separately: what the model (= the code) does is not what the spec demands *)
Theorem refuted_bare_scalar :
  ~ meets (spec_expect (KList EInt) [Some (VList []); Some (VList [])] (Some [t7])) w_bare.
Proof. rewrite w_bare_spec, w_bare_model. simpl. discriminate. Qed.
Theorem refuted_tuple_typeerror :
  ~ meets (spec_expect (KTuple EInt None) [Some (VTuple []); Some (VTuple [])] (Some [t3; t4])) w_type.
Proof. rewrite w_type_spec, w_type_model. simpl. discriminate. Qed.
Theorem refuted_tuple_arity :
  ~ meets (spec_expect (KTuple EInt (Some 2)) [Some (VTuple [VInt 1; VInt 2]); Some (VTuple [VInt 1; VInt 2])] (Some [t345])) w_arity.
Proof. rewrite w_arity_spec, w_arity_model. simpl. intros [H|H]; discriminate. Qed.

(* container kinds, partial statement: bracketed literals of the item type (right arity), default treated as one value *)
Definition cli_bracketed (k : kind) (cli : option (list tok)) : bool :=
  match cli with None => true | Some toks => forallb (tok_bracketed k) toks end.

Theorem container_partial dests k cd cli :
  layout_ok dests -> 2 <= List.length dests -> scalar_kind k = false ->
  (level (hd "" dests) <> 1 -> cd <> None) ->
  (forall d, cd = Some d -> typed_default k d = true) ->
  (level (hd "" dests) = 1 -> forall d, cd = Some d -> default_safe (List.length dests) k d = true) ->
  cli_bracketed k cli = true ->
  meets (spec_expect k (repeat cd (List.length dests)) cli)
        (run_gen dests k cd (repeat None (List.length dests)) cli).
Proof.
  intros Hl Hn Hk Hcd Hty Hsafe Hb. apply run_meets; try assumption.
  intros toks ->. simpl in Hb. rewrite forallb_forall in Hb. apply Forall_forall.
  intros t Ht. apply bracketed_tok_rel. apply Hb. exact Ht.
Qed.
