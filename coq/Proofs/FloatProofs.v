(* Proofs/FloatProofs.v — float(): the plain decimal rendering of every exact decimal parses back to it. *)
From Coq Require Import DecimalString DecimalZ DecimalPos.
From SPV Require Import Base.Str Model.Leaf Model.LeafSpec Proofs.LeafProofs.

(* a float value in normal form: non-negative integer part, fraction digits without trailing zero, no negative zero *)
Definition flt_wf (neg : bool) (ip : Z) (frac : string) : Prop :=
  (0 <= ip)%Z /\ allc is_digit frac = true /\ rstrip_zeros frac = frac /\ (neg = true -> ~ (ip = 0%Z /\ frac = "")).

Lemma has_char_app_local c a b : has_char c (a ++ b) = has_char c a || has_char c b.
Proof. induction a as [|x r IH]; simpl; [reflexivity | rewrite IH; apply orb_assoc]. Qed.

Lemma lower_noop s : allc (fun a => negb (is_upper a)) s = true -> lower s = s.
Proof.
  induction s as [|a r IH]; simpl; [reflexivity|]. intros H. apply andb_true_iff in H as [Ha Hr].
  unfold lower_ascii. apply negb_true_iff in Ha. rewrite Ha, (IH Hr). reflexivity.
Qed.

Lemma split_at_none c s : forall acc, has_char c s = false -> split_at_char c s acc = None.
Proof.
  induction s as [|a r IH]; intros acc H; simpl in *; [reflexivity|].
  apply orb_false_iff in H as [Ha Hr]. rewrite Ha. apply IH. exact Hr.
Qed.

Lemma split_at_app c a b : forall acc, has_char c a = false -> split_at_char c (a ++ String c b) acc = Some (acc ++ a, b).
Proof.
  induction a as [|x r IH]; intros acc H; simpl in *.
  - rewrite Ascii.eqb_refl, append_nil_r. reflexivity.
  - apply orb_false_iff in H as [Hx Hr]. rewrite Hx, (IH _ Hr), append_assoc. reflexivity.
Qed.

Lemma substring_take a b : String.substring 0 (String.length a) (a ++ b) = a.
Proof. induction a as [|x r IH]; simpl; [destruct b; reflexivity | now rewrite IH]. Qed.

Lemma substring_drop a b : String.substring (String.length a) (String.length b) (a ++ b) = b.
Proof.
  induction a as [|x r IH]; simpl; [|exact IH].
  induction b as [|y q IHb]; simpl; [reflexivity | now rewrite IHb].
Qed.

Lemma digit_props a : is_digit a = true ->
  negb (is_space a) = true /\ negb (is_upper a) = true /\ Ascii.eqb a "e"%char = false /\ Ascii.eqb a "."%char = false.
Proof. destruct a as [[] [] [] [] [] [] [] []]; simpl; intros H; try discriminate; auto. Qed.

Lemma allc_digit_to (p : ascii -> bool) s :
  (forall a, is_digit a = true -> p a = true) -> allc is_digit s = true -> allc p s = true.
Proof. intros W. apply allc_weaken. exact W. Qed.

Lemma has_char_digits c s : (forall a, is_digit a = true -> Ascii.eqb a c = false) -> allc is_digit s = true -> has_char c s = false.
Proof.
  intros W. induction s as [|a r IH]; simpl; [reflexivity|]. intros H. apply andb_true_iff in H as [Ha Hr].
  rewrite (W a Ha), (IH Hr). reflexivity.
Qed.

(* the decimal rendering of a non-negative integer: a non-empty digit string that reads back as the integer *)
Lemma show_nonneg ip : (0 <= ip)%Z ->
  allc is_digit (show_int ip) = true /\ show_int ip <> "" /\
  exists u, NilZero.uint_of_string (show_int ip) = Some u /\ Z.of_uint u = ip.
Proof.
  intros H. destruct ip as [|p|p]; [| |lia].
  - repeat split; try discriminate. exists (Decimal.D0 Decimal.Nil). split; reflexivity.
  - unfold show_int. simpl Z.to_int. unfold NilZero.string_of_int, NilZero.string_of_uint.
    assert (N := DecimalPos.Unsigned.to_uint_nonnil p).
    replace (match Pos.to_uint p with Decimal.Nil => "0" | _ => NilEmpty.string_of_uint (Pos.to_uint p) end)
      with (NilEmpty.string_of_uint (Pos.to_uint p)) by (destruct (Pos.to_uint p); congruence).
    split; [apply digits_of_uint|]. split; [apply string_of_uint_nonempty; exact N|].
    exists (Pos.to_uint p). split.
    + replace (NilEmpty.string_of_uint (Pos.to_uint p)) with (NilZero.string_of_uint (Pos.to_uint p)).
      * apply NilZero.usu. exact N.
      * unfold NilZero.string_of_uint. destruct (Pos.to_uint p); congruence.
    + unfold Z.of_uint. rewrite DecimalPos.Unsigned.of_to. reflexivity.
Qed.

Lemma sign_dispatch_digit (a : ascii) (r : string) :
  is_digit a = true ->
  match String a r with String "-"%char x => (true, x) | String "+"%char x => (false, x) | x => (false, x) end = (false, String a r).
Proof. destruct a as [[] [] [] [] [] [] [] []]; simpl; intros H; try discriminate; reflexivity. Qed.

Lemma digits_or_empty_digits s : allc is_digit s = true -> s <> "" -> digits_or_empty s = Some s.
Proof.
  intros D N. unfold digits_or_empty. destruct (String.eqb s "") eqn:E; [apply String.eqb_eq in E; congruence|].
  apply strip_underscores_digits; auto.
Qed.

Lemma length_pos s : s <> "" -> 0 < String.length s.
Proof. destruct s; [congruence | simpl; lia]. Qed.

(* the unsigned part: <digits>.<digits> *)
Lemma py_float_body (neg : bool) ip frac :
  flt_wf neg ip frac ->
  let I := show_int ip in
  let F := if String.eqb frac "" then "0" else frac in
  match split_at_char "e"%char (I ++ String "."%char F) "" with
  | Some (m, e) => None
  | None =>
      match split_at_char "."%char (I ++ String "."%char F) "" with
      | Some (a, b) => Some (a, b)
      | None => None
      end
  end = Some (I, F).
Proof.
  intros [Hip [Hd _]] I F.
  destruct (show_nonneg ip Hip) as [DI [NI _]]. fold I in DI, NI.
  assert (DF : allc is_digit F = true) by (unfold F; destruct (String.eqb frac ""); [reflexivity | exact Hd]).
  assert (He : has_char "e"%char (I ++ String "."%char F) = false).
  { rewrite has_char_app_local. simpl.
    rewrite (has_char_digits "e"%char I (fun a H => proj1 (proj2 (proj2 (digit_props a H)))) DI).
    rewrite (has_char_digits "e"%char F (fun a H => proj1 (proj2 (proj2 (digit_props a H)))) DF). reflexivity. }
  rewrite (split_at_none _ _ "" He).
  rewrite (split_at_app "."%char I F "" (has_char_digits "."%char I (fun a H => proj2 (proj2 (proj2 (digit_props a H)))) DI)).
  reflexivity.
Qed.

Lemma rstrip_zeros_F frac : rstrip_zeros frac = frac -> rstrip_zeros (if String.eqb frac "" then "0" else frac) = frac.
Proof. intros H. destruct (String.eqb frac "") eqn:E; [apply String.eqb_eq in E; subst; reflexivity | exact H]. Qed.

Theorem py_float_show neg ip frac :
  flt_wf neg ip frac -> py_float (show_float neg ip frac) = Some (VFlt neg ip frac).
Proof.
  intros W. assert (W' := W). destruct W' as [Hip [Hd [Hz Hneg]]].
  set (I := show_int ip). set (F := if String.eqb frac "" then "0" else frac).
  destruct (show_nonneg ip Hip) as [DI [NI [u [HU HUz]]]]. fold I in DI, NI, HU.
  assert (DF : allc is_digit F = true) by (unfold F; destruct (String.eqb frac ""); [reflexivity | exact Hd]).
  assert (NF : F <> "") by (unfold F; destruct (String.eqb frac "") eqn:E; [discriminate | apply String.eqb_neq in E; exact E]).
  assert (Hbody := py_float_body neg ip frac W). cbv zeta in Hbody. fold I F in Hbody.
  set (body := I ++ String "."%char F) in *.
  assert (Dbody_sp : allc (fun a => negb (is_space a)) body = true).
  { unfold body. rewrite allc_app. simpl.
    rewrite (allc_digit_to _ I (fun a H => proj1 (digit_props a H)) DI), (allc_digit_to _ F (fun a H => proj1 (digit_props a H)) DF). reflexivity. }
  assert (Dbody_up : allc (fun a => negb (is_upper a)) body = true).
  { unfold body. rewrite allc_app. simpl.
    rewrite (allc_digit_to _ I (fun a H => proj1 (proj2 (digit_props a H))) DI), (allc_digit_to _ F (fun a H => proj1 (proj2 (digit_props a H))) DF). reflexivity. }
  assert (Hs : show_float neg ip frac = (if neg then "-" else "") ++ body).
  { unfold show_float, body. fold I F. reflexivity. }
  assert (Hnorm : lower (strip (show_float neg ip frac)) = (if neg then "-" else "") ++ body).
  { rewrite Hs. destruct neg; simpl.
    - rewrite strip_noop by (simpl; exact Dbody_sp). rewrite lower_noop by (simpl; exact Dbody_up). reflexivity.
    - rewrite strip_noop by exact Dbody_sp. rewrite lower_noop by exact Dbody_up. reflexivity. }
  unfold py_float. rewrite Hnorm.
  match goal with |- (let (_, _) := ?M in _) = _ => assert (Hsign : M = (neg, body)) end.
  { destruct neg; [reflexivity|]. simpl. unfold body. destruct I as [|a r] eqn:EI; [congruence|].
    simpl in DI. apply andb_true_iff in DI as [Da _].
    destruct a as [[] [] [] [] [] [] [] []]; simpl in Da; try discriminate Da; reflexivity. }
  rewrite Hsign. cbv beta iota.
  destruct (split_at_char "e"%char body "") as [[m e]|] eqn:Ee; [discriminate|].
  destruct (split_at_char "."%char body "") as [[a b]|] eqn:Ed; [|discriminate].
  injection Hbody as -> ->. cbv beta iota.
  rewrite (digits_or_empty_digits I DI NI), (digits_or_empty_digits F DF NF).
  assert (EI : String.eqb I "" = false) by (apply String.eqb_neq; exact NI).
  rewrite EI. cbn [andb].
  assert (LI := length_pos I NI). assert (LF := length_pos F NF).
  replace (Z.of_nat (String.length I) + 0)%Z with (Z.of_nat (String.length I)) by lia.
  destruct (Z.of_nat (String.length I) <=? 0)%Z eqn:P1; [apply Z.leb_le in P1; lia|].
  destruct (Z.of_nat (String.length (I ++ F)) <=? Z.of_nat (String.length I))%Z eqn:P2;
    [apply Z.leb_le in P2; rewrite length_append in P2; lia|].
  rewrite Nat2Z.id. unfold take, drop. rewrite substring_take.
  rewrite length_append. replace (String.length I + String.length F - String.length I) with (String.length F) by lia.
  rewrite substring_drop. rewrite HU, HUz.
  assert (RF : rstrip_zeros F = frac) by (unfold F; exact (rstrip_zeros_F frac Hz)).
  rewrite RF.
  f_equal. f_equal. destruct neg; [|reflexivity]. simpl.
  destruct (ip =? 0)%Z eqn:Ez; [|reflexivity]. destruct (String.eqb frac "") eqn:Ef; [|reflexivity].
  exfalso. apply (Hneg eq_refl). split; [now apply Z.eqb_eq | now apply String.eqb_eq].
Qed.
