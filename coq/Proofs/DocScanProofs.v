(* Proofs/DocScanProofs.v — the docstring scanner (Model/DocScan.v, instantiated with the REGENERATED facts of
   Gen/FactsDoc.v) against the layout spec (Model/DocScanSpec.v):
     A. string lemmas (partition / strip / token search over concatenations);
     B. each rendered line has the view its role demands;
     C. printer/scanner round trip for every well-formed layout (list induction over views);
     D. help precedence, nearest class along the MRO, and the cache-history counterexample. *)
From SPV Require Import Base.Str Model.DocScan Model.DocScanSpec Gen.FactsDoc.

(* ====================================================================== *)
(* A. strings                                                              *)
(* ====================================================================== *)

Lemma has_char_app c a b : has_char c (a ++ b) = has_char c a || has_char c b.
Proof. induction a as [|x r IH]; simpl; [reflexivity|]. rewrite IH. now rewrite orb_assoc. Qed.

Lemma before_char_app_no c a b : has_char c a = false -> before_char c (a ++ b) = a ++ before_char c b.
Proof.
  induction a as [|x r IH]; simpl; intros H; [reflexivity|].
  apply orb_false_iff in H as [Hx Hr]. rewrite Hx, IH by exact Hr. reflexivity.
Qed.

Lemma before_char_none c a : has_char c a = false -> before_char c a = a.
Proof.
  induction a as [|x r IH]; simpl; intros H; [reflexivity|].
  apply orb_false_iff in H as [Hx Hr]. rewrite Hx, IH by exact Hr. reflexivity.
Qed.

Lemma before_char_hit c b : before_char c (String c b) = "".
Proof. simpl. now rewrite Ascii.eqb_refl. Qed.

Lemma after_char_app_no c a b : has_char c a = false -> after_char c (a ++ b) = after_char c b.
Proof.
  induction a as [|x r IH]; simpl; intros H; [reflexivity|].
  apply orb_false_iff in H as [Hx Hr]. rewrite Hx. apply IH, Hr.
Qed.

Lemma after_char_none c a : has_char c a = false -> after_char c a = None.
Proof.
  induction a as [|x r IH]; simpl; intros H; [reflexivity|].
  apply orb_false_iff in H as [Hx Hr]. rewrite Hx. apply IH, Hr.
Qed.

Lemma after_char_hit c b : after_char c (String c b) = Some b.
Proof. simpl. now rewrite Ascii.eqb_refl. Qed.

(* ---------- reversal ---------- *)
Lemma srev_acc_spec s acc : srev_acc s acc = srev s ++ acc.
Proof.
  unfold srev. revert acc. induction s as [|a r IH]; intros acc; simpl; [reflexivity|].
  rewrite IH, (IH (String a "")), append_assoc. reflexivity.
Qed.

Lemma srev_cons a s : srev (String a s) = srev s ++ String a "".
Proof. unfold srev at 1. simpl. apply srev_acc_spec. Qed.

Lemma srev_app a b : srev (a ++ b) = srev b ++ srev a.
Proof.
  induction a as [|x r IH]; simpl.
  - now rewrite append_nil_r.
  - rewrite !srev_cons, IH, append_assoc. reflexivity.
Qed.

Lemma srev_involutive s : srev (srev s) = s.
Proof.
  induction s as [|a r IH]; [reflexivity|].
  rewrite srev_cons, srev_app, IH. reflexivity.
Qed.

Lemma srev_empty s : srev s = "" -> s = "".
Proof. intros H. rewrite <- (srev_involutive s), H. reflexivity. Qed.

(* ---------- all characters satisfy p ---------- *)
Lemma str_all_app p a b : str_all p (a ++ b) = str_all p a && str_all p b.
Proof. induction a as [|x r IH]; simpl; [reflexivity|]. rewrite IH. now rewrite andb_assoc. Qed.

Lemma str_all_srev p s : str_all p (srev s) = str_all p s.
Proof.
  induction s as [|a r IH]; [reflexivity|].
  rewrite srev_cons, str_all_app, IH. simpl. rewrite andb_true_r. apply andb_comm.
Qed.

Lemma str_all_impl (p q : ascii -> bool) s :
  (forall a, p a = true -> q a = true) -> str_all p s = true -> str_all q s = true.
Proof.
  intros Hpq. induction s as [|a r IH]; simpl; [reflexivity|].
  intros H. apply andb_true_iff in H as [Ha Hr]. now rewrite (Hpq a Ha), IH.
Qed.

Lemma str_all_no_char p c s : p c = false -> str_all p s = true -> has_char c s = false.
Proof.
  intros Hc. induction s as [|a r IH]; simpl; [reflexivity|].
  intros H. apply andb_true_iff in H as [Ha Hr]. rewrite IH by exact Hr.
  destruct (Ascii.eqb a c) eqn:E; [|reflexivity].
  apply Ascii.eqb_eq in E. subst. congruence.
Qed.

Lemma str_all_repeat p c n : p c = true -> str_all p (repeat_char c n) = true.
Proof. intros H. induction n as [|k IH]; simpl; [reflexivity|]. now rewrite H, IH. Qed.

(* ---------- strip ---------- *)
Definition first_ok (s : string) : bool :=
  match s with EmptyString => true | String a _ => negb (is_space a) end.
(* neither the first nor the last character is white space (the empty string qualifies) *)
Definition edge_ok (s : string) : bool := first_ok s && first_ok (srev s).

Lemma lstrip_ws_app ws s : str_all is_space ws = true -> lstrip (ws ++ s) = lstrip s.
Proof.
  unfold lstrip. induction ws as [|a r IH]; simpl; intros H; [reflexivity|].
  apply andb_true_iff in H as [Ha Hr]. rewrite Ha. apply IH, Hr.
Qed.

Lemma lstrip_all_space ws : str_all is_space ws = true -> lstrip ws = "".
Proof.
  intros H. rewrite <- (append_nil_r ws), lstrip_ws_app by exact H. reflexivity.
Qed.

Lemma lstrip_first_ok s : first_ok s = true -> lstrip s = s.
Proof.
  unfold lstrip. destruct s as [|a r]; simpl; [reflexivity|].
  intros H. apply negb_true_iff in H. now rewrite H.
Qed.

Lemma first_ok_app a b : a <> "" -> first_ok (a ++ b) = first_ok a.
Proof. destruct a; simpl; congruence. Qed.

Lemma rstrip_pad body r :
  first_ok (srev body) = true -> str_all is_space r = true -> rstrip (body ++ r) = body.
Proof.
  intros Hb Hr. unfold rstrip. rewrite srev_app.
  change (lstrip_by is_space (srev r ++ srev body)) with (lstrip (srev r ++ srev body)).
  rewrite lstrip_ws_app by (now rewrite str_all_srev).
  rewrite lstrip_first_ok by exact Hb. apply srev_involutive.
Qed.

Lemma strip_pad l body r :
  str_all is_space l = true -> str_all is_space r = true -> edge_ok body = true ->
  strip (l ++ body ++ r) = body.
Proof.
  intros Hl Hr He. unfold strip. rewrite lstrip_ws_app by exact Hl.
  apply andb_true_iff in He as [Hf Hlast].
  destruct body as [|a b].
  - simpl. rewrite lstrip_all_space by exact Hr. reflexivity.
  - rewrite lstrip_first_ok by (rewrite first_ok_app by discriminate; exact Hf).
    apply rstrip_pad; assumption.
Qed.

Lemma strip_pad_l l body :
  str_all is_space l = true -> edge_ok body = true -> strip (l ++ body) = body.
Proof.
  intros Hl He. rewrite <- (append_nil_r body) at 1. now apply strip_pad.
Qed.

Lemma strip_edge_ok body : edge_ok body = true -> strip body = body.
Proof. intros H. apply (strip_pad_l "" body eq_refl H). Qed.

Lemma strip_all_space ws : str_all is_space ws = true -> strip ws = "".
Proof. intros H. rewrite <- (append_nil_r ws). now apply strip_pad_l. Qed.

Lemma edge_ok_app a b : a <> "" -> b <> "" -> first_ok a = true -> first_ok (srev b) = true -> edge_ok (a ++ b) = true.
Proof.
  intros Ha Hb Hfa Hlb. unfold edge_ok. rewrite first_ok_app by exact Ha. rewrite Hfa. simpl.
  rewrite srev_app, first_ok_app; [exact Hlb|]. intros E. apply Hb, srev_empty, E.
Qed.

(* the empty prefix: strip of (NL :: s) = strip s *)
Lemma strip_cons_space a s : is_space a = true -> strip (String a s) = strip s.
Proof. intros H. unfold strip, lstrip. simpl. now rewrite H. Qed.

(* ---------- triple-quote tokens ---------- *)
Definition tok3 (q : ascii) : string := String q (String q (String q "")).

Lemma prefixb_tok3_other q a r : Ascii.eqb a q = false -> prefixb (tok3 q) (String a r) = false.
Proof. intros H. simpl. rewrite Ascii.eqb_sym, H. reflexivity. Qed.

Lemma split_first_none q s : has_char q s = false -> split_first (tok3 q) s = None.
Proof.
  induction s as [|a r IH]; intros H; [reflexivity|].
  simpl in H. apply orb_false_iff in H as [Ha Hr].
  unfold split_first; fold split_first. rewrite prefixb_tok3_other by exact Ha.
  rewrite IH by exact Hr. reflexivity.
Qed.

Lemma split_first_here q b : split_first (tok3 q) (tok3 q ++ b) = Some ("", b).
Proof. simpl. rewrite !Ascii.eqb_refl. reflexivity. Qed.

Lemma split_first_hit q a b :
  has_char q a = false -> split_first (tok3 q) (a ++ tok3 q ++ b) = Some (a, b).
Proof.
  induction a as [|x r IH]; intros H.
  - apply split_first_here.
  - simpl in H. apply orb_false_iff in H as [Hx Hr].
    change ((String x r) ++ tok3 q ++ b) with (String x (r ++ tok3 q ++ b)).
    unfold split_first; fold split_first. rewrite prefixb_tok3_other by exact Hx.
    rewrite IH by exact Hr. reflexivity.
Qed.

Lemma contains_none q s : has_char q s = false -> contains (tok3 q) s = false.
Proof. intros H. unfold contains. now rewrite split_first_none. Qed.

Lemma contains_hit q a b : has_char q a = false -> contains (tok3 q) (a ++ tok3 q ++ b) = true.
Proof. intros H. unfold contains. now rewrite split_first_hit. Qed.

(* ---------- identifiers ---------- *)
Lemma id_char_not_space a : is_id_char a = true -> is_space a = false.
Proof. destruct a as [[] [] [] [] [] [] [] []]; vm_compute; intros H; try reflexivity; discriminate H. Qed.

Lemma is_ident_all s : is_ident s = true -> str_all is_id_char s = true.
Proof.
  destruct s as [|a r]; simpl; [discriminate|]. intros H. apply andb_true_iff in H as [Ha Hr].
  unfold is_id_char at 1. now rewrite Ha, Hr.
Qed.

Lemma all_nonspace_edge_ok p s :
  (forall a, p a = true -> is_space a = false) -> str_all p s = true -> edge_ok s = true.
Proof.
  intros Hp Hs. unfold edge_ok.
  assert (F : forall t, str_all p t = true -> first_ok t = true).
  { intros [|a t]; simpl; [reflexivity|]. intros H. apply andb_true_iff in H as [Ha _].
    now rewrite (Hp a Ha). }
  rewrite (F s Hs), (F (srev s)) by (now rewrite str_all_srev). reflexivity.
Qed.

Lemma is_ident_edge_ok s : is_ident s = true -> edge_ok s = true.
Proof. intros H. apply (all_nonspace_edge_ok is_id_char); [apply id_char_not_space | now apply is_ident_all]. Qed.

Lemma is_ident_nonempty s : is_ident s = true -> s <> "".
Proof. destruct s; simpl; congruence. Qed.

Lemma is_ident_no c s : is_id_char c = false -> is_ident s = true -> has_char c s = false.
Proof. intros Hc H. apply (str_all_no_char is_id_char); [exact Hc | now apply is_ident_all]. Qed.

Lemma spaces_no c s : is_space c = false -> str_all is_space s = true -> has_char c s = false.
Proof. intros Hc H. now apply (str_all_no_char is_space). Qed.
