(* Proofs/DocScanProofs.v — the docstring scanner (Model/DocScan.v, instantiated with the REGENERATED facts of
   Gen/FactsDoc.v) against the layout spec (Model/DocScanSpec.v):
     A. string lemmas (partition / strip / token search over concatenations);
     B. each rendered line has the view its role demands;
     C. printer/scanner round trip for every well-formed layout (list induction over views);
     D. help precedence, nearest class along the MRO, and the cache-history counterexample. *)
From SPV Require Import Base.Str Model.DocScan Model.DocScanSpec Gen.FactsDoc.

(* ====================================================================== *)
(* A. strings                                                              *)
(* ====================================================================== *)

Lemma has_char_app c a b : has_char c (a ++ b) = has_char c a || has_char c b.
Proof. induction a as [|x r IH]; simpl; [reflexivity|]. rewrite IH. now rewrite orb_assoc. Qed.

Lemma before_char_app_no c a b : has_char c a = false -> before_char c (a ++ b) = a ++ before_char c b.
Proof.
  induction a as [|x r IH]; simpl; intros H; [reflexivity|].
  apply orb_false_iff in H as [Hx Hr]. rewrite Hx, IH by exact Hr. reflexivity.
Qed.

Lemma before_char_none c a : has_char c a = false -> before_char c a = a.
Proof.
  induction a as [|x r IH]; simpl; intros H; [reflexivity|].
  apply orb_false_iff in H as [Hx Hr]. rewrite Hx, IH by exact Hr. reflexivity.
Qed.

Lemma before_char_hit c b : before_char c (String c b) = "".
Proof. simpl. now rewrite Ascii.eqb_refl. Qed.

Lemma after_char_app_no c a b : has_char c a = false -> after_char c (a ++ b) = after_char c b.
Proof.
  induction a as [|x r IH]; simpl; intros H; [reflexivity|].
  apply orb_false_iff in H as [Hx Hr]. rewrite Hx. apply IH, Hr.
Qed.

Lemma after_char_none c a : has_char c a = false -> after_char c a = None.
Proof.
  induction a as [|x r IH]; simpl; intros H; [reflexivity|].
  apply orb_false_iff in H as [Hx Hr]. rewrite Hx. apply IH, Hr.
Qed.

Lemma after_char_hit c b : after_char c (String c b) = Some b.
Proof. simpl. now rewrite Ascii.eqb_refl. Qed.

(* ---------- reversal ---------- *)
Lemma srev_acc_spec s acc : srev_acc s acc = srev s ++ acc.
Proof.
  unfold srev. revert acc. induction s as [|a r IH]; intros acc; simpl; [reflexivity|].
  rewrite IH, (IH (String a "")), append_assoc. reflexivity.
Qed.

Lemma srev_cons a s : srev (String a s) = srev s ++ String a "".
Proof. unfold srev at 1. simpl. apply srev_acc_spec. Qed.

Lemma srev_app a b : srev (a ++ b) = srev b ++ srev a.
Proof.
  induction a as [|x r IH]; simpl.
  - now rewrite append_nil_r.
  - rewrite !srev_cons, IH, append_assoc. reflexivity.
Qed.

Lemma srev_involutive s : srev (srev s) = s.
Proof.
  induction s as [|a r IH]; [reflexivity|].
  rewrite srev_cons, srev_app, IH. reflexivity.
Qed.

Lemma srev_empty s : srev s = "" -> s = "".
Proof. intros H. rewrite <- (srev_involutive s), H. reflexivity. Qed.

(* ---------- all characters satisfy p ---------- *)
Lemma str_all_app p a b : str_all p (a ++ b) = str_all p a && str_all p b.
Proof. induction a as [|x r IH]; simpl; [reflexivity|]. rewrite IH. now rewrite andb_assoc. Qed.

Lemma str_all_srev p s : str_all p (srev s) = str_all p s.
Proof.
  induction s as [|a r IH]; [reflexivity|].
  rewrite srev_cons, str_all_app, IH. simpl. rewrite andb_true_r. apply andb_comm.
Qed.

Lemma str_all_impl (p q : ascii -> bool) s :
  (forall a, p a = true -> q a = true) -> str_all p s = true -> str_all q s = true.
Proof.
  intros Hpq. induction s as [|a r IH]; simpl; [reflexivity|].
  intros H. apply andb_true_iff in H as [Ha Hr]. now rewrite (Hpq a Ha), IH.
Qed.

Lemma str_all_no_char p c s : p c = false -> str_all p s = true -> has_char c s = false.
Proof.
  intros Hc. induction s as [|a r IH]; simpl; [reflexivity|].
  intros H. apply andb_true_iff in H as [Ha Hr]. rewrite IH by exact Hr.
  destruct (Ascii.eqb a c) eqn:E; [|reflexivity].
  apply Ascii.eqb_eq in E. subst. congruence.
Qed.

Lemma str_all_repeat p c n : p c = true -> str_all p (repeat_char c n) = true.
Proof. intros H. induction n as [|k IH]; simpl; [reflexivity|]. now rewrite H, IH. Qed.

(* ---------- strip ---------- *)
Definition first_ok (s : string) : bool :=
  match s with EmptyString => true | String a _ => negb (is_space a) end.
(* neither the first nor the last character is white space (the empty string qualifies) *)
Definition edge_ok (s : string) : bool := first_ok s && first_ok (srev s).

Lemma lstrip_ws_app ws s : str_all is_space ws = true -> lstrip (ws ++ s) = lstrip s.
Proof.
  unfold lstrip. induction ws as [|a r IH]; simpl; intros H; [reflexivity|].
  apply andb_true_iff in H as [Ha Hr]. rewrite Ha. apply IH, Hr.
Qed.

Lemma lstrip_all_space ws : str_all is_space ws = true -> lstrip ws = "".
Proof.
  intros H. rewrite <- (append_nil_r ws), lstrip_ws_app by exact H. reflexivity.
Qed.

Lemma lstrip_first_ok s : first_ok s = true -> lstrip s = s.
Proof.
  unfold lstrip. destruct s as [|a r]; simpl; [reflexivity|].
  intros H. apply negb_true_iff in H. now rewrite H.
Qed.

Lemma first_ok_app a b : a <> "" -> first_ok (a ++ b) = first_ok a.
Proof. destruct a; simpl; congruence. Qed.

Lemma rstrip_pad body r :
  first_ok (srev body) = true -> str_all is_space r = true -> rstrip (body ++ r) = body.
Proof.
  intros Hb Hr. unfold rstrip. rewrite srev_app.
  change (lstrip_by is_space (srev r ++ srev body)) with (lstrip (srev r ++ srev body)).
  rewrite lstrip_ws_app by (now rewrite str_all_srev).
  rewrite lstrip_first_ok by exact Hb. apply srev_involutive.
Qed.

Lemma strip_pad l body r :
  str_all is_space l = true -> str_all is_space r = true -> edge_ok body = true ->
  strip (l ++ body ++ r) = body.
Proof.
  intros Hl Hr He. unfold strip. rewrite lstrip_ws_app by exact Hl.
  apply andb_true_iff in He as [Hf Hlast].
  destruct body as [|a b].
  - simpl. rewrite lstrip_all_space by exact Hr. reflexivity.
  - rewrite lstrip_first_ok by (rewrite first_ok_app by discriminate; exact Hf).
    apply rstrip_pad; assumption.
Qed.

Lemma strip_pad_l l body :
  str_all is_space l = true -> edge_ok body = true -> strip (l ++ body) = body.
Proof.
  intros Hl He. rewrite <- (append_nil_r body) at 1. now apply strip_pad.
Qed.

Lemma strip_edge_ok body : edge_ok body = true -> strip body = body.
Proof. intros H. apply (strip_pad_l "" body eq_refl H). Qed.

Lemma strip_all_space ws : str_all is_space ws = true -> strip ws = "".
Proof. intros H. rewrite <- (append_nil_r ws). now apply strip_pad_l. Qed.

Lemma edge_ok_app a b : a <> "" -> b <> "" -> first_ok a = true -> first_ok (srev b) = true -> edge_ok (a ++ b) = true.
Proof.
  intros Ha Hb Hfa Hlb. unfold edge_ok. rewrite first_ok_app by exact Ha. rewrite Hfa. simpl.
  rewrite srev_app, first_ok_app; [exact Hlb|]. intros E. apply Hb, srev_empty, E.
Qed.

(* the empty prefix: strip of (NL :: s) = strip s *)
Lemma strip_cons_space a s : is_space a = true -> strip (String a s) = strip s.
Proof. intros H. unfold strip, lstrip. simpl. now rewrite H. Qed.

(* ---------- triple-quote tokens ---------- *)
Definition tok3 (q : ascii) : string := String q (String q (String q "")).

Lemma prefixb_tok3_other q a r : Ascii.eqb a q = false -> prefixb (tok3 q) (String a r) = false.
Proof. intros H. simpl. rewrite Ascii.eqb_sym, H. reflexivity. Qed.

Lemma split_first_none q s : has_char q s = false -> split_first (tok3 q) s = None.
Proof.
  induction s as [|a r IH]; intros H; [reflexivity|].
  simpl in H. apply orb_false_iff in H as [Ha Hr].
  unfold split_first; fold split_first. rewrite prefixb_tok3_other by exact Ha.
  rewrite IH by exact Hr. reflexivity.
Qed.

Lemma split_first_here q b : split_first (tok3 q) (tok3 q ++ b) = Some ("", b).
Proof. simpl. rewrite !Ascii.eqb_refl. reflexivity. Qed.

Lemma split_first_hit q a b :
  has_char q a = false -> split_first (tok3 q) (a ++ tok3 q ++ b) = Some (a, b).
Proof.
  induction a as [|x r IH]; intros H.
  - apply split_first_here.
  - simpl in H. apply orb_false_iff in H as [Hx Hr].
    change ((String x r) ++ tok3 q ++ b) with (String x (r ++ tok3 q ++ b)).
    unfold split_first; fold split_first. rewrite prefixb_tok3_other by exact Hx.
    rewrite IH by exact Hr. reflexivity.
Qed.

Lemma contains_none q s : has_char q s = false -> contains (tok3 q) s = false.
Proof. intros H. unfold contains. now rewrite split_first_none. Qed.

Lemma contains_hit q a b : has_char q a = false -> contains (tok3 q) (a ++ tok3 q ++ b) = true.
Proof. intros H. unfold contains. now rewrite split_first_hit. Qed.

(* ---------- identifiers ---------- *)
Lemma id_char_not_space a : is_id_char a = true -> is_space a = false.
Proof. destruct a as [[] [] [] [] [] [] [] []]; vm_compute; intros H; try reflexivity; discriminate H. Qed.

Lemma is_ident_all s : is_ident s = true -> str_all is_id_char s = true.
Proof.
  destruct s as [|a r]; simpl; [discriminate|]. intros H. apply andb_true_iff in H as [Ha Hr].
  unfold is_id_char at 1. now rewrite Ha, Hr.
Qed.

Lemma all_nonspace_edge_ok p s :
  (forall a, p a = true -> is_space a = false) -> str_all p s = true -> edge_ok s = true.
Proof.
  intros Hp Hs. unfold edge_ok.
  assert (F : forall t, str_all p t = true -> first_ok t = true).
  { intros [|a t]; simpl; [reflexivity|]. intros H. apply andb_true_iff in H as [Ha _].
    now rewrite (Hp a Ha). }
  rewrite (F s Hs), (F (srev s)) by (now rewrite str_all_srev). reflexivity.
Qed.

Lemma is_ident_edge_ok s : is_ident s = true -> edge_ok s = true.
Proof. intros H. apply (all_nonspace_edge_ok is_id_char); [apply id_char_not_space | now apply is_ident_all]. Qed.

Lemma is_ident_nonempty s : is_ident s = true -> s <> "".
Proof. destruct s; simpl; congruence. Qed.

Lemma is_ident_no c s : is_id_char c = false -> is_ident s = true -> has_char c s = false.
Proof. intros Hc H. apply (str_all_no_char is_id_char); [exact Hc | now apply is_ident_all]. Qed.

Lemma spaces_no c s : is_space c = false -> str_all is_space s = true -> has_char c s = false.
Proof. intros Hc H. now apply (str_all_no_char is_space). Qed.

(* ====================================================================== *)
(* B. well-formed layouts; the view of every rendered line                 *)
(* ====================================================================== *)

(* marker texts: no '#', ':', '=', no quote characters, no newline; no white space at either end *)
Definition plain_char (a : ascii) : bool :=
  negb (Ascii.eqb a "#") && negb (Ascii.eqb a ":") && negb (Ascii.eqb a "=")
  && negb (Ascii.eqb a "'") && negb (Ascii.eqb a """") && negb (Ascii.eqb a NL).
Definition text_ok (s : string) : bool := str_all plain_char s && edge_ok s.       (* may be empty *)
Definition mark_ok (s : string) : bool := text_ok s && str_nonempty s.
Definition type_char (a : ascii) : bool :=
  negb (Ascii.eqb a "#") && negb (Ascii.eqb a ":") && negb (Ascii.eqb a "=").
Definition type_ok (s : string) : bool := str_all type_char s && edge_ok s && str_nonempty s.
Definition value_char (a : ascii) : bool := negb (Ascii.eqb a "#").
Definition value_ok (s : string) : bool := str_all value_char s && edge_ok s && str_nonempty s.

Definition dstr_ok (d : dstr) : bool :=
  match d with
  | DOne _ s => text_ok s
  | DMulti _ a ms z => text_ok a && forallb text_ok ms && text_ok z
  end.

Definition fld_ok (f : fld) : bool :=
  is_ident (f_name f) && type_ok (f_type f)
  && match f_value f with Some v => value_ok v | None => true end
  && forallb mark_ok (f_above f)
  && match f_inline f with Some c => mark_ok c | None => true end
  && match f_below f with Some d => dstr_ok d | None => true end.

(* the scanner instance the lemmas are about; Gen/FactsDoc.v must regenerate exactly these literals *)
Definition cS : ascii := "'"%char.
Definition cD : ascii := """"%char.
Definition vw : string -> lview := view "#" ":" "=" (tok3 cS) (tok3 cD).
Definition cdef : string -> bool := contains_def "#" ":" "=".

Lemma bridge_view : view_gen = vw.
Proof. reflexivity. Qed.
Lemma bridge_scan_lines : scan_lines_gen = fun lines f => find_field f [] (map vw lines).
Proof. reflexivity. Qed.

(* header lines (decorators, the class line, what is left of the class docstring): not field definitions, and
   either carrying a triple quote or no comment *)
Definition hdr_ok (v : lview) : bool := negb (v_isdef v) && (v_quote v || String.eqb (v_comment v) "").

Definition wf_layout (L : layout) : bool :=
  match l_hdr L with [] => false | _ => true end
  && forallb (fun l => hdr_ok (view_gen l)) (l_hdr L)
  && forallb fld_ok (l_fields L).

(* ---------- consequences of the boolean predicates ---------- *)
Lemma str_nonempty_ne s : str_nonempty s = true -> s <> "".
Proof. unfold str_nonempty. intros H E. subst. discriminate H. Qed.

Lemma plain_no c s : plain_char c = false -> str_all plain_char s = true -> has_char c s = false.
Proof. apply str_all_no_char. Qed.

Lemma text_ok_parts s : text_ok s = true -> str_all plain_char s = true /\ edge_ok s = true.
Proof. intros H. now apply andb_true_iff in H. Qed.

Lemma mark_ok_parts s : mark_ok s = true -> str_all plain_char s = true /\ edge_ok s = true /\ s <> "".
Proof.
  intros H. apply andb_true_iff in H as [H1 H2]. apply text_ok_parts in H1 as [Ha Hb].
  repeat split; try assumption. now apply str_nonempty_ne.
Qed.

Lemma edge_ok_last s : edge_ok s = true -> first_ok (srev s) = true.
Proof. intros H. now apply andb_true_iff in H. Qed.
Lemma edge_ok_first s : edge_ok s = true -> first_ok s = true.
Proof. intros H. now apply andb_true_iff in H. Qed.

Lemma has_char_before c d s : has_char c s = false -> has_char c (before_char d s) = false.
Proof.
  induction s as [|a r IH]; simpl; intros H; [reflexivity|].
  apply orb_false_iff in H as [Ha Hr]. destruct (Ascii.eqb a d); simpl; [reflexivity|].
  now rewrite Ha, IH.
Qed.

Lemma no_colon_not_def line : has_char ":" line = false -> cdef line = false.
Proof.
  intros H. unfold cdef, contains_def.
  rewrite (has_char_before ":" "#" line H). reflexivity.
Qed.

Ltac nochar :=
  first [ assumption | reflexivity
        | rewrite has_char_app; apply orb_false_iff; split; nochar ].

(* ---------- blank line ---------- *)
Lemma view_blank : vw "" = mkview false None false true false "" None None None "".
Proof. reflexivity. Qed.

(* ---------- comment line ---------- *)
Section CommentLine.
  Variables ind c : string.
  Hypothesis Hind : str_all is_space ind = true.
  Hypothesis Hc : mark_ok c = true.

  Let line := ind ++ "# " ++ c.

  Lemma comment_line_view :
    v_isdef (vw line) = false /\ v_quote (vw line) = false /\ v_empty (vw line) = false
    /\ v_iscomment (vw line) = true /\ v_comment (vw line) = c.
  Proof.
    destruct (mark_ok_parts c Hc) as [Hp [He Hne]].
    assert (Hbody : edge_ok ("# " ++ c) = true).
    { apply (edge_ok_app "# " c); [discriminate | exact Hne | reflexivity | now apply edge_ok_last]. }
    assert (Hstrip : strip line = "# " ++ c) by (apply strip_pad_l; assumption).
    unfold vw, view; cbn [v_isdef v_quote v_empty v_iscomment v_comment].
    repeat split.
    - apply no_colon_not_def. unfold line.
      assert (has_char ":" ind = false) by (now apply spaces_no).
      assert (has_char ":" c = false) by (now apply plain_no).
      nochar.
    - apply orb_false_iff. split; apply contains_none; unfold line.
      + assert (has_char cD ind = false) by (now apply spaces_no).
        assert (has_char cD c = false) by (now apply plain_no). nochar.
      + assert (has_char cS ind = false) by (now apply spaces_no).
        assert (has_char cS c = false) by (now apply plain_no). nochar.
    - rewrite Hstrip. reflexivity.
    - rewrite Hstrip. reflexivity.
    - unfold comment_of, line.
      rewrite after_char_app_no by (now apply spaces_no).
      change ("# " ++ c) with (String "#" (" " ++ c)). rewrite after_char_hit.
      apply (strip_pad_l " " c eq_refl He).
  Qed.
End CommentLine.

(* ---------- field-definition line ---------- *)
Definition eq_part (b : option string) : string := match b with Some x => String "=" x | None => "" end.
Definition hash_part (c : option string) : string := match c with Some x => String "#" x | None => "" end.

(* name ':' A ['=' B] ['#' C] with A free of '#', ':', '=' and B free of '#' is a field definition *)
Lemma cdef_general ind name A B C :
  str_all is_space ind = true -> is_ident name = true ->
  has_char "#" A = false -> has_char ":" A = false -> has_char "=" A = false ->
  match B with Some b => has_char "#" b = false | None => True end ->
  cdef (ind ++ name ++ String ":" (A ++ eq_part B ++ hash_part C)) = true.
Proof.
  intros Hind Hname HA1 HA2 HA3 HB.
  assert (Hi1 : has_char "#" ind = false) by (now apply spaces_no).
  assert (Hi2 : has_char ":" ind = false) by (now apply spaces_no).
  assert (Hi3 : has_char "=" ind = false) by (now apply spaces_no).
  assert (Hn1 : has_char "#" name = false) by (now apply is_ident_no).
  assert (Hn2 : has_char ":" name = false) by (now apply is_ident_no).
  assert (Hn3 : has_char "=" name = false) by (now apply is_ident_no).
  (* the line up to the comment *)
  assert (E1 : before_char "#" (ind ++ name ++ String ":" (A ++ eq_part B ++ hash_part C))
               = ind ++ name ++ String ":" (A ++ eq_part B)).
  { rewrite before_char_app_no by exact Hi1. rewrite before_char_app_no by exact Hn1.
    f_equal. f_equal. simpl. f_equal.
    rewrite before_char_app_no by exact HA1. f_equal.
    destruct B as [b|]; simpl.
    - f_equal. rewrite before_char_app_no by exact HB.
      destruct C; simpl; now rewrite append_nil_r.
    - destruct C; simpl; reflexivity. }
  (* attribute_and_type *)
  assert (E2 : (if has_char "=" (ind ++ name ++ String ":" (A ++ eq_part B))
                then before_char "=" (ind ++ name ++ String ":" (A ++ eq_part B))
                else ind ++ name ++ String ":" (A ++ eq_part B))
               = ind ++ name ++ String ":" (A ++ "")).
  { destruct B as [b|]; simpl eq_part.
    - replace (has_char "=" (ind ++ name ++ String ":" (A ++ String "=" b))) with true.
      2:{ symmetry. rewrite !has_char_app. simpl. rewrite has_char_app. simpl.
          rewrite !orb_true_r. reflexivity. }
      rewrite before_char_app_no by exact Hi3. rewrite before_char_app_no by exact Hn3.
      f_equal. f_equal. simpl. f_equal.
      rewrite before_char_app_no by exact HA3. now rewrite before_char_hit.
    - replace (has_char "=" (ind ++ name ++ String ":" (A ++ ""))) with false; [reflexivity|].
      symmetry. rewrite append_nil_r. rewrite !has_char_app. simpl. now rewrite Hi3, Hn3, HA3. }
  unfold cdef, contains_def. rewrite E1.
  replace (has_char ":" (ind ++ name ++ String ":" (A ++ eq_part B))) with true.
  2:{ symmetry. rewrite !has_char_app. simpl. rewrite !orb_true_r. reflexivity. }
  cbn [negb]. rewrite E2.
  rewrite before_char_app_no by exact Hi2. rewrite before_char_app_no by exact Hn2.
  rewrite before_char_hit.
  rewrite after_char_app_no by exact Hi2. rewrite after_char_app_no by exact Hn2.
  rewrite after_char_hit.
  rewrite (strip_pad ind name "" Hind eq_refl (is_ident_edge_ok name Hname)).
  rewrite append_nil_r, HA2.
  destruct (String.eqb name "") eqn:E; [|exact Hname].
  apply String.eqb_eq in E. subst. discriminate Hname.
Qed.

Definition last_ok (s : string) : bool := first_ok (srev s).
Lemma last_ok_app a b : b <> "" -> last_ok (a ++ b) = last_ok b.
Proof.
  intros Hb. unfold last_ok. rewrite srev_app. apply first_ok_app.
  intros E. apply Hb, srev_empty, E.
Qed.
Lemma app_nonempty_r (a b : string) : b <> "" -> a ++ b <> "".
Proof. destruct a; simpl; [auto | discriminate]. Qed.

Ltac nonempty := repeat (apply app_nonempty_r); first [assumption | simpl; discriminate].

Lemma type_ok_parts s : type_ok s = true ->
  has_char "#" s = false /\ has_char ":" s = false /\ has_char "=" s = false /\ edge_ok s = true /\ s <> "".
Proof.
  intros H. apply andb_true_iff in H as [H H3]. apply andb_true_iff in H as [H1 H2].
  repeat split; try (apply (str_all_no_char type_char); [reflexivity | exact H1]);
    [exact H2 | now apply str_nonempty_ne].
Qed.

Lemma value_ok_parts s : value_ok s = true -> has_char "#" s = false /\ edge_ok s = true /\ s <> "".
Proof.
  intros H. apply andb_true_iff in H as [H H3]. apply andb_true_iff in H as [H1 H2].
  repeat split; [apply (str_all_no_char value_char); [reflexivity | exact H1] | exact H2 | now apply str_nonempty_ne].
Qed.

Section FieldLine.
  Variables (ind name ty : string) (v c : option string).
  Hypothesis Hind : str_all is_space ind = true.
  Hypothesis Hname : is_ident name = true.
  Hypothesis Hty : type_ok ty = true.
  Hypothesis Hv : match v with Some x => value_ok x = true | None => True end.
  Hypothesis Hc : match c with Some y => mark_ok y = true | None => True end.

  Let body := name ++ ": " ++ ty ++ value_text v ++ inline_text c.

  Lemma field_body_shape :
    exists A B C,
      body = name ++ String ":" (A ++ eq_part B ++ hash_part C)
      /\ has_char "#" A = false /\ has_char ":" A = false /\ has_char "=" A = false
      /\ match B with Some b => has_char "#" b = false | None => True end.
  Proof.
    destruct (type_ok_parts ty Hty) as [T1 [T2 [T3 _]]].
    unfold body. destruct v as [x|], c as [y|]; simpl value_text; simpl inline_text.
    - destruct (value_ok_parts x Hv) as [V1 _].
      exists (" " ++ ty ++ " "), (Some (" " ++ x ++ "  ")), (Some (" " ++ y)).
      split; [simpl; rewrite !append_assoc; reflexivity|].
      repeat split; nochar.
    - destruct (value_ok_parts x Hv) as [V1 _].
      exists (" " ++ ty ++ " "), (Some (" " ++ x)), None.
      split; [simpl; rewrite !append_assoc, ?append_nil_r; reflexivity|].
      repeat split; nochar.
    - exists (" " ++ ty ++ "  "), None, (Some (" " ++ y)).
      split; [simpl; rewrite !append_assoc; reflexivity|].
      repeat split; nochar.
    - exists (" " ++ ty), None, None.
      split; [simpl; rewrite ?append_nil_r; reflexivity|].
      repeat split; nochar.
  Qed.

  Lemma field_body_edge_ok : edge_ok body = true.
  Proof.
    destruct (type_ok_parts ty Hty) as [_ [_ [_ [Te Tn]]]].
    assert (Hrest : forall rest, rest <> "" -> last_ok rest = true -> edge_ok (name ++ rest) = true).
    { intros rest Hn Hl. apply edge_ok_app; try assumption.
      - now apply is_ident_nonempty.
      - apply edge_ok_first. now apply is_ident_edge_ok. }
    unfold body. apply Hrest.
    - simpl. discriminate.
    - destruct c as [y|]; simpl inline_text.
      + destruct (mark_ok_parts y Hc) as [_ [Ye Yn]].
        rewrite last_ok_app by nonempty.
        rewrite last_ok_app by nonempty.
        rewrite last_ok_app by nonempty.
        match goal with |- last_ok ?t = true => change t with ("  # " ++ y) end.
        rewrite (last_ok_app "  # " y Yn). now apply edge_ok_last.
      + rewrite append_nil_r. destruct v as [x|]; simpl value_text.
        * destruct (value_ok_parts x Hv) as [_ [Xe Xn]].
          rewrite last_ok_app by nonempty.
          rewrite last_ok_app by nonempty.
          match goal with |- last_ok ?t = true => change t with (" = " ++ x) end.
          rewrite (last_ok_app " = " x Xn). now apply edge_ok_last.
        * rewrite append_nil_r. rewrite (last_ok_app ": " ty Tn). now apply edge_ok_last.
  Qed.

  Lemma field_line_view :
    let line := ind ++ body in
    v_isdef (vw line) = true /\ v_defname (vw line) = Some name /\ v_empty (vw line) = false
    /\ v_comment (vw line) = match c with Some y => y | None => "" end.
  Proof.
    intros line. unfold line.
    destruct field_body_shape as [A [B [C [Eb [A1 [A2 [A3 HB]]]]]]].
    assert (Hstrip : strip (ind ++ body) = body) by (apply strip_pad_l; [exact Hind | apply field_body_edge_ok]).
    assert (Hne : body <> "").
    { unfold body. intros E. apply (is_ident_nonempty name Hname). destruct name; [reflexivity | discriminate E]. }
    unfold vw, view; cbn [v_isdef v_defname v_empty v_comment].
    repeat split.
    - rewrite Eb. now apply cdef_general.
    - unfold def_name. rewrite Hstrip.
      replace (contains_def "#" ":" "=" body) with true.
      2:{ symmetry. rewrite Eb. apply (cdef_general "" name A B C); auto. }
      cbn [negb]. rewrite Eb.
      rewrite before_char_app_no by (now apply is_ident_no). rewrite before_char_hit, append_nil_r.
      rewrite (strip_edge_ok name (is_ident_edge_ok name Hname)), Hname. reflexivity.
    - rewrite Hstrip. destruct body; [congruence | reflexivity].
    - unfold comment_of, body.
      destruct (type_ok_parts ty Hty) as [T1 _].
      assert (V1 : has_char "#" (value_text v) = false).
      { destruct v as [x|]; simpl value_text; [|reflexivity].
        destruct (value_ok_parts x Hv) as [X1 _]. nochar. }
      rewrite after_char_app_no by (now apply spaces_no).
      rewrite after_char_app_no by (now apply is_ident_no).
      rewrite after_char_app_no by reflexivity.
      rewrite after_char_app_no by exact T1.
      rewrite after_char_app_no by exact V1.
      destruct c as [y|]; simpl inline_text; [|reflexivity].
      destruct (mark_ok_parts y Hc) as [_ [Ye _]].
      simpl. apply (strip_pad_l " " y eq_refl Ye).
  Qed.
End FieldLine.
