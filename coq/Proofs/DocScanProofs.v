(* Proofs/DocScanProofs.v — the docstring scanner (Model/DocScan.v, instantiated with the REGENERATED facts of
   Gen/FactsDoc.v) against the layout spec (Model/DocScanSpec.v):
     A. string lemmas (partition / strip / token search over concatenations);
     B. each rendered line has the view its role demands;
     C. printer/scanner round trip for every well-formed layout (list induction over views);
     D. help precedence, nearest class along the MRO, and the cache-history counterexample. *)
From SPV Require Import Base.Str Model.DocScan Model.DocScanSpec Gen.FactsDoc.

(* ====================================================================== *)
(* A. strings                                                              *)
(* ====================================================================== *)

Lemma has_char_app c a b : has_char c (a ++ b) = has_char c a || has_char c b.
Proof. induction a as [|x r IH]; simpl; [reflexivity|]. rewrite IH. now rewrite orb_assoc. Qed.

Lemma before_char_app_no c a b : has_char c a = false -> before_char c (a ++ b) = a ++ before_char c b.
Proof.
  induction a as [|x r IH]; simpl; intros H; [reflexivity|].
  apply orb_false_iff in H as [Hx Hr]. rewrite Hx, IH by exact Hr. reflexivity.
Qed.

Lemma before_char_none c a : has_char c a = false -> before_char c a = a.
Proof.
  induction a as [|x r IH]; simpl; intros H; [reflexivity|].
  apply orb_false_iff in H as [Hx Hr]. rewrite Hx, IH by exact Hr. reflexivity.
Qed.

Lemma before_char_hit c b : before_char c (String c b) = "".
Proof. simpl. now rewrite Ascii.eqb_refl. Qed.

Lemma after_char_app_no c a b : has_char c a = false -> after_char c (a ++ b) = after_char c b.
Proof.
  induction a as [|x r IH]; simpl; intros H; [reflexivity|].
  apply orb_false_iff in H as [Hx Hr]. rewrite Hx. apply IH, Hr.
Qed.

Lemma after_char_none c a : has_char c a = false -> after_char c a = None.
Proof.
  induction a as [|x r IH]; simpl; intros H; [reflexivity|].
  apply orb_false_iff in H as [Hx Hr]. rewrite Hx. apply IH, Hr.
Qed.

Lemma after_char_hit c b : after_char c (String c b) = Some b.
Proof. simpl. now rewrite Ascii.eqb_refl. Qed.

(* ---------- reversal ---------- *)
Lemma srev_acc_spec s acc : srev_acc s acc = srev s ++ acc.
Proof.
  unfold srev. revert acc. induction s as [|a r IH]; intros acc; simpl; [reflexivity|].
  rewrite IH, (IH (String a "")), append_assoc. reflexivity.
Qed.

Lemma srev_cons a s : srev (String a s) = srev s ++ String a "".
Proof. unfold srev at 1. simpl. apply srev_acc_spec. Qed.

Lemma srev_app a b : srev (a ++ b) = srev b ++ srev a.
Proof.
  induction a as [|x r IH]; simpl.
  - now rewrite append_nil_r.
  - rewrite !srev_cons, IH, append_assoc. reflexivity.
Qed.

Lemma srev_involutive s : srev (srev s) = s.
Proof.
  induction s as [|a r IH]; [reflexivity|].
  rewrite srev_cons, srev_app, IH. reflexivity.
Qed.

Lemma srev_empty s : srev s = "" -> s = "".
Proof. intros H. rewrite <- (srev_involutive s), H. reflexivity. Qed.

(* ---------- all characters satisfy p ---------- *)
Lemma str_all_app p a b : str_all p (a ++ b) = str_all p a && str_all p b.
Proof. induction a as [|x r IH]; simpl; [reflexivity|]. rewrite IH. now rewrite andb_assoc. Qed.

Lemma str_all_srev p s : str_all p (srev s) = str_all p s.
Proof.
  induction s as [|a r IH]; [reflexivity|].
  rewrite srev_cons, str_all_app, IH. simpl. rewrite andb_true_r. apply andb_comm.
Qed.

Lemma str_all_impl (p q : ascii -> bool) s :
  (forall a, p a = true -> q a = true) -> str_all p s = true -> str_all q s = true.
Proof.
  intros Hpq. induction s as [|a r IH]; simpl; [reflexivity|].
  intros H. apply andb_true_iff in H as [Ha Hr]. now rewrite (Hpq a Ha), IH.
Qed.

Lemma str_all_no_char p c s : p c = false -> str_all p s = true -> has_char c s = false.
Proof.
  intros Hc. induction s as [|a r IH]; simpl; [reflexivity|].
  intros H. apply andb_true_iff in H as [Ha Hr]. rewrite IH by exact Hr.
  destruct (Ascii.eqb a c) eqn:E; [|reflexivity].
  apply Ascii.eqb_eq in E. subst. congruence.
Qed.

Lemma str_all_repeat p c n : p c = true -> str_all p (repeat_char c n) = true.
Proof. intros H. induction n as [|k IH]; simpl; [reflexivity|]. now rewrite H, IH. Qed.

(* ---------- strip ---------- *)
Definition first_ok (s : string) : bool :=
  match s with EmptyString => true | String a _ => negb (is_space a) end.
(* neither the first nor the last character is white space (the empty string qualifies) *)
Definition edge_ok (s : string) : bool := first_ok s && first_ok (srev s).

Lemma lstrip_ws_app ws s : str_all is_space ws = true -> lstrip (ws ++ s) = lstrip s.
Proof.
  unfold lstrip. induction ws as [|a r IH]; simpl; intros H; [reflexivity|].
  apply andb_true_iff in H as [Ha Hr]. rewrite Ha. apply IH, Hr.
Qed.

Lemma lstrip_all_space ws : str_all is_space ws = true -> lstrip ws = "".
Proof.
  intros H. rewrite <- (append_nil_r ws), lstrip_ws_app by exact H. reflexivity.
Qed.

Lemma lstrip_first_ok s : first_ok s = true -> lstrip s = s.
Proof.
  unfold lstrip. destruct s as [|a r]; simpl; [reflexivity|].
  intros H. apply negb_true_iff in H. now rewrite H.
Qed.

Lemma first_ok_app a b : a <> "" -> first_ok (a ++ b) = first_ok a.
Proof. destruct a; simpl; congruence. Qed.

Lemma rstrip_pad body r :
  first_ok (srev body) = true -> str_all is_space r = true -> rstrip (body ++ r) = body.
Proof.
  intros Hb Hr. unfold rstrip. rewrite srev_app.
  change (lstrip_by is_space (srev r ++ srev body)) with (lstrip (srev r ++ srev body)).
  rewrite lstrip_ws_app by (now rewrite str_all_srev).
  rewrite lstrip_first_ok by exact Hb. apply srev_involutive.
Qed.

Lemma strip_pad l body r :
  str_all is_space l = true -> str_all is_space r = true -> edge_ok body = true ->
  strip (l ++ body ++ r) = body.
Proof.
  intros Hl Hr He. unfold strip. rewrite lstrip_ws_app by exact Hl.
  apply andb_true_iff in He as [Hf Hlast].
  destruct body as [|a b].
  - simpl. rewrite lstrip_all_space by exact Hr. reflexivity.
  - rewrite lstrip_first_ok by (rewrite first_ok_app by discriminate; exact Hf).
    apply rstrip_pad; assumption.
Qed.

Lemma strip_pad_l l body :
  str_all is_space l = true -> edge_ok body = true -> strip (l ++ body) = body.
Proof.
  intros Hl He. rewrite <- (append_nil_r body) at 1. now apply strip_pad.
Qed.

Lemma strip_edge_ok body : edge_ok body = true -> strip body = body.
Proof. intros H. apply (strip_pad_l "" body eq_refl H). Qed.

Lemma strip_all_space ws : str_all is_space ws = true -> strip ws = "".
Proof. intros H. rewrite <- (append_nil_r ws). now apply strip_pad_l. Qed.

Lemma edge_ok_app a b : a <> "" -> b <> "" -> first_ok a = true -> first_ok (srev b) = true -> edge_ok (a ++ b) = true.
Proof.
  intros Ha Hb Hfa Hlb. unfold edge_ok. rewrite first_ok_app by exact Ha. rewrite Hfa. simpl.
  rewrite srev_app, first_ok_app; [exact Hlb|]. intros E. apply Hb, srev_empty, E.
Qed.

(* the empty prefix: strip of (NL :: s) = strip s *)
Lemma strip_cons_space a s : is_space a = true -> strip (String a s) = strip s.
Proof. intros H. unfold strip, lstrip. simpl. now rewrite H. Qed.

(* ---------- triple-quote tokens ---------- *)
Definition tok3 (q : ascii) : string := String q (String q (String q "")).

Lemma prefixb_tok3_other q a r : Ascii.eqb a q = false -> prefixb (tok3 q) (String a r) = false.
Proof. intros H. simpl. rewrite Ascii.eqb_sym, H. reflexivity. Qed.

Lemma split_first_none q s : has_char q s = false -> split_first (tok3 q) s = None.
Proof.
  induction s as [|a r IH]; intros H; [reflexivity|].
  simpl in H. apply orb_false_iff in H as [Ha Hr].
  unfold split_first; fold split_first. rewrite prefixb_tok3_other by exact Ha.
  rewrite IH by exact Hr. reflexivity.
Qed.

Lemma split_first_here q b : split_first (tok3 q) (tok3 q ++ b) = Some ("", b).
Proof. simpl. rewrite !Ascii.eqb_refl. reflexivity. Qed.

Lemma split_first_hit q a b :
  has_char q a = false -> split_first (tok3 q) (a ++ tok3 q ++ b) = Some (a, b).
Proof.
  induction a as [|x r IH]; intros H.
  - apply split_first_here.
  - simpl in H. apply orb_false_iff in H as [Hx Hr].
    change ((String x r) ++ tok3 q ++ b) with (String x (r ++ tok3 q ++ b)).
    unfold split_first; fold split_first. rewrite prefixb_tok3_other by exact Hx.
    rewrite IH by exact Hr. reflexivity.
Qed.

Lemma contains_none q s : has_char q s = false -> contains (tok3 q) s = false.
Proof. intros H. unfold contains. now rewrite split_first_none. Qed.

Lemma contains_hit q a b : has_char q a = false -> contains (tok3 q) (a ++ tok3 q ++ b) = true.
Proof. intros H. unfold contains. now rewrite split_first_hit. Qed.

(* ---------- identifiers ---------- *)
Lemma id_char_not_space a : is_id_char a = true -> is_space a = false.
Proof. destruct a as [[] [] [] [] [] [] [] []]; vm_compute; intros H; try reflexivity; discriminate H. Qed.

Lemma is_ident_all s : is_ident s = true -> str_all is_id_char s = true.
Proof.
  destruct s as [|a r]; simpl; [discriminate|]. intros H. apply andb_true_iff in H as [Ha Hr].
  unfold is_id_char at 1. now rewrite Ha, Hr.
Qed.

Lemma all_nonspace_edge_ok p s :
  (forall a, p a = true -> is_space a = false) -> str_all p s = true -> edge_ok s = true.
Proof.
  intros Hp Hs. unfold edge_ok.
  assert (F : forall t, str_all p t = true -> first_ok t = true).
  { intros [|a t]; simpl; [reflexivity|]. intros H. apply andb_true_iff in H as [Ha _].
    now rewrite (Hp a Ha). }
  rewrite (F s Hs), (F (srev s)) by (now rewrite str_all_srev). reflexivity.
Qed.

Lemma is_ident_edge_ok s : is_ident s = true -> edge_ok s = true.
Proof. intros H. apply (all_nonspace_edge_ok is_id_char); [apply id_char_not_space | now apply is_ident_all]. Qed.

Lemma is_ident_nonempty s : is_ident s = true -> s <> "".
Proof. destruct s; simpl; congruence. Qed.

Lemma is_ident_no c s : is_id_char c = false -> is_ident s = true -> has_char c s = false.
Proof. intros Hc H. apply (str_all_no_char is_id_char); [exact Hc | now apply is_ident_all]. Qed.

Lemma spaces_no c s : is_space c = false -> str_all is_space s = true -> has_char c s = false.
Proof. intros Hc H. now apply (str_all_no_char is_space). Qed.

(* ====================================================================== *)
(* B. well-formed layouts; the view of every rendered line                 *)
(* ====================================================================== *)

(* marker texts: no '#', ':', '=', no quote characters, no newline; no white space at either end *)
Definition plain_char (a : ascii) : bool :=
  negb (Ascii.eqb a "#") && negb (Ascii.eqb a ":") && negb (Ascii.eqb a "=")
  && negb (Ascii.eqb a "'") && negb (Ascii.eqb a """") && negb (Ascii.eqb a NL).
Definition text_ok (s : string) : bool := str_all plain_char s && edge_ok s.       (* may be empty *)
(* comment texts (block above, inline): anything but a newline - '#', ':', '=', quote characters and whole
   triple-quote tokens included *)
Definition cmark_char (a : ascii) : bool := negb (Ascii.eqb a NL).
Definition mark_ok (s : string) : bool := str_all cmark_char s && edge_ok s && str_nonempty s.
Definition type_char (a : ascii) : bool :=
  negb (Ascii.eqb a "#") && negb (Ascii.eqb a ":") && negb (Ascii.eqb a "=").
(* the state (quote, skip) in which _split_at_comment leaves a text; None: it found a comment in it *)
Fixpoint end_state (step : option ascii -> ascii -> sstep) (s : string) (quote : option ascii) (skip : bool)
  : option (option ascii * bool) :=
  match s with
  | EmptyString => Some (quote, skip)
  | String c r =>
      if skip then end_state step r quote false
      else match step quote c with
           | SReturn => None
           | SSkipNext => end_state step r quote true
           | SQuote q => end_state step r q false
           | SKeep => end_state step r quote false
           end
  end.
(* every '#' of the text is inside a string literal, and every string literal of the text is closed *)
Definition closed (s : string) : bool :=
  match end_state split_step_gen s None false with Some (None, false) => true | _ => false end.

(* annotation text: no '#', ':', '=' at all; string literals (forward references) closed *)
Definition type_ok (s : string) : bool := str_all type_char s && edge_ok s && str_nonempty s && closed s.
(* default-value text: ANY Python text whose '#' characters are inside (closed) string literals *)
Definition value_ok (s : string) : bool := edge_ok s && str_nonempty s && closed s.

Definition dstr_ok (d : dstr) : bool :=
  match d with
  | DOne _ s => text_ok s
  | DMulti _ a ms z => text_ok a && forallb text_ok ms && text_ok z
  end.

Definition fld_ok (f : fld) : bool :=
  is_ident (f_name f) && type_ok (f_type f)
  && match f_value f with Some v => value_ok v | None => true end
  && forallb mark_ok (f_above f)
  && match f_inline f with Some c => mark_ok c | None => true end
  && match f_below f with Some d => dstr_ok d | None => true end.

(* the scanner instance the lemmas are about; Gen/FactsDoc.v must regenerate exactly these literals *)
Definition cS : ascii := "'"%char.
Definition cD : ascii := """"%char.
Definition vw : string -> lview := view "#" ":" "=" (tok3 cS) (tok3 cD) split_step_gen.
Definition cdef : string -> bool := contains_def "#" ":" "=".

Lemma bridge_view : view_gen = vw.
Proof. reflexivity. Qed.
Lemma bridge_scan_lines : scan_lines_gen = fun lines f => find_field FIX_WALK walk_stops_at_quote_lines_gen f [] (map vw lines).
Proof. reflexivity. Qed.

(* header lines (decorators, the class line, what is left of the class docstring): not field definitions, and
   either a line the upward walk stops at (a triple quote; with the walk repair: any code line) or without a comment *)
Definition hdr_ok (so sq : bool) (v : lview) : bool :=
  negb (v_isdef v) && (walk_stop so sq v || String.eqb (v_comment v) "").

Definition wf_layout (L : layout) : bool :=
  match l_hdr L with [] => false | _ => true end
  && forallb (fun l => hdr_ok FIX_WALK walk_stops_at_quote_lines_gen (view_gen l)) (l_hdr L)
  && forallb fld_ok (l_fields L).

(* ---------- consequences of the boolean predicates ---------- *)
Lemma str_nonempty_ne s : str_nonempty s = true -> s <> "".
Proof. unfold str_nonempty. intros H E. subst. discriminate H. Qed.

Lemma plain_no c s : plain_char c = false -> str_all plain_char s = true -> has_char c s = false.
Proof. apply str_all_no_char. Qed.

Lemma text_ok_parts s : text_ok s = true -> str_all plain_char s = true /\ edge_ok s = true.
Proof. intros H. now apply andb_true_iff in H. Qed.

Lemma mark_ok_parts s : mark_ok s = true -> str_all cmark_char s = true /\ edge_ok s = true /\ s <> "".
Proof.
  intros H. apply andb_true_iff in H as [H1 H2]. apply andb_true_iff in H1 as [Ha Hb].
  repeat split; try assumption. now apply str_nonempty_ne.
Qed.

Lemma edge_ok_last s : edge_ok s = true -> first_ok (srev s) = true.
Proof. intros H. now apply andb_true_iff in H. Qed.
Lemma edge_ok_first s : edge_ok s = true -> first_ok s = true.
Proof. intros H. now apply andb_true_iff in H. Qed.

Lemma has_char_before c d s : has_char c s = false -> has_char c (before_char d s) = false.
Proof.
  induction s as [|a r IH]; simpl; intros H; [reflexivity|].
  apply orb_false_iff in H as [Ha Hr]. destruct (Ascii.eqb a d); simpl; [reflexivity|].
  now rewrite Ha, IH.
Qed.

Lemma no_colon_not_def line : has_char ":" line = false -> cdef line = false.
Proof.
  intros H. unfold cdef, contains_def.
  rewrite (has_char_before ":" "#" line H). reflexivity.
Qed.

Ltac nochar :=
  first [ assumption | reflexivity
        | rewrite has_char_app; apply orb_false_iff; split; nochar ].

(* ---------- blank line ---------- *)
Lemma view_blank : vw "" = mkview false None false true false "" "" None None None "".
Proof. reflexivity. Qed.

(* ---------- comment line ---------- *)
Section CommentLine.
  Variables ind c : string.
  Hypothesis Hind : str_all is_space ind = true.
  Hypothesis Hc : mark_ok c = true.

  Let line := ind ++ "# " ++ c.

  Lemma comment_line_view :
    v_isdef (vw line) = false /\ v_empty (vw line) = false
    /\ v_iscomment (vw line) = true /\ v_comment (vw line) = c.
  Proof.
    destruct (mark_ok_parts c Hc) as [Hp [He Hne]].
    assert (Hbody : edge_ok ("# " ++ c) = true).
    { apply (edge_ok_app "# " c); [discriminate | exact Hne | reflexivity | now apply edge_ok_last]. }
    assert (Hstrip : strip line = "# " ++ c) by (apply strip_pad_l; assumption).
    unfold vw, view; cbn [v_isdef v_empty v_iscomment v_comment].
    repeat split.
    - (* everything from the first '#' on is cut off before the line is examined *)
      unfold cdef, contains_def, line.
      rewrite before_char_app_no by (now apply spaces_no).
      change ("# " ++ c) with (String "#" (" " ++ c)). rewrite before_char_hit, append_nil_r.
      now rewrite (spaces_no ":" ind eq_refl Hind).
    - rewrite Hstrip. reflexivity.
    - rewrite Hstrip. reflexivity.
    - unfold comment_of, line.
      rewrite after_char_app_no by (now apply spaces_no).
      change ("# " ++ c) with (String "#" (" " ++ c)). rewrite after_char_hit.
      apply (strip_pad_l " " c eq_refl He).
  Qed.
End CommentLine.

(* ---------- field-definition line ---------- *)
Definition eq_part (b : option string) : string := match b with Some x => String "=" x | None => "" end.
Definition hash_part (c : option string) : string := match c with Some x => String "#" x | None => "" end.

(* name ':' A ['=' B] ['#' C] with A free of '#', ':', '=' is a field definition, whatever B and C contain
   (_contains_field_definition still cuts the line at the FIRST '#', inside a string literal or not) *)
Lemma cdef_general ind name A B C :
  str_all is_space ind = true -> is_ident name = true ->
  has_char "#" A = false -> has_char ":" A = false -> has_char "=" A = false ->
  cdef (ind ++ name ++ String ":" (A ++ eq_part B ++ hash_part C)) = true.
Proof.
  intros Hind Hname HA1 HA2 HA3.
  set (B0 := match B with Some b => Some (before_char "#" (b ++ hash_part C)) | None => None end).
  assert (Hi1 : has_char "#" ind = false) by (now apply spaces_no).
  assert (Hi2 : has_char ":" ind = false) by (now apply spaces_no).
  assert (Hi3 : has_char "=" ind = false) by (now apply spaces_no).
  assert (Hn1 : has_char "#" name = false) by (now apply is_ident_no).
  assert (Hn2 : has_char ":" name = false) by (now apply is_ident_no).
  assert (Hn3 : has_char "=" name = false) by (now apply is_ident_no).
  (* the line up to the comment *)
  assert (E1 : before_char "#" (ind ++ name ++ String ":" (A ++ eq_part B ++ hash_part C))
               = ind ++ name ++ String ":" (A ++ eq_part B0)).
  { rewrite before_char_app_no by exact Hi1. rewrite before_char_app_no by exact Hn1.
    f_equal. f_equal. simpl. f_equal.
    rewrite before_char_app_no by exact HA1. f_equal.
    unfold B0. destruct B as [b|]; simpl.
    - reflexivity.
    - destruct C; simpl; reflexivity. }
  unfold cdef, contains_def. rewrite E1. clear E1. clearbody B0. clear B. rename B0 into B.
  (* attribute_and_type *)
  assert (E2 : (if has_char "=" (ind ++ name ++ String ":" (A ++ eq_part B))
                then before_char "=" (ind ++ name ++ String ":" (A ++ eq_part B))
                else ind ++ name ++ String ":" (A ++ eq_part B))
               = ind ++ name ++ String ":" (A ++ "")).
  { destruct B as [b|]; simpl eq_part.
    - replace (has_char "=" (ind ++ name ++ String ":" (A ++ String "=" b))) with true.
      2:{ symmetry. rewrite !has_char_app. simpl. rewrite has_char_app. simpl.
          rewrite !orb_true_r. reflexivity. }
      rewrite before_char_app_no by exact Hi3. rewrite before_char_app_no by exact Hn3.
      f_equal. f_equal. simpl. f_equal.
      rewrite before_char_app_no by exact HA3. now rewrite before_char_hit.
    - replace (has_char "=" (ind ++ name ++ String ":" (A ++ ""))) with false; [reflexivity|].
      symmetry. rewrite append_nil_r. rewrite !has_char_app. simpl. now rewrite Hi3, Hn3, HA3. }
  replace (has_char ":" (ind ++ name ++ String ":" (A ++ eq_part B))) with true.
  2:{ symmetry. rewrite !has_char_app. simpl. rewrite !orb_true_r. reflexivity. }
  cbn [negb]. rewrite E2.
  rewrite before_char_app_no by exact Hi2. rewrite before_char_app_no by exact Hn2.
  rewrite before_char_hit.
  rewrite after_char_app_no by exact Hi2. rewrite after_char_app_no by exact Hn2.
  rewrite after_char_hit.
  rewrite (strip_pad ind name "" Hind eq_refl (is_ident_edge_ok name Hname)).
  rewrite append_nil_r, HA2.
  destruct (String.eqb name "") eqn:E; [|exact Hname].
  apply String.eqb_eq in E. subst. discriminate Hname.
Qed.

Definition last_ok (s : string) : bool := first_ok (srev s).
Lemma last_ok_app a b : b <> "" -> last_ok (a ++ b) = last_ok b.
Proof.
  intros Hb. unfold last_ok. rewrite srev_app. apply first_ok_app.
  intros E. apply Hb, srev_empty, E.
Qed.
Lemma app_nonempty_r (a b : string) : b <> "" -> a ++ b <> "".
Proof. destruct a; simpl; [auto | discriminate]. Qed.

Ltac nonempty := repeat (apply app_nonempty_r); first [assumption | simpl; discriminate].

Lemma type_ok_parts s : type_ok s = true ->
  has_char "#" s = false /\ has_char ":" s = false /\ has_char "=" s = false /\ edge_ok s = true /\ s <> "".
Proof.
  intros H. apply andb_true_iff in H as [H _].
  apply andb_true_iff in H as [H H3]. apply andb_true_iff in H as [H1 H2].
  repeat split; try (apply (str_all_no_char type_char); [reflexivity | exact H1]);
    [exact H2 | now apply str_nonempty_ne].
Qed.

Lemma type_ok_closed s : type_ok s = true -> closed s = true.
Proof. intros H. now apply andb_true_iff in H as [_ H]. Qed.

Lemma value_ok_parts s : value_ok s = true -> closed s = true /\ edge_ok s = true /\ s <> "".
Proof.
  intros H. apply andb_true_iff in H as [H H3]. apply andb_true_iff in H as [H1 H2].
  repeat split; [exact H3 | exact H1 | now apply str_nonempty_ne].
Qed.

(* ---------- _split_at_comment over concatenations ---------- *)
Definition io : string -> string := inline_of split_step_gen.

Lemma split_run_app step a : forall b q sk q' sk',
  end_state step a q sk = Some (q', sk') ->
  split_run step (a ++ b) q sk
  = match split_run step b q' sk' with Some (x, y) => Some (a ++ x, y) | None => None end.
Proof.
  induction a as [|c r IH]; intros b q sk q' sk' H.
  - simpl in H. injection H as <- <-. simpl. destruct (split_run step b q sk) as [[x y]|]; reflexivity.
  - cbn [append split_run]. cbn [end_state] in H. destruct sk.
    + rewrite (IH b q false q' sk' H). destruct (split_run step b q' sk') as [[x y]|]; reflexivity.
    + destruct (step q c); [discriminate H | | |];
        rewrite (IH b _ _ q' sk' H); destruct (split_run step b q' sk') as [[x y]|]; reflexivity.
Qed.

Lemma end_state_app step a : forall b q sk q' sk',
  end_state step a q sk = Some (q', sk') -> end_state step (a ++ b) q sk = end_state step b q' sk'.
Proof.
  induction a as [|c r IH]; intros b q sk q' sk' H.
  - simpl in H. now injection H as <- <-.
  - cbn [append end_state]. cbn [end_state] in H. destruct sk; [now apply IH|].
    destruct (step q c); [discriminate H | | |]; now apply IH.
Qed.

Lemma closed_end s : closed s = true -> end_state split_step_gen s None false = Some (None, false).
Proof.
  unfold closed. destruct (end_state split_step_gen s None false) as [[[q|] [|]]|]; try discriminate. reflexivity.
Qed.

Lemma closed_app a b : closed a = true -> closed b = true -> closed (a ++ b) = true.
Proof.
  intros Ha Hb. unfold closed. rewrite (end_state_app _ a b _ _ _ _ (closed_end a Ha)). exact Hb.
Qed.

Lemma io_app a b : closed a = true -> io (a ++ b) = io b.
Proof.
  intros Ha. unfold io, inline_of. rewrite (split_run_app _ a b _ _ _ _ (closed_end a Ha)).
  destruct (split_run split_step_gen b None false) as [[x y]|]; reflexivity.
Qed.

(* characters that leave the scanner where it is, outside a string literal *)
Lemma neutral_closed (p : ascii -> bool) s :
  (forall c, p c = true -> split_step_gen None c = SKeep) -> str_all p s = true -> closed s = true.
Proof.
  intros Hp. unfold closed. induction s as [|c r IH]; [reflexivity|].
  simpl str_all. intros H. apply andb_true_iff in H as [Hc Hr].
  cbn [end_state]. rewrite (Hp c Hc). exact (IH Hr).
Qed.

Lemma space_neutral c : is_space c = true -> split_step_gen None c = SKeep.
Proof. destruct c as [[] [] [] [] [] [] [] []]; vm_compute; intros H; try reflexivity; discriminate H. Qed.
Lemma id_char_neutral c : is_id_char c = true -> split_step_gen None c = SKeep.
Proof. destruct c as [[] [] [] [] [] [] [] []]; vm_compute; intros H; try reflexivity; discriminate H. Qed.

Lemma spaces_closed s : str_all is_space s = true -> closed s = true.
Proof. apply neutral_closed, space_neutral. Qed.
Lemma ident_closed s : is_ident s = true -> closed s = true.
Proof. intros H. apply (neutral_closed is_id_char); [apply id_char_neutral | now apply is_ident_all]. Qed.

Section FieldLine.
  Variables (ind name ty : string) (v c : option string).
  Hypothesis Hind : str_all is_space ind = true.
  Hypothesis Hname : is_ident name = true.
  Hypothesis Hty : type_ok ty = true.
  Hypothesis Hv : match v with Some x => value_ok x = true | None => True end.
  Hypothesis Hc : match c with Some y => mark_ok y = true | None => True end.

  Let body := name ++ ": " ++ ty ++ value_text v ++ inline_text c.

  Lemma field_body_shape :
    exists A B C,
      body = name ++ String ":" (A ++ eq_part B ++ hash_part C)
      /\ has_char "#" A = false /\ has_char ":" A = false /\ has_char "=" A = false.
  Proof.
    destruct (type_ok_parts ty Hty) as [T1 [T2 [T3 _]]].
    unfold body. destruct v as [x|], c as [y|]; simpl value_text; simpl inline_text.
    - exists (" " ++ ty ++ " "), (Some (" " ++ x ++ "  ")), (Some (" " ++ y)).
      split; [simpl; rewrite !append_assoc; reflexivity|].
      repeat split; nochar.
    - exists (" " ++ ty ++ " "), (Some (" " ++ x)), None.
      split; [simpl; rewrite !append_assoc, ?append_nil_r; reflexivity|].
      repeat split; nochar.
    - exists (" " ++ ty ++ "  "), None, (Some (" " ++ y)).
      split; [simpl; rewrite !append_assoc; reflexivity|].
      repeat split; nochar.
    - exists (" " ++ ty), None, None.
      split; [simpl; rewrite ?append_nil_r; reflexivity|].
      repeat split; nochar.
  Qed.

  Lemma field_body_edge_ok : edge_ok body = true.
  Proof.
    destruct (type_ok_parts ty Hty) as [_ [_ [_ [Te Tn]]]].
    assert (Hrest : forall rest, rest <> "" -> last_ok rest = true -> edge_ok (name ++ rest) = true).
    { intros rest Hn Hl. apply edge_ok_app; try assumption.
      - now apply is_ident_nonempty.
      - apply edge_ok_first. now apply is_ident_edge_ok. }
    unfold body. apply Hrest.
    - simpl. discriminate.
    - destruct c as [y|]; simpl inline_text.
      + destruct (mark_ok_parts y Hc) as [_ [Ye Yn]].
        rewrite last_ok_app by nonempty.
        rewrite last_ok_app by nonempty.
        rewrite last_ok_app by nonempty.
        match goal with |- last_ok ?t = true => change t with ("  # " ++ y) end.
        rewrite (last_ok_app "  # " y Yn). now apply edge_ok_last.
      + rewrite append_nil_r. destruct v as [x|]; simpl value_text.
        * destruct (value_ok_parts x Hv) as [_ [Xe Xn]].
          rewrite last_ok_app by nonempty.
          rewrite last_ok_app by nonempty.
          match goal with |- last_ok ?t = true => change t with (" = " ++ x) end.
          rewrite (last_ok_app " = " x Xn). now apply edge_ok_last.
        * rewrite append_nil_r. rewrite (last_ok_app ": " ty Tn). now apply edge_ok_last.
  Qed.

  (* the inline comment: the scanner passes over the declaration - string literals of the default included -
     and stops at the '#' that starts the real comment, if there is one *)
  Lemma field_line_inline : io (ind ++ body) = match c with Some y => y | None => "" end.
  Proof.
    unfold body.
    assert (Vc : closed (value_text v) = true).
    { destruct v as [x|]; [|reflexivity]. destruct (value_ok_parts x Hv) as [X1 _].
      change (value_text (Some x)) with (" = " ++ x). now apply closed_app. }
    rewrite io_app by (now apply spaces_closed).
    rewrite io_app by (now apply ident_closed).
    rewrite io_app by reflexivity.
    rewrite io_app by (now apply type_ok_closed).
    rewrite io_app by exact Vc.
    destruct c as [y|]; [|reflexivity].
    destruct (mark_ok_parts y Hc) as [_ [Ye _]].
    change (io (inline_text (Some y))) with (strip (" " ++ y)).
    apply (strip_pad_l " " y eq_refl Ye).
  Qed.

  Lemma field_line_view :
    let line := ind ++ body in
    v_isdef (vw line) = true /\ v_defname (vw line) = Some name /\ v_empty (vw line) = false
    /\ v_inline (vw line) = match c with Some y => y | None => "" end.
  Proof.
    intros line. unfold line.
    destruct field_body_shape as [A [B [C [Eb [A1 [A2 A3]]]]]].
    assert (Hstrip : strip (ind ++ body) = body) by (apply strip_pad_l; [exact Hind | apply field_body_edge_ok]).
    assert (Hne : body <> "").
    { unfold body. intros E. apply (is_ident_nonempty name Hname). destruct name; [reflexivity | discriminate E]. }
    split; [|split; [|split]].
    - unfold vw, view; cbn [v_isdef]. rewrite Eb. now apply cdef_general.
    - unfold vw, view; cbn [v_defname]. unfold def_name. rewrite Hstrip.
      replace (contains_def "#" ":" "=" body) with true.
      2:{ symmetry. rewrite Eb. apply (cdef_general "" name A B C); auto. }
      cbn [negb]. rewrite Eb.
      rewrite before_char_app_no by (now apply is_ident_no). rewrite before_char_hit, append_nil_r.
      rewrite (strip_edge_ok name (is_ident_edge_ok name Hname)), Hname. reflexivity.
    - unfold vw, view; cbn [v_empty]. rewrite Hstrip. destruct body; [congruence | reflexivity].
    - exact field_line_inline.
  Qed.
End FieldLine.

(* ---------- docstring lines ---------- *)
Definition mq (q : qstyle) : quote := match q with Dq => QD | Sq => QS end.
Definition qc (q : qstyle) : ascii := match q with Dq => cD | Sq => cS end.
Definition oq (q : qstyle) : ascii := match q with Dq => cS | Sq => cD end.

Lemma qtok_tok3 q : qtok q = tok3 (qc q).
Proof. destruct q; reflexivity. Qed.

Lemma text_no_quote q s : str_all plain_char s = true -> has_char (qc q) s = false /\ has_char (oq q) s = false.
Proof. intros H. destruct q; split; apply (plain_no _ s); auto. Qed.

Lemma open_of_split (q : qstyle) line pre rest :
  split_first (tok3 (qc q)) line = Some (pre, rest) ->
  split_first (tok3 (oq q)) line = None ->
  open_of (tok3 cS) (tok3 cD) line =
    match split_first (tok3 (qc q)) rest with
    | Some (between, _) => Some (mq q, true, strip between)
    | None => Some (mq q, false, strip rest)
    end.
Proof.
  intros H1 H2. unfold open_of. destruct q; simpl qc in *; simpl oq in *; rewrite H1, H2; cbn [tok_of mq]; rewrite H1; reflexivity.
Qed.

Section DocLines.
  Variables (ind : string) (q : qstyle).
  Hypothesis Hind : str_all is_space ind = true.

  Let ind_noq : has_char (qc q) ind = false.
  Proof. apply spaces_no; [destruct q; reflexivity | exact Hind]. Qed.
  Let ind_nooq : has_char (oq q) ind = false.
  Proof. apply spaces_no; [destruct q; reflexivity | exact Hind]. Qed.
  Let ind_nocolon : has_char ":" ind = false.
  Proof. now apply spaces_no. Qed.
  Let tok_nooq : has_char (oq q) (tok3 (qc q)) = false.
  Proof. destruct q; reflexivity. Qed.
  Let tok_nocolon : has_char ":" (tok3 (qc q)) = false.
  Proof. destruct q; reflexivity. Qed.

  Lemma quote_of_contains line : contains (tok3 (qc q)) line = true ->
    contains (tok3 cD) line || contains (tok3 cS) line = true.
  Proof. destruct q; simpl qc; intros ->; [reflexivity | apply orb_true_r]. Qed.

  Lemma quoted_body_facts body :
    edge_ok body = true -> (exists r, body = tok3 (qc q) ++ r) ->
    String.eqb (strip (ind ++ body)) "" = false /\ prefixb "#" (strip (ind ++ body)) = false.
  Proof.
    intros He [r ->]. rewrite strip_pad_l by assumption. destruct q; split; reflexivity.
  Qed.

  Lemma edge_ok_quoted_l s : text_ok s = true -> edge_ok (tok3 (qc q) ++ s) = true.
  Proof.
    intros Hs. destruct (text_ok_parts s Hs) as [_ He].
    destruct s as [|a s'].
    - rewrite append_nil_r. destruct q; reflexivity.
    - apply edge_ok_app; [destruct q; discriminate | discriminate | destruct q; reflexivity | now apply edge_ok_last].
  Qed.

  Lemma edge_ok_quoted_lr s : edge_ok (tok3 (qc q) ++ s ++ tok3 (qc q)) = true.
  Proof.
    apply edge_ok_app; [destruct q; discriminate | nonempty; destruct q; discriminate | destruct q; reflexivity |].
    change (last_ok (s ++ tok3 (qc q)) = true).
    rewrite last_ok_app by (destruct q; discriminate). destruct q; reflexivity.
  Qed.

  (* one-line docstring *)
  Lemma doc_one_view s : text_ok s = true ->
    let line := ind ++ qtok q ++ s ++ qtok q in
    v_isdef (vw line) = false /\ v_quote (vw line) = true /\ v_empty (vw line) = false
    /\ v_iscomment (vw line) = false /\ v_open (vw line) = Some (mq q, true, s).
  Proof.
    intros Hs line. unfold line. rewrite !qtok_tok3.
    destruct (text_ok_parts s Hs) as [Hp He]. destruct (text_no_quote q s Hp) as [Hq Ho].
    assert (Hcolon : has_char ":" s = false) by (now apply plain_no).
    destruct (quoted_body_facts (tok3 (qc q) ++ s ++ tok3 (qc q)) (edge_ok_quoted_lr s) (ex_intro _ _ eq_refl)) as [F1 F2].
    unfold vw, view; cbn [v_isdef v_quote v_empty v_iscomment v_open].
    repeat split; try assumption.
    - apply no_colon_not_def. nochar.
    - apply quote_of_contains. now apply contains_hit.
    - rewrite (open_of_split q _ ind (s ++ tok3 (qc q))).
      + rewrite <- (append_nil_r (s ++ tok3 (qc q))), append_assoc.
        rewrite split_first_hit by exact Hq. now rewrite strip_edge_ok.
      + now apply split_first_hit.
      + apply split_first_none. nochar.
  Qed.

  (* first line of a multi-line docstring *)
  Lemma doc_open_view a : text_ok a = true ->
    let line := ind ++ qtok q ++ a in
    v_isdef (vw line) = false /\ v_empty (vw line) = false
    /\ v_iscomment (vw line) = false /\ v_open (vw line) = Some (mq q, false, a).
  Proof.
    intros Ha line. unfold line. rewrite !qtok_tok3.
    destruct (text_ok_parts a Ha) as [Hp He]. destruct (text_no_quote q a Hp) as [Hq Ho].
    assert (Hcolon : has_char ":" a = false) by (now apply plain_no).
    destruct (quoted_body_facts (tok3 (qc q) ++ a) (edge_ok_quoted_l a Ha) (ex_intro _ _ eq_refl)) as [F1 F2].
    unfold vw, view; cbn [v_isdef v_empty v_iscomment v_open].
    repeat split; try assumption.
    - apply no_colon_not_def. nochar.
    - rewrite (open_of_split q _ ind a).
      + rewrite split_first_none by exact Hq. now rewrite strip_edge_ok.
      + rewrite <- (append_nil_r a) at 1. rewrite split_first_hit by exact ind_noq. now rewrite append_nil_r.
      + apply split_first_none. nochar.
  Qed.

  Lemma close_of_q line : close_of (tok3 cS) (tok3 cD) (mq q) line =
    match split_first (tok3 (qc q)) line with Some (b, _) => Some (strip b) | None => None end.
  Proof. destruct q; reflexivity. Qed.

  (* middle line *)
  Lemma doc_mid_view m : text_ok m = true ->
    let line := ind ++ m in
    v_isdef (vw line) = false /\ v_close (mq q) (vw line) = None /\ v_strip (vw line) = m.
  Proof.
    intros Hm line. unfold line.
    destruct (text_ok_parts m Hm) as [Hp He]. destruct (text_no_quote q m Hp) as [Hq Ho].
    assert (Hcolon : has_char ":" m = false) by (now apply plain_no).
    repeat split.
    - apply no_colon_not_def. nochar.
    - replace (v_close (mq q) (vw (ind ++ m))) with (close_of (tok3 cS) (tok3 cD) (mq q) (ind ++ m))
        by (destruct q; reflexivity).
      rewrite close_of_q, split_first_none; [reflexivity | nochar].
    - unfold vw, view; cbn [v_strip]. now apply strip_pad_l.
  Qed.

  (* closing line *)
  Lemma doc_close_view z : text_ok z = true ->
    let line := ind ++ z ++ qtok q in
    v_isdef (vw line) = false /\ v_quote (vw line) = true /\ v_close (mq q) (vw line) = Some z
    /\ v_empty (vw line) = false /\ v_iscomment (vw line) = false.
  Proof.
    intros Hz line. unfold line. rewrite !qtok_tok3.
    destruct (text_ok_parts z Hz) as [Hp He]. destruct (text_no_quote q z Hp) as [Hq Ho].
    assert (Hbody : edge_ok (z ++ tok3 (qc q)) = true).
    { destruct z as [|a z']; [destruct q; reflexivity|].
      apply edge_ok_app; [discriminate | destruct q; discriminate | now apply edge_ok_first | destruct q; reflexivity]. }
    assert (Hstrip : strip (ind ++ z ++ tok3 (qc q)) = z ++ tok3 (qc q)) by (now apply strip_pad_l).
    assert (Hhash : has_char "#" z = false) by (now apply plain_no).
    assert (Hcolon : has_char ":" z = false) by (now apply plain_no).
    assert (Hsplit : split_first (tok3 (qc q)) (ind ++ z ++ tok3 (qc q)) = Some (ind ++ z, "")).
    { replace (ind ++ z ++ tok3 (qc q)) with ((ind ++ z) ++ tok3 (qc q) ++ "")
        by (now rewrite append_nil_r, append_assoc).
      apply split_first_hit. nochar. }
    repeat split.
    - apply no_colon_not_def. nochar.
    - unfold vw, view; cbn [v_quote]. apply quote_of_contains. unfold contains. now rewrite Hsplit.
    - replace (v_close (mq q) (vw (ind ++ z ++ tok3 (qc q))))
        with (close_of (tok3 cS) (tok3 cD) (mq q) (ind ++ z ++ tok3 (qc q))) by (destruct q; reflexivity).
      rewrite close_of_q, Hsplit. f_equal. now apply strip_pad_l.
    - unfold vw, view; cbn [v_empty]. rewrite Hstrip. destruct z; destruct q; reflexivity.
    - unfold vw, view; cbn [v_iscomment]. rewrite Hstrip. destruct z as [|a z'].
      + destruct q; reflexivity.
      + cbn [has_char] in Hhash. apply orb_false_iff in Hhash as [Ha _]. cbn [append prefixb].
        rewrite Ascii.eqb_sym, Ha. reflexivity.
  Qed.
End DocLines.

(* ====================================================================== *)
(* C. the scanner on a rendered layout                                     *)
(* ====================================================================== *)
Definition V (ls : list string) : list lview := map vw ls.
Opaque vw.

Lemma V_app a b : V (a ++ b) = (V a ++ V b)%list.
Proof. apply map_app. Qed.

Lemma join_nl_text l : join_nl l = join_text l.
Proof. reflexivity. Qed.

Section Groups.
  Variable ind : string.
  Hypothesis Hind : str_all is_space ind = true.

  Definition cline (c : string) : string := ind ++ "# " ++ c.

  (* ----- pieces of fld_ok ----- *)
  Lemma fld_ok_parts g : fld_ok g = true ->
    is_ident (f_name g) = true /\ type_ok (f_type g) = true
    /\ match f_value g with Some x => value_ok x = true | None => True end
    /\ forallb mark_ok (f_above g) = true
    /\ match f_inline g with Some y => mark_ok y = true | None => True end
    /\ match f_below g with Some d => dstr_ok d = true | None => True end.
  Proof.
    unfold fld_ok. intros H.
    repeat (apply andb_true_iff in H as [H ?]).
    repeat split; try assumption.
    - destruct (f_value g); [assumption | exact I].
    - destruct (f_inline g); [assumption | exact I].
    - destruct (f_below g); [assumption | exact I].
  Qed.

  Lemma fline_view g : fld_ok g = true ->
    let v := vw (field_line ind g) in
    v_isdef v = true /\ v_defname v = Some (f_name g) /\ v_empty v = false
    /\ v_inline v = match f_inline g with Some y => y | None => "" end.
  Proof.
    intros H. destruct (fld_ok_parts g H) as [H1 [H2 [H3 [_ [H5 _]]]]].
    apply (field_line_view ind (f_name g) (f_type g) (f_value g) (f_inline g)); assumption.
  Qed.

  (* ----- the docstring machine ----- *)
  Lemma doc_open_blanks n rest : doc_open (V (repeat "" n) ++ rest) = doc_open rest.
  Proof. induction n as [|k IH]; [reflexivity|]. simpl. exact IH. Qed.

  Lemma doc_open_blanks_end n : doc_open (V (repeat "" n)) = "".
  Proof. rewrite <- (app_nil_r (V _)), doc_open_blanks. reflexivity. Qed.

  Lemma doc_body_mids q ms z rest :
    forallb text_ok ms = true -> text_ok z = true ->
    doc_body (mq q) (V (map (fun m => ind ++ m) ms) ++ vw (ind ++ z ++ qtok q) :: rest) = (ms ++ [z])%list.
  Proof.
    intros Hms Hz. induction ms as [|m r IH]; simpl.
    - destruct (doc_close_view ind q Hind z Hz) as [_ [_ [Hc _]]]. now rewrite Hc.
    - simpl in Hms. apply andb_true_iff in Hms as [Hm Hr].
      destruct (doc_mid_view ind q Hind m Hm) as [_ [Hc Hs]].
      rewrite Hc. f_equal; [exact Hs | exact (IH Hr)].
  Qed.

  Lemma doc_open_below d rest : dstr_ok d = true ->
    doc_open (V (render_below ind d) ++ rest) = below_text d.
  Proof.
    intros Hd. destruct d as [q s | q a ms z]; simpl in Hd.
    - destruct (doc_one_view ind q Hind s Hd) as [A [B [C [D E]]]].
      simpl. now rewrite C, A, D, E.
    - apply andb_true_iff in Hd as [Hd Hz]. apply andb_true_iff in Hd as [Ha Hms].
      destruct (doc_open_view ind q Hind a Ha) as [A [C [D E]]].
      unfold render_below. rewrite V_app. simpl V at 1.
      rewrite <- app_assoc. simpl.
      rewrite C, A, D, E. simpl app.
      rewrite (doc_body_mids q ms z rest Hms Hz). reflexivity.
  Qed.

  Lemma doc_open_group g rest : fld_ok g = true -> doc_open (V (render_fld ind g) ++ rest) = "".
  Proof.
    intros H. destruct (fld_ok_parts g H) as [_ [_ [_ [Hab _]]]].
    unfold render_fld. rewrite V_app, V_app, <- !app_assoc, doc_open_blanks.
    destruct (f_above g) as [|c cs].
    - simpl. destruct (fline_view g H) as [A [_ [C _]]]. now rewrite C, A.
    - simpl in Hab. apply andb_true_iff in Hab as [Hc _].
      destruct (comment_line_view ind c Hind Hc) as [A [C [D _]]].
      unfold V. cbn [map app doc_open]. unfold cline. now rewrite C, A, D.
  Qed.

  (* ----- lines that do not define f ----- *)
  Lemma find_field_skip so sq f vs : forall ctx rest,
    (forall v, In v vs -> defines f v = false) ->
    find_field so sq f ctx (vs ++ rest) = find_field so sq f (rev vs ++ ctx) rest.
  Proof.
    induction vs as [|v r IH]; intros ctx rest H; [reflexivity|].
    simpl. rewrite (H v (or_introl eq_refl)).
    rewrite IH by (intros w Hw; apply H; now right).
    now rewrite <- app_assoc.
  Qed.

  Lemma not_def_not_defines f v : v_isdef v = false -> defines f v = false.
  Proof. unfold defines. now intros ->. Qed.

  Lemma below_not_def d : dstr_ok d = true -> forall v, In v (V (render_below ind d)) -> v_isdef v = false.
  Proof.
    intros Hd v Hv. destruct d as [q s | q a ms z]; simpl in Hd.
    - destruct Hv as [<-|[]]. now destruct (doc_one_view ind q Hind s Hd) as [A _].
    - apply andb_true_iff in Hd as [Hd Hz]. apply andb_true_iff in Hd as [Ha Hms].
      unfold render_below in Hv. rewrite V_app in Hv. apply in_app_or in Hv as [Hv|Hv].
      + destruct Hv as [<-|Hv]; [now destruct (doc_open_view ind q Hind a Ha) as [A _]|].
        unfold V in Hv. rewrite map_map in Hv. apply in_map_iff in Hv as [m [<- Hm]].
        rewrite forallb_forall in Hms.
        now destruct (doc_mid_view ind q Hind m (Hms m Hm)) as [A _].
      + destruct Hv as [<-|[]]. now destruct (doc_close_view ind q Hind z Hz) as [A _].
  Qed.

  Lemma blanks_views n v : In v (V (repeat "" n)) -> v = vw "".
  Proof. induction n as [|k IH]; simpl; [intros [] | intros [H|H]; [now subst | exact (IH H)]]. Qed.

  (* the lines above the field line of a group: blanks and comments *)
  Definition pre_lines (g : fld) : list string := (repeat "" (f_blank g) ++ map cline (f_above g))%list.

  Lemma render_fld_split g :
    render_fld ind g = (pre_lines g ++ field_line ind g :: match f_below g with Some d => render_below ind d | None => [] end)%list.
  Proof. reflexivity. Qed.

  Lemma pre_not_stop g v : fld_ok g = true -> In v (V (pre_lines g)) ->
    v_isdef v = false /\ forall so, walk_stop so false v = false.
  Proof.
    intros H Hv. destruct (fld_ok_parts g H) as [_ [_ [_ [Hab _]]]].
    unfold pre_lines in Hv. rewrite V_app in Hv. apply in_app_or in Hv as [Hv|Hv].
    - rewrite (blanks_views _ _ Hv), view_blank. split; [reflexivity | intros []; reflexivity].
    - unfold V in Hv. rewrite map_map in Hv. apply in_map_iff in Hv as [c [<- Hc]].
      rewrite forallb_forall in Hab.
      destruct (comment_line_view ind c Hind (Hab c Hc)) as [A [_ [D _]]].
      split; [exact A|]. intros so. unfold walk_stop, cline. rewrite A, D, orb_true_r.
      destruct so; reflexivity.
  Qed.

  Lemma group_other f g : fld_ok g = true -> String.eqb (f_name g) f = false ->
    forall v, In v (V (render_fld ind g)) -> defines f v = false.
  Proof.
    intros H Hn v Hv. destruct (fld_ok_parts g H) as [_ [_ [_ [_ [_ Hbe]]]]].
    rewrite render_fld_split, V_app in Hv. apply in_app_or in Hv as [Hv|Hv].
    - apply not_def_not_defines. now destruct (pre_not_stop g v H Hv).
    - destruct Hv as [<-|Hv].
      + destruct (fline_view g H) as [A [B _]]. unfold defines. now rewrite A, B, Hn.
      + apply not_def_not_defines. destruct (f_below g) as [d|]; [|destruct Hv].
        now apply (below_not_def d Hbe).
  Qed.
End Groups.

(* ----- the upward walk ----- *)
Lemma walk_up_app so sq A C :
  (forall v, In v A -> walk_stop so sq v = false) -> walk_up so sq (A ++ C) = (A ++ walk_up so sq C)%list.
Proof.
  induction A as [|a r IH]; intros H; [reflexivity|].
  cbn [app walk_up]. rewrite (H a (or_introl eq_refl)).
  f_equal. apply IH. intros v Hv. apply H. now right.
Qed.

Lemma walk_up_sub so sq l v : In v (walk_up so sq l) -> In v l /\ walk_stop so sq v = false.
Proof.
  induction l as [|a r IH]; cbn [walk_up]; [intros []|].
  destruct (walk_stop so sq a) eqn:E; [intros []|].
  intros [<-|H]; [split; [now left | exact E]|]. destruct (IH H) as [H1 H2]. split; [now right | exact H2].
Qed.

Lemma in_removelast {A} (l : list A) x : In x (removelast l) -> In x l.
Proof.
  induction l as [|a r IH]; simpl; [intros []|].
  destruct r as [|b r']; [intros []|]. intros [<-|H]; [now left | right; now apply IH].
Qed.

(* C: everything above a group, nearest line first, line 0 last.  quiet: whatever the walk still collects
   there contributes no comment text *)
Definition quiet (so sq : bool) (C : list lview) : Prop :=
  C <> [] /\ forall v, In v (walk_up so sq (removelast C)) -> v_comment v = "".

Lemma is_space_NL : is_space NL = true.
Proof. reflexivity. Qed.

Lemma join_nl_cons_empty x l : join_nl ("" :: x :: l) = String NL (join_nl (x :: l)).
Proof. reflexivity. Qed.

Lemma strip_join_empties E cs :
  (forall e, In e E -> e = "") -> strip (join_nl (E ++ cs)) = strip (join_nl cs).
Proof.
  induction E as [|e r IH]; intros H; [reflexivity|].
  rewrite (H e (or_introl eq_refl)). simpl app.
  assert (IH' := IH (fun x Hx => H x (or_intror Hx))).
  destruct (r ++ cs)%list as [|x l] eqn:E.
  - destruct r; [|discriminate E]. simpl in E. subst cs. reflexivity.
  - rewrite join_nl_cons_empty, strip_cons_space by exact is_space_NL. exact IH'.
Qed.

Lemma join_marks_ok cs : cs <> [] -> forallb mark_ok cs = true ->
  first_ok (join_nl cs) = true /\ last_ok (join_nl cs) = true /\ join_nl cs <> "".
Proof.
  induction cs as [|c r IH]; intros Hne H; [congruence|].
  simpl in H. apply andb_true_iff in H as [Hc Hr].
  destruct (mark_ok_parts c Hc) as [_ [He Hn]].
  destruct r as [|c2 r'].
  - simpl. repeat split; [now apply edge_ok_first | now apply edge_ok_last | exact Hn].
  - destruct (IH ltac:(discriminate) Hr) as [_ [I2 I3]].
    change (join_nl (c :: c2 :: r')) with (c ++ String NL "" ++ join_nl (c2 :: r')).
    repeat split.
    + rewrite first_ok_app by exact Hn. now apply edge_ok_first.
    + rewrite last_ok_app by nonempty. rewrite last_ok_app by exact I3. exact I2.
    + nonempty.
Qed.

Lemma strip_join_marks cs : forallb mark_ok cs = true -> strip (join_nl cs) = join_nl cs.
Proof.
  intros H. destruct cs as [|c r]; [reflexivity|].
  destruct (join_marks_ok (c :: r) ltac:(discriminate) H) as [A [B _]].
  apply strip_edge_ok. unfold edge_ok. unfold last_ok in B. now rewrite A, B.
Qed.

Section Above.
  Variable ind : string.
  Hypothesis Hind : str_all is_space ind = true.

  Lemma filter_blanks n : filter (fun v => negb (v_empty v)) (V (repeat "" n)) = [].
  Proof. induction n as [|k IH]; [reflexivity|]. simpl. rewrite view_blank. simpl. exact IH. Qed.

  Lemma filter_comments cs : forallb mark_ok cs = true ->
    filter (fun v => negb (v_empty v)) (V (map (cline ind) cs)) = V (map (cline ind) cs)
    /\ map v_comment (V (map (cline ind) cs)) = cs.
  Proof.
    induction cs as [|c r IH]; intros H; [split; reflexivity|].
    simpl in H. apply andb_true_iff in H as [Hc Hr]. destruct (IH Hr) as [I1 I2].
    destruct (comment_line_view ind c Hind Hc) as [_ [C [_ E]]].
    unfold V in *. cbn [map filter]. unfold cline at 1 3. rewrite C. cbn [negb].
    split; [f_equal; exact I1 | f_equal; [exact E | exact I2]].
  Qed.

  Lemma comment_above_group so g C : fld_ok g = true -> quiet so false C ->
    comment_above so false (rev (V (pre_lines ind g)) ++ C) = join_text (f_above g).
  Proof.
    intros Hg [Hne Hq]. destruct (fld_ok_parts g Hg) as [_ [_ [_ [Hab _]]]].
    unfold comment_above. rewrite removelast_app by exact Hne.
    rewrite walk_up_app.
    2:{ intros v Hv. apply in_rev in Hv. now apply (pre_not_stop ind Hind g). }
    cbn beta.
    rewrite rev_app_distr, rev_involutive, filter_app, map_app.
    unfold pre_lines. rewrite V_app, filter_app, filter_blanks. simpl app.
    destruct (filter_comments (f_above g) Hab) as [F1 F2]. rewrite F1, F2.
    rewrite strip_join_empties.
    - rewrite strip_join_marks by exact Hab. reflexivity.
    - intros e He. apply in_map_iff in He as [v [<- Hv]]. apply filter_In in Hv as [Hv _].
      apply in_rev in Hv. now apply Hq.
  Qed.

  Lemma last_line_stop g : fld_ok g = true ->
    exists vs v, V (render_fld ind g) = (vs ++ [v])%list /\ forall sq, walk_stop true sq v = true.
  Proof.
    intros Hg. destruct (fld_ok_parts g Hg) as [_ [_ [_ [_ [_ Hbe]]]]].
    rewrite render_fld_split. destruct (f_below g) as [[q s | q a ms z]|].
    - exists (V (pre_lines ind g ++ [field_line ind g])), (vw (ind ++ qtok q ++ s ++ qtok q)). split.
      + rewrite !V_app. simpl. now rewrite <- app_assoc.
      + destruct (doc_one_view ind q Hind s Hbe) as [_ [_ [C [D _]]]]. intros sq. unfold walk_stop.
        rewrite C, D. apply orb_true_r.
    - simpl in Hbe. apply andb_true_iff in Hbe as [_ Hz].
      exists (V (pre_lines ind g ++ field_line ind g :: (ind ++ qtok q ++ a) :: map (fun m => ind ++ m) ms)),
             (vw (ind ++ z ++ qtok q)). split.
      + unfold render_below, V. rewrite !map_app. cbn [map app]. rewrite map_app. cbn [map app].
        rewrite <- !app_assoc. reflexivity.
      + destruct (doc_close_view ind q Hind z Hz) as [_ [_ [_ [C D]]]]. intros sq. unfold walk_stop.
        rewrite C, D. apply orb_true_r.
    - exists (V (pre_lines ind g)), (vw (field_line ind g)). split.
      + now rewrite V_app.
      + destruct (fline_view ind Hind g Hg) as [A _]. intros sq. unfold walk_stop. now rewrite A.
  Qed.

  Lemma quiet_after sq g C : fld_ok g = true -> C <> [] -> quiet true sq (rev (V (render_fld ind g)) ++ C).
  Proof.
    intros Hg Hne. destruct (last_line_stop g Hg) as [vs [v [E Hs]]].
    split.
    - rewrite E, rev_app_distr. simpl. discriminate.
    - rewrite removelast_app by exact Hne. rewrite E, rev_app_distr. cbn [rev app walk_up].
      rewrite Hs. intros w [].
  Qed.

  Lemma quiet_hdr so sq hdr : hdr <> [] -> forallb (fun l => hdr_ok so sq (vw l)) hdr = true -> quiet so sq (rev (V hdr)).
  Proof.
    intros Hne H. split.
    - intros E. apply (f_equal (@rev _)) in E. rewrite rev_involutive in E. destruct hdr; [congruence | discriminate E].
    - intros v Hv. apply walk_up_sub in Hv as [Hv Hq]. apply in_removelast in Hv. apply in_rev in Hv.
      unfold V in Hv. apply in_map_iff in Hv as [l [<- Hl]].
      rewrite forallb_forall in H. specialize (H l Hl). unfold hdr_ok in H.
      apply andb_true_iff in H as [_ H]. rewrite Hq in H. simpl in H. now apply String.eqb_eq.
  Qed.
End Above.

(* ----- the round trip ----- *)
Definition triple (d : fdoc) : string * string * string := (d_above d, d_inline d, d_below d).

Section RoundTrip.
  Variable ind : string.
  Hypothesis Hind : str_all is_space ind = true.

  Lemma blank_not_defines f n v : In v (V (repeat "" n)) -> defines f v = false.
  Proof. intros H. rewrite (blanks_views n v H), view_blank. reflexivity. Qed.

  Lemma scan_fields f fs : forall C t,
    forallb fld_ok fs = true -> quiet true false C ->
    find_field true false f C (V (flat_map (render_fld ind) fs ++ repeat "" t)) = option_map triple (docs_fields fs f).
  Proof.
    induction fs as [|g fs' IH]; intros C t Hfs HC.
    - simpl flat_map. simpl app. rewrite <- (app_nil_r (V _)).
      rewrite find_field_skip by (intros v Hv; now apply (blank_not_defines f t)). reflexivity.
    - simpl in Hfs. apply andb_true_iff in Hfs as [Hg Hfs'].
      simpl flat_map. rewrite <- app_assoc, V_app. simpl docs_fields.
      destruct (String.eqb (f_name g) f) eqn:En.
      + (* this group declares f *)
        rewrite render_fld_split, V_app, <- app_assoc.
        rewrite find_field_skip.
        2:{ intros v Hv. apply not_def_not_defines. now destruct (pre_not_stop ind Hind g v Hg Hv). }
        destruct (fline_view ind Hind g Hg) as [A [B [_ D]]].
        cbn [V map app find_field]. unfold defines. rewrite A, B, En. cbn [andb option_map].
        unfold triple, fld_doc; cbn [d_above d_inline d_below].
        rewrite (comment_above_group ind Hind true g C Hg HC), D.
        f_equal. f_equal.
        destruct (fld_ok_parts g Hg) as [_ [_ [_ [_ [_ Hbe]]]]].
        destruct (f_below g) as [d|].
        * now apply doc_open_below.
        * cbn [map app]. destruct fs' as [|g2 fs2].
          -- simpl. apply doc_open_blanks_end.
          -- simpl in Hfs'. apply andb_true_iff in Hfs' as [Hg2 _].
             simpl flat_map. rewrite <- app_assoc. fold (V (render_fld ind g2 ++ (flat_map (render_fld ind) fs2 ++ repeat "" t))).
             rewrite V_app. now apply doc_open_group.
      + (* another field: all its lines are passed over *)
        rewrite find_field_skip by (now apply (group_other ind Hind f g Hg En)).
        apply IH; [exact Hfs'|]. apply quiet_after; [exact Hind | exact Hg | apply HC].
  Qed.
End RoundTrip.

Lemma spaces_all_space n : str_all is_space (spaces n) = true.
Proof. now apply str_all_repeat. Qed.

(* MAIN: the scanner, run on the printed layout, returns exactly the documentation written for the field
   (and None exactly when the class does not declare it) *)
(* the shape of the upward walk the round trip relies on: it stops at code lines (docstring lines included) and does
   NOT stop at comment lines that merely mention a triple-quote token *)
Lemma fix_walk_on : FIX_WALK = true.
Proof. reflexivity. Qed.
Lemma walk_quote_off : walk_stops_at_quote_lines_gen = false.
Proof. reflexivity. Qed.

Theorem scan_render L f :
  wf_layout L = true ->
  scan_lines_gen (render L) f = option_map triple (docs L f).
Proof.
  unfold wf_layout. intros H. apply andb_true_iff in H as [H Hf]. apply andb_true_iff in H as [Hne Hh].
  rewrite bridge_view in Hh. rewrite bridge_scan_lines. rewrite fix_walk_on, walk_quote_off in *.
  unfold render, docs.
  fold (V (l_hdr L ++ flat_map (render_fld (spaces (l_ind L))) (l_fields L) ++ repeat "" (l_trail L))).
  rewrite V_app, find_field_skip.
  2:{ intros v Hv. apply not_def_not_defines. unfold V in Hv. apply in_map_iff in Hv as [l [<- Hl]].
      rewrite forallb_forall in Hh. specialize (Hh l Hl). unfold hdr_ok in Hh.
      apply andb_true_iff in Hh as [Hh _]. now apply negb_true_iff in Hh. }
  rewrite app_nil_r. apply scan_fields; [apply spaces_all_space | exact Hf |].
  apply quiet_hdr; [|exact Hh]. destruct (l_hdr L); [discriminate Hne | discriminate].
Qed.

(* the repairs the statements below rely on are present in the source (regenerated facts) *)
Lemma fix_entry_on : FIX_ENTRY = true.
Proof. reflexivity. Qed.
Lemma fix_alias_on : FIX_ALIAS = true.
Proof. reflexivity. Qed.

(* the same statement one level up: _get_attribute_docstring on a class whose source, once the class docstring
   has been cut out, is the printed layout.  A class that does not declare the field still answers with the
   field's entry in its class docstring, when there is one. *)
Definition parts_of (d : fdoc) (entry : string) : parts := mkparts (d_above d) (d_inline d) (d_below d) entry.

(* what one class answers: w = the documentation next to its own declaration of the field (None: not declared),
   e = the field's entry in its class docstring *)
Definition scan_of (we : option fdoc * string) : option parts :=
  match fst we with
  | Some d => Some (parts_of d (snd we))
  | None => if str_nonempty (snd we) then Some (mkparts "" "" "" (snd we)) else None
  end.

Theorem scan_class_render k L f :
  wf_layout L = true -> code_lines k = Some (render L) ->
  scan_class_gen k f = scan_of (docs L f, last_assoc f (k_args k) "").
Proof.
  intros Hwf Hc. unfold scan_class_gen, scan_class. rewrite Hc, fix_entry_on.
  change (scan_lines HASH COLON EQUALS TRIPLE_S TRIPLE_D split_step_gen FIX_WALK walk_stops_at_quote_lines_gen (render L) f) with (scan_lines_gen (render L) f).
  rewrite (scan_render L f Hwf). unfold scan_of. cbn [fst snd andb]. destruct (docs L f) as [d|]; reflexivity.
Qed.

(* ====================================================================== *)
(* D. precedence, nearest class, cache history                             *)
(* ====================================================================== *)
Definition parts_prov (d : parts) : provided := mkprov (p_above d) (p_inline d) (p_below d) (p_cls d).

(* the regenerated or-chain of FieldWrapper.help is the documented precedence:
   help=, docstring below, comment above, inline comment, class-docstring entry; nothing -> no help *)
Theorem help_precedence explicit d : help_gen explicit d = spec_help explicit (parts_prov d).
Proof.
  destruct d as [a i b c]. unfold help_gen, help_of, HELP_CHAIN, spec_help, parts_prov.
  cbn [first_nonempty get_part p_above p_inline p_below p_cls w_above w_inline w_below w_entry].
  unfold str_nonempty.
  destruct explicit as [h|]; cbn [filter];
    try destruct (String.eqb h "");
    destruct (String.eqb b "") eqn:Eb, (String.eqb a "") eqn:Ea, (String.eqb i "") eqn:Ei, (String.eqb c "") eqn:Ec;
    cbn [negb]; rewrite ?Eb, ?Ea, ?Ei, ?Ec; cbn [negb]; reflexivity.
Qed.

Lemma help_string_chain_same : HELP_STRING_CHAIN = HELP_CHAIN.
Proof. reflexivity. Qed.

(* ----- accumulation along the MRO ----- *)
Definition merge_step (d : parts) (acc : parts) (p : part) : parts :=
  if str_nonempty (get_part p acc) then acc else set_part p (get_part p d) acc.

Lemma merge_step_get d acc p p' :
  get_part p' (merge_step d acc p)
  = if part_eqb p p' then (if str_nonempty (get_part p acc) then get_part p acc else get_part p d)
    else get_part p' acc.
Proof.
  unfold merge_step. destruct acc as [a i b c].
  destruct p, p'; cbn [get_part part_eqb p_above p_inline p_below p_cls];
    match goal with |- context [str_nonempty ?x] => destruct (str_nonempty x) end; reflexivity.
Qed.

Lemma merge_gen_part c d p :
  get_part p (merge_gen c d) = if str_nonempty (get_part p c) then get_part p c else get_part p d.
Proof.
  change (merge_gen c d)
    with (merge_step d (merge_step d (merge_step d (merge_step d c PAbove) PInline) PBelow) PCls).
  rewrite !merge_step_get. destruct p; reflexivity.
Qed.

(* first class (in MRO order) whose own scan result has a non-empty p *)
Fixpoint nearest_part (p : part) (scans : list (option parts)) : string :=
  match scans with
  | [] => ""
  | None :: r => nearest_part p r
  | Some d :: r => if str_nonempty (get_part p d) then get_part p d else nearest_part p r
  end.

Definition result_of (o : option parts) : parts := match o with Some c => c | None => EMPTY_PARTS end.

Lemma acc_pure_some scans : forall c p,
  get_part p (result_of (acc_pure_gen scans (Some c)))
  = if str_nonempty (get_part p c) then get_part p c else nearest_part p scans.
Proof.
  unfold acc_pure_gen.
  induction scans as [|[d|] r IH]; intros c p; cbn [acc_pure result_of nearest_part].
  - destruct (str_nonempty (get_part p c)) eqn:E; [reflexivity|].
    unfold str_nonempty in E. apply negb_false_iff, String.eqb_eq in E. exact E.
  - rewrite IH. change (merge ACC_PARTS c d) with (merge_gen c d). rewrite merge_gen_part.
    destruct (str_nonempty (get_part p c)) eqn:E; [now rewrite E|].
    destruct (str_nonempty (get_part p d)); reflexivity.
  - apply IH.
Qed.

(* each part comes from the nearest class of the chain whose own declaration provides it *)
Theorem nearest_class scans p :
  get_part p (result_of (acc_pure_gen scans None)) = nearest_part p scans.
Proof.
  unfold acc_pure_gen.
  induction scans as [|[d|] r IH]; cbn [acc_pure nearest_part]; [now destruct p | | exact IH].
  exact (acc_pure_some r d p).
Qed.

(* ----- against the spec: chain of (documentation next to the declaration, class-docstring entry) ----- *)
Definition prov_of (we : option fdoc * string) : provided := provided_by (fst we) (snd we).

Definition sel_of (p : part) : provided -> string :=
  match p with PAbove => w_above | PInline => w_inline | PBelow => w_below | PCls => w_entry end.

Lemma nearest_matches p chain :
  nearest_part p (map scan_of chain) = nearest (sel_of p) (map prov_of chain).
Proof.
  induction chain as [|[w e] r IH]; [reflexivity|].
  cbn [map]. destruct w as [d|].
  - change (scan_of (Some d, e)) with (Some (parts_of d e)).
    change (prov_of (Some d, e)) with (mkprov (d_above d) (d_inline d) (d_below d) e).
    cbn [nearest_part nearest]. rewrite IH. unfold str_nonempty, parts_of.
    destruct p; cbn [get_part sel_of p_above p_inline p_below p_cls w_above w_inline w_below w_entry];
      destruct (String.eqb _ ""); reflexivity.
  - change (scan_of (None, e)) with (if str_nonempty e then Some (mkparts "" "" "" e) else None).
    change (prov_of (None, e)) with (mkprov "" "" "" e).
    unfold str_nonempty. destruct (String.eqb e "") eqn:Ee; cbn [negb nearest_part nearest]; rewrite IH.
    + apply String.eqb_eq in Ee. subst e. destruct p; reflexivity.
    + unfold str_nonempty.
      destruct p; cbn [get_part sel_of p_above p_inline p_below p_cls w_above w_inline w_below w_entry];
        rewrite ?Ee; reflexivity.
Qed.

(* each kind of documentation comes from the nearest class of the chain that PROVIDES it - next to its own
   declaration of the field, or in its class docstring (whether or not it re-declares the field) *)
Theorem nearest_class_spec chain :
  parts_prov (result_of (acc_pure_gen (map scan_of chain) None)) = spec_parts (map prov_of chain).
Proof.
  unfold spec_parts.
  pose proof (nearest_matches PAbove chain) as E1. pose proof (nearest_matches PInline chain) as E2.
  pose proof (nearest_matches PBelow chain) as E3. pose proof (nearest_matches PCls chain) as E4.
  cbn [sel_of] in E1, E2, E3, E4. rewrite <- E1, <- E2, <- E3, <- E4.
  rewrite <- !nearest_class. unfold parts_prov. reflexivity.
Qed.

(* ----- the lru_cache: the accumulated object is a COPY, cached objects are never modified, so every query -
   whatever was asked before, whatever the shape of the hierarchy - is answered as on a fresh cache ----- *)
Lemma cache_get_set_other st k v k' : k' <> k -> cache_get (cache_set st k v) k' = cache_get st k'.
Proof.
  intros Hne. induction st as [|[n w] r IH]; simpl.
  - destruct (String.eqb k k') eqn:E; [apply String.eqb_eq in E; congruence | reflexivity].
  - destruct (String.eqb n k) eqn:E; simpl.
    + apply String.eqb_eq in E. subst n.
      destruct (String.eqb k k') eqn:E2; [apply String.eqb_eq in E2; congruence | reflexivity].
    + destruct (String.eqb n k'); [reflexivity | exact IH].
Qed.

Lemma cache_get_set_same st k v : cache_get (cache_set st k v) k = Some v.
Proof.
  induction st as [|[n w] r IH]; simpl.
  - now rewrite String.eqb_refl.
  - destruct (String.eqb n k) eqn:E; simpl; rewrite E; [reflexivity | exact IH].
Qed.

Definition pure_result (scan : string -> option parts) (mro : list string) : parts :=
  result_of (acc_pure_gen (map scan mro) None).

Section Cache.
  Variable scan : string -> option parts.

  (* every cached object is the class's own scan result *)
  Definition clean (st : cache) : Prop := forall k v, cache_get st k = Some v -> v = scan k.

  Lemma fetch_clean st k : clean st -> fst (fetch CACHED scan st k) = scan k /\ clean (snd (fetch CACHED scan st k)).
  Proof.
    intros Hc. unfold fetch. destruct CACHED; [|split; [reflexivity | exact Hc]].
    destruct (cache_get st k) as [v|] eqn:E; cbn [fst snd].
    - split; [now apply Hc | exact Hc].
    - split; [reflexivity|]. intros k' v' H.
      destruct (string_dec k' k) as [->|Hne].
      + rewrite cache_get_set_same in H. now injection H as <-.
      + rewrite cache_get_set_other in H by exact Hne. now apply Hc.
  Qed.

  Lemma acc_loop_clean mro : forall created st, clean st ->
    option_map snd (fst (acc_loop ACC_PARTS true CACHED scan mro created st))
      = acc_pure_gen (map scan mro) (option_map snd created)
    /\ clean (snd (acc_loop ACC_PARTS true CACHED scan mro created st)).
  Proof.
    unfold acc_pure_gen.
    induction mro as [|k r IH]; intros created st Hc; [split; [reflexivity | exact Hc]|].
    cbn [acc_loop map acc_pure].
    destruct (fetch_clean st k Hc) as [F1 F2]. destruct (fetch CACHED scan st k) as [v st1]. cbn [fst snd] in F1, F2.
    subst v. destruct (scan k) as [d|].
    - destruct created as [[k0 c]|]; cbn [option_map snd].
      + exact (IH (Some (k0, merge ACC_PARTS c d)) st1 F2).
      + exact (IH (Some (k, d)) st1 F2).
    - apply (IH created st1 F2).
  Qed.

  Lemma get_doc_clean mro st : clean st ->
    fst (get_doc_gen scan mro st) = pure_result scan mro /\ clean (snd (get_doc_gen scan mro st)).
  Proof.
    intros Hc. unfold get_doc_gen, get_doc. rewrite fix_alias_on.
    destruct (acc_loop_clean mro None st Hc) as [A B]. cbn [option_map] in A.
    destruct (acc_loop ACC_PARTS true CACHED scan mro None st) as [[[k0 c]|] st']; cbn [fst snd option_map] in *;
      (split; [unfold pure_result; rewrite <- A; reflexivity | exact B]).
  Qed.

  Lemma run_queries_clean qs : forall st, clean st ->
    run_queries_gen scan qs st = map (pure_result scan) qs.
  Proof.
    unfold run_queries_gen.
    induction qs as [|q r IH]; intros st Hc; [reflexivity|].
    destruct (get_doc_clean q st Hc) as [Q1 Q2]. unfold get_doc_gen in Q1, Q2.
    cbn [run_queries map]. destruct (get_doc ACC_PARTS FIX_ALIAS CACHED scan q st) as [d st'].
    cbn [fst snd] in Q1, Q2. rewrite Q1. f_equal. now apply IH.
  Qed.
End Cache.

Lemma clean_nil scan : clean scan [].
Proof. intros k v H. discriminate H. Qed.

(* a query is the pure accumulation over the MRO *)
Theorem get_doc_pure scan mro : fst (get_doc_gen scan mro []) = pure_result scan mro.
Proof. exact (proj1 (get_doc_clean scan mro [] (clean_nil scan))). Qed.

(* and it does not depend on what was queried before: any classes, any hierarchy, any order *)
Theorem history_independent scan qs :
  run_queries_gen scan qs [] = map (fun mro => fst (get_doc_gen scan mro [])) qs.
Proof.
  rewrite (run_queries_clean scan qs [] (clean_nil scan)).
  apply map_ext. intros q. symmetry. apply get_doc_pure.
Qed.

(* ----- what the argparse action is given (FieldWrapper.get_arg_options, regenerated if-chain) ----- *)
Lemma bridge_token : TEMPORARY_TOKEN = PLACEHOLDER.
Proof. reflexivity. Qed.

(* the functions whose results are oracle inputs of the model are the ones the correspondence run calls *)
Lemma bridge_oracles :
  ORACLES = [("dp_parse", "dp.parse"); ("inspect_getsource", "inspect.getsource"); ("inspect_getdoc", "inspect.getdoc")].
Proof. reflexivity. Qed.

Lemma spec_help_nonempty explicit p s : spec_help explicit p = Some s -> str_nonempty s = true.
Proof.
  unfold spec_help.
  set (l := (match explicit with Some h => h | None => "" end) :: [w_below p; w_above p; w_inline p; w_entry p]).
  destruct (filter (fun s0 => negb (String.eqb s0 "")) l) as [|x r] eqn:E; [discriminate|].
  intros H. injection H as <-.
  assert (Hin : In x (filter (fun s0 => negb (String.eqb s0 "")) l)) by (rewrite E; now left).
  apply filter_In in Hin as [_ Hx]. exact Hx.
Qed.

(* the action receives exactly the demanded help text; without one, nothing but the placeholder that the help
   formatter erases (and only when there is a default to print) *)
Theorem action_help_spec explicit d hd :
  action_help_gen (help_gen explicit d) hd
  = match spec_help explicit (parts_prov d) with
    | Some s => Some s
    | None => if hd then Some PLACEHOLDER else None
    end.
Proof.
  rewrite help_precedence. unfold action_help_gen, ACTION_HELP_TABLE. cbn [action_help].
  destruct (spec_help explicit (parts_prov d)) as [s|] eqn:E.
  - now rewrite (spec_help_nonempty _ _ _ E).
  - rewrite bridge_token. destruct hd; reflexivity.
Qed.

Theorem action_help_allowed explicit d hd :
  spec_action_help (spec_help explicit (parts_prov d)) (action_help_gen (help_gen explicit d) hd) = true.
Proof.
  rewrite action_help_spec. destruct (spec_help explicit (parts_prov d)) as [s|]; simpl.
  - apply String.eqb_refl.
  - destruct hd; reflexivity.
Qed.

(* FieldWrapper.arg_options lays metadata['custom_args'] (field(help=..)) over the generated options *)
Definition custom_ok (c : option string) : bool := match c with Some h => str_nonempty h | None => true end.

Theorem shown_help_spec custom explicit d hd :
  custom_ok custom = true ->
  final_help_gen custom (action_help_gen (help_gen explicit d) hd)
  = match spec_help (explicit_help custom explicit) (parts_prov d) with
    | Some s => Some s
    | None => if hd then Some PLACEHOLDER else None
    end.
Proof.
  intros Hc. unfold final_help_gen, final_help, CUSTOM_OVERRIDES. destruct custom as [c|].
  - simpl in Hc. unfold explicit_help, spec_help. cbn [filter]. unfold str_nonempty in Hc. now rewrite Hc.
  - apply action_help_spec.
Qed.

(* an EMPTY help= given to field() still replaces the documentation *)
Theorem shown_help_refuted :
  exists custom explicit d hd,
    final_help_gen custom (action_help_gen (help_gen explicit d) hd)
    <> match spec_help (explicit_help custom explicit) (parts_prov d) with
       | Some s => Some s
       | None => if hd then Some PLACEHOLDER else None
       end.
Proof. exists (Some ""), None, (mkparts "" "" "docstring below" ""), true. vm_compute. discriminate. Qed.
