(* Proofs/LayersProofs.v *)
From SPV Require Import Base.Str Model.Layers Model.LayersSpec Gen.FactsLayers.

(* ---------- induction principles for the two nested trees ---------- *)
Section PtreeInd.
  Variable P : ptree -> Prop.
  Hypothesis Hnull : P PNull.
  Hypothesis Hval : forall v, P (PVal v).
  Hypothesis Hmap : forall m, Forall (fun kv => P (snd kv)) m -> P (PMap m).
  Fixpoint ptree_ind2 (t : ptree) : P t :=
    match t with
    | PNull => Hnull
    | PVal v => Hval v
    | PMap m => Hmap m ((fix go (m : list (string * ptree)) : Forall (fun kv => P (snd kv)) m :=
                           match m with
                           | [] => Forall_nil _
                           | kv :: r => Forall_cons kv (ptree_ind2 (snd kv)) (go r)
                           end) m)
    end.
End PtreeInd.

Section WtreeInd.
  Variable P : wtree -> Prop.
  Hypothesis Hleaf : forall o d i c, P (WLeaf o d i c).
  Hypothesis Hclass : forall cm fs, Forall (fun kc => P (snd kc)) fs -> P (WClass cm fs).
  Fixpoint wtree_ind2 (w : wtree) : P w :=
    match w with
    | WLeaf o d i c => Hleaf o d i c
    | WClass cm fs => Hclass cm fs ((fix go (fs : list (string * wtree)) : Forall (fun kc => P (snd kc)) fs :=
                                 match fs with
                                 | [] => Forall_nil _
                                 | kc :: r => Forall_cons kc (wtree_ind2 (snd kc)) (go r)
                                 end) fs)
    end.
End WtreeInd.

(* ---------- association lists ---------- *)
Lemma lookup_In {A} k (m : list (string * A)) v : lookup k m = Some v -> In (k, v) m.
Proof.
  induction m as [|[k' v'] r IH]; simpl; [discriminate|].
  destruct (String.eqb k k') eqn:E.
  - apply String.eqb_eq in E. subst. intros H. injection H as ->. now left.
  - intros H. right. now apply IH.
Qed.

Lemma lookup_none_keys {A} k (m : list (string * A)) : lookup k m = None <-> str_in k (keys m) = false.
Proof.
  induction m as [|[k' v'] r IH]; simpl; [tauto|].
  destruct (String.eqb k k'); simpl; [split; discriminate | exact IH].
Qed.

Lemma lookup_app {A} k (a b : list (string * A)) :
  lookup k (a ++ b) = match lookup k a with Some v => Some v | None => lookup k b end.
Proof.
  induction a as [|[k' v'] r IH]; simpl; [reflexivity|].
  destruct (String.eqb k k'); [reflexivity | exact IH].
Qed.

Lemma lookup_filter_notin {A} k (x : list string) (y : list (string * A)) :
  lookup k (filter (fun kv => negb (str_in (fst kv) x)) y) = if str_in k x then None else lookup k y.
Proof.
  induction y as [|[k' v'] r IH]; simpl; [now destruct (str_in k x)|].
  destruct (str_in k' x) eqn:Ex; simpl.
  - rewrite IH. destruct (String.eqb k k') eqn:E; [|reflexivity].
    apply String.eqb_eq in E. subst. now rewrite Ex.
  - destruct (String.eqb k k') eqn:E; [|exact IH].
    apply String.eqb_eq in E. subst. now rewrite Ex.
Qed.

(* ---------- dict_union ---------- *)
(* the regenerated loop body and final test give this decision table (finite side condition) *)
Lemma du_table :
  du_decide_gen [true; true] = DUnion [0; 1] /\ du_decide_gen [false; false] = DValue (Some 1)
  /\ du_decide_gen [true; false] = DValue (Some 1) /\ du_decide_gen [false; true] = DValue (Some 0).
Proof. vm_compute. repeat split; reflexivity. Qed.

Definition du_merge (ta tb : ptree) : ptree :=
  match du_decide_gen [is_map ta; is_map tb] with
  | DUnion [0; 1] => dict_union_gen ta tb
  | DUnion [0] | DValue (Some 0) => ta
  | DUnion [1] | DValue (Some 1) => tb
  | _ => PNull
  end.

Fixpoint du_go (y x : list (string * ptree)) : list (string * ptree) :=
  match x with
  | [] => []
  | (k, ta) :: r => (k, match lookup k y with None => ta | Some tb => du_merge ta tb end) :: du_go y r
  end.

Lemma du_maps x y :
  dict_union_gen (PMap x) (PMap y) = PMap (du_go y x ++ filter (fun kv => negb (str_in (fst kv) (keys x))) y).
Proof.
  unfold dict_union_gen. cbn [du]. f_equal. f_equal.
  induction x as [|[k ta] r IH]; [reflexivity|]. cbn [du_go]. rewrite <- IH. reflexivity.
Qed.

Lemma lookup_du_go k y x :
  lookup k (du_go y x) =
  match lookup k x with
  | None => None
  | Some ta => Some (match lookup k y with None => ta | Some tb => du_merge ta tb end)
  end.
Proof.
  induction x as [|[k' ta] r IH]; simpl; [reflexivity|].
  destruct (String.eqb k k') eqn:E; [|exact IH].
  apply String.eqb_eq in E. subst. reflexivity.
Qed.

Lemma du_merge_maps x y : du_merge (PMap x) (PMap y) = dict_union_gen (PMap x) (PMap y).
Proof. unfold du_merge. cbn [is_map]. destruct du_table as [-> _]. reflexivity. Qed.
Lemma du_merge_leaves ta tb : is_map ta = false -> is_map tb = false -> du_merge ta tb = tb.
Proof. intros Ha Hb. unfold du_merge. rewrite Ha, Hb. destruct du_table as [_ [-> _]]. reflexivity. Qed.
Lemma du_merge_leaf_map ta tb : is_map ta = false -> is_map tb = true -> du_merge ta tb = ta.
Proof. intros Ha Hb. unfold du_merge. rewrite Ha, Hb. destruct du_table as [_ [_ [_ ->]]]. reflexivity. Qed.

Lemma leaf_lookup_cons k r m :
  leaf_lookup (k :: r) (PMap m) = match lookup k m with Some c => leaf_lookup r c | None => None end.
Proof. unfold leaf_lookup. cbn [subtree]. destruct (lookup k m); reflexivity. Qed.

Lemma leaf_lookup_nonmap_cons k r t : is_map t = false -> leaf_lookup (k :: r) t = None.
Proof. destruct t; [reflexivity | reflexivity | discriminate]. Qed.

Lemma compatible_maps x y :
  compatible (PMap x) (PMap y) = true ->
  forall k ta tb, lookup k x = Some ta -> lookup k y = Some tb -> compatible ta tb = true.
Proof.
  cbn [compatible]. induction x as [|[k' t'] r IH]; intros H k ta tb Hx Hy; [discriminate|].
  apply andb_true_iff in H as [H1 H2]. simpl in Hx.
  destruct (String.eqb k k') eqn:E.
  - apply String.eqb_eq in E. subst. injection Hx as ->. rewrite Hy in H1. exact H1.
  - eapply IH; eassumption.
Qed.

Theorem dict_union_lookup a : forall b p,
  compatible a b = true ->
  leaf_lookup p (dict_union_gen a b) = orelse (leaf_lookup p b) (leaf_lookup p a).
Proof.
  induction a as [| v | x IH] using ptree_ind2; intros b p Hc.
  - destruct b as [| w | y]; try discriminate; destruct p; reflexivity.
  - destruct b as [| w | y]; try discriminate; destruct p; reflexivity.
  - destruct b as [| w | y]; try discriminate.
    destruct p as [|k r]; [reflexivity|].
    rewrite du_maps, !leaf_lookup_cons, lookup_app, lookup_du_go, lookup_filter_notin.
    destruct (lookup k x) as [ta|] eqn:Ex.
    + destruct (lookup k y) as [tb|] eqn:Ey.
      * assert (Hct := compatible_maps x y Hc k ta tb Ex Ey).
        apply lookup_In in Ex. rewrite Forall_forall in IH. specialize (IH _ Ex). cbn [snd] in IH.
        destruct ta as [| va | xa]; destruct tb as [| vb | yb]; try discriminate Hct;
          try (rewrite du_merge_leaves by reflexivity; destruct r; reflexivity).
        rewrite du_merge_maps. apply IH. exact Hct.
      * destruct (leaf_lookup r ta); reflexivity.
    + apply lookup_none_keys in Ex. rewrite Ex. destruct (lookup k y) as [tb|]; [|reflexivity].
      destruct (leaf_lookup r tb); reflexivity.
Qed.

Lemma du_go_nil x : du_go [] x = x.
Proof. induction x as [|[k t] r IH]; simpl; [reflexivity | now rewrite IH]. Qed.

Lemma du_empty_r x : dict_union_gen (PMap x) (PMap []) = PMap x.
Proof. rewrite du_maps. simpl. now rewrite du_go_nil, app_nil_r. Qed.

Lemma du_reroot d f : dict_union_gen (PMap [(d, f)]) (PMap [(d, PMap [])]) = PMap [(d, f)].
Proof.
  rewrite du_maps. cbn [du_go lookup keys map fst filter str_in existsb]. rewrite String.eqb_refl. cbn [negb orb app].
  do 3 f_equal. destruct f as [| v | x].
  - now apply du_merge_leaf_map.
  - now apply du_merge_leaf_map.
  - rewrite du_merge_maps. apply du_empty_r.
Qed.

(* ---------- wrappers: unfolding the nested fixpoints ---------- *)
Definition upd (c : ptree) (m : option ptree) : ptree := match m with Some v => v | None => c end.

Fixpoint sdt_go (m : list (string * ptree)) (fs : list (string * wtree)) : res (list (string * wtree)) :=
  match fs with
  | [] => Ok []
  | (k, c) :: r =>
      match lookup k m with
      | None => match sdt_go m r with Ok r' => Ok ((k, c) :: r') | Err e => Err e end
      | Some tk =>
          match set_default_tree_gen c tk with
          | Err e => Err e
          | Ok c' => match sdt_go m r with Ok r' => Ok ((k, c') :: r') | Err e => Err e end
          end
      end
  end.

Definition names_known (fs : list (string * wtree)) (m : list (string * ptree)) : bool :=
  forallb (fun k => str_in k (keys fs) || str_in k DISCARD_GEN) (keys m).

Lemma sdt_class cm fs m :
  set_default_tree_gen (WClass cm fs) (PMap m) =
  match sdt_go m fs with
  | Err e => Err e
  | Ok fs' => if names_known fs m then Ok (WClass (cm_set cm true) fs') else Err (Raise UNKNOWN_ERR_GEN)
  end.
Proof.
  unfold set_default_tree_gen. cbn [set_default_tree].
  replace ((fix go (fs0 : list (string * wtree)) : res (list (string * wtree)) :=
              match fs0 with
              | [] => Ok []
              | (k, c) :: r =>
                  match lookup k m with
                  | Some tk =>
                      match set_default_tree DISCARD_GEN UNKNOWN_ERR_GEN c tk with
                      | Ok c' => match go r with Ok r' => Ok ((k, c') :: r') | Err e => Err e end
                      | Err e => Err e
                      end
                  | None => match go r with Ok r' => Ok ((k, c) :: r') | Err e => Err e end
                  end
              end) fs) with (sdt_go m fs); [reflexivity|].
  induction fs as [|[k c] r IH]; [reflexivity|]. cbn [sdt_go]. rewrite IH. reflexivity.
Qed.

Lemma sdt_go_lookup m fs : forall fs' k c,
  sdt_go m fs = Ok fs' -> lookup k fs = Some c ->
  exists c', lookup k fs' = Some c' /\
             match lookup k m with None => c' = c | Some tk => set_default_tree_gen c tk = Ok c' end.
Proof.
  induction fs as [|[k0 c0] r IH]; intros fs' k c H Hl; [discriminate|].
  cbn [sdt_go] in H. cbn [lookup] in Hl.
  destruct (lookup k0 m) as [tk|] eqn:Em.
  - destruct (set_default_tree_gen c0 tk) as [c0'|e] eqn:Es; [|discriminate].
    destruct (sdt_go m r) as [r'|e] eqn:Er; [|discriminate]. injection H as <-.
    cbn [lookup]. destruct (String.eqb k k0) eqn:E.
    + apply String.eqb_eq in E. subst. injection Hl as <-. exists c0'. rewrite Em. split; [reflexivity | exact Es].
    + eapply IH; [reflexivity | exact Hl].
  - destruct (sdt_go m r) as [r'|e] eqn:Er; [|discriminate]. injection H as <-.
    cbn [lookup]. destruct (String.eqb k k0) eqn:E.
    + apply String.eqb_eq in E. subst. injection Hl as <-. exists c0. rewrite Em. split; reflexivity.
    + eapply IH; [reflexivity | exact Hl].
Qed.

Lemma sdt_go_keys m fs : forall fs', sdt_go m fs = Ok fs' -> keys fs' = keys fs.
Proof.
  induction fs as [|[k0 c0] r IH]; intros fs' H; cbn [sdt_go] in H.
  - injection H as <-. reflexivity.
  - destruct (lookup k0 m) as [tk|].
    + destruct (set_default_tree_gen c0 tk); [|discriminate].
      destruct (sdt_go m r) as [r'|]; [|discriminate]. injection H as <-. simpl. f_equal. now apply IH.
    + destruct (sdt_go m r) as [r'|]; [|discriminate]. injection H as <-. simpl. f_equal. now apply IH.
Qed.

(* DataclassWrapper.set_default, path by path: a leaf's _default becomes whatever the document has at its path;
   a leaf the document does not reach keeps its _default *)
Lemma sdt_leaf_at w : forall t w' q o d i c,
  set_default_tree_gen w t = Ok w' ->
  leaf_at q w = Some (o, d, i, c) ->
  leaf_at q w' = Some (o, d, i, upd c (subtree q t)).
Proof.
  induction w as [o0 d0 i0 c0 | cm fs IH] using wtree_ind2; intros t w' q o d i c H Hl.
  - destruct q; [|discriminate]. injection Hl as <- <- <- <-.
    unfold set_default_tree_gen in H. cbn in H. injection H as <-. reflexivity.
  - destruct q as [|k r]; [discriminate|]. destruct cm as [|ds di]; [|discriminate]. cbn [leaf_at] in Hl.
    destruct (lookup k fs) as [ch|] eqn:Ek; [|discriminate].
    destruct t as [| v | m].
    + unfold set_default_tree_gen in H. cbn in H. injection H as <-. cbn [leaf_at subtree upd]. rewrite Ek. exact Hl.
    + unfold set_default_tree_gen in H. cbn in H. discriminate.
    + rewrite sdt_class in H. destruct (sdt_go m fs) as [fs'|e] eqn:Eg; [|discriminate].
      destruct (names_known fs m); [|discriminate]. injection H as <-.
      destruct (sdt_go_lookup m fs fs' k ch Eg Ek) as [c' [Hc' Hm]].
      cbn [leaf_at subtree]. rewrite Hc'.
      destruct (lookup k m) as [tk|] eqn:Em.
      * apply lookup_In in Ek. rewrite Forall_forall in IH. apply (IH _ Ek tk c' r o d i c Hm Hl).
      * subst c'. exact Hl.
Qed.

(* ---------- init_instance ---------- *)
Fixpoint init_go (m : list (string * ptree)) (fs : list (string * wtree)) : list (string * wtree) :=
  match fs with
  | [] => []
  | (k, c) :: r => (k, match lookup k m with Some tk => init_instance c tk | None => c end) :: init_go m r
  end.

Lemma init_class cm fs m :
  init_instance (WClass cm fs) (PMap m) = WClass (match cm with CPlain => CPlain | COpt _ _ => COpt true true end) (init_go m fs).
Proof.
  cbn [init_instance]. f_equal. induction fs as [|[k c] r IH]; [reflexivity|]. cbn [init_go]. rewrite <- IH. reflexivity.
Qed.

Lemma init_go_lookup m fs k :
  lookup k (init_go m fs) =
  match lookup k fs with
  | None => None
  | Some c => Some (match lookup k m with Some tk => init_instance c tk | None => c end)
  end.
Proof.
  induction fs as [|[k0 c0] r IH]; [reflexivity|]. cbn [init_go lookup].
  destruct (String.eqb k k0) eqn:E; [|exact IH]. apply String.eqb_eq in E. subst. reflexivity.
Qed.

Definition init_info (x : leaf_info) (m : option ptree) : leaf_info :=
  match x, m with
  | (o, d, _, _), Some v => (o, d, Some v, v)
  | _, None => x
  end.

Lemma init_leaf_at w : forall t q x,
  leaf_at q w = Some x -> leaf_at q (init_instance w t) = Some (init_info x (subtree q t)).
Proof.
  induction w as [o0 d0 i0 c0 | cm fs IH] using wtree_ind2; intros t q x Hl.
  - destruct q; [|discriminate]. injection Hl as <-. reflexivity.
  - destruct q as [|k r]; [discriminate|]. destruct cm as [|ds di]; [|discriminate]. cbn [leaf_at] in Hl.
    destruct (lookup k fs) as [ch|] eqn:Ek; [|discriminate].
    destruct t as [| v | m].
    { cbn [init_instance leaf_at subtree init_info]. rewrite Ek. destruct x as [[[? ?] ?] ?]. exact Hl. }
    { cbn [init_instance leaf_at subtree init_info]. rewrite Ek. destruct x as [[[? ?] ?] ?]. exact Hl. }
    rewrite init_class. cbn [leaf_at subtree]. rewrite init_go_lookup, Ek.
    destruct (lookup k m) as [tk|] eqn:Em.
    + apply lookup_In in Ek. rewrite Forall_forall in IH. apply (IH _ Ek tk r x Hl).
    + destruct x as [[[? ?] ?] ?]. exact Hl.
Qed.

(* ---------- finish ---------- *)
Definition child_cli (cli : option ptree) (k : string) : option ptree :=
  match cli with Some (PMap m) => lookup k m | _ => None end.
Definition osub (q : path) (cli : option ptree) : option ptree :=
  match cli with Some t => subtree q t | None => None end.

Fixpoint fin_go (b : bool) (cli : option ptree) (fs : list (string * wtree)) : res (list (string * ptree)) :=
  match fs with
  | [] => Ok []
  | (k, c) :: r =>
      match finish_gen b c (child_cli cli k) with
      | Err e => Err e
      | Ok v => match fin_go b cli r with Ok r' => Ok ((k, v) :: r') | Err e => Err e end
      end
  end.

Lemma finish_class b cm fs cli :
  finish_gen b (WClass cm fs) cli =
  match fin_go (b || is_copt cm) cli fs with
  | Err e => Err e
  | Ok kvs =>
      match cm with
      | COpt ds di => if opt_guard_gen true ds di && all_at_default manual_set_gen fs kvs then Ok PNull else Ok (PMap kvs)
      | CPlain => Ok (PMap kvs)
      end
  end.
Proof.
  unfold finish_gen. cbn [finish].
  replace ((fix go (fs0 : list (string * wtree)) : res (list (string * ptree)) :=
              match fs0 with
              | [] => Ok []
              | (k, c) :: r =>
                  match finish manual_set_gen opt_guard_gen (b || is_copt cm) c match cli with Some (PMap m) => lookup k m | _ => None end with
                  | Ok v => match go r with Ok r' => Ok ((k, v) :: r') | Err e => Err e end
                  | Err e => Err e
                  end
              end) fs) with (fin_go (b || is_copt cm) cli fs); [reflexivity|].
  induction fs as [|[k c] r IH]; [reflexivity|]. cbn [fin_go]. rewrite IH. reflexivity.
Qed.

Lemma fin_go_lookup b cli fs : forall kvs k c,
  fin_go b cli fs = Ok kvs -> lookup k fs = Some c ->
  exists v, lookup k kvs = Some v /\ finish_gen b c (child_cli cli k) = Ok v.
Proof.
  induction fs as [|[k0 c0] r IH]; intros kvs k c H Hl; [discriminate|].
  cbn [fin_go] in H. cbn [lookup] in Hl.
  destruct (finish_gen b c0 (child_cli cli k0)) as [v0|e] eqn:Ef; [|discriminate].
  destruct (fin_go b cli r) as [r'|e] eqn:Er; [|discriminate]. injection H as <-.
  cbn [lookup]. destruct (String.eqb k k0) eqn:E.
  - apply String.eqb_eq in E. subst. injection Hl as <-. exists v0. split; [reflexivity | exact Ef].
  - eapply IH; [reflexivity | exact Hl].
Qed.

Lemma osub_cons k r cli : osub (k :: r) cli = osub r (child_cli cli k).
Proof.
  unfold osub, child_cli. destruct cli as [[| v | m]|]; reflexivity.
Qed.

(* what a parsed field holds: the option written on the command line, else FieldWrapper.default *)
Lemma finish_leaf_at w : forall b cli r q o d i c,
  finish_gen b w cli = Ok r ->
  leaf_at q w = Some (o, d, i, c) ->
  subtree q r = Some (match osub q cli with Some v => v | None => leaf_default_gen d i c end).
Proof.
  induction w as [o0 d0 i0 c0 | cm fs IH] using wtree_ind2; intros b cli r q o d i c H Hl.
  - destruct q; [|discriminate]. injection Hl as <- <- <- <-.
    unfold finish_gen in H. cbn [finish] in H. cbn [subtree osub].
    destruct cli as [v|]; cbn [osub subtree].
    + injection H as <-. reflexivity.
    + destruct (negb b && leaf_required manual_set_gen o0 d0 i0 c0); [discriminate|]. injection H as <-. reflexivity.
  - destruct q as [|k q']; [discriminate|]. destruct cm as [|ds di]; [|discriminate]. cbn [leaf_at] in Hl.
    destruct (lookup k fs) as [ch|] eqn:Ek; [|discriminate].
    rewrite finish_class in H. destruct (fin_go _ cli fs) as [kvs|e] eqn:Eg; [|discriminate]. injection H as <-.
    destruct (fin_go_lookup _ cli fs kvs k ch Eg Ek) as [v [Hv Hf]].
    cbn [subtree]. rewrite Hv, osub_cons.
    apply lookup_In in Ek. rewrite Forall_forall in IH. apply (IH _ Ek _ _ _ _ _ _ _ _ Hf Hl).
Qed.

(* ---------- the parser ---------- *)
Definition fleaf_at (q : path) (ws : list (string * wtree)) : option leaf_info :=
  match q with
  | d :: p => match lookup d ws with Some w => leaf_at p w | None => None end
  | [] => None
  end.

Lemma sdw_cons d w r kw :
  sd_wrappers_gen ((d, w) :: r) kw =
  match lookup d kw with
  | None => match sd_wrappers_gen r kw with Ok (r', s) => Ok ((d, w) :: r', s) | Err e => Err e end
  | Some (PMap m) =>
      match set_default_tree_gen w (PMap m) with
      | Err e => Err e
      | Ok w' => match sd_wrappers_gen r kw with Ok (r', s) => Ok ((d, w') :: r', (d, PMap m) :: s) | Err e => Err e end
      end
  | Some (PVal (VStr _)) => Err (Raise "FileNotFoundError")
  | Some _ => Err (Raise "ValueError")
  end.
Proof. reflexivity. Qed.

Lemma sdw_keys ws : forall m ws' s, sd_wrappers_gen ws m = Ok (ws', s) -> keys ws' = keys ws.
Proof.
  induction ws as [|[d0 w0] r IH]; intros m ws' s H.
  - cbn in H. injection H as <- <-. reflexivity.
  - rewrite sdw_cons in H. destruct (lookup d0 m) as [sec|].
    + destruct sec as [| v | m']; [discriminate | destruct v; discriminate |].
      destruct (set_default_tree_gen w0 (PMap m')); [|discriminate].
      destruct (sd_wrappers_gen r m) as [[r' s']|] eqn:Er; [|discriminate]. injection H as <- <-.
      cbn [keys map fst]. f_equal. apply (IH _ _ _ Er).
    + destruct (sd_wrappers_gen r m) as [[r' s']|] eqn:Er; [|discriminate]. injection H as <- <-.
      cbn [keys map fst]. f_equal. apply (IH _ _ _ Er).
Qed.

Lemma sdw_leaf_at ws : forall m ws' s q o d i c,
  sd_wrappers_gen ws m = Ok (ws', s) -> fleaf_at q ws = Some (o, d, i, c) ->
  fleaf_at q ws' = Some (o, d, i, upd c (subtree q (PMap m))).
Proof.
  induction ws as [|[d0 w0] r IH]; intros m ws' s q o d i c H Hl.
  - destruct q; discriminate.
  - destruct q as [|dq p]; [discriminate|]. rewrite sdw_cons in H.
    cbn [fleaf_at lookup] in Hl.
    destruct (lookup d0 m) as [sec|] eqn:Em.
    + destruct sec as [| v | m']; [discriminate | destruct v; discriminate |].
      destruct (set_default_tree_gen w0 (PMap m')) as [w0'|e] eqn:Es; [|discriminate].
      destruct (sd_wrappers_gen r m) as [[r' s']|e] eqn:Er; [|discriminate]. injection H as <- <-.
      cbn [fleaf_at lookup].
      destruct (String.eqb dq d0) eqn:E.
      * apply String.eqb_eq in E. subst dq. cbn [subtree]. rewrite Em.
        apply (sdt_leaf_at _ _ _ _ _ _ _ _ Es Hl).
      * apply (IH m r' s' (dq :: p) o d i c Er). cbn [fleaf_at]. exact Hl.
    + destruct (sd_wrappers_gen r m) as [[r' s']|e] eqn:Er; [|discriminate]. injection H as <- <-.
      cbn [fleaf_at lookup].
      destruct (String.eqb dq d0) eqn:E.
      * apply String.eqb_eq in E. subst dq. cbn [subtree]. rewrite Em. exact Hl.
      * apply (IH m r' s' (dq :: p) o d i c Er). cbn [fleaf_at]. exact Hl.
Qed.

Lemma sdk_unfold st kw :
  set_defaults_kwargs_gen st kw =
  match kw with
  | PMap m => match sd_wrappers_gen (ps_ws st) m with
              | Ok (ws', s) => Ok (mk_pstate ws' (dict_union_gen (ps_ca st) (PMap s)))
              | Err e => Err e
              end
  | _ => Ok st
  end.
Proof. reflexivity. Qed.

Lemma fleaf_at_nonempty q ws x : fleaf_at q ws = Some x -> q <> [].
Proof. destruct q; [discriminate | discriminate]. Qed.

Lemma sdk_leaf_at st kw st' q o d i c :
  set_defaults_kwargs_gen st kw = Ok st' -> fleaf_at q (ps_ws st) = Some (o, d, i, c) ->
  fleaf_at q (ps_ws st') = Some (o, d, i, upd c (subtree q kw)) /\ keys (ps_ws st') = keys (ps_ws st).
Proof.
  intros H Hl. rewrite sdk_unfold in H. destruct kw as [| v | m].
  - injection H as <-. destruct q; [discriminate|]. split; [exact Hl | reflexivity].
  - injection H as <-. destruct q; [discriminate|]. split; [exact Hl | reflexivity].
  - destruct (sd_wrappers_gen (ps_ws st) m) as [[ws' s]|e] eqn:E; [|discriminate]. injection H as <-. cbn [ps_ws].
    split; [apply (sdw_leaf_at _ _ _ _ _ _ _ _ _ E Hl) | apply (sdw_keys _ _ _ _ E)].
Qed.

Lemma sdk_keys st kw st' : set_defaults_kwargs_gen st kw = Ok st' -> keys (ps_ws st') = keys (ps_ws st).
Proof.
  intros H. rewrite sdk_unfold in H. destruct kw as [| v | m]; try (injection H as <-; reflexivity).
  destruct (sd_wrappers_gen (ps_ws st) m) as [[ws' s]|e] eqn:E; [|discriminate]. injection H as <-. apply (sdw_keys _ _ _ _ E).
Qed.

Definition file_kwargs (nm : nmode) (ws : list (string * wtree)) : ptree :=
  if reroot_gen nm (List.length ws) then match ws with (d, _) :: _ => PMap [(d, PMap [])] | [] => PMap [] end else PMap [].

Lemma sdf_unfold nm st f :
  set_defaults_file_gen nm st f =
  set_defaults_kwargs_gen st (dict_union_gen (rooted_gen nm (ps_ws st) f) (file_kwargs nm (ps_ws st))).
Proof. reflexivity. Qed.

(* the union with the (empty) keyword arguments gives the document back *)
Lemma file_kw nm ws f : is_map f = true -> dict_union_gen (rooted_gen nm ws f) (file_kwargs nm ws) = rooted_gen nm ws f.
Proof.
  intros Hf. unfold rooted_gen, rooted, file_kwargs. destruct (reroot_gen nm (List.length ws)).
  - destruct ws as [|[d w] r].
    + destruct f; try discriminate. apply du_empty_r.
    + apply du_reroot.
  - destruct f; try discriminate. apply du_empty_r.
Qed.

Lemma rooted_keys nm ws ws' f : keys ws = keys ws' -> rooted_gen nm ws f = rooted_gen nm ws' f.
Proof.
  intros H. unfold rooted_gen, rooted.
  assert (L : List.length ws = List.length ws') by (rewrite <- (map_length fst ws), <- (map_length fst ws'); exact (f_equal (@List.length string) H)).
  rewrite L. destruct ws as [|[d w] r], ws' as [|[d' w'] r']; try discriminate; [reflexivity|].
  injection H as -> _. reflexivity.
Qed.

Lemma sdf_leaf_at nm st f st' q o d i c :
  set_defaults_file_gen nm st f = Ok st' -> is_map f = true -> fleaf_at q (ps_ws st) = Some (o, d, i, c) ->
  fleaf_at q (ps_ws st') = Some (o, d, i, upd c (subtree q (rooted_gen nm (ps_ws st) f))) /\ keys (ps_ws st') = keys (ps_ws st).
Proof.
  intros H Hf Hl. rewrite sdf_unfold, (file_kw _ _ _ Hf) in H. apply (sdk_leaf_at _ _ _ _ _ _ _ _ H Hl).
Qed.

Lemma sdf_keys nm st f st' : set_defaults_file_gen nm st f = Ok st' -> keys (ps_ws st') = keys (ps_ws st).
Proof. intros H. rewrite sdf_unfold in H. apply (sdk_keys _ _ _ H). Qed.

Lemma fold_kwargs_leaf_at l : forall st st' q o d i c,
  fold_res set_defaults_kwargs_gen st l = Ok st' -> fleaf_at q (ps_ws st) = Some (o, d, i, c) ->
  fleaf_at q (ps_ws st') = Some (o, d, i, fold_left upd (map (subtree q) l) c) /\ keys (ps_ws st') = keys (ps_ws st).
Proof.
  induction l as [|kw r IH]; intros st st' q o d i c H Hl; cbn [fold_res] in H.
  - injection H as <-. split; [exact Hl | reflexivity].
  - destruct (set_defaults_kwargs_gen st kw) as [st1|e] eqn:E; [|discriminate].
    destruct (sdk_leaf_at _ _ _ _ _ _ _ _ E Hl) as [Hl1 K1].
    destruct (IH _ _ _ _ _ _ _ H Hl1) as [Hl2 K2]. split; [exact Hl2 | congruence].
Qed.

Lemma fold_files_leaf_at nm l : forall st st' q o d i c,
  fold_res (set_defaults_file_gen nm) st l = Ok st' -> forallb is_map l = true ->
  fleaf_at q (ps_ws st) = Some (o, d, i, c) ->
  fleaf_at q (ps_ws st') = Some (o, d, i, fold_left upd (map (fun f => subtree q (rooted_gen nm (ps_ws st) f)) l) c)
  /\ keys (ps_ws st') = keys (ps_ws st).
Proof.
  induction l as [|f r IH]; intros st st' q o d i c H Hm Hl; cbn [fold_res] in H.
  - injection H as <-. split; [exact Hl | reflexivity].
  - cbn [forallb] in Hm. apply andb_true_iff in Hm as [Hf Hr].
    destruct (set_defaults_file_gen nm st f) as [st1|e] eqn:E; [|discriminate].
    destruct (sdf_leaf_at _ _ _ _ _ _ _ _ _ E Hf Hl) as [Hl1 K1].
    destruct (IH _ _ _ _ _ _ _ H Hr Hl1) as [Hl2 K2]. split; [|congruence].
    rewrite Hl2. cbn [map fold_left]. do 3 f_equal.
    apply map_ext. intros g. now rewrite (rooted_keys nm _ _ g K1).
Qed.

Lemma finish_all_cons d w r cli :
  finish_all_gen ((d, w) :: r) cli =
  match finish_gen false w (match cli with PMap m => lookup d m | _ => None end) with
  | Err e => Err e
  | Ok v => match finish_all_gen r cli with Ok r' => Ok ((d, v) :: r') | Err e => Err e end
  end.
Proof. reflexivity. Qed.

Lemma finish_all_leaf_at ws : forall cli kvs q o d i c,
  finish_all_gen ws cli = Ok kvs -> fleaf_at q ws = Some (o, d, i, c) ->
  subtree q (PMap kvs) = Some (match subtree q cli with Some v => v | None => leaf_default_gen d i c end).
Proof.
  induction ws as [|[d0 w0] r IH]; intros cli kvs q o d i c H Hl.
  - destruct q; discriminate.
  - destruct q as [|dq p]; [discriminate|]. rewrite finish_all_cons in H.
    destruct (finish_gen false w0 _) as [v0|e] eqn:Ef; [|discriminate].
    destruct (finish_all_gen r cli) as [r'|e] eqn:Er; [|discriminate]. injection H as <-.
    cbn [fleaf_at lookup] in Hl. cbn [subtree lookup].
    destruct (String.eqb dq d0) eqn:E.
    + apply String.eqb_eq in E. subst dq.
      rewrite (finish_leaf_at _ _ _ _ _ _ _ _ _ Ef Hl). f_equal.
      destruct cli as [| v | m]; reflexivity.
    + specialize (IH cli r' (dq :: p) o d i c Er). cbn [fleaf_at subtree] in IH. apply IH. exact Hl.
Qed.

(* ---------- one parse, leaf by leaf ---------- *)
Definition acp_of (acp_arg : option bool) (ctor : list ptree) : bool :=
  match acp_arg with Some b => b | None => negb (Nat.eqb (List.length ctor) 0) end.

Definition ws_init (ws : list (string * wtree)) (inst : ptree) : list (string * wtree) :=
  map (fun dw => (fst dw, match subtree [fst dw] inst with
                          | Some t => init_instance (snd dw) t
                          | None => snd dw end)) ws.

(* the documents the --config_path loop applies: those named on the command line; when the option is absent,
   its default, i.e. the constructor's files once more *)
Definition applied_clif (acp cli_given : bool) (ctor clif : list ptree) : list ptree :=
  if acp then (if cli_given then clif else ctor) else [].

Lemma run_unfold nm ws inst sdefs acp_arg ctor cg clif cli :
  run_gen nm ws inst sdefs acp_arg ctor cg clif cli =
  match fold_res set_defaults_kwargs_gen (mk_pstate (ws_init ws inst) (PMap [])) sdefs with
  | Err e => Err e
  | Ok st1 =>
    match fold_res (set_defaults_file_gen nm) st1 ctor with
    | Err e => Err e
    | Ok st2 =>
      match fold_res (set_defaults_file_gen nm) st2 (applied_clif (acp_of acp_arg ctor) cg ctor clif) with
      | Err e => Err e
      | Ok st3 =>
        match finish_all_gen (ps_ws st3) cli with
        | Err e => Err e
        | Ok kvs => if existsb (extra_kwargs_gen (ps_ca st3)) (ps_ws st3) then Err (Raise "TypeError") else Ok (PMap kvs)
        end
      end
    end
  end.
Proof.
  unfold run_gen, run, LAYER_ORDER_GEN, CLI_DEFAULT_IS_CTOR_GEN. fold (ws_init ws inst). fold (acp_of acp_arg ctor).
  fold set_defaults_kwargs_gen.
  destruct (fold_res set_defaults_kwargs_gen _ sdefs) as [st1|e]; [|reflexivity].
  cbn [fold_res run_phase]. fold (set_defaults_file_gen nm).
  destruct (fold_res (set_defaults_file_gen nm) st1 ctor) as [st2|e]; [|reflexivity].
  unfold applied_clif. destruct (acp_of acp_arg ctor); [|reflexivity].
  destruct (fold_res (set_defaults_file_gen nm) st2 _) as [st3|e]; reflexivity.
Qed.

Lemma lookup_map_snd {A B} (g : string -> A -> B) k (l : list (string * A)) :
  lookup k (map (fun kv => (fst kv, g (fst kv) (snd kv))) l) = option_map (g k) (lookup k l).
Proof.
  induction l as [|[k' v] r IH]; [reflexivity|]. cbn [map lookup fst snd].
  destruct (String.eqb k k') eqn:E; [|exact IH]. apply String.eqb_eq in E. subst. reflexivity.
Qed.

Lemma ws_init_keys ws inst : keys (ws_init ws inst) = keys ws.
Proof. unfold ws_init, keys. rewrite map_map. reflexivity. Qed.

Lemma ws_init_leaf_at ws inst q x :
  fleaf_at q ws = Some x -> fleaf_at q (ws_init ws inst) = Some (init_info x (subtree q inst)).
Proof.
  destruct q as [|d p]; [discriminate|]. cbn [fleaf_at]. unfold ws_init.
  rewrite (lookup_map_snd (fun d w => match subtree [d] inst with Some t => init_instance w t | None => w end)).
  destruct (lookup d ws) as [w|]; [|discriminate]. cbn [option_map]. intros Hl.
  cbn [subtree]. destruct inst as [| v | m].
  - destruct x as [[[? ?] ?] ?]. exact Hl.
  - destruct x as [[[? ?] ?] ?]. exact Hl.
  - destruct (lookup d m) as [t|].
    + apply (init_leaf_at _ _ _ _ Hl).
    + destruct x as [[[? ?] ?] ?]. exact Hl.
Qed.

(* the per-field state machine the model implements: each document that reaches the field overwrites _default
   (a null erases it); the field's value is the command-line option, else FieldWrapper.default *)
Definition resolve (d i : option ptree) (ms : list (option ptree)) (cli : option ptree) : ptree :=
  match cli with
  | Some v => v
  | None => leaf_default_gen d i (fold_left upd ms (match i with Some v => v | None => PNull end))
  end.

Definition file_mentions (nm : nmode) (ws : list (string * wtree)) (q : path) (fs : list ptree) : list (option ptree) :=
  map (fun f => subtree q (rooted_gen nm ws f)) fs.

Theorem model_leafwise nm ws inst sdefs acp_arg ctor cg clif cli r q o d :
  run_gen nm ws inst sdefs acp_arg ctor cg clif cli = Ok r ->
  forallb is_map (ctor ++ clif) = true ->
  fleaf_at q ws = Some (o, d, None, PNull) ->
  subtree q r =
  Some (resolve d (subtree q inst)
                (map (subtree q) sdefs ++ file_mentions nm ws q ctor
                 ++ file_mentions nm ws q (applied_clif (acp_of acp_arg ctor) cg ctor clif))
                (subtree q cli)).
Proof.
  intros H Hm Hl. rewrite run_unfold in H.
  rewrite forallb_app in Hm. apply andb_true_iff in Hm as [Hmc Hmf].
  destruct (fold_res set_defaults_kwargs_gen _ sdefs) as [st1|e] eqn:E1; [|discriminate].
  destruct (fold_res (set_defaults_file_gen nm) st1 ctor) as [st2|e] eqn:E2; [|discriminate].
  destruct (fold_res (set_defaults_file_gen nm) st2 _) as [st3|e] eqn:E3; [|discriminate].
  destruct (finish_all_gen (ps_ws st3) cli) as [kvs|e] eqn:E4; [|discriminate].
  destruct (existsb _ _); [discriminate|]. injection H as <-.
  assert (H0 := ws_init_leaf_at ws inst q _ Hl).
  set (c0 := match subtree q inst with Some v => v | None => PNull end).
  assert (H0' : fleaf_at q (ws_init ws inst) = Some (o, d, subtree q inst, c0)).
  { rewrite H0. unfold c0. destruct (subtree q inst); reflexivity. }
  destruct (fold_kwargs_leaf_at _ _ _ _ _ _ _ _ E1 H0') as [L1 K1]. cbn [ps_ws] in L1, K1.
  destruct (fold_files_leaf_at _ _ _ _ _ _ _ _ _ E2 Hmc L1) as [L2 K2].
  assert (Hma : forallb is_map (applied_clif (acp_of acp_arg ctor) cg ctor clif) = true).
  { unfold applied_clif. destruct (acp_of acp_arg ctor); [|reflexivity]. destruct cg; assumption. }
  destruct (fold_files_leaf_at _ _ _ _ _ _ _ _ _ E3 Hma L2) as [L3 K3].
  rewrite (finish_all_leaf_at _ _ _ _ _ _ _ _ E4 L3).
  unfold resolve, file_mentions. destruct (subtree q cli); [reflexivity|].
  do 2 f_equal. rewrite !fold_left_app. fold c0.
  assert (Kw1 : keys (ps_ws st1) = keys ws) by (rewrite K1; apply ws_init_keys).
  assert (Kw2 : keys (ps_ws st2) = keys ws) by congruence.
  assert (R1 : forall g, subtree q (rooted_gen nm (ps_ws st1) g) = subtree q (rooted_gen nm ws g))
    by (intros g; now rewrite (rooted_keys nm _ _ g Kw1)).
  assert (R2 : forall g, subtree q (rooted_gen nm (ps_ws st2) g) = subtree q (rooted_gen nm ws g))
    by (intros g; now rewrite (rooted_keys nm _ _ g Kw2)).
  rewrite (map_ext _ _ R1), (map_ext _ _ R2). reflexivity.
Qed.

(* ---------- from the state machine to "the highest-priority source that mentions it" ---------- *)
Lemma first_some_app {A} (a b : list (option A)) : first_some (a ++ b) = orelse (first_some a) (first_some b).
Proof. induction a as [|[x|] r IH]; simpl; [reflexivity | reflexivity | exact IH]. Qed.

Lemma last_some_app {A} (a b : list (option A)) : last_some (a ++ b) = orelse (last_some b) (last_some a).
Proof. unfold last_some. rewrite rev_app_distr. apply first_some_app. Qed.

Lemma last_some_cons {A} (m : option A) r : last_some (m :: r) = orelse (last_some r) m.
Proof.
  change (m :: r) with ([m] ++ r)%list. rewrite last_some_app. destruct (last_some r); [reflexivity|].
  destruct m; reflexivity.
Qed.

Lemma first_some_In {A} (l : list (option A)) v : first_some l = Some v -> In (Some v) l.
Proof.
  induction l as [|[x|] r IH]; simpl; [discriminate | | ].
  - intros H. injection H as ->. now left.
  - intros H. right. now apply IH.
Qed.

Lemma last_some_In {A} (l : list (option A)) v : last_some l = Some v -> In (Some v) l.
Proof. unfold last_some. intros H. apply first_some_In in H. now apply in_rev in H. Qed.

Lemma fold_upd ms : forall c, fold_left upd ms c = match last_some ms with Some v => v | None => c end.
Proof.
  induction ms as [|m r IH]; intros c; [reflexivity|].
  cbn [fold_left]. rewrite IH, last_some_cons. destruct (last_some r); [reflexivity|]. destruct m; reflexivity.
Qed.

Definition is_null_mention (m : option ptree) : bool := match m with Some PNull => true | _ => false end.

(* no set_defaults dict and no config file says `null` about the field at q *)
Definition nonnull_at (nm : nmode) (ws : list (string * wtree)) (q : path) (sdefs files : list ptree) : bool :=
  negb (existsb is_null_mention (map (subtree q) sdefs ++ file_mentions nm ws q files)).

Lemma manual_set_nonnull v : is_null v = false -> manual_set_gen v = true.
Proof. unfold manual_set_gen. now intros ->. Qed.

Lemma file_mentions_map nm ws q fs : map (mention q) (map (rooted_gen nm ws) fs) = file_mentions nm ws q fs.
Proof. unfold file_mentions, mention. now rewrite map_map. Qed.

Theorem layers_partial nm ws inst sdefs acp_arg ctor cg clif cli r q o d v :
  run_gen nm ws inst sdefs acp_arg ctor cg clif cli = Ok r ->
  forallb is_map (ctor ++ clif) = true ->
  fleaf_at q ws = Some (o, d, None, PNull) ->
  nonnull_at nm ws q sdefs (ctor ++ clif) = true ->
  spec_leaf d (inst :: sdefs) (map (rooted_gen nm ws) ctor)
            (map (rooted_gen nm ws) (if acp_of acp_arg ctor && cg then clif else [])) cli q = Some v ->
  subtree q r = Some v.
Proof.
  intros H Hm Hl Hn Hs.
  rewrite (model_leafwise _ _ _ _ _ _ _ _ _ _ _ _ _ H Hm Hl). f_equal.
  unfold spec_leaf in Hs. rewrite !file_mentions_map in Hs. unfold mention in Hs. cbn [first_some map] in Hs.
  unfold resolve. destruct (subtree q cli) as [vc|]; [now injection Hs|].
  rewrite fold_upd, !last_some_app.
  set (ms_sd := map (subtree q) sdefs) in *.
  set (ms_c := file_mentions nm ws q ctor) in *.
  (* which mentions can win are all non-null *)
  assert (NN : forall x, In (Some x) (ms_sd ++ ms_c ++ file_mentions nm ws q clif)%list -> is_null x = false).
  { intros x Hx. unfold nonnull_at in Hn. apply negb_true_iff in Hn.
    destruct x; try reflexivity. exfalso.
    assert (E : existsb is_null_mention (ms_sd ++ file_mentions nm ws q (ctor ++ clif)) = true).
    { apply existsb_exists. exists (Some PNull). split; [|reflexivity].
      unfold file_mentions in *. rewrite map_app. exact Hx. }
    fold ms_sd in Hn. congruence. }
  assert (NNsd : forall x, last_some ms_sd = Some x -> is_null x = false).
  { intros x Hx. apply NN. apply in_or_app. left. now apply last_some_In. }
  assert (NNc : forall x, last_some ms_c = Some x -> is_null x = false).
  { intros x Hx. apply NN. apply in_or_app. right. apply in_or_app. left. now apply last_some_In. }
  assert (NNf : forall x, last_some (file_mentions nm ws q clif) = Some x -> is_null x = false).
  { intros x Hx. apply NN. apply in_or_app. right. apply in_or_app. right. now apply last_some_In. }
  rewrite last_some_cons in Hs. fold ms_sd in Hs.
  (* the tail of the priority list, shared by all cases *)
  assert (Tail : forall w,
             first_some [last_some ms_c; orelse (last_some ms_sd) (subtree q inst); d] = Some w ->
             leaf_default_gen d (subtree q inst)
               match orelse (last_some ms_c) (last_some ms_sd) with
               | Some v0 => v0
               | None => match subtree q inst with Some v0 => v0 | None => PNull end
               end = w).
  { intros w Hw. cbn [first_some] in Hw. unfold leaf_default_gen, leaf_default.
    destruct (last_some ms_c) as [x|] eqn:Ec; cbn [orelse].
    - injection Hw as <-. now rewrite (manual_set_nonnull _ (NNc _ eq_refl)).
    - destruct (last_some ms_sd) as [x|] eqn:Esd; cbn [orelse] in Hw |- *.
      + injection Hw as <-. now rewrite (manual_set_nonnull _ (NNsd _ eq_refl)).
      + destruct (subtree q inst) as [iv|].
        * injection Hw as <-. destruct (manual_set_gen iv); reflexivity.
        * unfold manual_set_gen. cbn. destruct d; [now injection Hw | discriminate]. }
  unfold applied_clif. destruct (acp_of acp_arg ctor); cbn [andb] in Hs.
  - destruct cg.
    + destruct (last_some (file_mentions nm ws q clif)) as [x|] eqn:Ef; cbn [orelse].
      * cbn [first_some] in Hs. injection Hs as <-. unfold leaf_default_gen, leaf_default.
        now rewrite (manual_set_nonnull _ (NNf _ eq_refl)).
      * apply Tail. exact Hs.
    + cbn [map file_mentions first_some last_some rev] in Hs. fold ms_c.
      replace (orelse (orelse (last_some ms_c) (last_some ms_c)) (last_some ms_sd))
        with (orelse (last_some ms_c) (last_some ms_sd)) by (destruct (last_some ms_c); reflexivity).
      apply Tail. exact Hs.
  - cbn [file_mentions map last_some rev first_some orelse] in Hs |- *. apply Tail. exact Hs.
Qed.

(* the unrestricted statement is false of the code: `x: Optional[int] = 5`, a config file saying `x: null` *)
Theorem layers_refuted :
  exists nm ws inst sdefs acp_arg ctor cg clif cli r q o d v,
    run_gen nm ws inst sdefs acp_arg ctor cg clif cli = Ok r /\
    forallb is_map (ctor ++ clif) = true /\
    fleaf_at q ws = Some (o, d, None, PNull) /\
    spec_leaf d (inst :: sdefs) (map (rooted_gen nm ws) ctor)
              (map (rooted_gen nm ws) (if acp_of acp_arg ctor && cg then clif else [])) cli q = Some v /\
    subtree q r <> Some v.
Proof.
  exists PARSE_NESTED_MODE_GEN, [("config", WClass CPlain [("x", WLeaf true (Some (PVal (VInt 5))) None PNull)])],
         (PMap []), [], None, [PMap [("x", PNull)]], false, [], (PMap []),
         (PMap [("config", PMap [("x", PVal (VInt 5))])]), ["config"; "x"], true, (Some (PVal (VInt 5))), PNull.
  vm_compute. repeat split; try reflexivity. intros H. discriminate H.
Qed.

(* ---------- siblings ---------- *)
Definition is_some {A} (m : option A) : bool := match m with Some _ => true | None => false end.

Lemma fold_upd_filter ms : forall c, fold_left upd ms c = fold_left upd (filter is_some ms) c.
Proof. induction ms as [|[v|] r IH]; intros c; cbn [filter is_some fold_left upd]; [reflexivity | apply IH | apply IH]. Qed.

Lemma resolve_filter d i ms cli : resolve d i ms cli = resolve d i (filter is_some ms) cli.
Proof. unfold resolve. destruct cli; [reflexivity|]. now rewrite fold_upd_filter. Qed.

Lemma file_mentions_insert nm ws q l1 f l2 :
  subtree q (rooted_gen nm ws f) = None ->
  filter is_some (file_mentions nm ws q (l1 ++ f :: l2)) = filter is_some (file_mentions nm ws q (l1 ++ l2)).
Proof.
  intros Hf. unfold file_mentions. rewrite !map_app, !filter_app. cbn [map filter]. now rewrite Hf.
Qed.

Lemma forallb_insert {A} (p : A -> bool) l1 x l2 : forallb p (l1 ++ x :: l2) = true -> forallb p (l1 ++ l2) = true.
Proof.
  rewrite !forallb_app. cbn [forallb]. intros H. apply andb_true_iff in H as [H1 H2]. apply andb_true_iff in H2 as [_ H2].
  now rewrite H1, H2.
Qed.

(* a constructor config file that does not mention the field at q leaves it to the other layers *)
Theorem siblings_ctor nm ws inst sdefs b l1 f l2 cg clif cli r r' q o d :
  run_gen nm ws inst sdefs (Some b) (l1 ++ f :: l2) cg clif cli = Ok r ->
  run_gen nm ws inst sdefs (Some b) (l1 ++ l2) cg clif cli = Ok r' ->
  forallb is_map ((l1 ++ f :: l2) ++ clif) = true ->
  fleaf_at q ws = Some (o, d, None, PNull) ->
  subtree q (rooted_gen nm ws f) = None ->
  subtree q r = subtree q r'.
Proof.
  intros H H' Hm Hl Hf.
  assert (Hm' : forallb is_map ((l1 ++ l2) ++ clif) = true).
  { rewrite forallb_app in Hm |- *. apply andb_true_iff in Hm as [Ha Hb]. rewrite Hb, (forallb_insert _ _ _ _ Ha). reflexivity. }
  rewrite (model_leafwise _ _ _ _ _ _ _ _ _ _ _ _ _ H Hm Hl), (model_leafwise _ _ _ _ _ _ _ _ _ _ _ _ _ H' Hm' Hl).
  f_equal. rewrite resolve_filter, (resolve_filter _ _ (_ ++ _ ++ _)%list). f_equal.
  rewrite !filter_app, (file_mentions_insert _ _ _ _ _ _ Hf). do 2 f_equal.
  unfold applied_clif, acp_of. destruct b; [|reflexivity]. destruct cg; [reflexivity|].
  apply (file_mentions_insert _ _ _ _ _ _ Hf).
Qed.

(* the same for a --config_path file *)
Theorem siblings_clif nm ws inst sdefs b ctor l1 f l2 cg cli r r' q o d :
  run_gen nm ws inst sdefs (Some b) ctor cg (l1 ++ f :: l2) cli = Ok r ->
  run_gen nm ws inst sdefs (Some b) ctor cg (l1 ++ l2) cli = Ok r' ->
  forallb is_map (ctor ++ l1 ++ f :: l2) = true ->
  fleaf_at q ws = Some (o, d, None, PNull) ->
  subtree q (rooted_gen nm ws f) = None ->
  subtree q r = subtree q r'.
Proof.
  intros H H' Hm Hl Hf.
  assert (Hm' : forallb is_map (ctor ++ l1 ++ l2) = true).
  { rewrite forallb_app in Hm |- *. apply andb_true_iff in Hm as [Ha Hb]. rewrite Ha, (forallb_insert _ _ _ _ Hb). reflexivity. }
  rewrite (model_leafwise _ _ _ _ _ _ _ _ _ _ _ _ _ H Hm Hl), (model_leafwise _ _ _ _ _ _ _ _ _ _ _ _ _ H' Hm' Hl).
  f_equal. rewrite resolve_filter, (resolve_filter _ _ (_ ++ _ ++ _)%list). f_equal.
  rewrite !filter_app. do 2 f_equal.
  unfold applied_clif, acp_of. destruct b; [|reflexivity]. destruct cg; [|reflexivity].
  apply (file_mentions_insert _ _ _ _ _ _ Hf).
Qed.

(* "a file that sets one nested field": the document holding exactly one value, at path p *)
Fixpoint single (p : path) (v : ptree) : ptree :=
  match p with [] => v | k :: r => PMap [(k, single r v)] end.

Lemma single_mentions p v : subtree p (single p v) = Some v.
Proof. induction p as [|k r IH]; [reflexivity|]. cbn [single subtree lookup]. now rewrite String.eqb_refl. Qed.

Lemma single_sibling (pre : path) k1 k2 (rest : path) v :
  k1 <> k2 -> subtree (pre ++ k2 :: rest)%list (single (pre ++ [k1])%list v) = None.
Proof.
  intros Hne. induction pre as [|a r IH].
  - cbn [app single subtree lookup]. destruct (String.eqb k2 k1) eqn:E; [|reflexivity].
    apply String.eqb_eq in E. congruence.
  - cbn [app single subtree lookup]. rewrite String.eqb_refl. exact IH.
Qed.

(* ---------- unknown keys ---------- *)
Fixpoint hu_go (m : list (string * ptree)) (fs : list (string * wtree)) : bool :=
  match fs with
  | [] => false
  | (k, c) :: r => match lookup k m with Some tk => has_unknown_gen c tk | None => false end || hu_go m r
  end.

Lemma hu_class cm fs m : has_unknown_gen (WClass cm fs) (PMap m) = negb (names_known fs m) || hu_go m fs.
Proof.
  unfold has_unknown_gen. cbn [has_unknown]. f_equal.
  induction fs as [|[k c] r IH]; [reflexivity|]. cbn [hu_go]. rewrite <- IH. reflexivity.
Qed.

Lemma hu_nonmap w t : is_map t = false -> has_unknown_gen w t = false.
Proof. destruct w, t; try reflexivity; discriminate. Qed.

Lemma hu_leaf o d i c t : has_unknown_gen (WLeaf o d i c) t = false.
Proof. reflexivity. Qed.

Lemma hu_go_err m fs :
  Forall (fun kc => forall t, has_unknown_gen (snd kc) t = true -> exists e, set_default_tree_gen (snd kc) t = Err e) fs ->
  hu_go m fs = true -> exists e, sdt_go m fs = Err e.
Proof.
  induction fs as [|[k c] r IH]; intros HF H; [discriminate|].
  inversion HF as [|? ? Hc Hr]; subst. cbn [snd] in Hc. cbn [hu_go] in H. cbn [sdt_go].
  destruct (lookup k m) as [tk|].
  - destruct (has_unknown_gen c tk) eqn:Eh.
    + destruct (Hc tk Eh) as [e ->]. now exists e.
    + cbn [orb] in H. destruct (IH Hr H) as [e ->].
      destruct (set_default_tree_gen c tk); eexists; reflexivity.
  - cbn [orb] in H. destruct (IH Hr H) as [e ->]. eexists; reflexivity.
Qed.

(* a key that names no field, anywhere in the document, is never dropped silently *)
Lemma has_unknown_err w : forall t, has_unknown_gen w t = true -> exists e, set_default_tree_gen w t = Err e.
Proof.
  induction w as [o d i c | cm fs IH] using wtree_ind2; intros t H.
  - rewrite hu_leaf in H. discriminate.
  - destruct t as [| v | m]; try discriminate H.
    rewrite hu_class in H. rewrite sdt_class.
    destruct (hu_go m fs) eqn:Eg.
    + destruct (hu_go_err m fs IH Eg) as [e ->]. now exists e.
    + rewrite orb_false_r in H. apply negb_true_iff in H. rewrite H.
      destruct (sdt_go m fs); eexists; reflexivity.
Qed.

Lemma sdt_go_ok m fs :
  (forall n c s, In (n, c) fs -> lookup n m = Some s -> exists c', set_default_tree_gen c s = Ok c') ->
  exists fs', sdt_go m fs = Ok fs'.
Proof.
  induction fs as [|[k c] r IH]; intros H; [now exists []|].
  cbn [sdt_go]. destruct IH as [r' Hr']. { intros n c0 s Hin. apply H. now right. }
  rewrite Hr'. destruct (lookup k m) as [tk|] eqn:Em.
  - destruct (H k c tk (or_introl eq_refl) Em) as [c' ->]. eexists; reflexivity.
  - eexists; reflexivity.
Qed.

Lemma unknown_err_is_runtime_error : UNKNOWN_ERR_GEN = "RuntimeError".
Proof. reflexivity. Qed.

(* when the nested sections are fine, the error is the documented RuntimeError *)
Theorem unknown_key_runtime_error cm fs m k :
  In k (keys m) -> str_in k (keys fs) = false -> str_in k DISCARD_GEN = false ->
  (forall n c s, In (n, c) fs -> lookup n m = Some s -> exists c', set_default_tree_gen c s = Ok c') ->
  set_default_tree_gen (WClass cm fs) (PMap m) = Err (Raise "RuntimeError").
Proof.
  intros Hin Hf Hd Hok. rewrite sdt_class. destruct (sdt_go_ok m fs Hok) as [fs' ->].
  assert (E : names_known fs m = false).
  { unfold names_known. apply not_true_is_false. intros HA. rewrite forallb_forall in HA.
    specialize (HA k Hin). rewrite Hf, Hd in HA. discriminate. }
  rewrite E, unknown_err_is_runtime_error. reflexivity.
Qed.

(* has_unknown only reads the field names: the wrappers' mutable state does not matter *)
Lemma sdt_go_hu m fs :
  Forall (fun kc => forall t w', set_default_tree_gen (snd kc) t = Ok w' ->
                                 forall t2, has_unknown_gen w' t2 = has_unknown_gen (snd kc) t2) fs ->
  forall fs' m2, sdt_go m fs = Ok fs' -> hu_go m2 fs' = hu_go m2 fs.
Proof.
  induction fs as [|[k c] r IH]; intros HF fs' m2 H; cbn [sdt_go] in H.
  - injection H as <-. reflexivity.
  - inversion HF as [|? ? Hc Hr]; subst. cbn [snd] in Hc.
    destruct (lookup k m) as [tk|].
    + destruct (set_default_tree_gen c tk) as [c'|] eqn:Es; [|discriminate].
      destruct (sdt_go m r) as [r'|] eqn:Er; [|discriminate]. injection H as <-.
      cbn [hu_go]. rewrite (IH Hr r' m2 eq_refl). destruct (lookup k m2); [|reflexivity].
      now rewrite (Hc tk c' Es).
    + destruct (sdt_go m r) as [r'|] eqn:Er; [|discriminate]. injection H as <-.
      cbn [hu_go]. now rewrite (IH Hr r' m2 eq_refl).
Qed.

Lemma sdt_hu w : forall t w', set_default_tree_gen w t = Ok w' -> forall t2, has_unknown_gen w' t2 = has_unknown_gen w t2.
Proof.
  induction w as [o d i c | cm fs IH] using wtree_ind2; intros t w' H t2.
  - unfold set_default_tree_gen in H. cbn in H. injection H as <-. reflexivity.
  - destruct t as [| v | m].
    + unfold set_default_tree_gen in H. cbn in H. injection H as <-. reflexivity.
    + unfold set_default_tree_gen in H. cbn in H. discriminate.
    + rewrite sdt_class in H. destruct (sdt_go m fs) as [fs'|] eqn:Eg; [|discriminate].
      destruct (names_known fs m); [|discriminate]. injection H as <-.
      destruct t2 as [| v2 | m2]; try reflexivity.
      rewrite !hu_class. unfold names_known. rewrite (sdt_go_keys _ _ _ Eg), (sdt_go_hu m fs IH fs' m2 Eg). reflexivity.
Qed.

Lemma init_go_keys m fs : keys (init_go m fs) = keys fs.
Proof. induction fs as [|[k c] r IH]; [reflexivity|]. cbn [init_go keys map fst]. f_equal. exact IH. Qed.

Lemma init_hu w : forall t t2, has_unknown_gen (init_instance w t) t2 = has_unknown_gen w t2.
Proof.
  induction w as [o d i c | cm fs IH] using wtree_ind2; intros t t2; [reflexivity|].
  destruct t as [| v | m]; try reflexivity.
  rewrite init_class. destruct t2 as [| v2 | m2]; try reflexivity.
  rewrite !hu_class. unfold names_known. rewrite init_go_keys. f_equal.
  induction fs as [|[k c] r IHr]; [reflexivity|].
  inversion IH as [|? ? Hc Hr]; subst. cbn [snd] in Hc. cbn [init_go hu_go]. rewrite (IHr Hr).
  destruct (lookup k m2); [|reflexivity]. destruct (lookup k m); [now rewrite Hc | reflexivity].
Qed.

(* wrappers that differ only in their mutable state *)
Definition hu_equiv (ws ws' : list (string * wtree)) : Prop :=
  Forall2 (fun a b => fst a = fst b /\ forall t, has_unknown_gen (snd b) t = has_unknown_gen (snd a) t) ws ws'.

Lemma hu_equiv_refl ws : hu_equiv ws ws.
Proof. induction ws; constructor; [split; reflexivity | assumption]. Qed.

Lemma hu_equiv_trans a b c : hu_equiv a b -> hu_equiv b c -> hu_equiv a c.
Proof.
  intros H. revert c. induction H as [|x y l l' [Hk Hh] Hr IH]; intros c Hc; inversion Hc as [|? z ? l'' [Hk' Hh'] Hr']; subst.
  - constructor.
  - constructor; [split; [congruence | intros t; now rewrite Hh', Hh] | now apply IH].
Qed.

Lemma hu_equiv_keys a b : hu_equiv a b -> keys a = keys b.
Proof. induction 1 as [|x y l l' [Hk _] _ IH]; [reflexivity|]. unfold keys in *. cbn [map]. now rewrite Hk, IH. Qed.

Definition forest_has_unknown (ws : list (string * wtree)) (t : ptree) : bool :=
  match t with
  | PMap m => existsb (fun dw => match lookup (fst dw) m with Some s => has_unknown_gen (snd dw) s | None => false end) ws
  | _ => false
  end.

Lemma hu_equiv_forest a b t : hu_equiv a b -> forest_has_unknown b t = forest_has_unknown a t.
Proof.
  destruct t as [| v | m]; try reflexivity. cbn [forest_has_unknown].
  induction 1 as [|x y l l' [Hk Hh] _ IH]; [reflexivity|]. cbn [existsb]. rewrite IH, <- Hk.
  destruct (lookup (fst x) m); [now rewrite Hh | reflexivity].
Qed.

Lemma sdw_hu ws : forall m ws' s, sd_wrappers_gen ws m = Ok (ws', s) -> hu_equiv ws ws'.
Proof.
  induction ws as [|[d0 w0] r IH]; intros m ws' s H.
  - cbn in H. injection H as <- <-. constructor.
  - rewrite sdw_cons in H. destruct (lookup d0 m) as [sec|].
    + destruct sec as [| v | m']; [discriminate | destruct v; discriminate |].
      destruct (set_default_tree_gen w0 (PMap m')) as [w0'|] eqn:Es; [|discriminate].
      destruct (sd_wrappers_gen r m) as [[r' s']|] eqn:Er; [|discriminate]. injection H as <- <-.
      constructor; [split; [reflexivity | intros t; apply (sdt_hu _ _ _ Es)] | apply (IH _ _ _ Er)].
    + destruct (sd_wrappers_gen r m) as [[r' s']|] eqn:Er; [|discriminate]. injection H as <- <-.
      constructor; [split; reflexivity | apply (IH _ _ _ Er)].
Qed.

Lemma sdk_hu st kw st' : set_defaults_kwargs_gen st kw = Ok st' -> hu_equiv (ps_ws st) (ps_ws st').
Proof.
  intros H. rewrite sdk_unfold in H. destruct kw as [| v | m]; try (injection H as <-; apply hu_equiv_refl).
  destruct (sd_wrappers_gen (ps_ws st) m) as [[ws' s]|] eqn:E; [|discriminate]. injection H as <-. apply (sdw_hu _ _ _ _ E).
Qed.

Lemma fold_kwargs_hu l : forall st st', fold_res set_defaults_kwargs_gen st l = Ok st' -> hu_equiv (ps_ws st) (ps_ws st').
Proof.
  induction l as [|kw r IH]; intros st st' H; cbn [fold_res] in H.
  - injection H as <-. apply hu_equiv_refl.
  - destruct (set_defaults_kwargs_gen st kw) as [st1|] eqn:E; [|discriminate].
    eapply hu_equiv_trans; [apply (sdk_hu _ _ _ E) | apply (IH _ _ H)].
Qed.

Lemma fold_files_hu nm l : forall st st', fold_res (set_defaults_file_gen nm) st l = Ok st' -> hu_equiv (ps_ws st) (ps_ws st').
Proof.
  induction l as [|f r IH]; intros st st' H; cbn [fold_res] in H.
  - injection H as <-. apply hu_equiv_refl.
  - destruct (set_defaults_file_gen nm st f) as [st1|] eqn:E; [|discriminate].
    rewrite sdf_unfold in E. eapply hu_equiv_trans; [apply (sdk_hu _ _ _ E) | apply (IH _ _ H)].
Qed.

Lemma ws_init_hu ws inst : hu_equiv ws (ws_init ws inst).
Proof.
  unfold ws_init. induction ws as [|[d w] r IH]; constructor; [|exact IH].
  cbn [fst snd]. split; [reflexivity|]. intros t. destruct (subtree [d] inst); [apply init_hu | reflexivity].
Qed.

Lemma sdw_unknown ws : forall m, forest_has_unknown ws (PMap m) = true -> exists e, sd_wrappers_gen ws m = Err e.
Proof.
  induction ws as [|[d w] r IH]; intros m H; [discriminate|].
  cbn [forest_has_unknown existsb fst snd] in H. rewrite sdw_cons.
  destruct (lookup d m) as [sec|].
  - destruct sec as [| v | m']; [eexists; reflexivity | destruct v; eexists; reflexivity |].
    destruct (has_unknown_gen w (PMap m')) eqn:Eh.
    + destruct (has_unknown_err _ _ Eh) as [e ->]. now exists e.
    + cbn [orb] in H. destruct (IH m H) as [e ->].
      destruct (set_default_tree_gen w (PMap m')); eexists; reflexivity.
  - cbn [orb] in H. destruct (IH m H) as [e ->]. eexists; reflexivity.
Qed.

Lemma rooted_is_map nm ws f : is_map f = true -> is_map (rooted_gen nm ws f) = true.
Proof.
  intros Hf. unfold rooted_gen, rooted. destruct (reroot_gen nm (List.length ws)); [|exact Hf].
  destruct ws as [|[d w] r]; [exact Hf | reflexivity].
Qed.

Lemma sdf_unknown nm st f :
  is_map f = true -> forest_has_unknown (ps_ws st) (rooted_gen nm (ps_ws st) f) = true ->
  exists e, set_defaults_file_gen nm st f = Err e.
Proof.
  intros Hf H. rewrite sdf_unfold, (file_kw _ _ _ Hf), sdk_unfold.
  assert (Hr := rooted_is_map nm (ps_ws st) f Hf).
  destruct (rooted_gen nm (ps_ws st) f) as [| v | m]; try discriminate.
  destruct (sdw_unknown _ _ H) as [e ->]. now exists e.
Qed.

Lemma fold_files_unknown nm l : forall st f,
  In f l -> forallb is_map l = true ->
  forest_has_unknown (ps_ws st) (rooted_gen nm (ps_ws st) f) = true ->
  exists e, fold_res (set_defaults_file_gen nm) st l = Err e.
Proof.
  induction l as [|g r IH]; intros st f Hin Hm H; [destruct Hin|].
  cbn [forallb] in Hm. apply andb_true_iff in Hm as [Hg Hr]. cbn [fold_res].
  destruct Hin as [-> | Hin].
  - destruct (sdf_unknown nm st f Hg H) as [e ->]. now exists e.
  - destruct (set_defaults_file_gen nm st g) as [st1|e] eqn:E; [|now exists e].
    apply (IH st1 f Hin Hr).
    assert (Q : hu_equiv (ps_ws st) (ps_ws st1)) by (rewrite sdf_unfold in E; apply (sdk_hu _ _ _ E)).
    rewrite (hu_equiv_forest _ _ _ Q), <- (rooted_keys nm _ _ f (hu_equiv_keys _ _ Q)). exact H.
Qed.

(* bridge to the property's wording: the key the code discards is the serialisation's type tag *)
Lemma discard_is_reserved : DISCARD_GEN = SPEC_RESERVED.
Proof. reflexivity. Qed.

Lemma nonfield_known fs m :
  existsb (fun k => negb (str_in k (keys fs)) && negb (str_in k SPEC_RESERVED)) (keys m) = negb (names_known fs m).
Proof.
  unfold names_known. rewrite discard_is_reserved. induction (keys m) as [|k r IH]; [reflexivity|].
  cbn [existsb forallb]. rewrite IH, negb_andb, negb_orb. reflexivity.
Qed.

Lemma hu_is_spec w : forall t, has_unknown_gen w t = names_nonfield w t.
Proof.
  induction w as [o d i c | cm fs IH] using wtree_ind2; intros t; [reflexivity|].
  destruct t as [| v | m]; try reflexivity.
  rewrite hu_class. cbn [names_nonfield]. rewrite nonfield_known. f_equal.
  induction fs as [|[k c] r IHr]; [reflexivity|].
  inversion IH as [|? ? Hc Hr]; subst. cbn [snd] in Hc. cbn [hu_go]. rewrite (IHr Hr).
  destruct (lookup k m); [now rewrite Hc | reflexivity].
Qed.

Lemma forest_hu_is_spec ws t : forest_has_unknown ws t = forest_names_nonfield ws t.
Proof.
  destruct t as [| v | m]; try reflexivity. cbn [forest_has_unknown forest_names_nonfield].
  induction ws as [|[d w] r IH]; [reflexivity|]. cbn [existsb fst snd]. rewrite IH.
  destruct (lookup d m); [now rewrite hu_is_spec | reflexivity].
Qed.

(* a constructor config file with, inside some dataclass's section, a key that names none of its fields: the parse fails *)
Theorem unknown_key_ctor nm ws inst sdefs acp_arg ctor cg clif cli f :
  In f ctor -> forallb is_map ctor = true ->
  forest_names_nonfield ws (rooted_gen nm ws f) = true ->
  exists e, run_gen nm ws inst sdefs acp_arg ctor cg clif cli = Err e.
Proof.
  intros Hin Hm H. rewrite <- forest_hu_is_spec in H. rewrite run_unfold.
  destruct (fold_res set_defaults_kwargs_gen _ sdefs) as [st1|e] eqn:E1; [|now exists e].
  assert (Q : hu_equiv ws (ps_ws st1)).
  { eapply hu_equiv_trans; [apply (ws_init_hu ws inst) | apply (fold_kwargs_hu _ _ _ E1)]. }
  destruct (fold_files_unknown nm ctor st1 f Hin Hm) as [e ->]; [|now exists e].
  rewrite (hu_equiv_forest _ _ _ Q), <- (rooted_keys nm _ _ f (hu_equiv_keys _ _ Q)). exact H.
Qed.

(* the same for a file named after --config_path *)
Theorem unknown_key_clif nm ws inst sdefs acp_arg ctor clif cli f :
  In f clif -> forallb is_map clif = true -> acp_of acp_arg ctor = true ->
  forest_names_nonfield ws (rooted_gen nm ws f) = true ->
  exists e, run_gen nm ws inst sdefs acp_arg ctor true clif cli = Err e.
Proof.
  intros Hin Hm Ha H. rewrite <- forest_hu_is_spec in H. rewrite run_unfold, Ha. cbn [applied_clif].
  destruct (fold_res set_defaults_kwargs_gen _ sdefs) as [st1|e] eqn:E1; [|now exists e].
  destruct (fold_res (set_defaults_file_gen nm) st1 ctor) as [st2|e] eqn:E2; [|now exists e].
  assert (Q : hu_equiv ws (ps_ws st2)).
  { eapply hu_equiv_trans; [apply (ws_init_hu ws inst)|].
    eapply hu_equiv_trans; [apply (fold_kwargs_hu _ _ _ E1) | apply (fold_files_hu _ _ _ _ E2)]. }
  destruct (fold_files_unknown nm clif st2 f Hin Hm) as [e ->]; [|now exists e].
  rewrite (hu_equiv_forest _ _ _ Q), <- (rooted_keys nm _ _ f (hu_equiv_keys _ _ Q)). exact H.
Qed.

Lemma single_sets_only_its_field (pre : path) k1 k2 (rest : path) v :
  k1 <> k2 ->
  subtree (pre ++ [k1])%list (single (pre ++ [k1])%list v) = Some v /\
  subtree (pre ++ k2 :: rest)%list (single (pre ++ [k1])%list v) = None.
Proof. intros H. split; [exact (single_mentions _ v) | exact (single_sibling pre k1 k2 rest v H)]. Qed.

Lemma unknown_key_anywhere w t : names_nonfield w t = true -> exists e, set_default_tree_gen w t = Err e.
Proof. intros H. apply has_unknown_err. now rewrite hu_is_spec. Qed.

(* ---------- the model against the executable spec that also judges the implementation ---------- *)
Lemma val_eqb_refl v : val_eqb v v = true.
Proof. destruct v; simpl; [apply Z.eqb_refl | apply String.eqb_refl]. Qed.

Lemma pt_eqb_refl t : pt_eqb t t = true.
Proof.
  induction t as [| v | m IH] using ptree_ind2; [reflexivity | apply val_eqb_refl |].
  cbn [pt_eqb]. induction m as [|[k c] r IHr]; [reflexivity|].
  inversion IH as [|? ? Hc Hr]; subst. cbn [snd] in Hc. rewrite String.eqb_refl, Hc. cbn [andb]. apply IHr. exact Hr.
Qed.

(* fresh wrappers (no instance yet, _default None) of dataclasses whose field names are distinct, all members plain *)
Fixpoint wf (w : wtree) {struct w} : bool :=
  match w with
  | WLeaf _ _ None PNull => true
  | WLeaf _ _ _ _ => false
  | WClass CPlain fs =>
      str_nodupb (keys fs)
      && (fix go (fs : list (string * wtree)) : bool :=
            match fs with [] => true | (_, c) :: r => wf c && go r end) fs
  | WClass (COpt _ _) _ => false       (* no Optional[Dataclass] members: those are covered by the correspondence only *)
  end.

Definition wf_forest (ws : list (string * wtree)) : bool :=
  str_nodupb (keys ws) && forallb (fun dw => wf (snd dw)) ws.

Lemma wf_class fs : wf (WClass CPlain fs) = str_nodupb (keys fs) && forallb (fun kc => wf (snd kc)) fs.
Proof. cbn [wf]. f_equal. induction fs as [|[k c] r IH]; [reflexivity|]. cbn [forallb snd]. now rewrite IH. Qed.

Lemma leaf_paths_class cm fs :
  leaf_paths (WClass cm fs) = flat_map (fun kc => map (fun qd => (fst kc :: fst qd, snd qd)) (leaf_paths (snd kc))) fs.
Proof. cbn [leaf_paths]. induction fs as [|[k c] r IH]; [reflexivity|]. cbn [flat_map fst snd]. now rewrite IH. Qed.

Lemma lookup_nodup {A} (fs : list (string * A)) k c :
  str_nodupb (keys fs) = true -> In (k, c) fs -> lookup k fs = Some c.
Proof.
  induction fs as [|[k0 c0] r IH]; intros Hn Hin; [destruct Hin|].
  cbn [keys map fst str_nodupb] in Hn. apply andb_true_iff in Hn as [Hk Hr]. apply negb_true_iff in Hk.
  cbn [lookup]. destruct Hin as [E | Hin].
  - injection E as -> ->. now rewrite String.eqb_refl.
  - destruct (String.eqb k k0) eqn:E; [|now apply IH].
    apply String.eqb_eq in E. subst k0. exfalso.
    apply str_in_false in Hk. apply Hk. change (In k (map fst r)). apply in_map_iff. now exists (k, c).
Qed.

Lemma leaf_paths_leaf_at w : forall q d,
  wf w = true -> In (q, d) (leaf_paths w) -> exists o, leaf_at q w = Some (o, d, None, PNull).
Proof.
  induction w as [o0 d0 i0 c0 | cm fs IH] using wtree_ind2; intros q d Hw Hin.
  - cbn [leaf_paths] in Hin. destruct Hin as [E | []]. injection E as <- <-.
    cbn [wf] in Hw. destruct i0; [discriminate|]. destruct c0; try discriminate. now exists o0.
  - destruct cm as [|ds di]; [|discriminate Hw].
    rewrite wf_class in Hw. apply andb_true_iff in Hw as [Hn Hc]. rewrite leaf_paths_class in Hin.
    apply in_flat_map in Hin as [[k c] [Hkc Hin]]. apply in_map_iff in Hin as [[q' d'] [E Hin]].
    cbn [fst snd] in E. injection E as <- <-.
    rewrite forallb_forall in Hc. specialize (Hc _ Hkc). rewrite Forall_forall in IH.
    destruct (IH _ Hkc q' d' Hc Hin) as [o Ho]. exists o. cbn [leaf_at].
    now rewrite (lookup_nodup fs k c Hn Hkc).
Qed.

Lemma forest_leaf_paths_leaf_at ws q d :
  wf_forest ws = true -> In (q, d) (forest_leaf_paths ws) -> exists o, fleaf_at q ws = Some (o, d, None, PNull).
Proof.
  unfold wf_forest, forest_leaf_paths. intros Hw Hin. apply andb_true_iff in Hw as [Hn Hc].
  apply in_flat_map in Hin as [[dd w] [Hdw Hin]]. apply in_map_iff in Hin as [[q' d'] [E Hin]].
  cbn [fst snd] in E. injection E as <- <-. rewrite forallb_forall in Hc. specialize (Hc _ Hdw).
  destruct (leaf_paths_leaf_at w q' d' Hc Hin) as [o Ho]. exists o. cbn [fleaf_at].
  now rewrite (lookup_nodup ws dd w Hn Hdw).
Qed.

Lemma opt_paths_class cm fs :
  opt_paths (WClass cm fs) =
  ((if is_copt cm then [[]] else []) ++ flat_map (fun kc => map (cons (fst kc)) (opt_paths (snd kc))) fs)%list.
Proof. cbn [opt_paths]. f_equal. induction fs as [|[k c] r IH]; [reflexivity|]. cbn [flat_map fst snd]. now rewrite IH. Qed.

Lemma wf_opt_paths w : wf w = true -> opt_paths w = [].
Proof.
  induction w as [o d i c | cm fs IH] using wtree_ind2; intros Hw; [reflexivity|].
  destruct cm as [|ds di]; [|discriminate Hw]. rewrite wf_class in Hw. apply andb_true_iff in Hw as [_ Hc].
  rewrite opt_paths_class. cbn [is_copt app].
  induction fs as [|[k c] r IHr]; [reflexivity|].
  inversion IH as [|? ? Hk Hr]; subst. cbn [forallb snd] in Hc, Hk. apply andb_true_iff in Hc as [Hc1 Hc2].
  cbn [flat_map fst snd]. rewrite (Hk Hc1), (IHr Hr Hc2). reflexivity.
Qed.

Lemma wf_forest_opt_paths ws : wf_forest ws = true -> forest_opt_paths ws = [].
Proof.
  unfold wf_forest, forest_opt_paths. intros H. apply andb_true_iff in H as [_ Hc].
  induction ws as [|[d w] r IH]; [reflexivity|]. cbn [forallb snd] in Hc. apply andb_true_iff in Hc as [Hc1 Hc2].
  cbn [flat_map fst snd]. rewrite (wf_opt_paths w Hc1), (IH Hc2). reflexivity.
Qed.

Lemma filter_true {A} (l : list A) : filter (fun _ => true) l = l.
Proof. induction l as [|x r IH]; [reflexivity|]. cbn [filter]. now rewrite IH. Qed.

Lemma fold_kwargs_unknown l : forall st kw,
  In kw l -> forest_has_unknown (ps_ws st) kw = true -> exists e, fold_res set_defaults_kwargs_gen st l = Err e.
Proof.
  induction l as [|g r IH]; intros st kw Hin H; [destruct Hin|]. cbn [fold_res].
  destruct Hin as [-> | Hin].
  - rewrite sdk_unfold. destruct kw as [| v | m]; try discriminate.
    destruct (sdw_unknown _ _ H) as [e ->]. now exists e.
  - destruct (set_defaults_kwargs_gen st g) as [st1|e] eqn:E; [|now exists e].
    apply (IH st1 kw Hin). now rewrite (hu_equiv_forest _ _ _ (sdk_hu _ _ _ E)).
Qed.

Theorem unknown_key_sdefs nm ws inst sdefs acp_arg ctor cg clif cli kw :
  In kw sdefs -> forest_names_nonfield ws kw = true ->
  exists e, run_gen nm ws inst sdefs acp_arg ctor cg clif cli = Err e.
Proof.
  intros Hin H. rewrite <- forest_hu_is_spec in H. rewrite run_unfold.
  destruct (fold_kwargs_unknown sdefs (mk_pstate (ws_init ws inst) (PMap [])) kw Hin) as [e ->]; [|now exists e].
  cbn [ps_ws]. now rewrite (hu_equiv_forest _ _ _ (ws_init_hu ws inst)).
Qed.

(* whatever the model returns on well-formed, null-free input satisfies the verdict of Model/LayersSpec.v *)
Theorem model_meets_spec nm ws inst sdefs acp_arg ctor cg clif cli r :
  run_gen nm ws inst sdefs acp_arg ctor cg clif cli = Ok r ->
  forallb is_map (ctor ++ clif) = true ->
  wf_forest ws = true ->
  forallb (fun qd => nonnull_at nm ws (fst qd) sdefs (ctor ++ clif)) (forest_leaf_paths ws) = true ->
  (cg = true -> acp_of acp_arg ctor = true) ->
  verdict_allows (spec_verdict ws inst sdefs (map (rooted_gen nm ws) ctor)
                               (map (rooted_gen nm ws) (if cg then clif else [])) cli) (Ok r) = true.
Proof.
  intros H Hm Hw Hn Hcg.
  assert (Hmc : forallb is_map ctor = true /\ forallb is_map clif = true).
  { rewrite forallb_app in Hm. now apply andb_true_iff in Hm. }
  destruct Hmc as [Hmc Hmf].
  unfold spec_verdict.
  destruct (existsb (forest_names_nonfield ws) _) eqn:Eu.
  - (* impossible: the run would have failed *)
    exfalso. apply existsb_exists in Eu as [doc [Hin Hd]].
    apply in_app_or in Hin as [Hin | Hin].
    { destruct (unknown_key_sdefs nm ws inst sdefs acp_arg ctor cg clif cli doc Hin Hd) as [e He]. congruence. }
    apply in_app_or in Hin as [Hin | Hin].
    { apply in_map_iff in Hin as [f [<- Hf]].
      destruct (unknown_key_ctor nm ws inst sdefs acp_arg ctor cg clif cli f Hf Hmc Hd) as [e He]. congruence. }
    destruct cg; [|destruct Hin].
    apply in_map_iff in Hin as [f [<- Hf]].
    destruct (unknown_key_clif nm ws inst sdefs acp_arg ctor clif cli f Hf Hmf (Hcg eq_refl) Hd) as [e He]. congruence.
  - destruct (negb _); [reflexivity|].
    rewrite (wf_forest_opt_paths ws Hw). cbn [filter existsb negb map]. rewrite filter_true, app_nil_r.
    cbn [verdict_allows]. apply forallb_forall. intros [q vo] Hin.
    apply in_map_iff in Hin as [[q' d] [E Hin]]. cbn [fst snd] in E. injection E as <- <-.
    unfold demanded_at. cbn [fst snd].
    destruct (spec_leaf d (inst :: sdefs) _ _ cli q') as [v|] eqn:Es; [|reflexivity].
    destruct (forest_leaf_paths_leaf_at ws q' d Hw Hin) as [o Hl].
    rewrite forallb_forall in Hn. specialize (Hn _ Hin). cbn [fst] in Hn.
    assert (Es' : spec_leaf d (inst :: sdefs) (map (rooted_gen nm ws) ctor)
                            (map (rooted_gen nm ws) (if acp_of acp_arg ctor && cg then clif else [])) cli q' = Some v).
    { destruct cg; [rewrite (Hcg eq_refl); exact Es | rewrite andb_false_r; exact Es]. }
    rewrite (layers_partial _ _ _ _ _ _ _ _ _ _ _ _ _ _ H Hm Hl Hn Es'). apply pt_eqb_refl.
Qed.

(* ---------- the type tag never reaches the constructor (holds from the `_type_` fix on) ---------- *)
(* finite side condition on the regenerated facts: every key DataclassWrapper.set_default discards is popped from the
   constructor arguments in _instantiate_dataclasses *)
Lemma ctor_strips_type_key : CTOR_STRIPS_TYPE_KEY_GEN = true.
Proof. reflexivity. Qed.
Lemma strip_covers_discard : forallb (fun k => str_in k CTOR_STRIP_GEN) DISCARD_GEN = true.
Proof. vm_compute. reflexivity. Qed.

Definition ckeys (w : wtree) : option (list string) := match w with WClass _ fs => Some (keys fs) | WLeaf _ _ _ _ => None end.

Definition allknown (w : wtree) (m : list (string * ptree)) : Prop :=
  match w with WClass _ fs => names_known fs m = true | WLeaf _ _ _ _ => True end.

Lemma allknown_ckeys w w' m : ckeys w = ckeys w' -> allknown w m -> allknown w' m.
Proof.
  destruct w as [? ? ? ?|? fs], w' as [? ? ? ?|? fs']; cbn [ckeys allknown]; try discriminate; try tauto.
  intros E. injection E as E. unfold names_known. now rewrite E.
Qed.

Definition same_fields (ws ws' : list (string * wtree)) : Prop :=
  Forall2 (fun a b => fst a = fst b /\ ckeys (snd a) = ckeys (snd b)) ws ws'.

Lemma same_fields_In_r ws ws' d w' :
  same_fields ws ws' -> In (d, w') ws' -> exists w, In (d, w) ws /\ ckeys w = ckeys w'.
Proof.
  induction 1 as [|[d0 w0] [d1 w1] l l' [Hk Hc] _ IH]; intros Hin; [destruct Hin|].
  cbn [fst snd] in Hk, Hc. destruct Hin as [E | Hin].
  - injection E as <- <-. subst d0. exists w0. split; [now left | exact Hc].
  - destruct (IH Hin) as [w [Hw Hcw]]. exists w. split; [now right | exact Hcw].
Qed.

Lemma sdt_ckeys w t w' : set_default_tree_gen w t = Ok w' -> ckeys w = ckeys w'.
Proof.
  destruct w as [o d i c|cm fs]; intros H.
  - unfold set_default_tree_gen in H. cbn in H. injection H as <-. reflexivity.
  - destruct t as [| v | m].
    + unfold set_default_tree_gen in H. cbn in H. injection H as <-. reflexivity.
    + unfold set_default_tree_gen in H. cbn in H. discriminate.
    + rewrite sdt_class in H. destruct (sdt_go m fs) as [fs'|] eqn:Eg; [|discriminate].
      destruct (names_known fs m); [|discriminate]. injection H as <-. cbn [ckeys]. now rewrite (sdt_go_keys _ _ _ Eg).
Qed.

Lemma sdt_allknown w m w' : set_default_tree_gen w (PMap m) = Ok w' -> allknown w m.
Proof.
  destruct w as [o d i c|cm fs]; intros H; cbn [allknown]; [exact I|].
  rewrite sdt_class in H. destruct (sdt_go m fs); [|discriminate]. now destruct (names_known fs m).
Qed.

(* what the loop of set_defaults hands over to constructor_arguments: sections every wrapper at that destination accepted *)
Lemma sdw_sections ws : forall kw ws' s,
  sd_wrappers_gen ws kw = Ok (ws', s) ->
  (forall d sec, In (d, sec) s -> exists m, sec = PMap m /\ lookup d kw = Some (PMap m))
  /\ (forall d w m, In (d, w) ws -> lookup d kw = Some (PMap m) -> allknown w m)
  /\ same_fields ws ws'.
Proof.
  induction ws as [|[d0 w0] r IH]; intros kw ws' s H.
  - cbn in H. injection H as <- <-. repeat split; [intros ? ? [] | intros ? ? ? [] | constructor].
  - rewrite sdw_cons in H. destruct (lookup d0 kw) as [sec|] eqn:Ek.
    + destruct sec as [| v | m']; [discriminate | destruct v; discriminate |].
      destruct (set_default_tree_gen w0 (PMap m')) as [w0'|] eqn:Es; [|discriminate].
      destruct (sd_wrappers_gen r kw) as [[r' s']|] eqn:Er; [|discriminate]. injection H as <- <-.
      destruct (IH _ _ _ Er) as [A [B C]]. repeat split.
      * intros d sec [E | Hin]; [injection E as <- <-; now exists m' | now apply A].
      * intros d w m [E | Hin] Hl; [|now apply (B d w m)].
        injection E as <- <-. rewrite Ek in Hl. injection Hl as <-. apply (sdt_allknown _ _ _ Es).
      * constructor; [split; [reflexivity | apply (sdt_ckeys _ _ _ Es)] | exact C].
    + destruct (sd_wrappers_gen r kw) as [[r' s']|] eqn:Er; [|discriminate]. injection H as <- <-.
      destruct (IH _ _ _ Er) as [A [B C]]. repeat split.
      * exact A.
      * intros d w m [E | Hin] Hl; [|now apply (B d w m)]. injection E as <- <-. rewrite Ek in Hl. discriminate.
      * constructor; [split; reflexivity | exact C].
Qed.

Lemma du_go_keys y x : keys (du_go y x) = keys x.
Proof. induction x as [|[k t] r IH]; [reflexivity|]. cbn [du_go keys map fst]. f_equal. exact IH. Qed.

Lemma names_known_app fs a b : names_known fs (a ++ b) = names_known fs a && names_known fs b.
Proof. unfold names_known, keys. now rewrite map_app, forallb_app. Qed.

Lemma names_known_filter fs (p : string * ptree -> bool) l : names_known fs l = true -> names_known fs (filter p l) = true.
Proof.
  unfold names_known, keys. induction l as [|x r IH]; [reflexivity|]. cbn [map forallb filter]. intros H.
  apply andb_true_iff in H as [H1 H2]. destruct (p x); [cbn [map forallb]; now rewrite H1, IH | now apply IH].
Qed.

Lemma allknown_union w mo mn :
  allknown w mo -> allknown w mn ->
  forall m, dict_union_gen (PMap mo) (PMap mn) = PMap m -> allknown w m.
Proof.
  destruct w as [? ? ? ?|? fs]; cbn [allknown]; [tauto|]. intros Ho Hn m E. rewrite du_maps in E. injection E as <-.
  rewrite names_known_app. apply andb_true_iff. split.
  - unfold names_known in *. now rewrite du_go_keys.
  - now apply names_known_filter.
Qed.

(* constructor_arguments only ever holds, per destination, keys its dataclass knows or set_default discards *)
Definition ca_ok (ws : list (string * wtree)) (ca : ptree) : Prop :=
  is_map ca = true /\ forall d w m, In (d, w) ws -> subtree [d] ca = Some (PMap m) -> allknown w m.

Lemma sdk_ca_ok st kw st' :
  set_defaults_kwargs_gen st kw = Ok st' -> ca_ok (ps_ws st) (ps_ca st) -> ca_ok (ps_ws st') (ps_ca st').
Proof.
  intros H [Hmap Hok]. rewrite sdk_unfold in H. destruct kw as [| v | kwm]; try (injection H as <-; now split).
  destruct (sd_wrappers_gen (ps_ws st) kwm) as [[ws' s]|] eqn:E; [|discriminate]. injection H as <-. cbn [ps_ws ps_ca].
  destruct (sdw_sections _ _ _ _ E) as [A [B C]].
  destruct (ps_ca st) as [| v | cam]; try discriminate. rewrite du_maps. split; [reflexivity|].
  intros d w' m Hin Hs.
  destruct (same_fields_In_r _ _ _ _ C Hin) as [w [Hw Hc]]. apply (allknown_ckeys w w' m Hc).
  cbn [subtree] in Hs. rewrite lookup_app, lookup_du_go, lookup_filter_notin in Hs.
  destruct (lookup d cam) as [old|] eqn:Eo.
  - destruct (lookup d s) as [new|] eqn:En.
    + destruct (A d new (lookup_In _ _ _ En)) as [mn [-> Hk]].
      assert (Kn := B d w mn Hw Hk).
      destruct old as [| vo | mo].
      * rewrite du_merge_leaf_map in Hs by reflexivity. discriminate.
      * rewrite du_merge_leaf_map in Hs by reflexivity. discriminate.
      * rewrite du_merge_maps in Hs.
        assert (Hs' : dict_union_gen (PMap mo) (PMap mn) = PMap m) by congruence.
        apply (allknown_union w mo mn); [apply (Hok d w mo Hw); cbn [subtree]; now rewrite Eo | exact Kn | exact Hs'].
    + injection Hs as ->. apply (Hok d w m Hw). cbn [subtree]. now rewrite Eo.
  - apply lookup_none_keys in Eo. rewrite Eo in Hs.
    destruct (lookup d s) as [new|] eqn:En; [|discriminate]. injection Hs as ->.
    destruct (A d _ (lookup_In _ _ _ En)) as [mn [E' Hk]]. injection E' as <-. apply (B d w m Hw Hk).
Qed.

Lemma fold_kwargs_ca_ok l : forall st st',
  fold_res set_defaults_kwargs_gen st l = Ok st' -> ca_ok (ps_ws st) (ps_ca st) -> ca_ok (ps_ws st') (ps_ca st').
Proof.
  induction l as [|kw r IH]; intros st st' H Hc; cbn [fold_res] in H.
  - now injection H as <-.
  - destruct (set_defaults_kwargs_gen st kw) as [st1|] eqn:E; [|discriminate].
    apply (IH _ _ H). apply (sdk_ca_ok _ _ _ E Hc).
Qed.

Lemma fold_files_ca_ok nm l : forall st st',
  fold_res (set_defaults_file_gen nm) st l = Ok st' -> ca_ok (ps_ws st) (ps_ca st) -> ca_ok (ps_ws st') (ps_ca st').
Proof.
  induction l as [|f r IH]; intros st st' H Hc; cbn [fold_res] in H.
  - now injection H as <-.
  - destruct (set_defaults_file_gen nm st f) as [st1|] eqn:E; [|discriminate].
    apply (IH _ _ H). rewrite sdf_unfold in E. apply (sdk_ca_ok _ _ _ E Hc).
Qed.

Lemma ca_ok_no_extra ws ca : ca_ok ws ca -> existsb (extra_kwargs_gen ca) ws = false.
Proof.
  intros [_ Hok]. apply not_true_is_false. intros H. apply existsb_exists in H as [[d w] [Hin Hx]].
  unfold extra_kwargs_gen, extra_kwargs in Hx. cbn [fst snd] in Hx.
  destruct (subtree [d] ca) as [[| v | m]|] eqn:Es; try discriminate. destruct w as [? ? ? ?|? fs]; [discriminate|].
  specialize (Hok d _ m Hin Es). cbn [allknown] in Hok. unfold names_known in Hok.
  apply negb_true_iff in Hx. apply not_true_iff_false in Hx. apply Hx.
  rewrite forallb_forall in Hok |- *. intros k Hk. specialize (Hok k Hk).
  apply orb_true_iff in Hok as [Hf | Hd]; [now rewrite Hf|].
  assert (S := strip_covers_discard). rewrite forallb_forall in S. apply str_in_In in Hd. rewrite (S k Hd). apply orb_true_r.
Qed.

(* a `_type_` key in a section, at any depth, in any document, is ignored: the constructor never receives a keyword
   that is not a field, i.e. the parse is the pipeline without the unexpected-keyword failure *)
Theorem type_key_ignored nm ws inst sdefs acp_arg ctor cg clif cli :
  run_gen nm ws inst sdefs acp_arg ctor cg clif cli =
  match fold_res set_defaults_kwargs_gen (mk_pstate (ws_init ws inst) (PMap [])) sdefs with
  | Err e => Err e
  | Ok st1 =>
    match fold_res (set_defaults_file_gen nm) st1 ctor with
    | Err e => Err e
    | Ok st2 =>
      match fold_res (set_defaults_file_gen nm) st2 (applied_clif (acp_of acp_arg ctor) cg ctor clif) with
      | Err e => Err e
      | Ok st3 => match finish_all_gen (ps_ws st3) cli with Err e => Err e | Ok kvs => Ok (PMap kvs) end
      end
    end
  end.
Proof.
  rewrite run_unfold.
  destruct (fold_res set_defaults_kwargs_gen _ sdefs) as [st1|e] eqn:E1; [|reflexivity].
  destruct (fold_res (set_defaults_file_gen nm) st1 ctor) as [st2|e] eqn:E2; [|reflexivity].
  destruct (fold_res (set_defaults_file_gen nm) st2 _) as [st3|e] eqn:E3; [|reflexivity].
  destruct (finish_all_gen (ps_ws st3) cli) as [kvs|e]; [|reflexivity].
  rewrite ca_ok_no_extra; [reflexivity|].
  apply (fold_files_ca_ok _ _ _ _ E3), (fold_files_ca_ok _ _ _ _ E2), (fold_kwargs_ca_ok _ _ _ E1).
  split; [reflexivity|]. intros d w m _ Hs. cbn in Hs. discriminate.
Qed.

(* and set_default treats a section with the tag exactly like the section without it (at whatever depth the section is) *)
Lemma names_known_tag fs m v : names_known fs (("_type_", v) :: m) = names_known fs m.
Proof.
  unfold names_known. cbn [keys map fst forallb].
  replace (str_in "_type_" DISCARD_GEN) with true by reflexivity. now rewrite orb_true_r.
Qed.

Lemma sdt_go_tag fs m v : str_in "_type_" (keys fs) = false -> sdt_go (("_type_", v) :: m) fs = sdt_go m fs.
Proof.
  induction fs as [|[k c] r IH]; intros H; [reflexivity|].
  cbn [keys map fst str_in existsb] in H. apply orb_false_iff in H as [Hk Hr].
  cbn [sdt_go lookup]. rewrite String.eqb_sym in Hk. rewrite Hk, (IH Hr). reflexivity.
Qed.

Theorem type_key_in_section_ignored cm fs m v :
  str_in "_type_" (keys fs) = false ->
  set_default_tree_gen (WClass cm fs) (PMap (("_type_", v) :: m)) = set_default_tree_gen (WClass cm fs) (PMap m).
Proof. intros H. now rewrite !sdt_class, names_known_tag, (sdt_go_tag fs m v H). Qed.

(* ---------- Optional[Dataclass] = None members (otherwise covered by the correspondence only) ---------- *)
(* a document that gives the member a section marks its wrapper (DataclassWrapper._default is the dict) ... *)
Lemma opt_section_marks cm fs m w' :
  set_default_tree_gen (WClass cm fs) (PMap m) = Ok w' -> exists fs', w' = WClass (cm_set cm true) fs'.
Proof.
  rewrite sdt_class. destruct (sdt_go m fs) as [fs'|]; [|discriminate].
  destruct (names_known fs m); [|discriminate]. intros H. injection H as <-. now exists fs'.
Qed.

(* ... and a marked member is instantiated, whatever its fields hold *)
Lemma opt_marked_is_instance b di fs cli r :
  finish_gen b (WClass (COpt true di) fs) cli = Ok r -> is_map r = true.
Proof.
  rewrite finish_class. destruct (fin_go _ cli fs) as [kvs|]; [|discriminate].
  replace (opt_guard_gen true true di) with false by (unfold opt_guard_gen; destruct di; reflexivity).
  cbn [andb]. intros H. injection H as <-. reflexivity.
Qed.

Theorem optional_member_given_a_section b cm fs m w' cli r :
  set_default_tree_gen (WClass cm fs) (PMap m) = Ok w' -> finish_gen b w' cli = Ok r -> is_map r = true.
Proof.
  intros H Hf. destruct (opt_section_marks _ _ _ _ H) as [fs' ->].
  destruct cm as [|ds di]; cbn [cm_set] in Hf.
  - rewrite finish_class in Hf. destruct (fin_go _ cli fs'); [|discriminate]. injection Hf as <-. reflexivity.
  - apply (opt_marked_is_instance _ _ _ _ _ Hf).
Qed.
