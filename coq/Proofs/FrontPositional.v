(* Proofs/FrontPositional.v — C20 across the two engines: the callable front-end `main` (Model/Front.v) and the token-level
   argparse model with positionals (Model/ArgparsePos.v).
   `main` turns a signature into fields (one per parameter, STABLY partitioned: parameters without default first - the
   regenerated sort), registers one argparse action per field in that order (a positional-only parameter: a positional of one
   token, no option string; any other parameter: an option `--name`), parses, and calls the function with the positional
   fields as positional arguments.  Here: on a command line made of well-formed option groups and of plain tokens, one per
   positional-only parameter, the i-th plain token (converted) is what the callable receives as its i-th positional-only
   argument, in SIGNATURE order; and with too few plain tokens the parse ends with exit status 2 and the callable is not
   reached. *)
From Coq Require Import Permutation.
From SPV Require Import Base.Str Model.Namespace Model.LeafSpec Model.ArgparseM Model.ArgparseMSpec Model.ArgparsePos
     Model.ArgparsePosSpec Proofs.ArgparseMProofs Proofs.ArgparsePosProofs.
From SPV Require Import Model.Front Model.FrontSpec Gen.FactsFront Proofs.FrontProofs.

(* ====================================================================== *)
(* argparse side: which (pseudo-)group is the last one of each positional  *)
(* ====================================================================== *)
Definition seg_blocks (s : seg) : list (list string) := match s with SG _ => [] | SR bs => bs end.
(* the blocks of plain tokens of a command line, left to right *)
Definition all_blocks (segs : list seg) : list (list string) := List.concat (map seg_blocks segs).

Lemma Forall2_app_inv_l_local {A B} (R : A -> B -> Prop) l1 l2 l1' l2' :
  Forall2 R l1 l1' -> Forall2 R l2 l2' -> Forall2 R (l1 ++ l2) (l1' ++ l2').
Proof. intros H1 H2. induction H1; cbn [app]; [exact H2 | constructor; assumption]. Qed.

Lemma Forall2_impl_local {A B} (R S : A -> B -> Prop) l l' :
  (forall a b, In a l -> R a b -> S a b) -> Forall2 R l l' -> Forall2 S l l'.
Proof.
  intros H F. induction F; constructor.
  - apply H; [now left | assumption].
  - apply IHF. intros a b Ha. apply H. now right.
Qed.

(* two correspondences from the same index list compose *)
Lemma Forall2_join {A B C} (R : A -> B -> Prop) (S : A -> C -> Prop) (T : C -> B -> Prop) l lb lc :
  (forall a b c, R a b -> S a c -> T c b) -> Forall2 R l lb -> Forall2 S l lc -> Forall2 T lc lb.
Proof.
  intros H F1. revert lc. induction F1; intros lc F2; inversion F2; subst; constructor; eauto.
Qed.

Lemma In_firstn_local {A} (l : list A) : forall n x, In x (firstn n l) -> In x l.
Proof.
  induction l as [|y r IH]; intros [|n] x H; cbn [firstn] in H; try contradiction.
  destruct H as [H|H]; [now left | right; exact (IH n x H)].
Qed.

Lemma NoDup_app_disjoint_local {A} (l1 l2 : list A) : NoDup (l1 ++ l2) -> forall x, In x l1 -> In x l2 -> False.
Proof.
  induction l1 as [|y r IH]; intros N x H1 H2; [contradiction|]. cbn [app] in N. inversion N as [|? ? Hy Nr]; subst.
  destruct H1 as [<-|H1]; [apply Hy, in_or_app; now right | exact (IH Nr x H1 H2)].
Qed.

Lemma NoDup_app_tail_local {A} (l1 l2 : list A) : NoDup (l1 ++ l2) -> NoDup l2.
Proof. induction l1 as [|y r IH]; intros N; [exact N|]. cbn [app] in N. inversion N; subst. auto. Qed.

Section ArgSide.
  Variable V : Type.
  Variable K : Type.
  Notation actT := (act V K).
  Implicit Types (acts : list actT) (gs : list group).

  Lemma last_group_none j gs : ~ In j (map g_idx gs) -> last_group j gs = None.
  Proof.
    intros H. pose proof (last_group_spec j gs) as LS. destruct (last_group j gs) as [g|]; [|reflexivity].
    destruct LS as [Hin [Hidx _]]. exfalso. apply H. rewrite <- Hidx. now apply in_map.
  Qed.

  Lemma last_group_app j g1 g2 :
    last_group j (g1 ++ g2) = match last_group j g2 with Some x => Some x | None => last_group j g1 end.
  Proof.
    induction g1 as [|g r IH]; cbn [app].
    - destruct (last_group j g2); reflexivity.
    - rewrite !last_group_cons, IH. destruct (last_group j g2); [reflexivity|]. reflexivity.
  Qed.

  (* a run of blocks: each block is the (only, hence last) pseudo-group of its positional *)
  Lemma blocks_groups_last ab acts : forall bs posl posl',
    blocks_rest ab acts posl bs = Some posl' -> NoDup posl ->
    Forall2 (fun j b => last_group j (blocks_groups posl bs) = Some (mkgroup j "" b)) (firstn (List.length bs) posl) bs.
  Proof.
    induction bs as [|b rb IH]; intros posl posl' H N; cbn [blocks_rest] in H; [constructor|].
    destruct posl as [|p rp]; [discriminate|].
    destruct (nth_error acts p) as [a|]; [|discriminate].
    destruct (is_positional a && fixed_count (a_na a) (List.length b) && tokens_plain ab acts b); [|discriminate].
    inversion N as [|? ? Hp Nr]; subst. cbn [List.length firstn blocks_groups]. constructor.
    - rewrite last_group_cons. rewrite last_group_none.
      + cbn [g_idx]. rewrite Nat.eqb_refl. reflexivity.
      + intros Hin. apply blocks_groups_idx in Hin. apply Hp. exact (In_firstn_local _ _ _ Hin).
    - eapply Forall2_impl_local; [|exact (IH rp posl' H Nr)].
      intros j b0 _ Hj. cbn beta in *. rewrite last_group_cons, Hj. reflexivity.
  Qed.

  (* the whole command line: every positional that got a block has that block as its last (pseudo-)group *)
  Lemma as_groups_last ab acts : forall segs posl pv rest,
    segs_rest ab acts posl pv segs = Some rest -> NoDup posl ->
    (forall p, In p posl -> exists a, nth_error acts p = Some a /\ is_positional a = true) ->
    exists used, posl = (used ++ rest)%list
      /\ Forall2 (fun j b => last_group j (as_groups posl segs) = Some (mkgroup j "" b)) used (all_blocks segs).
  Proof.
    induction segs as [|[g|bs] r IH]; intros posl pv rest H N P; cbn [segs_rest] in H.
    - injection H as <-. exists []. split; [reflexivity | constructor].
    - destruct (group_ok ab acts g) eqn:G; [|discriminate].
      destruct (nth_error acts (g_idx g)) as [a|] eqn:Hn; [|discriminate].
      destruct (IH _ _ _ H N P) as [used [E F]]. exists used. split; [exact E|].
      unfold all_blocks. cbn [map seg_blocks List.concat app as_groups].
      eapply Forall2_impl_local; [|exact F]. intros j b _ Hj. cbn beta in *. rewrite last_group_cons, Hj. reflexivity.
    - assert (X : exists posl', blocks_rest ab acts posl bs = Some posl' /\ segs_rest ab acts posl' PRun r = Some rest).
      { destruct pv; destruct bs as [|b rb]; try discriminate;
          (destruct (blocks_rest ab acts posl (b :: rb)) as [posl'|]; [eauto | discriminate]). }
      destruct X as [posl' [HB HS]].
      destruct (blocks_nas V K ab acts bs posl posl' HB) as [_ [_ [_ [_ [_ [E5 [E6 _]]]]]]].
      assert (N' : NoDup posl') by (rewrite E5 in N; exact (NoDup_app_tail_local _ _ N)).
      assert (P' : forall p, In p posl' -> exists a, nth_error acts p = Some a /\ is_positional a = true).
      { intros p Hp. apply P. rewrite E5. apply in_or_app. now right. }
      destruct (IH _ _ _ HS N' P') as [used' [E' F']].
      exists (firstn (List.length bs) posl ++ used')%list. split; [rewrite <- app_assoc, <- E'; exact E5|].
      unfold all_blocks. cbn [map seg_blocks List.concat as_groups]. fold (all_blocks r). rewrite E6.
      apply Forall2_app_inv_l_local.
      + (* the blocks of this run: nothing later belongs to these positionals *)
        eapply Forall2_impl_local; [|exact (blocks_groups_last ab acts bs posl posl' HB N)].
        intros j b Hj HL. cbn beta in *. rewrite last_group_app, HL.
        rewrite last_group_none; [reflexivity|].
        intros Hin. destruct (as_groups_idx V K ab acts r posl' PRun rest HS) as [used2 [E2 U]].
        destruct (U j Hin) as [Hu|[a [Hn Hp]]].
        * (* j would be among the remaining positionals too *)
          assert (Hj' : In j posl') by (rewrite E2; apply in_or_app; now left).
          rewrite E5 in N. apply (NoDup_app_disjoint_local _ _ N j Hj Hj').
        * destruct (P j (In_firstn_local _ _ _ Hj)) as [a' [Hn' Hp']]. congruence.
      + eapply Forall2_impl_local; [|exact F']. intros j b _ Hj. cbn beta in *. rewrite last_group_app, Hj. reflexivity.
  Qed.
End ArgSide.

(* ====================================================================== *)
(* main side: the actions `main` registers for a signature                 *)
(* ====================================================================== *)
Section MainSide.
  Variable V : Type.                       (* converted values *)
  Variable K : Type.                       (* converter descriptions *)
  Variable cvt : K -> string -> res V.
  Variable veqb : V -> V -> bool.
  Notation W := (stored V).                (* what a destination of the namespace holds = what the callable receives *)
  Variable F : facts.
  Hypothesis Fpos : f_main_pos_kinds F = [PosOnly].
  Hypothesis Fsorted : f_main_sorted F = true.
  Hypothesis Fkeys : String.eqb (f_field_pos_key F) (f_main_pos_key F) = true.
  (* how the field of a parameter is exposed, by name: its converter; for an option its nargs and the default argparse holds *)
  Variable kof : string -> K.
  Variable ona : string -> nargs_t.
  Variable odflt : string -> W.
  Implicit Types (s : sig W) (p : param W) (f : fld W).

  (* one action per field: a positional field has no option string and takes one token (`?` when it has a default);
     any other field is the option --name; required iff the field has no default *)
  Definition act_of_field f : act V K :=
    if fl_pos f
    then mkact [] (fl_name f) (if fl_has_def f then NaOpt else NaOne) (kof (fl_name f)) None SNone (negb (fl_has_def f))
    else mkact [("--" ++ fl_name f)%string] (fl_name f) (ona (fl_name f)) (kof (fl_name f)) None (odflt (fl_name f))
               (negb (fl_has_def f)).
  (* in the order of the synthesised dataclass: main_fields = the STABLE partition of the signature, no default first *)
  Definition main_acts s : list (act V K) := map act_of_field (main_fields F s).
  Definition pos_act p : act V K := act_of_field (main_field F p).
  (* no positional-only parameter has a default (then every positional is a required one-token positional) *)
  Definition po_required s : bool := forallb (fun p => negb (is_po p) || negb (has_def p)) s.
  Definition ns_vals (l : ns W) (n : string) : W := match Namespace.lookup n l with Some v => v | None => SNone end.

  Lemma act_positional f : is_positional (act_of_field f) = fl_pos f.
  Proof. unfold act_of_field, is_positional. destruct (fl_pos f); reflexivity. Qed.
  Lemma act_dest f : a_dest (act_of_field f) = fl_name f.
  Proof. unfold act_of_field. destruct (fl_pos f); reflexivity. Qed.

  (* the sort `main` applies is a stable partition of the signature *)
  Lemma main_order_stable_partition s :
    main_order F s = (filter (fun p => negb (has_def p)) s ++ filter has_def s)%list.
  Proof. exact (main_order_eq F Fsorted s). Qed.

  Lemma main_acts_dests s : map a_dest (main_acts s) = map p_name (main_order F s).
  Proof.
    unfold main_acts, main_fields. rewrite !map_map. apply map_ext. intros p. rewrite act_dest. reflexivity.
  Qed.

  Lemma main_acts_nodup s : NoDup (map p_name s) -> NoDup (map a_dest (main_acts s)).
  Proof.
    intros N. rewrite main_acts_dests. eapply Permutation_NoDup; [|exact N].
    apply Permutation_map, Permutation_sym, (main_order_perm F Fsorted).
  Qed.

  Lemma main_acts_dashed s : opts_dashed (main_acts s) = true.
  Proof.
    unfold opts_dashed, main_acts. apply forallb_forall. intros a Ha. apply in_map_iff in Ha as [f [<- _]].
    unfold act_of_field. destruct (fl_pos f); reflexivity.
  Qed.

  Lemma field_of_act s a : In a (main_acts s) -> exists p, In p s /\ a = pos_act p.
  Proof.
    unfold main_acts, main_fields. rewrite map_map. intros H. apply in_map_iff in H as [p [<- Hp]].
    exists p. split; [apply (main_order_in F Fsorted); exact Hp | reflexivity].
  Qed.

  Lemma pos_act_positional p : is_positional (pos_act p) = is_po p.
  Proof. unfold pos_act. rewrite act_positional. apply (fl_pos_main F Fpos Fkeys). Qed.

  Lemma pos_act_required p : is_po p = true -> has_def p = false ->
    pos_act p = mkact [] (p_name p) NaOne (kof (p_name p)) None SNone true.
  Proof.
    intros E H. unfold pos_act, act_of_field. rewrite (fl_pos_main F Fpos Fkeys), E.
    change (fl_has_def (main_field F p)) with (has_def p). rewrite H. reflexivity.
  Qed.

  Lemma main_acts_fixed s : po_required s = true -> fixed_positionals (main_acts s) = true /\ positionals_required (main_acts s) = true.
  Proof.
    intros R. unfold po_required in R. rewrite forallb_forall in R.
    split; apply forallb_forall; intros a Ha; destruct (field_of_act s a Ha) as [p [Hp ->]];
      rewrite pos_act_positional; specialize (R p Hp); destruct (is_po p) eqn:E; cbn [negb orb] in *; try reflexivity;
      apply negb_true_iff in R; rewrite (pos_act_required p E R); reflexivity.
  Qed.

  (* the positionals of the parser, in declaration order, are the positional-only parameters in SIGNATURE order *)
  Lemma positionals_from_map {X} (g : X -> act V K) (q : X -> bool) :
    (forall x, is_positional (g x) = q x) ->
    forall L pre, Forall2 (fun j x => nth_error (map g (pre ++ L)) j = Some (g x))
                          (positionals_from (List.length pre) (map g L)) (filter q L).
  Proof.
    intros Hq. induction L as [|x r IH]; intros pre; cbn [map positionals_from filter]; [constructor|].
    assert (IH' : Forall2 (fun j y => nth_error (map g (pre ++ x :: r)) j = Some (g y))
                          (positionals_from (S (List.length pre)) (map g r)) (filter q r)).
    { specialize (IH (pre ++ [x])%list). rewrite app_length in IH. cbn [List.length] in IH. rewrite Nat.add_1_r in IH.
      rewrite <- app_assoc in IH. exact IH. }
    rewrite Hq. destruct (q x); [|exact IH']. constructor; [|exact IH'].
    rewrite map_app, nth_error_app2 by (rewrite map_length; lia). rewrite map_length, Nat.sub_diag. reflexivity.
  Qed.

  Lemma main_positionals s :
    ordered has_def false (filter is_po s) = true ->
    Forall2 (fun j p => nth_error (main_acts s) j = Some (pos_act p)) (positionals (main_acts s)) (filter is_po s).
  Proof.
    intros O. unfold main_acts, main_fields. rewrite map_map. fold pos_act.
    rewrite <- (filter_main_order F Fsorted is_po s O).
    exact (positionals_from_map pos_act is_po pos_act_positional (main_order F s) []).
  Qed.

  Theorem main_positionals_in_signature_order ab s segs :
    sig_wf s = true -> po_required s = true -> segs_ok ab (main_acts s) segs = true ->
    parse_argsP cvt veqb ab (main_acts s) (flatten_segs segs)
      = spec_groups cvt veqb (main_acts s) (as_groups (positionals (main_acts s)) segs)
    /\ forall l, parse_argsP cvt veqb ab (main_acts s) (flatten_segs segs) = Ok l ->
         Forall2 (fun p b => values_of cvt veqb (pos_act p) b = Ok (ns_vals l (p_name p))) (filter is_po s) (all_blocks segs)
         /\ c_pos (main_call F s (ns_vals l) [] []) = map (fun p => ns_vals l (p_name p)) (filter is_po s)
         /\ bind_call s (main_call F s (ns_vals l) [] []) = Ok (want_all s (ns_vals l)).
  Proof.
    intros W0 R S. assert (W1 := W0). unfold sig_wf in W1. apply andb_true_iff in W1 as [W1 Word].
    apply andb_true_iff in W1 as [Wnd _]. apply str_nodupb_NoDup in Wnd.
    assert (ND := main_acts_nodup s Wnd). destruct (main_acts_fixed s R) as [FX RQ].
    assert (PIO := positionals_in_order V K cvt veqb ab (main_acts s) segs ND (main_acts_dashed s) FX S).
    split; [exact PIO|]. intros l HL.
    destruct (main_binds F Fpos Fsorted Fkeys s (ns_vals l) W0) as [B [Hp _]].
    split; [|split; [exact Hp | exact B]].
    rewrite PIO in HL.
    unfold segs_ok in S.
    destruct (segs_rest ab (main_acts s) (positionals (main_acts s)) PStart segs) as [[|x xs]|] eqn:SR; try discriminate.
    destruct (as_groups_last V K ab (main_acts s) segs _ _ _ SR) as [used [E FL]].
    - exact (proj1 (positionals_from_nodup V K (main_acts s) 0)).
    - intros p Hp'. exact (positionals_spec V K (main_acts s) p Hp').
    - rewrite app_nil_r in E. subst used.
      refine (Forall2_join _ _ _ _ _ _ _ FL (main_positionals s Word)).
      intros j b p HLg Hn. cbn beta in *.
      destruct (spec_groups_lookup V K cvt veqb (main_acts s) _ l j (pos_act p) ND HL Hn) as [v [Hv Hg]].
      rewrite HLg in Hg. cbn [g_toks] in Hg. unfold ns_vals. unfold pos_act in Hv. rewrite act_dest in Hv.
      cbn [main_field fl_name] in Hv. rewrite Hv. exact Hg.
  Qed.

  (* too few plain tokens: exit status 2, and `main` does not reach the callable *)
  Theorem main_positionals_too_few ab s segs (j : nat) (more : list nat) :
    sig_wf s = true -> po_required s = true -> conv_exit2_only cvt (main_acts s) ->
    segs_rest ab (main_acts s) (positionals (main_acts s)) PStart segs = Some (j :: more) ->
    parse_argsP cvt veqb ab (main_acts s) (flatten_segs segs) = Err (Exit 2)
    /\ main_run F s (Err (Exit 2)) [] [] = (match setup F (main_fields F s) with Ok _ => (None, Err (Exit 2)) | Err e => (None, Err e) end).
  Proof.
    intros W0 R C SR. assert (W1 := W0). unfold sig_wf in W1. apply andb_true_iff in W1 as [W1 _].
    apply andb_true_iff in W1 as [Wnd _]. apply str_nodupb_NoDup in Wnd.
    destruct (main_acts_fixed s R) as [FX RQ]. split.
    - exact (positionals_too_few_exit2 V K cvt veqb ab (main_acts s) segs j more (main_acts_nodup s Wnd) (main_acts_dashed s) FX RQ C SR).
    - unfold main_run. destruct (setup F (main_fields F s)); reflexivity.
  Qed.
End MainSide.

(* ====================================================================== *)
(* with the regenerated facts                                              *)
(* ====================================================================== *)
Definition main_acts_gen {V K} := @main_acts V K facts_gen.
Definition pos_act_gen {V K} := @pos_act V K facts_gen.

Theorem main_sort_is_stable_partition_gen {V} (s : sig V) :
  main_order facts_gen s = (filter (fun p => negb (has_def p)) s ++ filter has_def s)%list.
Proof. exact (main_order_eq facts_gen gen_sorted s). Qed.

Theorem main_positionals_in_signature_order_gen {V K} (cvt : K -> string -> res V) veqb kof ona odflt ab
        (s : sig (stored V)) segs :
  sig_wf s = true -> po_required V s = true -> segs_ok ab (main_acts_gen kof ona odflt s) segs = true ->
  parse_argsP cvt veqb ab (main_acts_gen kof ona odflt s) (flatten_segs segs)
    = spec_groups cvt veqb (main_acts_gen kof ona odflt s) (as_groups (positionals (main_acts_gen kof ona odflt s)) segs)
  /\ forall l, parse_argsP cvt veqb ab (main_acts_gen kof ona odflt s) (flatten_segs segs) = Ok l ->
       Forall2 (fun p b => values_of cvt veqb (pos_act_gen kof ona odflt p) b = Ok (ns_vals V l (p_name p)))
               (filter is_po s) (all_blocks segs)
       /\ c_pos (main_call facts_gen s (ns_vals V l) [] []) = map (fun p => ns_vals V l (p_name p)) (filter is_po s)
       /\ bind_call s (main_call facts_gen s (ns_vals V l) [] []) = Ok (want_all s (ns_vals V l)).
Proof. exact (main_positionals_in_signature_order V K cvt veqb facts_gen gen_pos_kinds gen_sorted gen_pos_keys kof ona odflt ab s segs). Qed.

Theorem main_positionals_too_few_gen {V K} (cvt : K -> string -> res V) veqb kof ona odflt ab (s : sig (stored V)) segs j more :
  sig_wf s = true -> po_required V s = true -> conv_exit2_only cvt (main_acts_gen kof ona odflt s) ->
  segs_rest ab (main_acts_gen kof ona odflt s) (positionals (main_acts_gen kof ona odflt s)) PStart segs = Some (j :: more) ->
  parse_argsP cvt veqb ab (main_acts_gen kof ona odflt s) (flatten_segs segs) = Err (Exit 2)
  /\ main_run facts_gen s (Err (Exit 2)) [] []
     = (match setup facts_gen (main_fields facts_gen s) with Ok _ => (None, Err (Exit 2)) | Err e => (None, Err e) end).
Proof. exact (main_positionals_too_few V K cvt veqb facts_gen gen_pos_kinds gen_sorted gen_pos_keys kof ona odflt ab s segs j more). Qed.

Theorem main_positionals_too_few_safe_gen {V K} (cvt : K -> string -> res V) veqb kof ona odflt ab (s : sig (stored V)) segs j more :
  sig_wf s = true -> po_required V s = true -> main_safe facts_gen s = true ->
  conv_exit2_only cvt (main_acts_gen kof ona odflt s) ->
  segs_rest ab (main_acts_gen kof ona odflt s) (positionals (main_acts_gen kof ona odflt s)) PStart segs = Some (j :: more) ->
  parse_argsP cvt veqb ab (main_acts_gen kof ona odflt s) (flatten_segs segs) = Err (Exit 2)
  /\ main_run facts_gen s (Err (Exit 2)) [] [] = (None, Err (Exit 2)).
Proof.
  intros W R S C SR. destruct (main_positionals_too_few_gen cvt veqb kof ona odflt ab s segs j more W R C SR) as [H1 H2].
  split; [exact H1|]. rewrite H2, (main_setup_ok facts_gen gen_sorted s S). reflexivity.
Qed.
