(* Proofs/HelpProofs.v — C16: the entries of `--help` (model instantiated with the regenerated facts) against the spec. *)
From Coq Require Import Permutation Sorted.
From SPV Require Import Base.Str Model.OptStr Model.Help Model.HelpSpec Gen.FactsConflicts Gen.FactsBool Gen.FactsHelp Proofs.OptStrProofs.

(* the hash-seed oracle may enumerate a set of spellings in any order, but it enumerates exactly that set *)
Definition valid (perm : list string -> list string) : Prop := forall l, Permutation (perm l) l.

Lemma valid_id : valid (fun l => l).
Proof. intros l. reflexivity. Qed.
Lemma valid_rev : valid (@rev string).
Proof. intros l. symmetry. apply Permutation_rev. Qed.

(* ---------- perm_of (the oracle rebuilt from observations) is always valid ---------- *)
Lemma is_permb_sound a b : is_permb a b = true -> Permutation a b.
Proof.
  unfold is_permb. rewrite !andb_true_iff. intros [[[Ha Hb] Hab] Hba].
  apply NoDup_Permutation; [now apply str_nodupb_NoDup | now apply str_nodupb_NoDup |].
  rewrite forallb_forall in Hab, Hba. intros x. split; intros H.
  - apply str_in_In. now apply Hab.
  - apply str_in_In. now apply Hba.
Qed.

Theorem perm_of_valid tbl : valid (perm_of tbl).
Proof.
  intros l. unfold perm_of. destruct (find (fun row => is_permb row l) tbl) as [row|] eqn:E; [|reflexivity].
  apply find_some in E as [_ E]. now apply is_permb_sound.
Qed.

(* ---------- the regenerated skip test is "not (init and cmd)" ---------- *)
Lemma skip_gen_spec i c : skip_gen i c = negb (i && c).
Proof. destruct i, c; reflexivity. Qed.

(* ... and a field without a "cmd" key counts as cmd=True, so: exposed = init and not declared cmd=False *)
Lemma exposedb_gen_spec f : exposedb skip_gen cmd_default_gen f = spec_exposed f.
Proof.
  unfold exposedb, spec_exposed. rewrite skip_gen_spec, negb_involutive.
  destruct (hf_cmd f) as [[|]|]; reflexivity.
Qed.

Lemma filter_exposed fs : filter (exposedb skip_gen cmd_default_gen) fs = filter spec_exposed fs.
Proof. apply filter_ext. exact exposedb_gen_spec. Qed.

(* the regenerated title and description functions on the modelled domain: `qualname ['dest']`, the class docstring *)
Lemma title_gen_spec w : title title_gen w = spec_title w.
Proof.
  unfold title, spec_title, title_gen. reflexivity.
Qed.

(* the regenerated DataclassWrapper.description is the documented rule, for ALL inputs (not only the modelled domain) *)
Theorem description_gen_rule m b a i cd d sh fd hg :
  description_gen m b a i cd d sh fd hg = spec_description m b a i cd d sh fd hg.
Proof.
  unfold description_gen, spec_description.
  destruct m, (String.eqb b ""), (String.eqb a ""), (String.eqb i ""), (String.eqb cd ""), fd, hg; reflexivity.
Qed.

Lemma description_gen_spec w : description description_gen w = hw_doc w.
Proof.
  unfold description, description_gen. cbn [String.eqb negb].
  destruct (Nat.ltb 1 (List.length (hw_path w))); destruct (String.eqb (hw_doc w) "") eqn:E;
    try reflexivity; apply String.eqb_eq in E; rewrite E; reflexivity.
Qed.

(* BooleanOptionalAction registers the positive spellings followed by the negative ones *)
Lemma bool_action_opts_gen_spec pos negs : bool_action_opts_gen pos negs = (pos ++ negs)%list.
Proof. reflexivity. Qed.

(* ---------- option strings of an entry: the accepted spellings, each once, whatever the seed ---------- *)
Lemma ordered_opts_In b perm c f o :
  valid perm -> (In o (ordered_opts b perm c f) <-> In o (option_strings c f)).
Proof.
  intros V. unfold ordered_opts, option_strings. destruct (positional f); [reflexivity|].
  rewrite !sort_by_In. destruct b; [reflexivity|].
  split; apply Permutation_in; [apply V | symmetry; apply V].
Qed.

Lemma ordered_opts_NoDup b perm c f : valid perm -> NoDup (ordered_opts b perm c f).
Proof.
  intros V. unfold ordered_opts. destruct (positional f); [repeat constructor; auto|].
  assert (N : NoDup (if b then dedupe (raw_options c f) [] else perm (dedupe (raw_options c f) []))).
  { destruct b; [apply dedupe_NoDup|].
    apply (Permutation_NoDup (l := dedupe (raw_options c f) [])); [symmetry; apply V | apply dedupe_NoDup]. }
  apply (Permutation_NoDup (l := if b then dedupe (raw_options c f) [] else perm (dedupe (raw_options c f) [])));
    [symmetry; apply sort_by_perm | exact N].
Qed.

Lemma entry_of_dest ah tok ad st ew np dc bh bo b perm c D f : e_dest (entry_of ah tok ad st ew np dc bh bo b perm c D f) = hdest f.
Proof. unfold entry_of. destruct (ah _ _) as [h|]; [destruct (bh && is_blank h)|]; reflexivity. Qed.

Lemma entry_of_opts ah tok ad st ew np dc bh bo b perm c D f :
  e_opts (entry_of ah tok ad st ew np dc bh bo b perm c D f) = shown_opts np bo b perm c f.
Proof. unfold entry_of. destruct (ah _ _) as [h|]; [destruct (bh && is_blank h)|]; reflexivity. Qed.

(* ---------- complete: groups <-> wrappers, entries <-> exposed fields, in declaration order ---------- *)
Definition shows (c : cfg) (f : hfield) (e : entry) : Prop :=
  e_dest e = dest (hf_fw f)
  /\ exists pos,
       (forall o, In o pos <-> In o (option_strings c (hf_fw f)))
       /\ NoDup pos
       /\ e_opts e = (if hf_bool f then pos ++ negs_of DEFAULT_NEGATIVE_PREFIX pos else pos)%list.

Lemma Forall2_map_r {A B} (P : A -> B -> Prop) (g : A -> B) l :
  (forall x, In x l -> P x (g x)) -> Forall2 P l (map g l).
Proof.
  induction l as [|x r IH]; intros H; simpl; constructor.
  - apply H. now left.
  - apply IH. intros y Hy. apply H. now right.
Qed.

Theorem help_complete perm c D F :
  valid perm ->
  Forall2 (fun w g => g_title g = spec_title w /\ g_desc g = hw_doc w
                      /\ Forall2 (shows c) (filter spec_exposed (hw_fields w)) (g_entries g))
          F (help_entries_gen perm c D F).
Proof.
  intros V. unfold help_entries_gen, help_entries. apply Forall2_map_r. intros w _. split; [apply title_gen_spec|]. split; [apply description_gen_spec|].
  unfold group_of. cbn [g_entries]. rewrite filter_exposed. apply Forall2_map_r. intros f _.
  unfold shows. rewrite entry_of_dest, entry_of_opts. split; [reflexivity|].
  exists (ordered_opts option_order_preserved_gen perm c (hf_fw f)). split; [|split].
  - intros o. apply ordered_opts_In. exact V.
  - apply ordered_opts_NoDup. exact V.
  - reflexivity.
Qed.

(* every entry (= every registered action) belongs to an exposed field of some destination *)
Theorem entries_only_exposed perm c D F g e :
  In g (help_entries_gen perm c D F) -> In e (g_entries g) ->
  exists w f, In w F /\ In f (hw_fields w) /\ spec_exposed f = true /\ e = entry_of_gen perm c D f.
Proof.
  unfold help_entries_gen, help_entries. intros Hg He. apply in_map_iff in Hg as [w [<- Hw]].
  unfold group_of in He. cbn [g_entries] in He. rewrite filter_exposed in He.
  apply in_map_iff in He as [f [<- Hf]]. apply filter_In in Hf as [Hf1 Hf2].
  exists w, f. repeat split; assumption.
Qed.

Lemma NoDup_map_inj {A B} (g : A -> B) l x y :
  NoDup (map g l) -> In x l -> In y l -> g x = g y -> x = y.
Proof.
  induction l as [|a r IH]; intros N Hx Hy E; [contradiction|].
  simpl in N. inversion N as [|? ? Hn Nr]; subst.
  destruct Hx as [->|Hx], Hy as [->|Hy].
  - reflexivity.
  - exfalso. apply Hn. rewrite E. now apply in_map.
  - exfalso. apply Hn. rewrite <- E. now apply in_map.
  - now apply IH.
Qed.

(* a field that is init=False or cmd=False has no entry and no action: never shown, never parseable *)
Theorem hidden_never perm c D F w f :
  In w F -> In f (hw_fields w) -> spec_exposed f = false ->
  NoDup (map hdest (flat_map hw_fields F)) ->
  (forall g e, In g (help_entries_gen perm c D F) -> In e (g_entries g) -> e_dest e <> hdest f)
  /\ (forall o, ~ In (o, hdest f) (registered (help_entries_gen perm c D F))).
Proof.
  intros Hw Hf Hx N.
  assert (A : forall g e, In g (help_entries_gen perm c D F) -> In e (g_entries g) -> e_dest e <> hdest f).
  { intros g e Hg He E. destruct (entries_only_exposed _ _ _ _ _ _ Hg He) as [w' [f' [Hw' [Hf' [Hx' ->]]]]].
    unfold entry_of_gen in E. rewrite entry_of_dest in E.
    assert (f' = f).
    { apply (NoDup_map_inj hdest (flat_map hw_fields F)); [exact N | | | exact E];
        apply in_flat_map; [exists w' | exists w]; auto. }
    subst f'. congruence. }
  split; [exact A|].
  intros o H. unfold registered in H. apply in_flat_map in H as [g [Hg H]]. apply in_flat_map in H as [e [He H]].
  apply in_map_iff in H as [o' [E _]]. injection E as _ E. exact (A g e Hg He E).
Qed.

(* the group description is the class docstring, so a hidden field is mentioned there exactly when the docstring
   mentions it - and the docstring that `dataclasses` writes when the class has none is the constructor signature *)
Theorem hidden_not_in_description_partial perm c D F :
  (forall w w' f, In w F -> In w' F -> In f (hw_fields w) -> spec_exposed f = false ->
                  occurs (name (hf_fw f)) (hw_doc w') = false) ->
  hidden_not_mentioned F (help_entries_gen perm c D F) = true.
Proof.
  intros H. unfold hidden_not_mentioned. apply forallb_forall. intros w Hw. apply forallb_forall. intros f Hf.
  destruct (spec_exposed f) eqn:E; [reflexivity|]. cbn [orb]. apply forallb_forall. intros g Hg.
  unfold help_entries_gen, help_entries in Hg. apply in_map_iff in Hg as [w' [<- Hw']].
  cbn [group_of g_desc]. rewrite description_gen_spec, (H w w' f Hw Hw' Hf E). reflexivity.
Qed.

Definition W_autodoc : list hwrap :=
  [mkhw "A" ["a"] [] "A(x: int = 1, secret: str = 'hunter2')"
        [mkhf (mkfw ["a"] "x" "" [] false) true None "" (Some "1") false;
         mkhf (mkfw ["a"] "secret" "" [] false) true (Some false) "" (Some "hunter2") false]].

Theorem hidden_in_description_refuted :
  exists perm c D F, valid perm /\ hidden_not_mentioned F (help_entries_gen perm c D F) = false.
Proof.
  exists (fun l => l), default_cfg_parser, [], W_autodoc. split; [exact valid_id|]. vm_compute. reflexivity.
Qed.

(* ---------- the default shown is the effective default; the help text is the field's ---------- *)
Definition help_ok (f : hfield) : bool := String.eqb (hf_help f) "" || negb (is_blank (hf_help f)).

(* the regenerated test on an outside default lets EVERY non-None value win, falsy ones (0, 0.0, False, "", []) included *)
Lemma ext_wins_gen_spec falsy : ext_wins_gen falsy = true.
Proof. destruct falsy; reflexivity. Qed.

(* the regenerated chain of FieldWrapper.default asks for an outside default first and for the definition's
   (field.default, then default_factory) only after it - so the effective default is the spec's *)
Lemma effective_spec D f : effective ext_wins_gen default_chain_gen D f = spec_effective D f.
Proof.
  unfold effective, spec_effective, hdest, default_chain_gen. cbn [run_dchain].
  destruct (dlookup (dest (hf_fw f)) D) as [v|].
  - rewrite ext_wins_gen_spec. reflexivity.
  - destruct (hf_default f); reflexivity.
Qed.


Theorem default_shown perm c D f v :
  help_ok f = true -> spec_effective D f = Some v -> e_default (entry_of_gen perm c D f) = Some v.
Proof.
  intros Hh Hv. unfold entry_of_gen, entry_of. rewrite effective_spec, Hv. unfold arg_help_gen.
  unfold help_ok in Hh. destruct (String.eqb (hf_help f) "") eqn:E; cbn [negb].
  - reflexivity.
  - cbn [orb] in Hh. apply negb_true_iff in Hh. rewrite Hh. reflexivity.
Qed.

Theorem default_none perm c D f :
  spec_effective D f = None ->
  e_default (entry_of_gen perm c D f) = None \/ e_default (entry_of_gen perm c D f) = Some "None".
Proof.
  intros Hv. unfold entry_of_gen, entry_of. rewrite effective_spec, Hv. unfold arg_help_gen.
  destruct (String.eqb (hf_help f) ""); cbn [negb]; [left; reflexivity|].
  destruct (is_blank (hf_help f)); [left | right]; reflexivity.
Qed.

(* a whitespace-only help text makes argparse print no help at all, hence no default either *)
Theorem default_shown_refuted :
  exists c D f v, spec_effective D f = Some v /\ e_default (entry_of_gen (fun l => l) c D f) = None.
Proof.
  exists default_cfg_parser, [], (mkhf (mkfw ["a"] "x" "" [] false) true None " " (Some "3") false), "3".
  split; reflexivity.
Qed.

Lemma remove_sub_fuel_noocc n tok s : occurs tok s = false -> remove_sub_fuel n tok s = s.
Proof.
  revert s. induction n as [|k IH]; intros s H; [reflexivity|].
  destruct s as [|a r]; [reflexivity|]. cbn [remove_sub_fuel].
  cbn [occurs] in H. apply orb_false_iff in H as [H1 H2]. rewrite H1. f_equal. apply IH. exact H2.
Qed.

Theorem help_text_shown perm c D f :
  help_ok f = true -> occurs TEMPORARY_TOKEN_gen (hf_help f) = false ->
  e_help (entry_of_gen perm c D f) = hf_help f.
Proof.
  intros Hh Ho. unfold entry_of_gen, entry_of, arg_help_gen. unfold help_ok in Hh.
  destruct (String.eqb (hf_help f) "") eqn:E; cbn [negb].
  - apply String.eqb_eq in E. rewrite E. destruct (effective ext_wins_gen default_chain_gen D f); reflexivity.
  - cbn [orb] in Hh. apply negb_true_iff in Hh. rewrite Hh. cbn [e_help strips_token_gen].
    unfold remove_sub. change (String.eqb TEMPORARY_TOKEN_gen "") with false. cbv iota.
    apply remove_sub_fuel_noocc. exact Ho.
Qed.

(* ---------- reproducibility ---------- *)
(* FULL statement: the whole `--help` run is a function of the definition (no dependence on the oracle).
   It follows from the regenerated fact "option_strings de-duplicates through an order-preserving container". *)
Lemma entry_of_true ah tok ad st ew np dc bh bo p1 p2 c D f :
  entry_of ah tok ad st ew np dc bh bo true p1 c D f = entry_of ah tok ad st ew np dc bh bo true p2 c D f.
Proof. reflexivity. Qed.

Lemma cli_help_of_true sk cd ah tok ad st ew np dc bh bo mt ds p1 p2 hs ho c pre cfgf s :
  cli_help_of sk cd ah tok ad st ew np dc bh bo mt ds true p1 hs ho c pre cfgf s = cli_help_of sk cd ah tok ad st ew np dc bh bo mt ds true p2 hs ho c pre cfgf s.
Proof.
  unfold cli_help_of. destruct s as [F'|e]; reflexivity.
Qed.

Lemma ordered_opts_true p c f : ordered_opts true p c f = option_strings c f.
Proof. reflexivity. Qed.

Theorem deterministic_full :
  option_order_preserved_gen = true ->
  forall p1 p2 c m pre cfgf F, run_cli_help_gen p1 c m pre cfgf F = run_cli_help_gen p2 c m pre cfgf F.
Proof.
  intros H p1 p2 c m pre cfgf F.
  unfold run_cli_help_gen, cli_help_of_gen, setup_gen, resolver_gen, ordered_opts_gen. rewrite H.
  change (ordered_opts true p1 c) with (option_strings c).
  change (ordered_opts true p2 c) with (option_strings c).
  apply cli_help_of_true.
Qed.

Definition W_ab : list hwrap := [mkhw "K" ["a"] [] "Doc." [mkhf (mkfw ["a"] "bb" "" ["cc"] false) true None "" (Some "1") false]].

(* with a hash-ordered set, two valid oracles print two different entry lists for one field with two equal-length spellings *)
Theorem deterministic_refuted :
  option_order_preserved_gen = false ->
  exists p1 p2 c m pre cfgf F,
    valid p1 /\ valid p2 /\ run_cli_help_gen p1 c m pre cfgf F <> run_cli_help_gen p2 c m pre cfgf F.
Proof.
  intros H. exists (fun l => l), (@rev string), default_cfg_parser, CRAuto, [], [], W_ab.
  split; [exact valid_id|]. split; [exact valid_rev|].
  unfold run_cli_help_gen, cli_help_of_gen, setup_gen, resolver_gen, ordered_opts_gen. rewrite H.
  vm_compute. intros E. discriminate E.
Qed.

(* worse: which option strings exist at all depends on the oracle, because the conflict resolver repairs the first
   clash it meets.  a.ab (alias cd), b.cd, c.ab: under one order `--cd` belongs to b.cd, under the other it does not exist *)
Definition W_clash : list hwrap :=
  [mkhw "A" ["a"] [] "Doc." [mkhf (mkfw ["a"] "ab" "" ["cd"] false) true None "" (Some "1") false];
   mkhw "B" ["b"] [] "Doc." [mkhf (mkfw ["b"] "cd" "" [] false) true None "" (Some "1") false];
   mkhw "C" ["c"] [] "Doc." [mkhf (mkfw ["c"] "ab" "" [] false) true None "" (Some "1") false]].

Definition accepted_of (r : helprun) : list string :=
  match r_printed r with Some (_, gs) => map fst (registered gs) | None => [] end.

Theorem accepted_set_refuted :
  option_order_preserved_gen = false ->
  exists p1 p2 c m F,
    valid p1 /\ valid p2
    /\ In "--cd" (accepted_of (run_cli_help_gen p1 c m [] [] F))
    /\ ~ In "--cd" (accepted_of (run_cli_help_gen p2 c m [] [] F)).
Proof.
  intros H. exists (fun l => l), (@rev string), default_cfg_parser, CRAuto, W_clash.
  split; [exact valid_id|]. split; [exact valid_rev|].
  unfold run_cli_help_gen, cli_help_of_gen, setup_gen, resolver_gen, ordered_opts_gen. rewrite H. vm_compute.
  split; [tauto|]. intros E. repeat (destruct E as [E|E]; [discriminate E|]). exact E.
Qed.

(* PARTIAL: entries of a set-up forest in which no exposed field has two spellings of the same length *)
Fixpoint nat_nodupb (l : list nat) : bool :=
  match l with [] => true | x :: r => negb (existsb (Nat.eqb x) r) && nat_nodupb r end.
Lemma nat_nodupb_NoDup l : nat_nodupb l = true -> NoDup l.
Proof.
  induction l as [|x r IH]; simpl; intros H; [constructor|].
  apply andb_true_iff in H as [H1 H2]. constructor; [|now apply IH].
  intros Hin. apply negb_true_iff in H1. assert (existsb (Nat.eqb x) r = true).
  { apply existsb_exists. exists x. split; [exact Hin | apply Nat.eqb_refl]. }
  congruence.
Qed.

Definition tie_free (c : cfg) (f : fw) : bool :=
  nat_nodupb (map String.length (dedupe (raw_options c f) [])).
Definition forest_tie_free (c : cfg) (F : list hwrap) : bool :=
  forallb (fun w => forallb (fun f => negb (spec_exposed f) || tie_free c (hf_fw f)) (hw_fields w)) F.

Section SortUnique.
  Context {A : Type} (key : A -> nat).
  Let le_k (a b : A) := key a <= key b.
  Let lt_k (a b : A) := key a < key b.

  Lemma ins_by_sorted x l : StronglySorted le_k l -> StronglySorted le_k (ins_by key x l).
  Proof.
    induction l as [|y r IH]; intros S; simpl; [repeat constructor|].
    inversion S as [|? ? Sr Fr]; subst.
    destruct (Nat.ltb (key x) (key y)) eqn:E.
    - apply Nat.ltb_lt in E. constructor; [exact S|]. constructor; [unfold le_k; lia|].
      eapply Forall_impl; [|exact Fr]. unfold le_k. intros a Ha. lia.
    - apply Nat.ltb_ge in E. constructor; [apply IH; exact Sr|].
      rewrite Forall_forall. intros a Ha. apply (Permutation_in _ (ins_by_perm key x r)) in Ha.
      destruct Ha as [<-|Ha]; [exact E|]. rewrite Forall_forall in Fr. apply Fr. exact Ha.
  Qed.

  Lemma fold_ins_sorted l : forall acc, StronglySorted le_k acc ->
    StronglySorted le_k (fold_left (fun a x => ins_by key x a) l acc).
  Proof.
    induction l as [|x r IH]; intros acc S; simpl; [exact S|]. apply IH. apply ins_by_sorted. exact S.
  Qed.

  Lemma sort_by_sorted l : StronglySorted le_k (sort_by key l).
  Proof. unfold sort_by. apply fold_ins_sorted. constructor. Qed.

  Lemma sorted_le_lt l : StronglySorted le_k l -> NoDup (map key l) -> StronglySorted lt_k l.
  Proof.
    induction l as [|x r IH]; intros S N; [constructor|].
    inversion S as [|? ? Sr Fr]; subst. simpl in N. inversion N as [|? ? Hn Nr]; subst.
    constructor; [now apply IH|].
    rewrite Forall_forall in *. intros a Ha. specialize (Fr a Ha). unfold le_k in Fr. unfold lt_k.
    assert (key x <> key a). { intros E. apply Hn. rewrite E. now apply in_map. }
    lia.
  Qed.

  Lemma sorted_lt_unique l1 : forall l2,
    StronglySorted lt_k l1 -> StronglySorted lt_k l2 -> Permutation l1 l2 -> l1 = l2.
  Proof.
    induction l1 as [|a r1 IH]; intros l2 S1 S2 P.
    - apply Permutation_nil in P. now subst.
    - destruct l2 as [|b r2]; [symmetry in P; apply Permutation_nil in P; discriminate|].
      inversion S1 as [|? ? S1r F1]; subst. inversion S2 as [|? ? S2r F2]; subst.
      rewrite Forall_forall in F1, F2.
      assert (a = b).
      { assert (Ha : In a (b :: r2)) by (apply (Permutation_in _ P); now left).
        assert (Hb : In b (a :: r1)) by (apply (Permutation_in _ (Permutation_sym P)); now left).
        destruct Ha as [->|Ha]; [reflexivity|]. destruct Hb as [->|Hb]; [reflexivity|].
        specialize (F1 b Hb). specialize (F2 a Ha). unfold lt_k in *. lia. }
      subst b. f_equal. apply IH; [exact S1r | exact S2r | now apply Permutation_cons_inv in P].
  Qed.

  Lemma sort_by_unique l1 l2 :
    Permutation l1 l2 -> NoDup (map key l1) -> sort_by key l1 = sort_by key l2.
  Proof.
    intros P N.
    assert (P' : Permutation (sort_by key l1) (sort_by key l2)).
    { rewrite (sort_by_perm key l1), (sort_by_perm key l2). exact P. }
    apply sorted_lt_unique; [| |exact P'].
    - apply sorted_le_lt; [apply sort_by_sorted|].
      apply (Permutation_NoDup (l := map key l1)); [apply Permutation_map; symmetry; apply sort_by_perm | exact N].
    - apply sorted_le_lt; [apply sort_by_sorted|].
      apply (Permutation_NoDup (l := map key l1)); [|exact N].
      apply Permutation_map. rewrite (sort_by_perm key l2). exact P.
  Qed.
End SortUnique.

Lemma ordered_opts_tie_free b p1 p2 c f :
  valid p1 -> valid p2 -> tie_free c f = true -> ordered_opts b p1 c f = ordered_opts b p2 c f.
Proof.
  intros V1 V2 T. unfold ordered_opts. destruct (positional f); [reflexivity|]. destruct b; [reflexivity|].
  apply sort_by_unique.
  - rewrite (V1 _), (V2 _). reflexivity.
  - apply (Permutation_NoDup (l := map String.length (dedupe (raw_options c f) []))).
    + apply Permutation_map. symmetry. apply V1.
    + apply nat_nodupb_NoDup. exact T.
Qed.

Lemma entry_of_tie_free ah tok ad st ew np dc bh bo b p1 p2 c D f :
  valid p1 -> valid p2 -> tie_free c (hf_fw f) = true ->
  entry_of ah tok ad st ew np dc bh bo b p1 c D f = entry_of ah tok ad st ew np dc bh bo b p2 c D f.
Proof.
  intros V1 V2 T. unfold entry_of, shown_opts. rewrite (ordered_opts_tie_free b p1 p2 c (hf_fw f) V1 V2 T). reflexivity.
Qed.

Theorem deterministic_partial p1 p2 c D F :
  valid p1 -> valid p2 -> forest_tie_free c F = true ->
  help_entries_gen p1 c D F = help_entries_gen p2 c D F.
Proof.
  intros V1 V2 T. unfold help_entries_gen, help_entries. apply map_ext_in. intros w Hw.
  unfold forest_tie_free in T. rewrite forallb_forall in T. specialize (T w Hw). rewrite forallb_forall in T.
  unfold group_of. rewrite filter_exposed.
  assert (E : forall f, In f (filter spec_exposed (hw_fields w)) ->
                        entry_of arg_help_gen TEMPORARY_TOKEN_gen adds_default_gen strips_token_gen ext_wins_gen DEFAULT_NEGATIVE_PREFIX
                                 default_chain_gen blank_help_hidden_gen bool_action_opts_gen option_order_preserved_gen p1 c D f
                        = entry_of arg_help_gen TEMPORARY_TOKEN_gen adds_default_gen strips_token_gen ext_wins_gen DEFAULT_NEGATIVE_PREFIX
                                 default_chain_gen blank_help_hidden_gen bool_action_opts_gen option_order_preserved_gen p2 c D f).
  { intros f Hf. apply filter_In in Hf as [Hf1 Hf2]. specialize (T f Hf1). rewrite Hf2 in T. cbn [negb orb] in T.
    apply entry_of_tie_free; assumption. }
  rewrite (map_ext_in _ _ _ E). reflexivity.
Qed.

(* ---------- `--help` ends with exit status 0, having printed the entries of the set-up forest on stdout ---------- *)
Theorem exit0 perm c m pre cfgf F F' :
  setup_gen perm c m F = Ok F' ->
  run_cli_help_gen perm c m pre cfgf F
  = mkrun (Exit 0) (Some (SOut, help_entries_gen perm c (layered pre cfgf) F')).
Proof. intros H. unfold run_cli_help_gen. rewrite H. reflexivity. Qed.

Theorem setup_failure perm c m pre cfgf F e :
  setup_gen perm c m F = Err e -> run_cli_help_gen perm c m pre cfgf F = mkrun e None.
Proof. intros H. unfold run_cli_help_gen. rewrite H. reflexivity. Qed.

(* ---------- print_help() through the API: shows what --help shows and leaves later parsing alone ---------- *)
Definition api_agrees (perm : list string -> list string) (c : cfg) (m : crmode) (pre cfgf : dmap) (F : list hwrap) : Prop :=
  parse_defaults_gen perm c m true pre cfgf F = parse_defaults_gen perm c m false pre cfgf F
  /\ match r_printed (run_cli_help_gen perm c m pre cfgf F) with
     | Some (_, gs) => run_api_help_gen perm c m pre cfgf F = Ok gs
     | None => True
     end.

(* FULL statement, from the fact "print_help applies the constructor's config files before it sets the parser up" *)
Theorem print_help_inert :
  print_help_applies_config_gen = true ->
  forall perm c m pre cfgf F, api_agrees perm c m pre cfgf F.
Proof.
  intros H perm c m pre cfgf F. unfold api_agrees, parse_defaults_gen, run_api_help_gen, run_cli_help_gen.
  destruct (setup_gen perm c m F) as [F'|e].
  - unfold parse_defaults_of_gen, parse_defaults_of, api_help_of_gen, api_help_of, cli_help_of_gen, cli_help_of, api_defaults.
    rewrite H. split; reflexivity.
  - split; [reflexivity | exact I].
Qed.

Theorem print_help_inert_refuted :
  print_help_applies_config_gen = false ->
  exists perm c m pre cfgf F, valid perm /\ ~ api_agrees perm c m pre cfgf F.
Proof.
  intros H. exists (fun l => l), default_cfg_parser, CRAuto, [], [("a.bb", mkdv "7" false)], W_ab.
  split; [exact valid_id|]. intros [A _]. revert A.
  unfold parse_defaults_gen, parse_defaults_of_gen, parse_defaults_of, api_defaults. rewrite H.
  vm_compute. intros E. discriminate E.
Qed.

(* PARTIAL: parsers without constructor config files *)
Theorem print_help_inert_partial perm c m pre F : api_agrees perm c m pre [] F.
Proof.
  unfold api_agrees, parse_defaults_gen, run_api_help_gen, run_cli_help_gen.
  destruct (setup_gen perm c m F) as [F'|e].
  - unfold parse_defaults_of_gen, parse_defaults_of, api_help_of_gen, api_help_of, cli_help_of_gen, cli_help_of, api_defaults, layered.
    cbn [app]. destruct print_help_applies_config_gen; split; reflexivity.
  - split; [reflexivity | exact I].
Qed.

(* the forest used by the non-vacuity example of Properties/C16.v *)
Definition demo_forest : list hwrap :=
  [mkhw "K1" ["a"] [] "Doc of K1." [mkhf (mkfw ["a"] "bb" "" ["cc"] false) true (Some true) "the value" (Some "1") false;
                    mkhf (mkfw ["a"] "hid" "" [] false) true (Some false) "secret" (Some "9") false;
                    mkhf (mkfw ["a"] "x" "" [] false) true None "" None false]].

