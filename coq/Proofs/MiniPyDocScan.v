(* Proofs/MiniPyDocScan.v — the two line loops of simple_parsing/docstring.py (regenerated source, Gen/FactsDocSrc.v) against the
   structural scanners of Model/DocScan.v: _get_docstring_starting_at_line = doc_open, _get_comment_ending_at_line = comment_above. *)
From SPV Require Import Base.Str Model.DocScan Gen.FactsDoc.
From SPV Require Import Model.MiniPy Gen.FactsDocSrc Proofs.MiniPyLemmas Proofs.MiniPyDoc.

Lemma eval_and_s r a b : eval r (EAnd a b) = match eval r a with Ok v => if truthy v then eval r b else Ok v | Err z => Err z end.
Proof. reflexivity. Qed.
Ltac sk := repeat (rewrite exec_block_nil; cbv beta iota).

Lemma contains_split tok s : tok <> "" ->
  MiniPy.contains tok s = match DocScan.split_first tok s with Some _ => true | None => false end.
Proof. intros H. rewrite contains_eq by exact H. reflexivity. Qed.

Definition TS : string := "'''".
Definition TD : string := """""""".
Definition tokq (q : quote) : string := tok_of TRIPLE_S TRIPLE_D q.

Definition dinv (r : env) (lines : list string) (i : nat) (tokv : val) (acc : list string) : Prop :=
  lookup "code_lines" r = Some (VL (map VS lines)) /\ lookup "i" r = Some (VN i) /\ lookup "token" r = Some tokv
  /\ lookup "triple_single" r = Some (VS TS) /\ lookup "triple_double" r = Some (VS TD)
  /\ lookup "docstring_contents" r = Some (VL (map VS acc)).

Lemma map_VS_snoc acc s : (map VS acc ++ [VS s])%list = map VS (acc ++ [s])%list.
Proof. rewrite map_app. reflexivity. Qed.

(* inside a docstring whose token is q *)
Lemma gdsl_step_body r lines i q acc l :
  dinv r lines i (VS (tokq q)) acc -> nth_error lines i = Some l ->
  match close_of TRIPLE_S TRIPLE_D q l with
  | Some s => exists r', exec_block r gdsl_body = Ok (r', Some BRK)
                         /\ lookup "docstring_contents" r' = Some (VL (map VS (acc ++ [s])%list))
  | None => exists r', exec_block r gdsl_body = Ok (r', None) /\ dinv r' lines (S i) (VS (tokq q)) (acc ++ [strip l])%list
  end.
Proof.
  intros [HC [HI [HT [HS [HD HA]]]]] HN. unfold gdsl_body, gdsl_body_part, close_of. fold (tokq q).
  go. rewrite nth_map_VS, HN. cbn [option_map].
  rewrite exec_block_cons, exec_if. cbn [eval]. lk. hy. cbn [truthy].
  assert (NE : tokq q <> "") by (destruct q; discriminate).
  rewrite exec_block_cons, exec_if.
  assert (EI : forall r1, lookup "token" r1 = Some (VS (tokq q)) -> lookup "line_str" r1 = Some (VS l) ->
                          eval r1 (EIn (EVar "token") (EVar "line_str")) = Ok (VB (MiniPy.contains (tokq q) l))).
  { intros r1 A B. cbn [eval]. rewrite A, B. destruct q; reflexivity. }
  rewrite EI by (lk; hy; reflexivity). rewrite contains_split by exact NE.
  assert (SP : forall r1, lookup "token" r1 = Some (VS (tokq q)) -> lookup "line_str" r1 = Some (VS l) ->
                          eval r1 (ESplitN (EVar "line_str") (EVar "token") 1)
                          = Ok (VL (map VS (match DocScan.split_first (tokq q) l with Some (a, b) => [a; b] | None => [l] end)))).
  { intros r1 A B. cbn [eval]. rewrite A, B. cbn [op_splitn split_n]. rewrite split_first_eq.
    destruct q; cbn [tokq tok_of TRIPLE_S TRIPLE_D]; destruct (DocScan.split_first _ l) as [[a b]|]; reflexivity. }
  destruct (DocScan.split_first (tokq q) l) as [[a b]|] eqn:E; cbn [truthy].
  - rewrite exec_block_cons, exec_assign.
    change (eval ?r1 (EIndex ?e 0)) with (match eval r1 e with Ok (VL l0) | Ok (VT l0) => match nth_error l0 0 with Some v => Ok v | None => Err (Raise "IndexError") end | Ok _ => rerr | Err z => Err z end).
    rewrite SP by (lk; hy; reflexivity). cbn [map nth_error].
    go. rewrite exec_block_cons, exec_break. cbv beta iota. eexists. split; [reflexivity|]. lk. rewrite map_VS_snoc. reflexivity.
  - go. sk. go. sk. eexists. split; [reflexivity|]. unfold dinv. repeat split; lk; hy; try reflexivity.
    + rewrite Nat.add_1_r. reflexivity.
    + rewrite map_VS_snoc. reflexivity.
Qed.

Definition gdsl_parts_tail : list stmt :=
  [SAssign "parts" (ESplitN (EVar "line_str") (EVar "token") 2);
   SIf (EEq (ELen (EVar "parts")) (ENat 3))
     [SAssign "between_tokens" (EStrip (EIndex (EVar "parts") 1)); SAppend "docstring_contents" (EVar "between_tokens"); SBreak]
     [SIf (EEq (ELen (EVar "parts")) (ENat 2)) [SAssign "after_token" (EStrip (EIndex (EVar "parts") 1)); SAppend "docstring_contents" (EVar "after_token")] []]].

(* the first line of a docstring, once its token q is chosen: text between two tokens (closed at once), or text after the token *)
Lemma gdsl_parts r lines i q l a b :
  dinv r lines i (VS (tokq q)) [] -> lookup "line_str" r = Some (VS l) -> DocScan.split_first (tokq q) l = Some (a, b) ->
  match DocScan.split_first (tokq q) b with
  | Some (bt, _) => exists r', exec_block r gdsl_parts_tail = Ok (r', Some BRK)
                               /\ lookup "docstring_contents" r' = Some (VL (map VS [strip bt]))
  | None => exists r', exec_block r gdsl_parts_tail = Ok (r', None) /\ dinv r' lines i (VS (tokq q)) [strip b]
  end.
Proof.
  intros [HC [HI [HT [HS [HD HA]]]]] HL E. unfold gdsl_parts_tail.
  rewrite exec_block_cons, exec_assign. cbn [eval]. rewrite HL, HT. cbn [op_splitn].
  assert (SN : (match tokq q with "" => Err (Raise "ValueError") | String _ _ => Ok (VL (map VS (split_n 2 (tokq q) l))) end : res val)
               = Ok (VL (map VS (a :: match DocScan.split_first (tokq q) b with Some (x, y) => [x; y] | None => [b] end)))).
  { cbn [split_n]. rewrite !split_first_eq, E. rewrite split_first_eq.
    destruct q; cbn [tokq tok_of TRIPLE_S TRIPLE_D]; destruct (DocScan.split_first _ b) as [[x y]|]; reflexivity. }
  rewrite SN. clear SN.
  destruct (DocScan.split_first (tokq q) b) as [[bt rest]|].
  - go. cbn [map List.length val_eqb Nat.eqb truthy]. go. cbn [nth_error]. fin. go.
    rewrite exec_block_cons, exec_break. cbv beta iota. eexists. split; [reflexivity|]. lk. reflexivity.
  - go. cbn [map List.length val_eqb Nat.eqb truthy]. go. cbn [map List.length val_eqb Nat.eqb truthy]. go. cbn [nth_error]. fin. go. sk.
    eexists. split; [reflexivity|]. unfold dinv. repeat split; lk; hy; reflexivity.
Qed.

Lemma gdsl_open_part_eq : gdsl_open_part =
  SCallRet "_is_empty#1" is_empty_src [("line_str", EVar "line_str")] [] ::
  SIf (EVar "_is_empty#1") [SAssign "i" (EAdd (EVar "i") (ENat 1)); SContinue]
     [SCallRet "_contains_field_definition#2" contains_field_definition_src [("line", EVar "line_str")] [];
      SCallRet "_is_comment#3" is_comment_src [("line_str", EVar "line_str")] [];
      SIf (EOr (EVar "_contains_field_definition#2") (EVar "_is_comment#3")) [SReturn (EStr "")]
        [SIf (EAnd (EIn (EVar "triple_single") (EVar "line_str")) (EIn (EVar "triple_double") (EVar "line_str")))
           [SAssign "triple_single_index" (EIndexOf (EVar "line_str") (EVar "triple_single"));
            SAssign "triple_double_index" (EIndexOf (EVar "line_str") (EVar "triple_double"));
            SIf (EGt (EVar "triple_double_index") (EVar "triple_single_index")) [SAssign "token" (EVar "triple_single")] [SAssign "token" (EVar "triple_double")]]
           [SIf (EIn (EVar "triple_double") (EVar "line_str")) [SAssign "token" (EVar "triple_double")]
              [SIf (EIn (EVar "triple_single") (EVar "line_str")) [SAssign "token" (EVar "triple_single")] [SReturn (EStr "")]]]]]
  :: gdsl_parts_tail.
Proof. reflexivity. Qed.

Lemma exec_block_app1 r s t : exec_block r (s :: t) = match exec r s with Err z => Err z | Ok (r', Some v) => Ok (r', Some v) | Ok (r', None) => exec_block r' t end.
Proof. apply exec_block_cons. Qed.

Definition gdsl_choose_stmt : stmt :=
  SIf (EAnd (EIn (EVar "triple_single") (EVar "line_str")) (EIn (EVar "triple_double") (EVar "line_str")))
           [SAssign "triple_single_index" (EIndexOf (EVar "line_str") (EVar "triple_single"));
            SAssign "triple_double_index" (EIndexOf (EVar "line_str") (EVar "triple_double"));
            SIf (EGt (EVar "triple_double_index") (EVar "triple_single_index")) [SAssign "token" (EVar "triple_single")] [SAssign "token" (EVar "triple_double")]]
           [SIf (EIn (EVar "triple_double") (EVar "line_str")) [SAssign "token" (EVar "triple_double")]
              [SIf (EIn (EVar "triple_single") (EVar "line_str")) [SAssign "token" (EVar "triple_single")] [SReturn (EStr "")]]].

Lemma gdsl_choose r1 l :
  lookup "triple_single" r1 = Some (VS TS) -> lookup "triple_double" r1 = Some (VS TD) -> lookup "line_str" r1 = Some (VS l) ->
  exec r1 gdsl_choose_stmt =
  match DocScan.split_first TRIPLE_S l, DocScan.split_first TRIPLE_D l with
  | Some (a1, _), Some (a2, _) =>
      Ok (assign "token" (VS (if Nat.ltb (String.length a1) (String.length a2) then TS else TD))
            (assign "triple_double_index" (VN (String.length a2)) (assign "triple_single_index" (VN (String.length a1)) r1)), None)
  | Some _, None => Ok (assign "token" (VS TS) r1, None)
  | None, Some _ => Ok (assign "token" (VS TD) r1, None)
  | None, None => Ok (r1, Some (VS ""))
  end.
Proof.
  intros KS KD KL. unfold gdsl_choose_stmt.
  assert (INS : eval r1 (EIn (EVar "triple_single") (EVar "line_str")) = Ok (VB (match DocScan.split_first TRIPLE_S l with Some _ => true | None => false end))).
  { cbn [eval]. rewrite KS, KL. unfold TS. cbv iota. rewrite contains_split by discriminate. reflexivity. }
  assert (IND : eval r1 (EIn (EVar "triple_double") (EVar "line_str")) = Ok (VB (match DocScan.split_first TRIPLE_D l with Some _ => true | None => false end))).
  { cbn [eval]. rewrite KD, KL. unfold TD. cbv iota. rewrite contains_split by discriminate. reflexivity. }
  rewrite exec_if, eval_and_s, INS. cbn [truthy].
  destruct (DocScan.split_first TRIPLE_S l) as [[a1 b1]|] eqn:E1.
  - rewrite IND. destruct (DocScan.split_first TRIPLE_D l) as [[a2 b2]|] eqn:E2; cbn [truthy].
    + rewrite exec_block_cons, exec_assign. cbn [eval]. rewrite KL, KS. unfold TS. cbn [op_indexof].
      change (MiniPy.split_first "'''" l) with (DocScan.split_first TRIPLE_S l). rewrite E1. cbv beta iota.
      rewrite exec_block_cons, exec_assign. cbn [eval]. lk. rewrite KL, KD. unfold TD. cbn [op_indexof].
      change (MiniPy.split_first """""""" l) with (DocScan.split_first TRIPLE_D l). rewrite E2. cbv beta iota.
      go. destruct (Nat.ltb (String.length a1) (String.length a2)); cbn [truthy]; go; reflexivity.
    + rewrite exec_block_cons, exec_if, IND. rewrite ?E2. cbn [truthy].
      rewrite exec_block_cons, exec_if, INS. rewrite ?E1. cbn [truthy]. go. reflexivity.
  - cbn [truthy]. cbv beta iota. cbn [truthy]. rewrite exec_block_cons, exec_if, IND. destruct (DocScan.split_first TRIPLE_D l) as [[a2 b2]|] eqn:E2; cbn [truthy].
    + go. reflexivity.
    + rewrite exec_block_cons, exec_if, INS. rewrite ?E1. cbn [truthy]. go. reflexivity.
Qed.

(* the token-is-None state on line l *)
Lemma gdsl_step_open r lines i l :
  dinv r lines i VNone [] -> nth_error lines i = Some l ->
  if v_empty (view_gen l) then exists r', exec_block r gdsl_body = Ok (r', Some CONT) /\ dinv r' lines (S i) VNone []
  else if v_isdef (view_gen l) || v_iscomment (view_gen l) then exists r', exec_block r gdsl_body = Ok (r', Some (VS ""))
  else match v_open (view_gen l) with
       | None => exists r', exec_block r gdsl_body = Ok (r', Some (VS ""))
       | Some (q, true, s) => exists r', exec_block r gdsl_body = Ok (r', Some BRK)
                                         /\ lookup "docstring_contents" r' = Some (VL (map VS [s]))
       | Some (q, false, s) => exists r', exec_block r gdsl_body = Ok (r', None) /\ dinv r' lines (S i) (VS (tokq q)) [s]
       end.
Proof.
  intros [HC [HI [HT [HS [HD HA]]]]] HN.
  change (v_empty (view_gen l)) with (String.eqb (strip l) ""). change (v_isdef (view_gen l)) with (contains_def_gen l).
  change (v_iscomment (view_gen l)) with (prefixb "#" (strip l)). change (v_open (view_gen l)) with (open_of TRIPLE_S TRIPLE_D l).
  unfold gdsl_body. go. rewrite nth_map_VS, HN. cbn [option_map].
  rewrite exec_block_cons, exec_if. cbn [eval]. lk. hy. cbn [truthy].
  rewrite gdsl_open_part_eq.
  rewrite exec_block_cons, (call_is_empty _ _ _ l) by (cbn [eval]; lk; reflexivity). cbv beta iota.
  rewrite exec_block_cons, exec_if. cbn [eval]. lk.
  destruct (String.eqb (strip l) ""); cbn [truthy].
  { go. rewrite exec_block_cons, exec_continue. cbv beta iota. eexists. split; [reflexivity|].
    unfold dinv. repeat split; lk; hy; try reflexivity. rewrite Nat.add_1_r. reflexivity. }
  rewrite exec_block_cons, (call_cfd _ _ _ l) by (cbn [eval]; lk; reflexivity). cbv beta iota.
  rewrite exec_block_cons, (call_is_comment _ _ _ l) by (cbn [eval]; lk; reflexivity). cbv beta iota.
  rewrite exec_block_cons, exec_if. cbn [eval]. lk.
  assert (OR : (if truthy (VB (contains_def_gen l)) then Ok (VB (contains_def_gen l)) else Ok (VB (prefixb "#" (strip l))) : res val)
               = Ok (VB (contains_def_gen l || prefixb "#" (strip l)))) by (destruct (contains_def_gen l); reflexivity).
  rewrite OR. clear OR. cbn [truthy].
  destruct (contains_def_gen l || prefixb "#" (strip l)).
  { go. eexists. reflexivity. }
  (* the choice of the token *)
  match goal with |- context [exec_block ?rr [SIf (EAnd _ _) _ _]] => set (r1 := rr) end.
  assert (K : dinv r1 lines i VNone [] /\ lookup "line_str" r1 = Some (VS l)).
  { unfold r1, dinv. repeat split; lk; hy; reflexivity. }
  clearbody r1. destruct K as [[KC [KI [KT [KS [KD KA]]]]] KL].
  unfold open_of.
  assert (FIN : forall q r2 a b, dinv r2 lines i (VS (tokq q)) [] -> lookup "line_str" r2 = Some (VS l) ->
            DocScan.split_first (tokq q) l = Some (a, b) ->
            match (match DocScan.split_first (tokq q) b with
                   | Some (between, _) => Some (q, true, strip between) | None => Some (q, false, strip b) end) with
            | None => True
            | Some (q', true, s) => exists r', match exec_block r2 gdsl_parts_tail with
                                               | Ok (r', None) => exec_block r' [SAssign "i" (EAdd (EVar "i") (ENat 1))]
                                               | Ok (r', Some v) => Ok (r', Some v) | Err z => Err z end = Ok (r', Some BRK)
                                               /\ lookup "docstring_contents" r' = Some (VL (map VS [s]))
            | Some (q', false, s) => exists r', match exec_block r2 gdsl_parts_tail with
                                               | Ok (r', None) => exec_block r' [SAssign "i" (EAdd (EVar "i") (ENat 1))]
                                               | Ok (r', Some v) => Ok (r', Some v) | Err z => Err z end = Ok (r', None)
                                               /\ dinv r' lines (S i) (VS (tokq q')) [s]
            end).
  { intros q r2 a b I2 L2 E. pose proof (gdsl_parts r2 lines i q l a b I2 L2 E) as P.
    destruct (DocScan.split_first (tokq q) b) as [[bt rest]|].
    - destruct P as [r' [X Y]]. rewrite X. eexists. split; [reflexivity|exact Y].
    - destruct P as [r' [X [YC [YI [YT [YS [YD YA]]]]]]]. rewrite X. go. sk. eexists. split; [reflexivity|].
      unfold dinv. repeat split; lk; hy; try reflexivity. rewrite Nat.add_1_r. reflexivity. }
  rewrite exec_block_cons. change (SIf (EAnd _ _) _ _) with gdsl_choose_stmt. rewrite (gdsl_choose r1 l KS KD KL).
  destruct (DocScan.split_first TRIPLE_S l) as [[a1 b1]|] eqn:E1; destruct (DocScan.split_first TRIPLE_D l) as [[a2 b2]|] eqn:E2.
  - destruct (Nat.ltb (String.length a1) (String.length a2)); sk; cbn [tok_of].
    + rewrite E1. match goal with |- context [exec_block ?rr gdsl_parts_tail] => pose proof (FIN QS rr a1 b1) as F end. cbn [tokq tok_of] in F. destruct (DocScan.split_first TRIPLE_S b1) as [[? ?]|]; apply F; first [exact E1 | lk; exact KL | unfold dinv; repeat split; lk; hy; reflexivity].
    + rewrite E2. match goal with |- context [exec_block ?rr gdsl_parts_tail] => pose proof (FIN QD rr a2 b2) as F end. cbn [tokq tok_of] in F. destruct (DocScan.split_first TRIPLE_D b2) as [[? ?]|]; apply F; first [exact E2 | lk; exact KL | unfold dinv; repeat split; lk; hy; reflexivity].
  - sk. cbn [tok_of]. rewrite E1. match goal with |- context [exec_block ?rr gdsl_parts_tail] => pose proof (FIN QS rr a1 b1) as F end. cbn [tokq tok_of] in F. destruct (DocScan.split_first TRIPLE_S b1) as [[? ?]|]; apply F; first [exact E1 | lk; exact KL | unfold dinv; repeat split; lk; hy; reflexivity].
  - sk. cbn [tok_of]. rewrite E2. match goal with |- context [exec_block ?rr gdsl_parts_tail] => pose proof (FIN QD rr a2 b2) as F end. cbn [tokq tok_of] in F. destruct (DocScan.split_first TRIPLE_D b2) as [[? ?]|]; apply F; first [exact E2 | lk; exact KL | unfold dinv; repeat split; lk; hy; reflexivity].
  - eexists. reflexivity.
Qed.

Lemma skipn_cons_nth {A} : forall i (L : list A) x t, skipn i L = x :: t -> nth_error L i = Some x /\ skipn (S i) L = t.
Proof.
  induction i as [|i IH]; intros [|y L] x t H; cbn in *; try discriminate.
  - inversion H. auto.
  - apply IH in H. exact H.
Qed.

Lemma gdsl_test_eval r lines i tokv acc : dinv r lines i tokv acc -> eval r gdsl_test = Ok (VB (Nat.ltb i (List.length lines))).
Proof. intros [HC [HI _]]. unfold gdsl_test. cbn [eval]. rewrite HC, HI, map_length. reflexivity. Qed.

Lemma v_close_view q l : v_close q (view_gen l) = close_of TRIPLE_S TRIPLE_D q l.
Proof. destruct q; reflexivity. Qed.

Lemma gdsl_loop_body : forall fuel rest lines i q acc r,
  List.length rest <= fuel -> skipn i lines = rest -> i + List.length rest = List.length lines -> dinv r lines i (VS (tokq q)) acc ->
  exists r', while_loop fuel (fun r => eval r gdsl_test) (fun r => exec_block r gdsl_body) r = Ok (r', None)
             /\ lookup "docstring_contents" r' = Some (VL (map VS (acc ++ doc_body q (map view_gen rest))%list)).
Proof.
  induction fuel as [|k IH]; intros rest lines i q acc r LE SK LEN INV.
  - destruct rest; [|cbn in LE; lia]. cbn [List.length] in LEN. cbn [while_loop]. rewrite (gdsl_test_eval _ _ _ _ _ INV).
    replace (Nat.ltb i (List.length lines)) with false by (symmetry; apply Nat.ltb_ge; lia). cbn [truthy map doc_body].
    exists r. split; [reflexivity|]. rewrite app_nil_r. apply INV.
  - destruct rest as [|l rest'].
    + cbn [List.length] in LEN. cbn [while_loop]. rewrite (gdsl_test_eval _ _ _ _ _ INV).
      replace (Nat.ltb i (List.length lines)) with false by (symmetry; apply Nat.ltb_ge; lia). cbn [truthy map doc_body].
      exists r. split; [reflexivity|]. rewrite app_nil_r. apply INV.
    + cbn [List.length] in LEN, LE. cbn [while_loop]. rewrite (gdsl_test_eval _ _ _ _ _ INV).
      replace (Nat.ltb i (List.length lines)) with true by (symmetry; apply Nat.ltb_lt; lia). cbn [truthy].
      destruct (skipn_cons_nth _ _ _ _ SK) as [HN SK'].
      pose proof (gdsl_step_body r lines i q acc l INV HN) as ST. cbn [map doc_body]. rewrite v_close_view.
      destruct (close_of TRIPLE_S TRIPLE_D q l) as [s|].
      * destruct ST as [r' [E C]]. rewrite E. cbn [is_cont is_brk BRK String.eqb Ascii.eqb Bool.eqb]. exists r'. split; [reflexivity|exact C].
      * destruct ST as [r' [E INV']]. rewrite E.
        destruct (IH rest' lines (S i) q (acc ++ [strip l])%list r' ltac:(lia) SK' ltac:(lia) INV') as [r2 [E2 C2]].
        exists r2. split; [exact E2|]. rewrite C2, <- app_assoc. reflexivity.
Qed.

(* doc_open as the list of collected lines; None = `return ""` from inside the loop *)
Fixpoint doc_open_list (vs : list lview) : option (list string) :=
  match vs with
  | [] => Some []
  | v :: r =>
      if v_empty v then doc_open_list r
      else if v_isdef v || v_iscomment v then None
      else match v_open v with
           | None => None
           | Some (_, true, s) => Some [s]
           | Some (q, false, s) => Some (s :: doc_body q r)
           end
  end.
Lemma doc_open_list_eq : forall vs, doc_open vs = match doc_open_list vs with None => "" | Some cs => join_nl cs end.
Proof.
  induction vs as [|v r IH]; [reflexivity|]. cbn [doc_open doc_open_list].
  destruct (v_empty v); [exact IH|]. destruct (v_isdef v || v_iscomment v); [reflexivity|].
  destruct (v_open v) as [[[q [|]] s]|]; reflexivity.
Qed.

Lemma gdsl_loop_open : forall fuel rest lines i r,
  List.length rest <= fuel -> skipn i lines = rest -> i + List.length rest = List.length lines -> dinv r lines i VNone [] ->
  match doc_open_list (map view_gen rest) with
  | None => exists r', while_loop fuel (fun r => eval r gdsl_test) (fun r => exec_block r gdsl_body) r = Ok (r', Some (VS ""))
  | Some cs => exists r', while_loop fuel (fun r => eval r gdsl_test) (fun r => exec_block r gdsl_body) r = Ok (r', None)
                          /\ lookup "docstring_contents" r' = Some (VL (map VS cs))
  end.
Proof.
  induction fuel as [|k IH]; intros rest lines i r LE SK LEN INV.
  - destruct rest; [|cbn in LE; lia]. cbn [List.length] in LEN. cbn [while_loop map doc_open_list]. rewrite (gdsl_test_eval _ _ _ _ _ INV).
    replace (Nat.ltb i (List.length lines)) with false by (symmetry; apply Nat.ltb_ge; lia). cbn [truthy].
    exists r. split; [reflexivity|apply INV].
  - destruct rest as [|l rest'].
    + cbn [List.length] in LEN. cbn [while_loop map doc_open_list]. rewrite (gdsl_test_eval _ _ _ _ _ INV).
      replace (Nat.ltb i (List.length lines)) with false by (symmetry; apply Nat.ltb_ge; lia). cbn [truthy].
      exists r. split; [reflexivity|apply INV].
    + cbn [List.length] in LEN, LE. cbn [while_loop]. rewrite (gdsl_test_eval _ _ _ _ _ INV).
      replace (Nat.ltb i (List.length lines)) with true by (symmetry; apply Nat.ltb_lt; lia). cbn [truthy].
      destruct (skipn_cons_nth _ _ _ _ SK) as [HN SK'].
      pose proof (gdsl_step_open r lines i l INV HN) as ST. cbn [map doc_open_list].
      destruct (v_empty (view_gen l)).
      * destruct ST as [r' [E INV']]. rewrite E. cbn [is_cont CONT String.eqb Ascii.eqb Bool.eqb].
        exact (IH rest' lines (S i) r' ltac:(lia) SK' ltac:(lia) INV').
      * destruct (v_isdef (view_gen l) || v_iscomment (view_gen l)).
        { destruct ST as [r' E]. rewrite E. cbn [is_cont is_brk]. exists r'. reflexivity. }
        destruct (v_open (view_gen l)) as [[[q [|]] s]|].
        -- destruct ST as [r' [E C]]. rewrite E. cbn [is_cont is_brk BRK String.eqb Ascii.eqb Bool.eqb]. exists r'. split; [reflexivity|exact C].
        -- destruct ST as [r' [E INV']]. rewrite E.
           destruct (gdsl_loop_body k rest' lines (S i) q [s] r' ltac:(lia) SK' ltac:(lia) INV') as [r2 [E2 C2]].
           exists r2. split; [exact E2|exact C2].
        -- destruct ST as [r' E]. rewrite E. cbn [is_cont is_brk]. exists r'. reflexivity.
Qed.

Theorem get_docstring_starting_at_line_is_model lines n :
  List.length lines <= doc_while_fuel ->
  run [("code_lines", VL (map VS lines)); ("line", VN n)] get_docstring_starting_at_line_src
  = Ok (VS (doc_open (map view_gen (skipn n lines)))).
Proof.
  intros LE. rewrite gdsl_shape, doc_open_list_eq. unfold run.
  assert (H1 : lookup "code_lines" [("code_lines", VL (map VS lines)); ("line", VN n)] = Some (VL (map VS lines))) by reflexivity.
  assert (H2 : lookup "line" [("code_lines", VL (map VS lines)); ("line", VN n)] = Some (VN n)) by reflexivity.
  set (r0 := [("code_lines", VL (map VS lines)); ("line", VN n)]) in *. clearbody r0.
  go. go. go. go. go. rewrite map_length.
  destruct (Nat.ltb n (List.length lines)) eqn:LT; cbn [negb truthy].
  - apply Nat.ltb_lt in LT. sk. go. rewrite exec_block_cons, exec_while.
    match goal with |- context [while_loop _ _ _ ?r1] =>
      pose proof (gdsl_loop_open doc_while_fuel (skipn n lines) lines n r1) as L end.
    assert (SL : List.length (skipn n lines) = List.length lines - n) by apply skipn_length.
    destruct (doc_open_list (map view_gen (skipn n lines))) as [cs|].
    + destruct L as [r' [E C]]; [lia | reflexivity | lia | unfold dinv; repeat split; lk; hy; reflexivity |].
      rewrite E. go. rewrite strs_of_map. reflexivity.
    + destruct L as [r' E]; [lia | reflexivity | lia | unfold dinv; repeat split; lk; hy; reflexivity |]. rewrite E. reflexivity.
  - apply Nat.ltb_ge in LT. rewrite (skipn_all2 lines LT). go. reflexivity.
Qed.

(* ====================================================================================================== *)
(* _get_comment_ending_at_line                                                                              *)
(* ====================================================================================================== *)
Definition stop_at (l : string) : bool := walk_stop FIX_WALK walk_stops_at_quote_lines_gen (view_gen l).

(* one round of the walk, with what it leaves untouched *)
Lemma walk_round r lines k l m :
  lookup "code_lines" r = Some (VL (map VS lines)) -> lookup "start_line" r = Some (VN (S k)) -> lookup "end_line" r = Some (VN m) ->
  nth_error lines (S k) = Some l ->
  exists r', exec_block r gcel_walk_body = Ok (r', if stop_at l then Some BRK else None)
             /\ lookup "code_lines" r' = Some (VL (map VS lines)) /\ lookup "end_line" r' = Some (VN m)
             /\ lookup "start_line" r' = Some (VN (if stop_at l then S k else k)).
Proof.
  intros HC HS HE HN. unfold stop_at, gcel_walk_body, walk_stop, FIX_WALK, walk_stops_at_quote_lines_gen.
  change (v_isdef (view_gen l)) with (contains_def_gen l).
  change (v_empty (view_gen l)) with (String.eqb (strip l) ""). change (v_iscomment (view_gen l)) with (prefixb "#" (strip l)).
  cbn [andb orb]. rewrite Bool.orb_false_r.
  go. rewrite nth_map_VS, HN. cbn [option_map].
  rewrite exec_block_cons, (call_cfd _ _ _ l) by (cbn [eval]; lk; reflexivity).
  go. destruct (contains_def_gen l); cbn [truthy orb].
  - rewrite exec_block_cons, exec_break. eexists. split; [reflexivity|]. repeat split; lk; hy; reflexivity.
  - rewrite exec_block_nil.
    rewrite exec_block_cons, (call_is_empty _ _ _ l) by (cbn [eval]; lk; reflexivity). cbv beta iota.
    rewrite exec_block_cons, (call_is_comment _ _ _ l) by (cbn [eval]; lk; reflexivity). cbv beta iota.
    go. destruct (String.eqb (strip l) ""); cbn [truthy orb negb].
    + rewrite exec_block_nil. go. cbn [Nat.leb Nat.sub]. rewrite ?Nat.sub_0_r. eexists. split; [reflexivity|]. repeat split; lk; hy; reflexivity.
    + destruct (prefixb "#" (strip l)); cbn [truthy negb].
      * rewrite exec_block_nil. go. cbn [Nat.leb Nat.sub]. rewrite ?Nat.sub_0_r. eexists. split; [reflexivity|]. repeat split; lk; hy; reflexivity.
      * rewrite exec_block_cons, exec_break. eexists. split; [reflexivity|]. repeat split; lk; hy; reflexivity.
Qed.

(* the lines j, j-1, ..., 1 *)
Fixpoint down (lines : list string) (j : nat) : list string :=
  match j with
  | O => []
  | S k => match nth_error lines (S k) with Some l => l :: down lines k | None => [] end
  end.
Definition walked (lines : list string) (j : nat) : list lview :=
  walk_up FIX_WALK walk_stops_at_quote_lines_gen (map view_gen (down lines j)).

Definition walk_test : expr := EGt (EVar "start_line") (ENat 0).
Lemma walk_loop lines m : forall fuel j r,
  j <= fuel -> j < List.length lines ->
  lookup "code_lines" r = Some (VL (map VS lines)) -> lookup "start_line" r = Some (VN j) -> lookup "end_line" r = Some (VN m) ->
  exists r', while_loop fuel (fun r => eval r walk_test) (fun r => exec_block r gcel_walk_body) r = Ok (r', None)
             /\ lookup "code_lines" r' = Some (VL (map VS lines)) /\ lookup "end_line" r' = Some (VN m)
             /\ lookup "start_line" r' = Some (VN (j - List.length (walked lines j))).
Proof.
  induction fuel as [|f IH]; intros j r LE LT HC HS HE.
  - assert (j = 0) by lia. subst j. cbn [while_loop]. unfold walk_test. cbn [eval]. rewrite HS. cbn [Nat.ltb Nat.leb truthy].
    exists r. repeat split; assumption.
  - destruct j as [|k].
    + cbn [while_loop]. unfold walk_test. cbn [eval]. rewrite HS. cbn [Nat.ltb Nat.leb truthy]. exists r. repeat split; assumption.
    + cbn [while_loop]. unfold walk_test at 1. cbn [eval]. rewrite HS. cbn [Nat.ltb Nat.leb truthy].
      destruct (nth_error lines (S k)) as [l|] eqn:HN; [|apply nth_error_None in HN; lia].
      destruct (walk_round r lines k l m HC HS HE HN) as [r' [E [C [En St]]]]. rewrite E.
      unfold walked. cbn [down]. rewrite HN. cbn [map walk_up]. fold (stop_at l).
      destruct (stop_at l).
      * cbn [is_cont is_brk BRK String.eqb Ascii.eqb Bool.eqb List.length]. exists r'. rewrite Nat.sub_0_r. repeat split; assumption.
      * destruct (IH k r' ltac:(lia) ltac:(lia) C St En) as [r2 [E2 [C2 [En2 St2]]]].
        exists r2. cbn [List.length Nat.sub]. repeat split; assumption.
Qed.

Definition cinv (r : env) (lines acc : list string) : Prop :=
  lookup "code_lines" r = Some (VL (map VS lines)) /\ lookup "lines" r = Some (VL (map VS acc)).

Lemma collect_step r lines acc i l :
  cinv r lines acc -> nth_error lines i = Some l -> contains_def_gen l = false ->
  exists r', exec_block (assign "i" (VN i) r) gcel_collect_body = Ok (r', if String.eqb (strip l) "" then Some CONT else None)
             /\ cinv r' lines (if String.eqb (strip l) "" then acc else acc ++ [comment_of HASH l])%list.
Proof.
  intros [HC HA] HN ND. unfold gcel_collect_body.
  assert (EG : forall r1, lookup "code_lines" r1 = Some (VL (map VS lines)) -> lookup "i" r1 = Some (VN i) ->
                          eval r1 (EGetItem (EVar "code_lines") (EVar "i")) = Ok (VS l)).
  { intros r1 A B. cbn [eval]. rewrite A, B. cbn [op_getitem bind2]. rewrite nth_map_VS, HN. reflexivity. }
  rewrite exec_block_cons, (call_is_empty _ _ _ l) by (apply EG; lk; hy; reflexivity). cbv beta iota.
  go. destruct (String.eqb (strip l) ""); cbn [truthy].
  - rewrite exec_block_cons, exec_continue. cbv beta iota. eexists. split; [reflexivity|]. unfold cinv. split; lk; hy; reflexivity.
  - rewrite exec_block_nil.
    rewrite exec_block_cons, (call_cfd _ _ _ l) by (apply EG; lk; hy; reflexivity). cbv beta iota.
    go. rewrite ND. cbn [negb truthy].
    rewrite exec_block_cons.
    rewrite (callret_run _ "comment" get_comment_at_line_src _ [("code_lines", VL (map VS lines)); ("line", VN i)] (VS (comment_of HASH l))).
    + cbv beta iota. go. sk. eexists. split; [reflexivity|]. unfold cinv. split; lk; hy; [reflexivity|]. rewrite map_VS_snoc. reflexivity.
    + cbn [bind_ins eval]. lk. hy. reflexivity.
    + rewrite get_comment_at_line_is_model, HN, ND. reflexivity.
Qed.

Lemma collect_loop lines : forall idxs ls acc r,
  Forall2 (fun i l => nth_error lines i = Some l) idxs ls -> Forall (fun l => contains_def_gen l = false) ls -> cinv r lines acc ->
  exists r', iter_list_c (fun v r => exec_block (assign "i" v r) gcel_collect_body) (map VN idxs) r = Ok (r', None)
             /\ cinv r' lines (acc ++ map (comment_of HASH) (filter (fun l => negb (String.eqb (strip l) "")) ls))%list.
Proof.
  induction idxs as [|i t IH]; intros ls acc r F2 FA INV; inversion F2; subst.
  - cbn [map iter_list_c filter]. exists r. split; [reflexivity|]. rewrite app_nil_r. exact INV.
  - inversion FA; subst. cbn [map iter_list_c filter].
    destruct (collect_step r lines acc i y INV H1 H2) as [r' [E INV']]. rewrite E.
    destruct (String.eqb (strip y) ""); cbn [is_cont CONT String.eqb Ascii.eqb Bool.eqb negb].
    + exact (IH _ _ _ H3 H4 INV').
    + destruct (IH _ _ _ H3 H4 INV') as [r2 [E2 I2]]. exists r2. split; [exact E2|]. cbn [map]. rewrite <- app_assoc in I2. exact I2.
Qed.

(* ---------- lists ---------- *)
Lemma walk_prefix f q : forall vs, walk_up f q vs = firstn (List.length (walk_up f q vs)) vs.
Proof. induction vs as [|v r IH]; [reflexivity|]. cbn [walk_up]. destruct (walk_stop f q v); [reflexivity|]. cbn [List.length firstn]. rewrite <- IH. reflexivity. Qed.
Lemma walk_notdef f q : forall vs, Forall (fun v => v_isdef v = false) (walk_up f q vs).
Proof.
  induction vs as [|v r IH]; [constructor|]. cbn [walk_up]. destruct (walk_stop f q v) eqn:E; [constructor|].
  constructor; [|exact IH]. unfold walk_stop in E. destruct (v_isdef v); [discriminate|reflexivity].
Qed.
Lemma walk_length_le f q : forall vs, List.length (walk_up f q vs) <= List.length vs.
Proof. induction vs as [|v r IH]; [cbn; lia|]. cbn [walk_up]. destruct (walk_stop f q v); cbn [List.length]; lia. Qed.
Lemma down_length lines : forall m, m < List.length lines -> List.length (down lines m) = m.
Proof.
  induction m as [|k IH]; intros LT; [reflexivity|]. cbn [down].
  destruct (nth_error lines (S k)) eqn:E; [|apply nth_error_None in E; lia]. cbn [List.length]. rewrite IH by lia. reflexivity.
Qed.
Lemma down_seq lines : forall w m, w <= m -> m < List.length lines ->
  Forall2 (fun i l => nth_error lines i = Some l) (seq (S (m - w)) w) (rev (firstn w (down lines m))).
Proof.
  induction w as [|w IH]; intros m LE LT; [constructor|].
  destruct m as [|k]; [lia|]. cbn [down]. destruct (nth_error lines (S k)) as [l|] eqn:E; [|apply nth_error_None in E; lia].
  cbn [firstn rev]. rewrite seq_S. apply Forall2_app.
  - replace (S k - S w) with (k - w) by lia. apply IH; lia.
  - constructor; [|constructor]. replace (S (S k - S w) + w) with (S k) by lia. exact E.
Qed.
Lemma firstn_succ_nth {A} : forall n (l : list A) x, nth_error l n = Some x -> firstn (S n) l = (firstn n l ++ [x])%list.
Proof. induction n as [|n IH]; intros [|a l] x H; cbn in *; try discriminate; [inversion H; reflexivity|]. f_equal. apply IH. exact H. Qed.
Lemma removelast_down lines : forall m, m < List.length lines -> removelast (rev (firstn (S m) lines)) = down lines m.
Proof.
  induction m as [|k IH]; intros LT.
  - destruct lines; [cbn in LT; lia|]. reflexivity.
  - destruct (nth_error lines (S k)) as [l|] eqn:E; [|apply nth_error_None in E; lia].
    rewrite (firstn_succ_nth _ _ _ E), rev_app_distr. cbn [rev app down]. rewrite E.
    destruct (rev (firstn (S k) lines)) as [|y t] eqn:R.
    + apply (f_equal (@List.length _)) in R. rewrite rev_length, firstn_length in R. cbn [List.length] in R. lia.
    + change (removelast (l :: y :: t)) with (l :: removelast (y :: t)). first [rewrite IH by lia | rewrite <- R, IH by lia]. reflexivity.
Qed.
Lemma removelast_map {A B} (f : A -> B) : forall l, removelast (map f l) = map f (removelast l).
Proof. induction l as [|a [|b t] IH]; [reflexivity|reflexivity|]. cbn [map removelast] in *. rewrite IH. reflexivity. Qed.
Lemma filter_map {A B} (f : A -> B) p : forall l, filter p (map f l) = map f (filter (fun x => p (f x)) l).
Proof. induction l as [|a t IH]; [reflexivity|]. cbn [map filter]. destruct (p (f a)); cbn [map]; rewrite IH; reflexivity. Qed.

Lemma gcel_shape' :
  get_comment_ending_at_line_src =
  [SAssign "start_line" (EVar "line"); SAssign "end_line" (EVar "line");
   SWhile doc_while_fuel walk_test gcel_walk_body;
   SAssign "start_line" (EAdd (EVar "start_line") (ENat 1));
   SAssign "lines" (EList []);
   SForC "i" (ERange (EVar "start_line") (EAdd (EVar "end_line") (ENat 1))) gcel_collect_body;
   SReturn (EStrip (EJoin (String (Ascii.ascii_of_nat 10) "") (EVar "lines")))].
Proof. reflexivity. Qed.

Theorem get_comment_ending_at_line_is_model lines m :
  m < List.length lines -> m <= doc_while_fuel ->
  run [("code_lines", VL (map VS lines)); ("line", VN m)] get_comment_ending_at_line_src
  = Ok (VS (comment_above FIX_WALK walk_stops_at_quote_lines_gen (map view_gen (rev (firstn (S m) lines))))).
Proof.
  intros LT LE. rewrite gcel_shape'. unfold run, comment_above.
  rewrite removelast_map, (removelast_down lines m LT). fold (walked lines m).
  assert (H1 : lookup "code_lines" [("code_lines", VL (map VS lines)); ("line", VN m)] = Some (VL (map VS lines))) by reflexivity.
  assert (H2 : lookup "line" [("code_lines", VL (map VS lines)); ("line", VN m)] = Some (VN m)) by reflexivity.
  set (r0 := [("code_lines", VL (map VS lines)); ("line", VN m)]) in *. clearbody r0.
  go. go. rewrite exec_block_cons, exec_while.
  match goal with |- context [while_loop _ _ _ ?r1] =>
    destruct (walk_loop lines m doc_while_fuel m r1 LE LT) as [r' [E [C [En St]]]]; [lk; hy; reflexivity | lk; reflexivity | lk; reflexivity |] end.
  rewrite E. cbv beta iota.
  set (w := List.length (walked lines m)) in *.
  assert (WLE : w <= m).
  { unfold w, walked. etransitivity; [apply walk_length_le|]. rewrite map_length, down_length by exact LT. lia. }
  assert (WK : walked lines m = map view_gen (firstn w (down lines m))).
  { unfold w, walked. rewrite (walk_prefix _ _ (map view_gen (down lines m))) at 1. rewrite firstn_map. reflexivity. }
  go. go. rewrite exec_block_cons, exec_forc. cbn [eval]. lk. hy. cbn [op_range bind2].
  replace (m - w + 1) with (S (m - w)) by lia. replace (m + 1 - S (m - w)) with w by lia.
  set (ls := rev (firstn w (down lines m))).
  assert (ND : Forall (fun l => contains_def_gen l = false) ls).
  { pose proof (walk_notdef FIX_WALK walk_stops_at_quote_lines_gen (map view_gen (down lines m))) as F. fold (walked lines m) in F. rewrite WK in F.
    unfold ls. apply Forall_rev. rewrite Forall_map in F. exact F. }
  match goal with |- context [iter_list_c ?f _ ?r2] =>
    destruct (collect_loop lines (seq (S (m - w)) w) ls [] r2 (down_seq lines w m WLE LT) ND) as [r3 [E3 [C3 A3]]];
      [unfold cinv; split; lk; hy; reflexivity |] end.
  rewrite E3. cbv beta iota. go. rewrite ?A3, strs_of_map. cbn [app].
  rewrite WK, <- map_rev. fold ls. rewrite filter_map, map_map. reflexivity.
Qed.

(* ---------- the per-class scan: the three helpers at the field's line give the model's triple ---------- *)
Lemma find_field_at F Q f : forall pre acc l post,
  Forall (fun x => defines f (view_gen x) = false) pre -> defines f (view_gen l) = true ->
  find_field F Q f acc (map view_gen (pre ++ l :: post))
  = Some (comment_above F Q (rev (map view_gen pre) ++ acc)%list, v_inline (view_gen l), doc_open (map view_gen post)).
Proof.
  induction pre as [|x pre IH]; intros acc l post FA D.
  - cbn [app map find_field rev]. rewrite D. reflexivity.
  - inversion FA; subst. cbn [app map find_field]. rewrite H1. rewrite IH by assumption. cbn [rev]. rewrite <- app_assoc. reflexivity.
Qed.

(* i = S m is the first line that defines f (the test the source makes with _contains_field_definition and
   _line_contains_definition_for, bridged above): the dumped helpers called as in _get_attribute_docstring -
   _get_comment_ending_at_line(code_lines, i - 1), _get_inline_comment_at_line(code_lines, i),
   _get_docstring_starting_at_line(code_lines, i + 1) - return the triple of scan_lines_gen *)
Theorem scan_parts_is_model lines f m l :
  nth_error lines (S m) = Some l -> defines f (view_gen l) = true ->
  Forall (fun x => defines f (view_gen x) = false) (firstn (S m) lines) ->
  List.length lines <= doc_while_fuel -> Forall (fun l => String.length l <= doc_while_fuel) lines ->
  exists above inline below,
    run [("code_lines", VL (map VS lines)); ("line", VN m)] get_comment_ending_at_line_src = Ok (VS above)
    /\ run [("code_lines", VL (map VS lines)); ("line", VN (S m))] get_inline_comment_at_line_src = Ok (VS inline)
    /\ run [("code_lines", VL (map VS lines)); ("line", VN (S (S m)))] get_docstring_starting_at_line_src = Ok (VS below)
    /\ scan_lines_gen lines f = Some (above, inline, below).
Proof.
  intros HN D FA LE FL.
  assert (LT : S m < List.length lines) by (apply nth_error_Some; congruence).
  do 3 eexists. split; [apply get_comment_ending_at_line_is_model; lia|].
  split; [rewrite (get_inline_comment_at_line_is_model lines (S m) FL), HN|].
  { unfold defines in D. destruct (v_isdef (view_gen l)) eqn:I; [|discriminate]. change (contains_def_gen l) with (v_isdef (view_gen l)). rewrite I. reflexivity. }
  split; [apply get_docstring_starting_at_line_is_model; exact LE|].
  unfold scan_lines_gen, scan_lines. fold view_gen.
  rewrite <- (firstn_skipn (S m) lines) at 1.
  destruct (skipn_cons_nth (S m) lines l (skipn (S (S m)) lines)) as [_ _].
  { clear - HN. revert lines HN. generalize (S m) as n. induction n as [|n IH]; intros [|a t] H; cbn in *; try discriminate; [inversion H; reflexivity|]. apply IH. exact H. }
  assert (SK : skipn (S m) lines = l :: skipn (S (S m)) lines).
  { clear - HN. revert lines HN. generalize (S m) as n. induction n as [|n IH]; intros [|a t] H; cbn in *; try discriminate; [inversion H; reflexivity|]. apply IH. exact H. }
  rewrite SK, (find_field_at _ _ f _ [] l _ FA D), app_nil_r, map_rev. reflexivity.
Qed.
