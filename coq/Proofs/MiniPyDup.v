(* Proofs/MiniPyDup.v — the regenerated source of FieldWrapper.duplicate_if_needed (a MiniPy block dumped from the ast on every
   run, Gen/FactsDupSrc.v) computes exactly the hand-written functional model Merge.duplicate instantiated with the
   regenerated decision chains (Gen/FactsMerge.v duplicate_gen): for every number of destinations n >= 2, every field kind,
   every list of parsed values (scalars, lists, tuples, nested at any depth). *)
From SPV Require Import Base.Str Model.Merge Gen.FactsBool Gen.FactsMerge.
From SPV Require Import Model.MiniPy Gen.FactsDupSrc Proofs.MiniPyLemmas.
(* from here on the unqualified val / run / val_eqb / EStr are MiniPy's; the model's are written Merge.val ... *)

(* ---------- what the source computes, as a function of MiniPy values ---------- *)
Definition env_of (ds : list string) (reused is_tup is_lst util_is_list : bool) (name : string) (parsed : val) : env :=
  ([("self.destinations", VL (map VS ds)); ("self.is_reused", VB reused); ("self.is_tuple", VB is_tup);
    ("self.is_list", VB is_lst); ("utils.is_list(self.type)", VB util_is_list); ("self.name", VS name);
    ("parsed_values", parsed)]
   ++ map (fun x => (x, VNone)) duplicate_locals)%list.

(* nesting_level == 2 and len(parsed_values) == 1 and len(parsed_values[0]) == n *)
Definition shortcut_cond (n : nat) (pvl : list val) : bool :=
  Nat.eqb (nest_level (VL pvl)) 2
  && (Nat.eqb (List.length pvl) 1
      && match pvl with
         | VL l :: _ | VT l :: _ => Nat.eqb (List.length l) n
         | _ => false
         end).

Definition by_count_py (n : nat) (pvl : list val) : res val :=
  if Nat.eqb (List.length pvl) n then Ok (VL pvl)
  else if Nat.eqb (List.length pvl) 1 then Ok (VL (rep_list pvl n))
  else Err (Raise "InconsistentArgumentError").

Definition ret (o : res (env * option val)) : res val :=
  match o with Ok (_, Some v) => Ok v | Ok (_, None) => Ok VNone | Err z => Err z end.

Ltac nx :=
  rewrite exec_block_cons;
  first [rewrite exec_assign | rewrite exec_if | rewrite exec_raise | rewrite exec_return | rewrite exec_assert];
  cbn [eval]; lk.
Ltac hy := repeat match goal with H : lookup ?x ?r = Some _ |- context [lookup ?x ?r] => rewrite H end.
Ltac go := nx; hy; cbv beta iota.

(* the last two statements: wrap a non-sequence, then decide on the count *)
Definition tail_block : block := skipn 5 duplicate_src.
Definition shortcut_stmt : stmt := nth 4 duplicate_src (SRaise "").
Definition head_block : block := firstn 4 duplicate_src.
Lemma src_split : duplicate_src = (head_block ++ shortcut_stmt :: tail_block)%list.
Proof. reflexivity. Qed.

Lemma tail_spec r n pvl :
  lookup "parsed_values" r = Some (VL pvl) -> lookup "num_instances_to_parse" r = Some (VN n) ->
  ret (exec_block r tail_block) = by_count_py n pvl.
Proof.
  intros Hpv Hn. unfold tail_block, duplicate_src, by_count_py. cbn [skipn].
  go. cbn [type_name str_in existsb String.eqb Ascii.eqb Bool.eqb orb negb truthy].
  rewrite exec_block_nil. go. cbn [val_eqb truthy].
  destruct (Nat.eqb (List.length pvl) n).
  - go. reflexivity.
  - go. cbn [val_eqb truthy]. destruct (Nat.eqb (List.length pvl) 1).
    + go. reflexivity.
    + nx. reflexivity.
Qed.

Definition keeps (r r' : env) : Prop :=
  lookup "parsed_values" r' = lookup "parsed_values" r /\ lookup "num_instances_to_parse" r' = lookup "num_instances_to_parse" r.

Lemma shortcut_spec r n bt bl pvl :
  lookup "parsed_values" r = Some (VL pvl) -> lookup "num_instances_to_parse" r = Some (VN n) ->
  lookup "self.is_tuple" r = Some (VB bt) -> lookup "self.is_list" r = Some (VB bl) ->
  if negb bt && (negb bl && shortcut_cond n pvl)
  then exists r', exec r shortcut_stmt = Ok (r', Some (nth 0 pvl VNone))
  else exists r', exec r shortcut_stmt = Ok (r', None) /\ keeps r r'.
Proof.
  intros Hpv Hn Ht Hl. unfold shortcut_stmt, duplicate_src, shortcut_cond. cbn [nth].
  rewrite exec_if. cbn [eval]. hy. cbv beta iota. cbn [truthy negb].
  destruct bt; cbn [negb andb truthy].
  { rewrite exec_block_nil. eexists; split; [reflexivity | split; reflexivity]. }
  hy. cbv beta iota. cbn [truthy negb].
  destruct bl; cbn [negb andb truthy].
  { rewrite exec_block_nil. eexists; split; [reflexivity | split; reflexivity]. }
  hy. cbv beta iota. cbn [type_name str_in existsb String.eqb Ascii.eqb Bool.eqb orb truthy].
  go. rewrite exec_block_cons, exec_if. cbn [eval]. lk. hy. cbv beta iota. cbn [val_eqb truthy].
  destruct (Nat.eqb (nest_level (VL pvl)) 2) eqn:L2; cbn [andb].
  2:{ rewrite !exec_block_nil. eexists; split; [reflexivity | split; lk; reflexivity]. }
  cbn [val_eqb truthy].
  destruct pvl as [|x [|y t]]; cbn [List.length Nat.eqb andb].
  - rewrite !exec_block_nil. eexists; split; [reflexivity | split; lk; reflexivity].
  - cbn [nth_error]. destruct x; try (cbn [nest_level fold_right Nat.max Nat.eqb] in L2; discriminate L2);
      cbv beta iota; cbn [val_eqb truthy].
    + destruct (Nat.eqb (List.length l) n).
      * eexists. go. cbn [nth_error]. cbv beta iota. go. cbn [nth]. reflexivity.
      * rewrite !exec_block_nil. eexists; split; [reflexivity | split; lk; reflexivity].
    + destruct (Nat.eqb (List.length l) n).
      * eexists. go. cbn [nth_error]. cbv beta iota. go. cbn [nth]. reflexivity.
      * rewrite !exec_block_nil. eexists; split; [reflexivity | split; lk; reflexivity].
  - rewrite !exec_block_nil. eexists; split; [reflexivity | split; lk; reflexivity].
Qed.

Lemma head_spec ds bt bl ul nm pvl :
  Nat.ltb 1 (List.length ds) = true ->
  exists r, exec_block (env_of ds true bt bl ul nm (VL pvl)) head_block = Ok (r, None)
    /\ lookup "parsed_values" r = Some (VL pvl) /\ lookup "num_instances_to_parse" r = Some (VN (List.length ds))
    /\ lookup "self.is_tuple" r = Some (VB bt) /\ lookup "self.is_list" r = Some (VB bl).
Proof.
  intros Hn. unfold head_block, duplicate_src. cbn [firstn].
  assert (H1 : lookup "self.destinations" (env_of ds true bt bl ul nm (VL pvl)) = Some (VL (map VS ds))) by reflexivity.
  assert (H2 : lookup "self.is_reused" (env_of ds true bt bl ul nm (VL pvl)) = Some (VB true)) by reflexivity.
  assert (H3 : lookup "self.is_tuple" (env_of ds true bt bl ul nm (VL pvl)) = Some (VB bt)) by reflexivity.
  assert (H4 : lookup "self.is_list" (env_of ds true bt bl ul nm (VL pvl)) = Some (VB bl)) by reflexivity.
  assert (H5 : lookup "utils.is_list(self.type)" (env_of ds true bt bl ul nm (VL pvl)) = Some (VB ul)) by reflexivity.
  assert (H6 : lookup "parsed_values" (env_of ds true bt bl ul nm (VL pvl)) = Some (VL pvl)) by reflexivity.
  set (r0 := env_of ds true bt bl ul nm (VL pvl)) in *. clearbody r0.
  go. rewrite map_length. go. cbn [truthy]. go. rewrite Hn. cbn [truthy]. go. cbn [truthy].
  destruct ul; hy; cbv beta iota; cbn [type_name str_in existsb String.eqb Ascii.eqb Bool.eqb orb truthy];
    rewrite !exec_block_nil; (eexists; split; [reflexivity|]; lk; auto).
Qed.

(* the source as a function: for a list of parsed values (what argparse and the packaged default hand to the method) *)
Theorem src_spec ds bt bl ul nm pvl :
  Nat.ltb 1 (List.length ds) = true ->
  run (env_of ds true bt bl ul nm (VL pvl)) duplicate_src =
  if negb bt && (negb bl && shortcut_cond (List.length ds) pvl) then Ok (nth 0 pvl VNone)
  else by_count_py (List.length ds) pvl.
Proof.
  intros Hn. unfold run. rewrite src_split, exec_block_app.
  destruct (head_spec ds bt bl ul nm pvl Hn) as [r [E [Hpv [Hnum [Ht Hl]]]]]. rewrite E.
  rewrite exec_block_cons. pose proof (shortcut_spec r _ bt bl pvl Hpv Hnum Ht Hl) as S.
  destruct (negb bt && (negb bl && shortcut_cond (List.length ds) pvl)).
  - destruct S as [r' E']. rewrite E'. reflexivity.
  - destruct S as [r' [E' [K1 K2]]]. rewrite E'. rewrite Hpv in K1. rewrite Hnum in K2.
    exact (tail_spec r' _ pvl K1 K2).
Qed.

(* the assertions of the method *)
Theorem src_asserts_reused ds bt bl ul nm pv : run (env_of ds false bt bl ul nm pv) duplicate_src = Err (Raise "AssertionError").
Proof. reflexivity. Qed.
Theorem src_asserts_several ds bt bl ul nm pv :
  Nat.ltb 1 (List.length ds) = false -> run (env_of ds true bt bl ul nm pv) duplicate_src = Err (Raise "AssertionError").
Proof.
  intros Hn. unfold run, duplicate_src.
  assert (H1 : lookup "self.destinations" (env_of ds true bt bl ul nm pv) = Some (VL (map VS ds))) by reflexivity.
  assert (H2 : lookup "self.is_reused" (env_of ds true bt bl ul nm pv) = Some (VB true)) by reflexivity.
  set (r0 := env_of ds true bt bl ul nm pv) in *. clearbody r0.
  go. rewrite map_length. go. cbn [truthy]. go. rewrite Hn. reflexivity.
Qed.

(* ---------- the bridge to Model/Merge.v ---------- *)
Definition is_seq (v : val) : bool := match v with VL _ | VT _ => true | _ => false end.

Lemma nest_atom x : is_seq x = false -> nest_level x = 0.
Proof. destruct x; try reflexivity; discriminate. Qed.

Lemma rep_list_times {A B} (f : A -> B) l n : map f (list_times l n) = rep_list (map f l) n.
Proof. induction n as [|k IH]; [reflexivity|]. cbn [list_times rep_list]. now rewrite map_app, IH. Qed.

(* what the caller (zip(self.destinations, values)) iterates over *)
Definition items_res (o : res val) : res (list val) :=
  match o with Ok (VL l) => Ok l | Ok (VT l) => Ok l | Ok _ => rerr | Err e => Err e end.

Section Bridge.
  (* The model's values as interpreter values: lists and tuples structurally; the method never looks inside anything else,
     so ANY representation of the other values (numbers, strings, booleans, enum members) as non-sequences will do. *)
  Variable atom : Merge.val -> val.
  Hypothesis atom_scalar : forall v, is_seq (atom v) = false.

  Fixpoint enc (v : Merge.val) : val :=
    match v with
    | VList l => VL (map enc l)
    | VTuple l => VT (map enc l)
    | _ => atom v
    end.

  Lemma nest_enc : forall v, nest_level (enc v) = Merge.nesting_level v.
  Proof.
    fix IH 1. intros [z|ng m e|s|b|nm|l|l]; try (cbn [enc Merge.nesting_level]; apply nest_atom, atom_scalar).
    - cbn [enc nest_level Merge.nesting_level]. f_equal.
      induction l as [|x t IHl]; [reflexivity|]. cbn [map fold_right]. now rewrite IH, IHl.
    - cbn [enc nest_level Merge.nesting_level]. f_equal.
      induction l as [|x t IHl]; [reflexivity|]. cbn [map fold_right]. now rewrite IH, IHl.
  Qed.

  Lemma atom_not_seq {A} v (f : list val -> A) (d : A) : match atom v with VL l => f l | VT l => f l | _ => d end = d.
  Proof. pose proof (atom_scalar v) as H. destruct (atom v); try reflexivity; discriminate. Qed.

  Lemma shortcut_cond_model n pv : shortcut_cond n (map enc pv) = forallb (fun a => sc_atom_holds a n pv) SC_CONDS.
  Proof.
    unfold shortcut_cond, SC_CONDS. cbn [forallb sc_atom_holds].
    change (VL (map enc pv)) with (enc (VList pv)). rewrite nest_enc, map_length.
    destruct pv as [|x [|y t]].
    - reflexivity.
    - destruct x; cbn [map enc]; rewrite ?atom_not_seq; cbn [py_len]; rewrite ?map_length, ?andb_true_r; try reflexivity;
        cbn [Merge.nesting_level fold_right Nat.max Nat.eqb andb]; reflexivity.
    - cbn [List.length Nat.eqb andb]. rewrite !andb_false_r. reflexivity.
  Qed.

  Lemma shortcut_items n pv :
    shortcut_cond n (map enc pv) = true ->
    items_res (Ok (nth 0 (map enc pv) VNone)) = Ok (map enc (items_of (hd (VList []) pv))).
  Proof.
    unfold shortcut_cond. intros H. apply andb_true_iff in H as [_ H]. apply andb_true_iff in H as [_ H].
    destruct pv as [|x t]; [discriminate|]. cbn [map] in H.
    destruct x; cbn [enc] in H; rewrite ?atom_not_seq in H; try discriminate; reflexivity.
  Qed.

  Definition expected (r : res (list Merge.val)) : res (list val) :=
    match r with
    | Ok l => Ok (map enc l)
    | Err Inconsistent => Err (Raise "InconsistentArgumentError")
    | Err e => Err e
    end.

  Theorem src_is_model ds k ul nm pv :
    Nat.ltb 1 (List.length ds) = true ->
    items_res (run (env_of ds true (is_tuple_kind k) (is_list_kind k) ul nm (VL (map enc pv))) duplicate_src)
    = expected (duplicate_gen (List.length ds) k pv).
  Proof.
    intros Hn. rewrite src_spec by exact Hn. unfold duplicate_gen, duplicate.
    rewrite <- shortcut_cond_model. unfold SC_GUARDS. cbn [forallb sc_guard_holds].
    destruct (is_tuple_kind k); cbn [negb andb]; [|destruct (is_list_kind k); cbn [negb andb]].
    3: destruct (shortcut_cond (List.length ds) (map enc pv)) eqn:C; [cbn [expected]; exact (shortcut_items _ _ C)|].
    all: unfold by_count_py, DUP_CHAIN, DUP_ELSE; cbn [run_dup len_test_holds do_dup]; rewrite map_length;
      destruct (Nat.eqb (List.length pv) (List.length ds)); [reflexivity|];
      destruct (Nat.eqb (List.length pv) 1); cbn [items_res expected]; rewrite ?rep_list_times; reflexivity.
  Qed.
End Bridge.

(* executable agreement on concrete inputs (a test, not the theorem), with one concrete representation of the scalars *)
Definition atom_ex (v : Merge.val) : val :=
  match v with VInt z => VN (Z.to_nat z) | VStr s => VS s | VBool b => VB b | _ => VNone end.
Lemma atom_ex_scalar v : is_seq (atom_ex v) = false.
Proof. destruct v; reflexivity. Qed.
Example src_vs_model_1 :
  items_res (run (env_of ["a"; "b"] true false false false "x" (VL (map (enc atom_ex) [VList [VInt 1; VInt 2]]))) duplicate_src)
    = Ok [VN 1; VN 2]
  /\ duplicate_gen 2 KInt [VList [VInt 1; VInt 2]] = Ok [VInt 1; VInt 2]
  /\ items_res (run (env_of ["a"; "b"] true false true true "x" (VL (map (enc atom_ex) [VList [VInt 1; VInt 2]]))) duplicate_src)
    = Ok [VL [VN 1; VN 2]; VL [VN 1; VN 2]]
  /\ duplicate_gen 2 (KList EInt) [VList [VInt 1; VInt 2]] = Ok [VList [VInt 1; VInt 2]; VList [VInt 1; VInt 2]]
  /\ run (env_of ["a"; "b"; "c"] true false false false "x" (VL (map (enc atom_ex) [VInt 1; VInt 2]))) duplicate_src
    = Err (Raise "InconsistentArgumentError")
  /\ duplicate_gen 3 KInt [VInt 1; VInt 2] = Err Inconsistent.
Proof. vm_compute. repeat split; reflexivity. Qed.
