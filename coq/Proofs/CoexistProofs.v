(* Proofs/CoexistProofs.v — C09: post-processing leaves the plain entries alone, pops every dest set-up registered,
   raises exactly on an undeclared collision; where the parents' actions are installed decides whether the parser
   is argparse-with-parents.  Everything is proved for ARBITRARY skip lists / argparse behaviours first; the
   regenerated facts enter through finite side conditions checked by computation at the end. *)
From SPV Require Import Base.Str Model.Coexist Model.CoexistSpec Gen.FactsCoexist.

(* ====================================================================== *)
(* namespaces                                                              *)
(* ====================================================================== *)
Lemma mem_In k n : mem k n = true <-> In k (keys n).
Proof. unfold mem. apply str_in_In. Qed.
Lemma mem_false k n : mem k n = false <-> ~ In k (keys n).
Proof. unfold mem. apply str_in_false. Qed.

Lemma keys_app (a b : nsp) : keys (a ++ b)%list = (keys a ++ keys b)%list.
Proof. unfold keys. apply map_app. Qed.

Lemma keys_remove x k n : In x (keys (remove k n)) <-> In x (keys n) /\ x <> k.
Proof.
  unfold keys, remove. induction n as [|[k' v] r IH]; simpl.
  - tauto.
  - destruct (String.eqb k' k) eqn:E; simpl.
    + apply String.eqb_eq in E. subst k'. rewrite IH. split.
      * intros [H1 H2]. split; [right; exact H1 | exact H2].
      * intros [[H1|H1] H2]; [congruence | split; assumption].
    + apply String.eqb_neq in E. rewrite IH. split.
      * intros [H1|[H1 H2]]; [subst; split; [left; reflexivity | exact E] | split; [right; exact H1 | exact H2]].
      * intros [[H1|H1] H2]; [left; exact H1 | right; split; assumption].
Qed.

Lemma keys_set_key x k v n : In x (keys (set_key k v n)) <-> In x (keys n) \/ x = k.
Proof.
  unfold keys. induction n as [|[k' w] r IH]; simpl.
  - split; [intros [H|[]]; right; congruence | intros [[]|H]; left; congruence].
  - destruct (String.eqb k' k) eqn:E; simpl.
    + apply String.eqb_eq in E. subst k'. split; [intros H; left; exact H | intros [H|H]; [exact H | left; congruence]].
    + rewrite IH. tauto.
Qed.

Lemma restrict_app ks (a b : nsp) : restrict ks (a ++ b)%list = (restrict ks a ++ restrict ks b)%list.
Proof. unfold restrict. apply filter_app. Qed.

Lemma restrict_remove ks k n : ~ In k ks -> restrict ks (remove k n) = restrict ks n.
Proof.
  intros Hk. unfold restrict, remove. induction n as [|[k' v] r IH]; simpl; [reflexivity|].
  destruct (String.eqb k' k) eqn:E; simpl.
  - apply String.eqb_eq in E. subst k'.
    destruct (str_in k ks) eqn:Ek; [apply str_in_In in Ek; contradiction | exact IH].
  - destruct (str_in k' ks); [f_equal; exact IH | exact IH].
Qed.

Lemma restrict_single ks k v : ~ In k ks -> restrict ks [(k, v)] = [].
Proof.
  intros Hk. unfold restrict. simpl. destruct (str_in k ks) eqn:E; [apply str_in_In in E; contradiction | reflexivity].
Qed.

Lemma restrict_set_key ks k v n : ~ In k ks -> restrict ks (set_key k v n) = restrict ks n.
Proof.
  intros Hk. unfold restrict. induction n as [|[k' w] r IH]; simpl.
  - destruct (str_in k ks) eqn:E; [apply str_in_In in E; contradiction | reflexivity].
  - destruct (String.eqb k' k) eqn:E; simpl.
    + apply String.eqb_eq in E. subst k'.
      destruct (str_in k ks) eqn:Ek; [apply str_in_In in Ek; contradiction | reflexivity].
    + destruct (str_in k' ks); [f_equal; exact IH | exact IH].
Qed.

Lemma lookup_restrict k ks n : In k ks -> lookup k (restrict ks n) = lookup k n.
Proof.
  intros Hk. unfold restrict. induction n as [|[k' v] r IH]; simpl; [reflexivity|].
  destruct (str_in k' ks) eqn:E; simpl.
  - destruct (String.eqb k' k); [reflexivity | exact IH].
  - destruct (String.eqb k' k) eqn:E2; [|exact IH].
    apply String.eqb_eq in E2. subst k'. apply str_in_In in Hk. congruence.
Qed.

Lemma lookup_set_key_same k v n : lookup k (set_key k v n) = Some v.
Proof.
  induction n as [|[k' w] r IH]; simpl.
  - rewrite String.eqb_refl. reflexivity.
  - destruct (String.eqb k' k) eqn:E; simpl; rewrite E; [reflexivity | exact IH].
Qed.

Lemma lookup_app_absent k v (n : nsp) : ~ In k (keys n) -> lookup k (n ++ [(k, v)])%list = Some v.
Proof.
  unfold keys. induction n as [|[k' w] r IH]; simpl; intros H.
  - rewrite String.eqb_refl. reflexivity.
  - destruct (String.eqb k' k) eqn:E; [apply String.eqb_eq in E; exfalso; apply H; left; exact E|].
    apply IH. intros Hr. apply H. right. exact Hr.
Qed.

Lemma lookup_keys k n : lookup k n <> None <-> In k (keys n).
Proof.
  unfold keys. induction n as [|[k' v] r IH]; simpl.
  - split; [congruence | intros []].
  - destruct (String.eqb k' k) eqn:E.
    + apply String.eqb_eq in E. split; [intros _; left; exact E | intros _; discriminate].
    + apply String.eqb_neq in E. rewrite IH. split; [intros H; right; exact H | intros [H|H]; [contradiction | exact H]].
Qed.

Lemma restrict_In ks (a b : nsp) k : restrict ks a = restrict ks b -> In k ks -> In k (keys b) -> In k (keys a).
Proof.
  intros E Hk Hb. apply lookup_keys. apply lookup_keys in Hb.
  rewrite <- (lookup_restrict k ks a Hk), E, (lookup_restrict k ks b Hk). exact Hb.
Qed.

(* ====================================================================== *)
(* skip tests                                                              *)
(* ====================================================================== *)
Lemma skipc_eqb_eq a b : skipc_eqb a b = true <-> a = b.
Proof. destruct a, b; simpl; split; intros H; try reflexivity; try discriminate. Qed.

Lemma skip_in_In c l : skip_in c l = true <-> In c l.
Proof.
  unfold skip_in. rewrite existsb_exists. split.
  - intros [x [Hx He]]. apply skipc_eqb_eq in He. subst. exact Hx.
  - intros H. exists c. split; [exact H | apply skipc_eqb_eq; reflexivity].
Qed.

(* a test of the post-processing loop is harmless when the field it excuses either has no action, or is popped elsewhere,
   or is known to be absent *)
Definition harmless (wskips sskips sgsel : list skipc) (sg_first : bool) (c : skipc) : bool :=
  match c with
  | SkSuppressAbsent => true
  | SkSubgroup => skip_in c wskips || skip_in c sskips || (sg_first && skip_in c sgsel)
  | _ => skip_in c wskips || skip_in c sskips
  end.
Definition skips_ok (wskips sskips pskips sgsel : list skipc) (sg_first : bool) : bool :=
  forallb (harmless wskips sskips sgsel sg_first) pskips.

Section General.
  Variable wskips sskips pskips : list skipc.
  Variable sg_first : bool.
  Variable coll_err : err.
  Variable coll_dfl_ok : bool.
  Variable sgsel : list skipc.
  Variable sup_none : bool.

  Notation w_fields' := (w_fields wskips).
  Notation pairs' := (pairs wskips).
  Notation registered' := (registered wskips sskips).
  Notation reg_dests' := (reg_dests wskips sskips).
  Notation subgroup_dests' := (subgroup_dests wskips sgsel).
  Notation remove_subgroups' := (remove_subgroups wskips sg_first sgsel).
  Notation fill_step' := (fill_step pskips).
  Notation fill' := (fill wskips pskips).
  Notation inst_one' := (inst_one wskips pskips coll_err coll_dfl_ok sup_none).
  Notation inst_all' := (inst_all wskips pskips coll_err coll_dfl_ok sup_none).
  Notation instantiate' := (instantiate wskips pskips coll_err coll_dfl_ok sup_none).
  Notation post' := (post wskips pskips sg_first coll_err coll_dfl_ok sgsel sup_none).

  Definition field_dests (forest : list wrapper) : list string := map (fun wf => f_dest (snd wf)) (pairs' forest).
  (* the key _remove_subgroups_from_namespace may add *)
  Definition sg_key (forest : list wrapper) : list string :=
    if sg_first then match subgroup_dests' forest with [] => [] | _ => ["subgroups"] end else [].
  (* everything post-processing may touch *)
  Definition touched (forest : list wrapper) : list string :=
    (field_dests forest ++ top_dests forest ++ sg_key forest)%list.

  Lemma pairs_field w f forest : In (w, f) (pairs' forest) -> In f (w_fields' w).
  Proof.
    unfold pairs. rewrite in_flat_map. intros [w' [_ H]]. apply in_map_iff in H as [f' [E Hf]].
    injection E as <- <-. exact Hf.
  Qed.

  Lemma registered_pairs wf forest : In wf (registered' forest) -> In wf (pairs' forest).
  Proof. unfold registered. intros H. apply filter_In in H. tauto. Qed.

  Lemma reg_dests_field_dests forest d : In d (reg_dests' forest) -> In d (field_dests forest).
  Proof.
    unfold reg_dests, field_dests. rewrite !in_map_iff. intros [wf [E H]]. exists wf. split; [exact E | apply registered_pairs; exact H].
  Qed.

  Lemma subgroup_dests_field_dests forest d : In d (subgroup_dests' forest) -> In d (field_dests forest).
  Proof.
    unfold subgroup_dests, field_dests. rewrite !in_map_iff. intros [wf [E H]]. exists wf. split; [exact E|].
    apply filter_In in H. tauto.
  Qed.

  Lemma top_dests_pairs forest : map snd (top_pairs forest) = top_dests forest.
  Proof.
    unfold top_pairs, top_dests. induction (top_wrappers forest) as [|w r IH]; simpl; [reflexivity|].
    rewrite map_app, IH. f_equal. rewrite map_map. simpl. apply map_id.
  Qed.

  (* ---------- removing the subgroup choices ---------- *)
  Lemma pop_all_restrict ks ds n n' :
    (forall d, In d ds -> ~ In d ks) -> pop_all ds n = Ok n' -> restrict ks n' = restrict ks n.
  Proof.
    revert n. induction ds as [|d r IH]; intros n Hd H; simpl in H.
    - injection H as <-. reflexivity.
    - destruct (mem d n); [|discriminate].
      rewrite (IH _ (fun x Hx => Hd x (or_intror Hx)) H). apply restrict_remove. apply Hd. left. reflexivity.
  Qed.

  Lemma pop_all_incl ds n n' : pop_all ds n = Ok n' -> incl (keys n') (keys n).
  Proof.
    revert n. induction ds as [|d r IH]; intros n H; simpl in H.
    - injection H as <-. apply incl_refl.
    - destruct (mem d n); [|discriminate]. intros x Hx. apply (IH _ H) in Hx. apply keys_remove in Hx. tauto.
  Qed.

  Lemma pop_all_absent ds n n' : pop_all ds n = Ok n' -> forall d, In d ds -> ~ In d (keys n').
  Proof.
    revert n. induction ds as [|d r IH]; intros n H x Hx; simpl in H.
    - destruct Hx.
    - destruct (mem d n); [|discriminate]. destruct Hx as [<-|Hx].
      + intros Hin. apply (pop_all_incl _ _ _ H) in Hin. apply keys_remove in Hin. tauto.
      + exact (IH _ H x Hx).
  Qed.

  Lemma pop_all_ok ds n :
    NoDup ds -> (forall d, In d ds -> In d (keys n)) -> exists n', pop_all ds n = Ok n'.
  Proof.
    revert n. induction ds as [|d r IH]; intros n Hnd Hin; simpl.
    - eexists. reflexivity.
    - inversion Hnd as [|? ? Hnot Hnd']; subst.
      assert (Hm : mem d n = true) by (apply mem_In; apply Hin; left; reflexivity). rewrite Hm.
      apply IH; [exact Hnd'|]. intros x Hx. apply keys_remove. split; [apply Hin; right; exact Hx | intros ->; contradiction].
  Qed.

  Lemma remove_subgroups_restrict ks forest n n1 :
    (forall k, In k ks -> ~ In k (touched forest)) ->
    remove_subgroups' forest n = Ok n1 -> restrict ks n1 = restrict ks n.
  Proof.
    intros Hd H. unfold remove_subgroups in H. unfold touched, sg_key in Hd.
    destruct sg_first; [|injection H as <-; reflexivity].
    destruct (subgroup_dests' forest) as [|d0 r] eqn:Esg; [injection H as <-; reflexivity|].
    assert (Hsg : forall d, In d (d0 :: r) -> ~ In d ks).
    { intros d Hin Hk. apply (Hd d Hk). apply in_or_app. left. apply subgroup_dests_field_dests. rewrite Esg. exact Hin. }
    rewrite (pop_all_restrict ks _ _ _ Hsg H).
    destruct (mem "subgroups" n); [reflexivity|].
    rewrite restrict_app, restrict_single, app_nil_r; [reflexivity|].
    intros Hk. apply (Hd _ Hk). apply in_or_app. right. apply in_or_app. right. left. reflexivity.
  Qed.

  Lemma remove_subgroups_incl forest n n1 :
    remove_subgroups' forest n = Ok n1 -> forall k, In k (keys n1) -> In k (keys n) \/ In k (sg_key forest).
  Proof.
    intros H k Hk. unfold remove_subgroups in H. unfold sg_key.
    destruct sg_first; [|injection H as <-; left; exact Hk].
    destruct (subgroup_dests' forest) as [|d0 r]; [injection H as <-; left; exact Hk|].
    apply (pop_all_incl _ _ _ H) in Hk. destruct (mem "subgroups" n); [left; exact Hk|].
    rewrite keys_app in Hk. apply in_app_or in Hk as [Hk|Hk]; [left; exact Hk | right; exact Hk].
  Qed.

  Lemma remove_subgroups_absent forest n n1 :
    sg_first = true -> remove_subgroups' forest n = Ok n1 -> forall d, In d (subgroup_dests' forest) -> ~ In d (keys n1).
  Proof.
    intros Hs H d Hd. unfold remove_subgroups in H. rewrite Hs in H.
    destruct (subgroup_dests' forest) as [|d0 r]; [destruct Hd|]. exact (pop_all_absent _ _ _ H d Hd).
  Qed.

  Lemma remove_subgroups_key forest n n1 :
    remove_subgroups' forest n = Ok n1 -> ~ In "subgroups" (subgroup_dests' forest) ->
    forall k, In k (sg_key forest) -> In k (keys n1).
  Proof.
    intros H Hns k Hk. unfold remove_subgroups in H. unfold sg_key in Hk.
    destruct sg_first; [|destruct Hk].
    destruct (subgroup_dests' forest) as [|d0 r] eqn:E; [destruct Hk|].
    destruct Hk as [<-|[]].
    assert (Hstart : In "subgroups" (keys (if mem "subgroups" n then n else (n ++ [("subgroups", NSub)])%list))).
    { destruct (mem "subgroups" n) eqn:Em; [apply mem_In; exact Em|]. rewrite keys_app. apply in_or_app. right. left. reflexivity. }
    revert Hstart H Hns. generalize (if mem "subgroups" n then n else (n ++ [("subgroups", NSub)])%list).
    generalize (d0 :: r). intros ds. induction ds as [|d ds IH]; intros m Hm H Hns; simpl in H.
    - injection H as <-. exact Hm.
    - destruct (mem d m); [|discriminate]. apply (IH _ ltac:(apply keys_remove; split; [exact Hm | intros E'; apply Hns; left; symmetry; exact E']) H).
      intros Hin. apply Hns. right. exact Hin.
  Qed.

  Lemma remove_subgroups_ok forest n :
    NoDup (subgroup_dests' forest) -> (forall d, In d (subgroup_dests' forest) -> In d (keys n)) ->
    exists n1, remove_subgroups' forest n = Ok n1.
  Proof.
    intros Hnd Hin. unfold remove_subgroups. destruct sg_first; [|eexists; reflexivity].
    destruct (subgroup_dests' forest) as [|d0 r] eqn:E; [eexists; reflexivity|].
    apply pop_all_ok; [exact Hnd|]. intros d Hd. destruct (mem "subgroups" n); [apply Hin; exact Hd|].
    rewrite keys_app. apply in_or_app. left. apply Hin. exact Hd.
  Qed.

  (* ---------- the filling loop ---------- *)
  Lemma fill_step_incl m wf : incl (keys (fill_step' m wf)) (keys m).
  Proof.
    unfold fill_step. destruct (existsb _ pskips); [apply incl_refl|]. intros x Hx. apply keys_remove in Hx. tauto.
  Qed.
  Lemma fold_fill_incl l m : incl (keys (fold_left fill_step' l m)) (keys m).
  Proof.
    revert m. induction l as [|x r IH]; intros m; simpl; [apply incl_refl|].
    eapply incl_tran; [apply IH | apply fill_step_incl].
  Qed.

  Lemma fold_fill_restrict ks l m :
    (forall wf, In wf l -> ~ In (f_dest (snd wf)) ks) -> restrict ks (fold_left fill_step' l m) = restrict ks m.
  Proof.
    revert m. induction l as [|x r IH]; intros m Hd; simpl; [reflexivity|].
    rewrite IH by (intros wf Hwf; apply Hd; right; exact Hwf).
    unfold fill_step. destruct (existsb _ pskips); [reflexivity|]. apply restrict_remove. apply Hd. left. reflexivity.
  Qed.

  (* the heart of "no leak": a field of the loop is absent afterwards unless a STATIC test excused it while present *)
  Lemma fold_fill_absent l m w f :
    In (w, f) l ->
    (forall c, In c pskips -> static_holds f c = true -> ~ In (f_dest f) (keys m)) ->
    ~ In (f_dest f) (keys (fold_left fill_step' l m)).
  Proof.
    revert m. induction l as [|x r IH]; intros m Hin Hst; [destruct Hin|]. simpl.
    assert (Hst' : forall c, In c pskips -> static_holds f c = true -> ~ In (f_dest f) (keys (fill_step' m x))).
    { intros c Hc Hs Hk. apply (Hst c Hc Hs). apply (fill_step_incl m x). exact Hk. }
    destruct Hin as [->|Hin]; [|exact (IH _ Hin Hst')].
    intros Hk. apply (fold_fill_incl r) in Hk. revert Hk. unfold fill_step. simpl.
    destruct (existsb (dyn_holds w f m) pskips) eqn:E.
    - apply existsb_exists in E as [c [Hc Hd]]. destruct c; simpl in Hd;
        try (exact (Hst _ Hc Hd)).
      apply andb_true_iff in Hd as [_ Hd]. apply negb_true_iff, mem_false in Hd. exact Hd.
    - intros Hk. apply keys_remove in Hk. tauto.
  Qed.

  Lemma registered_static_absent forest n n1 w f :
    skips_ok wskips sskips pskips sgsel sg_first = true ->
    remove_subgroups' forest n = Ok n1 ->
    In (w, f) (registered' forest) ->
    forall c, In c pskips -> static_holds f c = true -> ~ In (f_dest f) (keys n1).
  Proof.
    intros Hok Hrm Hreg c Hc Hs.
    unfold skips_ok in Hok. rewrite forallb_forall in Hok. specialize (Hok c Hc).
    assert (Hpair := registered_pairs _ _ Hreg).
    assert (Hw : existsb (static_holds f) wskips = false).
    { apply pairs_field in Hpair. unfold w_fields in Hpair. apply filter_In in Hpair as [_ Hpair]. apply negb_true_iff in Hpair. exact Hpair. }
    assert (Hsk : existsb (static_holds f) sskips = false).
    { unfold registered in Hreg. apply filter_In in Hreg as [_ Hreg]. apply negb_true_iff in Hreg. exact Hreg. }
    assert (Hnotw : skip_in c wskips = false).
    { destruct (skip_in c wskips) eqn:E; [|reflexivity]. apply skip_in_In in E.
      assert (existsb (static_holds f) wskips = true) by (apply existsb_exists; exists c; split; assumption). congruence. }
    assert (Hnots : skip_in c sskips = false).
    { destruct (skip_in c sskips) eqn:E; [|reflexivity]. apply skip_in_In in E.
      assert (existsb (static_holds f) sskips = true) by (apply existsb_exists; exists c; split; assumption). congruence. }
    destruct c; simpl in Hok, Hs; rewrite ?Hnotw, ?Hnots in Hok; simpl in Hok; try discriminate.
    (* SkSubgroup, subgroups removed first *)
    apply andb_true_iff in Hok as [Hfirst Hsel]. apply skip_in_In in Hsel.
    apply (remove_subgroups_absent forest n n1 Hfirst Hrm).
    unfold subgroup_dests. apply in_map_iff. exists (w, f). split; [reflexivity|]. apply filter_In. split; [exact Hpair|].
    simpl. apply existsb_exists. exists SkSubgroup. split; [exact Hsel | exact Hs].
  Qed.

  (* ---------- instantiation ---------- *)
  Lemma inst_one_keys forest dfl n1 w m d m' :
    inst_one' forest dfl n1 w m d = Ok m' -> forall k, In k (keys m') <-> In k (keys m) \/ (k = d /\ In d (keys m')).
  Proof.
    unfold inst_one. intros H k.
    destruct (w_suppress w && sup_none && negb (sup_nonempty wskips pskips forest d n1)).
    { injection H as <-. split; [left; assumption | intros [H|[-> H]]; assumption]. }
    destruct (mem d m) eqn:Em; simpl in H.
    - destruct (coll_dfl_ok && str_in (hd "" (w_dests w)) dfl); [|discriminate]. injection H as <-.
      rewrite keys_set_key. apply mem_In in Em. split.
      + intros [Hk| ->]; [left; exact Hk | left; exact Em].
      + intros [Hk|[-> _]]; left; assumption.
    - injection H as <-. rewrite keys_app. simpl. split.
      + intros Hk. apply in_app_or in Hk as [Hk|[<-|[]]]; [left; exact Hk | right; split; [reflexivity | apply in_or_app; right; left; reflexivity]].
      + intros [Hk|[-> _]]; apply in_or_app; [left; exact Hk | right; left; reflexivity].
  Qed.

  Lemma inst_one_restrict ks forest dfl n1 w m d m' :
    ~ In d ks -> inst_one' forest dfl n1 w m d = Ok m' -> restrict ks m' = restrict ks m.
  Proof.
    unfold inst_one. intros Hd H.
    destruct (w_suppress w && sup_none && negb (sup_nonempty wskips pskips forest d n1)); [injection H as <-; reflexivity|].
    destruct (mem d m); simpl in H.
    - destruct (coll_dfl_ok && str_in (hd "" (w_dests w)) dfl); [|discriminate]. injection H as <-. apply restrict_set_key. exact Hd.
    - injection H as <-. rewrite restrict_app, restrict_single, app_nil_r; [reflexivity | exact Hd].
  Qed.

  Lemma inst_all_restrict ks forest dfl n1 l m m' :
    (forall wd, In wd l -> ~ In (snd wd) ks) -> inst_all' forest dfl n1 l m = Ok m' -> restrict ks m' = restrict ks m.
  Proof.
    revert m. induction l as [|[w d] r IH]; intros m Hd H; simpl in H.
    - injection H as <-. reflexivity.
    - destruct (inst_one' forest dfl n1 w m d) as [m1|e] eqn:E; [|discriminate].
      rewrite (IH _ (fun x Hx => Hd x (or_intror Hx)) H). eapply inst_one_restrict; [|exact E]. apply (Hd (w, d)). left. reflexivity.
  Qed.

  Lemma inst_all_incl forest dfl n1 l m m' :
    inst_all' forest dfl n1 l m = Ok m' -> forall k, In k (keys m') -> In k (keys m) \/ In k (map snd l).
  Proof.
    revert m. induction l as [|[w d] r IH]; intros m H k Hk; simpl in H.
    - injection H as <-. left. exact Hk.
    - destruct (inst_one' forest dfl n1 w m d) as [m1|e] eqn:E; [|discriminate].
      destruct (IH _ H k Hk) as [Hk1|Hk1]; [|right; right; exact Hk1].
      apply (inst_one_keys _ _ _ _ _ _ _ E) in Hk1 as [Hk1|[-> _]]; [left; exact Hk1 | right; left; reflexivity].
  Qed.

  Lemma inst_all_mono forest dfl n1 l m m' :
    inst_all' forest dfl n1 l m = Ok m' -> incl (keys m) (keys m').
  Proof.
    revert m. induction l as [|[w d] r IH]; intros m H; simpl in H.
    - injection H as <-. apply incl_refl.
    - destruct (inst_one' forest dfl n1 w m d) as [m1|e] eqn:E; [|discriminate].
      intros k Hk. apply (IH _ H). apply (inst_one_keys _ _ _ _ _ _ _ E). left. exact Hk.
  Qed.

  (* every destination that is not suppressed away gets its attribute *)
  Lemma inst_all_present forest dfl n1 l m m' :
    inst_all' forest dfl n1 l m = Ok m' ->
    forall w d, In (w, d) l -> w_suppress w && sup_none && negb (sup_nonempty wskips pskips forest d n1) = false -> In d (keys m').
  Proof.
    revert m. induction l as [|[w0 d0] r IH]; intros m H w d Hin Hs; simpl in H; [destruct Hin|].
    destruct (inst_one' forest dfl n1 w0 m d0) as [m1|e] eqn:E; [|discriminate].
    destruct Hin as [Heq|Hin]; [|exact (IH _ H w d Hin Hs)].
    injection Heq as -> ->. apply (inst_all_mono _ _ _ _ _ _ H).
    unfold inst_one in E. rewrite Hs in E. destruct (mem d m) eqn:Em; simpl in E.
    - destruct (coll_dfl_ok && str_in (hd "" (w_dests w)) dfl); [|discriminate]. injection E as <-. apply keys_set_key. right. reflexivity.
    - injection E as <-. rewrite keys_app. apply in_or_app. right. left. reflexivity.
  Qed.

  (* the attribute stored at a destination is the dataclass instance *)
  Lemma inst_all_value forest dfl n1 l m m' :
    NoDup (map snd l) -> inst_all' forest dfl n1 l m = Ok m' ->
    forall w d, In (w, d) l -> w_suppress w && sup_none && negb (sup_nonempty wskips pskips forest d n1) = false ->
    lookup d m' = Some NInst.
  Proof.
    revert m. induction l as [|[w0 d0] r IH]; intros m Hnd H w d Hin Hs; simpl in H; [destruct Hin|].
    inversion Hnd as [|? ? Hnot Hnd']; subst.
    destruct (inst_one' forest dfl n1 w0 m d0) as [m1|e] eqn:E; [|discriminate].
    destruct Hin as [Heq|Hin]; [|exact (IH _ Hnd' H w d Hin Hs)].
    injection Heq as -> ->.
    assert (Hr : restrict [d] m' = restrict [d] m1).
    { eapply inst_all_restrict; [|exact H]. intros [w' d'] Hin' [Hc|[]]. simpl in Hc. subst d'.
      apply Hnot. apply in_map_iff. exists (w', d). split; [reflexivity | exact Hin']. }
    rewrite <- (lookup_restrict d [d] m' (or_introl eq_refl)), Hr, (lookup_restrict d [d] m1 (or_introl eq_refl)).
    unfold inst_one in E. rewrite Hs in E. destruct (mem d m) eqn:Em; simpl in E.
    - destruct (coll_dfl_ok && str_in (hd "" (w_dests w)) dfl); [|discriminate]. injection E as <-. apply lookup_set_key_same.
    - injection E as <-. apply lookup_app_absent. apply mem_false. exact Em.
  Qed.

  (* the collision rule, one destination *)
  Definition dest_free (dfl : list string) (K : list string) (wd : wrapper * string) : bool :=
    negb (str_in (snd wd) K) || (coll_dfl_ok && str_in (hd "" (w_dests (fst wd))) dfl).

  Lemma inst_all_ok forest dfl n1 l m :
    NoDup (map snd l) ->
    (forall wd, In wd l -> In (snd wd) (keys m) -> coll_dfl_ok && str_in (hd "" (w_dests (fst wd))) dfl = true) ->
    exists m', inst_all' forest dfl n1 l m = Ok m'.
  Proof.
    revert m. induction l as [|[w d] r IH]; intros m Hnd Hfree; simpl.
    - eexists. reflexivity.
    - inversion Hnd as [|? ? Hnot Hnd']; subst.
      assert (E : exists m1, inst_one' forest dfl n1 w m d = Ok m1).
      { unfold inst_one. destruct (w_suppress w && sup_none && negb (sup_nonempty wskips pskips forest d n1)); [eexists; reflexivity|].
        destruct (mem d m) eqn:Em; simpl; [|eexists; reflexivity].
        assert (Hf := Hfree (w, d) (or_introl eq_refl) (proj1 (mem_In _ _) Em)). simpl in Hf. rewrite Hf. eexists. reflexivity. }
      destruct E as [m1 E]. rewrite E. apply IH; [exact Hnd'|].
      intros [w' d'] Hin Hk. simpl in *. apply (Hfree (w', d') (or_intror Hin)). simpl.
      apply (inst_one_keys _ _ _ _ _ _ _ E) in Hk as [Hk|[-> _]]; [exact Hk|].
      exfalso. apply Hnot. apply in_map_iff. exists (w', d). split; [reflexivity | exact Hin].
  Qed.

  (* an undeclared collision raises, whatever else is in the forest *)
  Lemma inst_all_collision forest dfl n1 l m w d :
    In (w, d) l -> In d (keys m) ->
    w_suppress w = false ->
    coll_dfl_ok && str_in (hd "" (w_dests w)) dfl = false ->
    inst_all' forest dfl n1 l m = Err coll_err.
  Proof.
    revert m. induction l as [|[w0 d0] r IH]; intros m Hin Hk Hsup Hd; [destruct Hin|]. simpl.
    destruct (inst_one' forest dfl n1 w0 m d0) as [m1|e] eqn:E.
    - destruct Hin as [Heq|Hin].
      + injection Heq as -> ->. unfold inst_one in E. rewrite Hsup in E. simpl in E.
        apply mem_In in Hk. rewrite Hk in E. simpl in E. rewrite Hd in E. discriminate.
      + apply (IH _ Hin); [|exact Hsup | exact Hd]. apply (inst_one_keys _ _ _ _ _ _ _ E). left. exact Hk.
    - unfold inst_one in E. destruct (w_suppress w0 && sup_none && negb (sup_nonempty wskips pskips forest d0 n1)); [discriminate|].
      destruct (mem d0 m); simpl in E; [|discriminate].
      destruct (coll_dfl_ok && str_in (hd "" (w_dests w0)) dfl); [discriminate|]. symmetry. exact E.
  Qed.

  (* ---------- post-processing as a whole ---------- *)
  (* what has to hold of argparse's answer for post-processing to succeed: the subgroup choices are there, and no
     destination is occupied unless parser._defaults declares it *)
  Definition post_clean (forest : list wrapper) (dfl : list string) (n : nsp) : bool :=
    str_nodupb (subgroup_dests' forest)
    && forallb (fun d => mem d n) (subgroup_dests' forest)
    && negb (str_in "subgroups" (subgroup_dests' forest))
    && str_nodupb (top_dests forest)
    && forallb (fun wd => dest_free dfl (keys n ++ sg_key forest) wd) (top_pairs forest).

  Lemma post_ok forest dfl n :
    post_clean forest dfl n = true -> exists n', post' forest dfl n = Ok n'.
  Proof.
    unfold post_clean. intros H. repeat (apply andb_true_iff in H as [H ?]).
    rename H into Hnd, H0 into Hfree, H1 into Hndt, H2 into Hns, H3 into Hall.
    apply str_nodupb_NoDup in Hnd. apply str_nodupb_NoDup in Hndt. rewrite forallb_forall in Hall, Hfree.
    destruct (remove_subgroups_ok forest n Hnd (fun d Hd => proj1 (mem_In _ _) (Hall d Hd))) as [n1 E1].
    unfold post. rewrite E1. unfold instantiate. apply inst_all_ok.
    - rewrite top_dests_pairs. exact Hndt.
    - intros wd Hin Hk. specialize (Hfree wd Hin). unfold dest_free in Hfree.
      apply orb_true_iff in Hfree as [Hfree|Hfree]; [|exact Hfree]. exfalso.
      apply negb_true_iff, str_in_false in Hfree. apply Hfree.
      apply (fold_fill_incl (pairs' forest) n1) in Hk. apply in_or_app. exact (remove_subgroups_incl _ _ _ E1 _ Hk).
  Qed.

  Lemma post_restrict ks forest dfl n n' :
    (forall k, In k ks -> ~ In k (touched forest)) -> post' forest dfl n = Ok n' -> restrict ks n' = restrict ks n.
  Proof.
    intros Hd H. unfold post in H. destruct (remove_subgroups' forest n) as [n1|e] eqn:E1; [|discriminate].
    unfold instantiate in H.
    assert (Hi : restrict ks n' = restrict ks (fill' forest n1)).
    { eapply inst_all_restrict; [|exact H]. intros [w d] Hin Hk. simpl in Hk. apply (Hd _ Hk). unfold touched.
      apply in_or_app. right. apply in_or_app. left.
      rewrite <- top_dests_pairs. apply in_map_iff. exists (w, d). split; [reflexivity | exact Hin]. }
    rewrite Hi. unfold fill. rewrite fold_fill_restrict; [exact (remove_subgroups_restrict ks _ _ _ Hd E1)|].
    intros wf Hwf Hk. apply (Hd _ Hk). unfold touched. apply in_or_app. left. unfold field_dests. apply (in_map (fun wf => f_dest (snd wf))). exact Hwf.
  Qed.

  Lemma post_incl forest dfl n n' :
    post' forest dfl n = Ok n' -> forall k, In k (keys n') -> In k (keys n) \/ In k (sg_key forest) \/ In k (top_dests forest).
  Proof.
    intros H k Hk. unfold post in H. destruct (remove_subgroups' forest n) as [n1|e] eqn:E1; [|discriminate].
    unfold instantiate in H. destruct (inst_all_incl _ _ _ _ _ _ H k Hk) as [Hk1|Hk1].
    - apply (fold_fill_incl (pairs' forest) n1) in Hk1. destruct (remove_subgroups_incl _ _ _ E1 _ Hk1); tauto.
    - rewrite top_dests_pairs in Hk1. tauto.
  Qed.

  Theorem post_no_leak forest dfl n n' :
    skips_ok wskips sskips pskips sgsel sg_first = true ->
    (forall d, In d (reg_dests' forest) -> ~ In d (top_dests forest)) ->
    post' forest dfl n = Ok n' ->
    forall d, In d (reg_dests' forest) -> ~ In d (keys n').
  Proof.
    intros Hok Hdisj H d Hd Hk. unfold post in H. destruct (remove_subgroups' forest n) as [n1|e] eqn:E1; [|discriminate].
    unfold instantiate in H. destruct (inst_all_incl _ _ _ _ _ _ H d Hk) as [Hk1|Hk1].
    - unfold reg_dests in Hd. apply in_map_iff in Hd as [[w f] [<- Hreg]]. simpl in Hk1. revert Hk1.
      apply fold_fill_absent with (w := w); [apply registered_pairs; exact Hreg|].
      exact (registered_static_absent forest n n1 w f Hok E1 Hreg).
    - rewrite top_dests_pairs in Hk1. exact (Hdisj d Hd Hk1).
  Qed.

  Theorem post_value forest dfl n n' :
    post' forest dfl n = Ok n' -> NoDup (top_dests forest) ->
    forall w d, In (w, d) (top_pairs forest) -> w_suppress w = false -> lookup d n' = Some NInst.
  Proof.
    intros H Hnd w d Hin Hs. unfold post in H. destruct (remove_subgroups' forest n) as [n1|e] eqn:E1; [|discriminate].
    unfold instantiate in H. eapply inst_all_value; [rewrite top_dests_pairs; exact Hnd | exact H | exact Hin|].
    rewrite Hs. reflexivity.
  Qed.

  Theorem post_present forest dfl n n' :
    post' forest dfl n = Ok n' -> ~ In "subgroups" (field_dests forest) ->
    (forall k, In k (sg_key forest) -> In k (keys n'))
    /\ (forall w d, In (w, d) (top_pairs forest) -> w_suppress w = false -> In d (keys n')).
  Proof.
    intros H Hns.
    unfold post in H. destruct (remove_subgroups' forest n) as [n1|e] eqn:E1; [|discriminate]. unfold instantiate in H. split.
    - intros k Hk. apply (inst_all_mono _ _ _ _ _ _ H).
      assert (Hks : k = "subgroups").
      { unfold sg_key in Hk. destruct sg_first; [|destruct Hk]. destruct (subgroup_dests' forest); [destruct Hk|].
        destruct Hk as [<-|[]]. reflexivity. }
      assert (Hk1 : In k (keys n1)).
      { apply (remove_subgroups_key _ _ _ E1); [|exact Hk]. intros Hin. apply Hns. apply subgroup_dests_field_dests. exact Hin. }
      apply (restrict_In [k] (fill' forest n1) n1 k); [|left; reflexivity | exact Hk1].
      unfold fill. apply fold_fill_restrict. intros wf Hwf [Hc|[]]. apply Hns. rewrite <- Hks, Hc.
      unfold field_dests. apply (in_map (fun wf => f_dest (snd wf))). exact Hwf.
    - intros w d Hin Hs. apply (inst_all_present _ _ _ _ _ _ H w d Hin). rewrite Hs. reflexivity.
  Qed.
End General.

(* ====================================================================== *)
(* keeping a key through the removal steps (used by the collision rule)    *)
(* ====================================================================== *)
Lemma pop_all_keep ds n n' k : pop_all ds n = Ok n' -> ~ In k ds -> In k (keys n) -> In k (keys n').
Proof.
  revert n. induction ds as [|d r IH]; intros n H Hk Hin; simpl in H.
  - injection H as <-. exact Hin.
  - destruct (mem d n); [|discriminate]. apply (IH _ H); [intros Hr; apply Hk; right; exact Hr|].
    apply keys_remove. split; [exact Hin | intros ->; apply Hk; left; reflexivity].
Qed.

Lemma remove_subgroups_keep wskips sg_first sgsel forest n n1 k :
  remove_subgroups wskips sg_first sgsel forest n = Ok n1 -> ~ In k (subgroup_dests wskips sgsel forest) -> In k (keys n) -> In k (keys n1).
Proof.
  intros H Hk Hin. unfold remove_subgroups in H. destruct sg_first; [|injection H as <-; exact Hin].
  destruct (subgroup_dests wskips sgsel forest) as [|d0 r]; [injection H as <-; exact Hin|].
  apply (pop_all_keep _ _ _ k H Hk). destruct (mem "subgroups" n); [exact Hin|]. rewrite keys_app. apply in_or_app. left. exact Hin.
Qed.

Lemma fold_fill_keep pskips l m k :
  (forall wf, In wf l -> f_dest (snd wf) <> k) -> In k (keys m) -> In k (keys (fold_left (fill_step pskips) l m)).
Proof.
  revert m. induction l as [|x r IH]; intros m Hd Hin; simpl; [exact Hin|].
  apply IH; [intros wf Hwf; apply Hd; right; exact Hwf|].
  unfold fill_step. destruct (existsb _ pskips); [exact Hin|]. apply keys_remove. split; [exact Hin|].
  intros ->. apply (Hd x); [left; reflexivity | reflexivity].
Qed.

(* ====================================================================== *)
(* the model instantiated with the regenerated facts                       *)
(* ====================================================================== *)
Definition field_dests_gen := field_dests wrapper_skips_gen.
Definition sg_key_gen := sg_key wrapper_skips_gen subgroups_removed_first_gen subgroup_select_gen.
Definition touched_gen := touched wrapper_skips_gen subgroups_removed_first_gen subgroup_select_gen.
Definition post_clean_gen := post_clean wrapper_skips_gen subgroups_removed_first_gen collision_defaults_overwrite_gen subgroup_select_gen.

(* finite side conditions on the facts, by computation *)
Lemma skips_ok_gen : skips_ok wrapper_skips_gen setup_skips_gen post_skips_gen subgroup_select_gen subgroups_removed_first_gen = true.
Proof. vm_compute. reflexivity. Qed.
Lemma collision_err_is : collision_err_gen = Raise "RuntimeError".
Proof. vm_compute. reflexivity. Qed.
Lemma collision_defaults_ok : collision_defaults_overwrite_gen = true.
Proof. vm_compute. reflexivity. Qed.
(* shape facts: set-up runs once and registers exactly the wrappers post-processing walks; an action's dest is its
   field's dest; a parser built without config keywords declares nothing by itself; set_defaults hands entries for
   existing wrappers to the wrapper *)
Lemma ties_hold :
  setup_once_same_wrappers_gen = true /\ generated_dest_is_field_dest_gen = true /\ config_arg_by_default_gen = false
  /\ set_defaults_routes_gen = true.
Proof. vm_compute. repeat split; reflexivity. Qed.
(* the help action is installed exactly when add_help is true *)
Lemma help_as_argparse : forall b, help_installed_gen b = b.
Proof. intros []; vm_compute; reflexivity. Qed.

(* names of the plain world are disjoint from everything post-processing touches *)
Definition names_disjoint (ks : list string) (forest : list wrapper) : bool :=
  forallb (fun k => negb (str_in k (touched_gen forest))) ks.
(* no generated (dotted) dest is also an add_arguments destination *)
Definition dotted_apart (forest : list wrapper) : bool :=
  forallb (fun d => negb (str_in d (top_dests forest))) (reg_dests_gen forest).

Lemma names_disjoint_spec ks forest : names_disjoint ks forest = true -> forall k, In k ks -> ~ In k (touched_gen forest).
Proof.
  unfold names_disjoint. rewrite forallb_forall. intros H k Hk. apply str_in_false, negb_true_iff. exact (H k Hk).
Qed.

Section AnyArgparse.
  Variable AP : list action -> list string -> res (nsp * list string).

  Lemma known_pre e parents plain forest argv : sp_known_gen AP (Some e) parents plain forest argv = Err e.
  Proof. reflexivity. Qed.

  Lemma known_unfold parents plain forest argv :
    sp_known_gen AP None parents plain forest argv =
    match AP (sp_actions parents_site_gen parents plain (generated_gen forest)) argv with
    | Err e => Err e
    | Ok (n, ex) => match post_gen forest (default_keys_gen (sp_actions parents_site_gen parents plain (generated_gen forest))) n with
                    | Ok n' => Ok (n', ex) | Err e => Err e end
    end.
  Proof. reflexivity. Qed.

  Lemma known_inv pre parents plain forest argv n' ex :
    sp_known_gen AP pre parents plain forest argv = Ok (n', ex) ->
    pre = None /\ exists n, AP (sp_actions parents_site_gen parents plain (generated_gen forest)) argv = Ok (n, ex)
      /\ post_gen forest (default_keys_gen (sp_actions parents_site_gen parents plain (generated_gen forest))) n = Ok n'.
  Proof.
    destruct pre as [e|]; [discriminate|]. rewrite known_unfold. intros H. split; [reflexivity|].
    destruct (AP _ argv) as [[n ex0]|e]; [|discriminate]. exists n.
    destruct (post_gen forest _ n) as [n0|e] eqn:E; [|discriminate]. injection H as <- <-. split; reflexivity.
  Qed.

  (* C09_frame *)
  Theorem frame parents plain forest argv :
    match AP (sp_actions parents_site_gen parents plain (generated_gen forest)) argv with
    | Err e => sp_known_gen AP None parents plain forest argv = Err e
    | Ok (n, ex) =>
        post_clean_gen forest (default_keys_gen (sp_actions parents_site_gen parents plain (generated_gen forest))) n = true ->
        exists n', sp_known_gen AP None parents plain forest argv = Ok (n', ex)
          /\ forall ks, names_disjoint ks forest = true -> restrict ks n' = restrict ks n
    end.
  Proof.
    rewrite known_unfold. destruct (AP _ argv) as [[n ex]|e]; [|reflexivity].
    intros Hc. destruct (post_ok _ post_skips_gen _ collision_err_gen _ _ suppress_empty_none_gen _ _ _ Hc) as [n' E]. exists n'.
    unfold post_gen. rewrite E. split; [reflexivity|].
    intros ks Hks. eapply post_restrict; [|exact E]. apply names_disjoint_spec. exact Hks.
  Qed.

  (* C09_no_leak *)
  Theorem no_leak pre parents plain forest argv n' ex :
    sp_known_gen AP pre parents plain forest argv = Ok (n', ex) ->
    dotted_apart forest = true ->
    forall a, In a (generated_gen forest) -> ~ In (a_dest a) (keys n').
  Proof.
    intros H Hd a Ha. apply known_inv in H as [_ [n [_ Hp]]].
    unfold generated_gen, generated in Ha. apply in_map_iff in Ha as [d [<- Hdd]]. simpl.
    eapply post_no_leak; [exact skips_ok_gen | | exact Hp | exact Hdd].
    intros d' Hd'. unfold dotted_apart in Hd. rewrite forallb_forall in Hd. apply str_in_false, negb_true_iff. exact (Hd d' Hd').
  Qed.

  (* C09_keys: the key set of the result *)
  Theorem keys_result pre parents plain forest argv n' ex :
    sp_known_gen AP pre parents plain forest argv = Ok (n', ex) ->
    dotted_apart forest = true -> ~ In "subgroups" (field_dests_gen forest) ->
    exists n, AP (sp_actions parents_site_gen parents plain (generated_gen forest)) argv = Ok (n, ex)
      /\ (forall k, In k (keys n') ->
            (In k (keys n) /\ ~ In k (reg_dests_gen forest)) \/ In k (sg_key_gen forest) \/ In k (top_dests forest))
      /\ (forall k, In k (sg_key_gen forest) -> In k (keys n'))
      /\ (forall w d, In (w, d) (top_pairs forest) -> w_suppress w = false -> In d (keys n'))
      /\ (forall ks, names_disjoint ks forest = true -> restrict ks n' = restrict ks n).
  Proof.
    intros H Hd Hns. assert (Hnl := no_leak _ _ _ _ _ _ _ H Hd).
    apply known_inv in H as [_ [n [Hap Hp]]]. exists n. split; [exact Hap|]. split; [|split; [|split]].
    - intros k Hk. destruct (post_incl _ _ _ _ _ _ _ _ _ _ _ Hp k Hk) as [H1|H1]; [|right; exact H1].
      destruct (in_dec string_dec k (reg_dests_gen forest)) as [Hr|Hr]; [|left; split; assumption].
      exfalso. apply (Hnl (mkact k KOpt)); [|exact Hk]. unfold generated_gen, generated. apply (in_map (fun d => mkact d KOpt)). exact Hr.
    - exact (proj1 (post_present _ _ _ _ _ _ _ _ _ _ _ Hp Hns)).
    - exact (proj2 (post_present _ _ _ _ _ _ _ _ _ _ _ Hp Hns)).
    - intros ks Hks. eapply post_restrict; [|exact Hp]. apply names_disjoint_spec. exact Hks.
  Qed.

  (* C09_collision *)
  Theorem collision parents plain forest argv n ex w d :
    AP (sp_actions parents_site_gen parents plain (generated_gen forest)) argv = Ok (n, ex) ->
    In (w, d) (top_pairs forest) -> w_suppress w = false ->
    In d (keys n) -> ~ In d (field_dests_gen forest) ->
    str_in (hd "" (w_dests w)) (default_keys_gen (sp_actions parents_site_gen parents plain (generated_gen forest))) = false ->
    str_nodupb (subgroup_dests_gen forest) && forallb (fun s => mem s n) (subgroup_dests_gen forest) = true ->
    sp_known_gen AP None parents plain forest argv = Err (Raise "RuntimeError").
  Proof.
    intros Hap Hin Hsup Hk Hnf Hdfl Hsg. rewrite known_unfold, Hap.
    apply andb_true_iff in Hsg as [Hnd Hall]. apply str_nodupb_NoDup in Hnd. rewrite forallb_forall in Hall.
    destruct (remove_subgroups_ok wrapper_skips_gen subgroups_removed_first_gen subgroup_select_gen forest n Hnd
                (fun s Hs => proj1 (mem_In _ _) (Hall s Hs))) as [n1 E1].
    unfold post_gen, post. fold remove_subgroups_gen. unfold remove_subgroups_gen. rewrite E1.
    unfold instantiate.
    rewrite (inst_all_collision wrapper_skips_gen post_skips_gen collision_err_gen collision_defaults_overwrite_gen suppress_empty_none_gen forest _ n1 _ _ w d Hin);
      [rewrite collision_err_is; reflexivity | | exact Hsup | rewrite Hdfl; apply andb_false_r].
    unfold fill. apply fold_fill_keep.
    - intros wf Hwf E. apply Hnf. rewrite <- E. unfold field_dests_gen, field_dests. apply (in_map (fun wf => f_dest (snd wf))). exact Hwf.
    - apply (remove_subgroups_keep _ _ _ _ _ _ d E1); [|exact Hk].
      intros Hs. apply Hnf. apply (subgroup_dests_field_dests _ subgroup_select_gen). exact Hs.
  Qed.

  (* parse_args *)
  Theorem parse_args_is_known pre parents plain forest argv :
    sp_parse_args_gen AP pre parents plain forest argv =
    match sp_known_gen AP pre parents plain forest argv with
    | Ok (n, []) => Ok (n, []) | Ok (_, _ :: _) => Err (Exit 2) | Err e => Err e end.
  Proof. reflexivity. Qed.
End AnyArgparse.

(* ====================================================================== *)
(* parents                                                                 *)
(* ====================================================================== *)
Definition sp_known_at (site : psite) :=
  sp_known wrapper_skips_gen setup_skips_gen post_skips_gen subgroups_removed_first_gen collision_err_gen
           collision_defaults_overwrite_gen site subgroup_select_gen suppress_empty_none_gen set_defaults_routes_gen.

(* the reference: argparse.ArgumentParser(parents=[..]) with the same declarations and stand-ins for the dataclass options,
   followed by the clean-up *)
Definition argparse_then_post (AP : list action -> list string -> res (nsp * list string)) (pre : option err)
           (parents plain : list action) (forest : list wrapper) (argv : list string) : res (nsp * list string) :=
  match pre with
  | Some e => Err e
  | None =>
      match ap_known_gen AP parents plain forest argv with
      | Err e => Err e
      | Ok (n, ex) => match post_gen forest (default_keys_gen (ap_actions parents plain (generated_gen forest))) n with
                      | Ok n' => Ok (n', ex) | Err e => Err e end
      end
  end.

(* "the parser IS that reference": for EVERY argparse behaviour, every parents / declarations / forest / argv *)
Definition parents_stmt (site : psite) : Prop :=
  forall AP pre parents plain forest argv,
    sp_known_at site AP pre parents plain forest argv = argparse_then_post AP pre parents plain forest argv.

Definition parents_verdict_of (site : psite) : Prop :=
  match site with PInit => parents_stmt site | PNever | PPreprocess => ~ parents_stmt site end.

Lemma parents_verdict : forall site, parents_verdict_of site.
Proof.
  intros [| |]; unfold parents_verdict_of, parents_stmt.
  - intros H. specialize (H AP_toy None [mkact "pp" KOpt] [] [] ["4"]). vm_compute in H. discriminate.
  - intros; reflexivity.
  - intros H. specialize (H AP_toy None [mkact "ppos" KPos] [mkact "cpos" KPos] [] ["1"; "2"]). vm_compute in H. discriminate.
Qed.

Lemma parents_not_installed : forall site, installed site = false -> ~ parents_stmt site.
Proof. intros [| |] H; try discriminate. exact (parents_verdict PNever). Qed.

Lemma parents_partial : forall site AP pre plain forest argv,
  sp_known_at site AP pre [] plain forest argv = argparse_then_post AP pre [] plain forest argv.
Proof. intros [| |]; reflexivity. Qed.

(* ====================================================================== *)
(* add_argument_group                                                      *)
(* ====================================================================== *)
Definition falsy_given (o : gover) : bool := match o with GGiven true _ => true | _ => false end.
(* prefix_chars / conflict_handler cannot meaningfully be falsy (argparse rejects "" for both) *)
Definition valid_over (o : gov) : bool := negb (falsy_given (o_prefix o)) && negb (falsy_given (o_handler o)).

Definition groups_stmt (fp fd fh : fwd) : Prop :=
  forall p o, valid_over o = true -> sp_group fp fd fh p o = ap_group p o.
Definition groups_verdict_of (fp fd fh : fwd) : Prop :=
  match fd with FwdIfNone => groups_stmt fp fd fh | FwdOr => ~ groups_stmt fp fd fh end.

Lemma forward_nonfalsy f o v : falsy_given o = false -> forward f o v = ap_forward o v.
Proof. destruct o as [|[|] x]; simpl; intros H; try reflexivity; discriminate. Qed.

Lemma groups_verdict : forall fp fd fh, groups_verdict_of fp fd fh.
Proof.
  intros fp fd fh. destruct fd; unfold groups_verdict_of, groups_stmt.
  - intros H. specialize (H (mkgset "-" "None" "error") (mkgov GOmitted (GGiven true "0") GOmitted) eq_refl).
    destruct fp, fh; vm_compute in H; discriminate.
  - intros p o Hv. unfold valid_over in Hv. apply andb_true_iff in Hv as [H1 H2]. apply negb_true_iff in H1, H2.
    unfold sp_group, ap_group. rewrite (forward_nonfalsy fp _ _ H1), (forward_nonfalsy fh _ _ H2).
    f_equal. destruct (o_default o) as [|[|] x]; reflexivity.
Qed.

Lemma groups_partial : forall fp fd fh p o,
  falsy_given (o_prefix o) = false -> falsy_given (o_default o) = false -> falsy_given (o_handler o) = false ->
  sp_group fp fd fh p o = ap_group p o.
Proof.
  intros fp fd fh p o H1 H2 H3. unfold sp_group, ap_group.
  rewrite (forward_nonfalsy fp _ _ H1), (forward_nonfalsy fd _ _ H2), (forward_nonfalsy fh _ _ H3). reflexivity.
Qed.

(* ====================================================================== *)
(* model ⊑ spec: on disjoint names, with the parents installed as argparse *)
(* does (or no parents), the observable behaviour is what C09 demands       *)
(* ====================================================================== *)
Lemma err_eqb_refl e : err_eqb e e = true.
Proof. destruct e; simpl; try reflexivity; [apply Nat.eqb_refl | apply String.eqb_refl]. Qed.
Lemma strs_same_refl l : strs_same l l = true.
Proof. induction l as [|x r IH]; simpl; [reflexivity|]. rewrite String.eqb_refl. exact IH. Qed.
Lemma opt_nval_eqb_refl o : opt_nval_eqb o o = true.
Proof. destruct o as [[x| |]|]; simpl; try reflexivity. apply String.eqb_refl. Qed.

Lemma overlap_false a b : overlap a b = false -> forall x, In x a -> ~ In x b.
Proof.
  unfold overlap. intros H x Hx Hb.
  assert (existsb (fun y => str_in y b) a = true) by (apply existsb_exists; exists x; split; [exact Hx | apply str_in_In; exact Hb]).
  congruence.
Qed.

Lemma pairs_in wskips forest w f : In (w, f) (pairs wskips forest) -> In w forest /\ In f (w_all w).
Proof.
  unfold pairs. rewrite in_flat_map. intros [w' [Hw H]]. apply in_map_iff in H as [f' [E Hf]].
  injection E as <- <-. split; [exact Hw|]. unfold w_fields in Hf. apply filter_In in Hf. tauto.
Qed.

(* _get_subgroup_fields selects exactly the subgroups(...) fields *)
Lemma subgroup_select_is : forall f, existsb (static_holds f) subgroup_select_gen = f_subgroup f.
Proof. intros f. unfold subgroup_select_gen. simpl. apply orb_false_r. Qed.

Lemma sg_key_has forest k : In k (sg_key_gen forest) -> has_subgroups forest = true /\ k = "subgroups".
Proof.
  unfold sg_key_gen, sg_key. destruct subgroups_removed_first_gen; [|intros []].
  destruct (subgroup_dests wrapper_skips_gen subgroup_select_gen forest) as [|d0 r] eqn:E; [intros []|]. intros [<-|[]]. split; [|reflexivity].
  assert (Hd : In d0 (subgroup_dests wrapper_skips_gen subgroup_select_gen forest)) by (rewrite E; left; reflexivity).
  unfold subgroup_dests in Hd. apply in_map_iff in Hd as [[w f] [_ Hf]]. apply filter_In in Hf as [Hp Hs]. cbn [snd] in Hs.
  rewrite subgroup_select_is in Hs. apply pairs_in in Hp as [Hw Hfa]. unfold has_subgroups. apply existsb_exists. exists w. split; [exact Hw|].
  apply existsb_exists. exists f. split; assumption.
Qed.

Lemma top_pair_of forest k : In k (top_dests forest) -> exists w, In (w, k) (top_pairs forest).
Proof.
  rewrite <- top_dests_pairs. intros H. apply in_map_iff in H as [[w d] [E H]]. simpl in E. subst d. exists w. exact H.
Qed.

Lemma sup_top_of forest w k : In (w, k) (top_pairs forest) -> w_suppress w = true -> In k (sup_top_dests forest).
Proof.
  unfold top_pairs, sup_top_dests. rewrite !in_flat_map. intros [w' [Hw H]] Hs. apply in_map_iff in H as [d [E Hd]].
  injection E as <- <-. exists w'. split; [apply filter_In; split; assumption | exact Hd].
Qed.

Lemma actions_agree parents plain gen :
  parents = [] \/ parents_site_gen = PInit -> sp_actions parents_site_gen parents plain gen = ap_actions parents plain gen.
Proof.
  intros [Hp | Hp]; [subst parents | rewrite Hp; reflexivity]. unfold ap_actions. destruct parents_site_gen; simpl; reflexivity.
Qed.

(* the loops' fields all have an action (no sub-command fields), and "subgroups are used" is read the same way *)
Definition no_unregistered (forest : list wrapper) : bool :=
  forallb (fun d => str_in d (reg_dests_gen forest)) (field_dests_gen forest).
Definition sg_consistent (forest : list wrapper) : bool :=
  Bool.eqb (has_subgroups forest) (match sg_key_gen forest with [] => false | _ => true end)
  && negb (str_in "subgroups" (field_dests_gen forest)).

Theorem meets_spec AP parents plain forest argv declared :
  parents = [] \/ parents_site_gen = PInit ->
  dotted_apart forest = true -> no_unregistered forest = true -> sg_consistent forest = true ->
  match ap_known_gen AP parents plain forest argv with
  | Ok (n, _) => post_clean_gen forest (default_keys_gen (ap_actions parents plain (generated_gen forest))) n = true
  | Err _ => True
  end ->
  spec_run declared (reg_dests_gen forest) (top_dests forest) (sup_top_dests forest) (has_subgroups forest)
           (ap_known_gen AP parents plain forest argv) (sp_known_gen AP None parents plain forest argv) = true.
Proof.
  intros Hpar Hdot Hreg Hsgc Hclean.
  apply andb_true_iff in Hsgc as [Hsg Hnsg]. apply negb_true_iff, str_in_false in Hnsg.
  unfold spec_run. destruct (overlap declared _); [reflexivity|].
  rewrite known_unfold, (actions_agree _ _ _ Hpar). unfold ap_known_gen, ap_known in *. fold generated_gen in *.
  destruct (AP (ap_actions parents plain (generated_gen forest)) argv) as [[n ex]|e]; [|apply err_eqb_refl].
  destruct (post_ok _ post_skips_gen _ collision_err_gen _ _ suppress_empty_none_gen _ _ _ Hclean) as [n' E]. unfold post_gen. rewrite E.
  set (extra := (top_dests forest ++ (if has_subgroups forest then ["subgroups"] else []))%list).
  destruct (overlap (plain_keys_of (reg_dests_gen forest) n) extra) eqn:Eov; [reflexivity|].
  assert (Hov := overlap_false _ _ Eov).
  assert (Hsgx : forall k, In k (sg_key_gen forest) -> In k extra).
  { intros k Hk. apply sg_key_has in Hk as [Hh ->]. unfold extra. rewrite Hh. apply in_or_app. right. left. reflexivity. }
  assert (Hpk : forall k, In k (plain_keys_of (reg_dests_gen forest) n) -> In k (keys n) /\ ~ In k (reg_dests_gen forest)).
  { intros k Hk. unfold plain_keys_of in Hk. apply filter_In in Hk as [H1 H2]. split; [exact H1|]. apply str_in_false, negb_true_iff. exact H2. }
  assert (Hnl : forall d, In d (reg_dests_gen forest) -> ~ In d (keys n')).
  { eapply post_no_leak; [exact skips_ok_gen | | exact E].
    intros d' Hd'. unfold dotted_apart in Hdot. rewrite forallb_forall in Hdot. apply str_in_false, negb_true_iff. exact (Hdot d' Hd'). }
  repeat (apply andb_true_iff; split).
  - apply strs_same_refl.
  - apply forallb_forall. intros k Hk. destruct (Hpk k Hk) as [Hkn Hkr].
    assert (Hr : restrict [k] n' = restrict [k] n).
    { eapply post_restrict; [|exact E]. intros k' [<-|[]] Ht. unfold touched in Ht.
      apply in_app_or in Ht as [Ht|Ht].
      - apply Hkr. unfold no_unregistered in Hreg. rewrite forallb_forall in Hreg. apply str_in_In. apply Hreg. exact Ht.
      - apply (Hov k Hk). apply in_app_or in Ht as [Ht|Ht]; [unfold extra; apply in_or_app; left; exact Ht | apply Hsgx; exact Ht]. }
    rewrite <- (lookup_restrict k [k] n (or_introl eq_refl)), <- Hr, (lookup_restrict k [k] n' (or_introl eq_refl)).
    apply opt_nval_eqb_refl.
  - apply forallb_forall. intros k Hk. apply str_in_In. apply in_or_app.
    destruct (post_incl _ _ _ _ _ _ _ _ _ _ _ E k Hk) as [H1|[H1|H1]].
    + left. unfold plain_keys_of. apply filter_In. split; [exact H1|]. apply negb_true_iff, str_in_false.
      intros Hr. exact (Hnl k Hr Hk).
    + right. apply Hsgx. exact H1.
    + right. unfold extra. apply in_or_app. left. exact H1.
  - apply forallb_forall. intros k Hk. apply filter_In in Hk as [Hke Hks]. apply negb_true_iff, str_in_false in Hks.
    apply mem_In. destruct (post_present _ _ _ _ _ _ _ _ _ _ _ E Hnsg) as [Psg Ptop].
    unfold extra in Hke. apply in_app_or in Hke as [Hke|Hke].
    + destruct (top_pair_of _ _ Hke) as [w Hw]. apply (Ptop w k Hw).
      destruct (w_suppress w) eqn:Es; [|reflexivity]. exfalso. apply Hks. exact (sup_top_of _ _ _ Hw Es).
    + destruct (has_subgroups forest) eqn:Eh; [|destruct Hke]. destruct Hke as [<-|[]].
      apply Psg. apply eqb_prop in Hsg. fold sg_key_gen in *.
      unfold sg_key_gen, sg_key in *. destruct subgroups_removed_first_gen; [|discriminate].
      destruct (subgroup_dests wrapper_skips_gen subgroup_select_gen forest); [discriminate | left; reflexivity].
  - apply forallb_forall. intros k Hk. apply filter_In in Hk as [Hkt Hks]. apply negb_true_iff, str_in_false in Hks.
    destruct (top_pair_of _ _ Hkt) as [w Hw].
    assert (Hsup : w_suppress w = false).
    { destruct (w_suppress w) eqn:Es; [|reflexivity]. exfalso. apply Hks. exact (sup_top_of _ _ _ Hw Es). }
    assert (Hndt : NoDup (top_dests forest)).
    { pose proof Hclean as Hc2. unfold post_clean_gen, post_clean in Hc2.
      repeat (apply andb_true_iff in Hc2 as [Hc2 ?]). apply str_nodupb_NoDup. assumption. }
    rewrite (post_value _ _ _ _ _ _ _ _ _ _ _ E Hndt w k Hw Hsup). reflexivity.
Qed.
