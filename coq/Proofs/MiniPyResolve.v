(* Proofs/MiniPyResolve.v — the regenerated ConflictResolver (Gen/FactsConflictsSrc.v) = Model/OptStr.v resolve_gen:
   get_conflict (through Proofs/ConflictsGroup.v), _fix_conflict_explicit, _conflict_exists, and the fuelled while loop of
   resolve_and_flatten composed with the bridges of Proofs/MiniPyConflicts.v. *)
From SPV Require Import Base.Str Model.OptStr Gen.FactsConflicts Proofs.OptStrProofs Proofs.ConflictsProofs Proofs.ConflictsGroup.
From SPV Require Import Model.MiniPy Gen.FactsOptStrSrc Gen.FactsConflictsSrc Proofs.MiniPyLemmas Proofs.MiniPyOptStr Proofs.MiniPyConflicts.

Ltac ops := cbn [op_attr op_getattr op_hasattr op_vars op_getitem op_dictget op_copy op_keys op_values op_items op_zip op_splitdest
                   op_isconst bind2 st_unpack st_setpath st_popattr st_pop].

(* ---------- get_conflict_fn = the model's get_conflict ---------- *)
Section Pure.
  Variable c : cfg.
  Let opts := option_strings c.
  Definition tbl_of (fs : list fw) (ids : list nat) : list (string * nat) :=
    flat_map (fun i => map (fun o => (o, i)) (opts (nth_fw fs i))) ids.

  Lemma fold_dict_append i os : forall g,
    fold_left (fun g o => dict_append o i g) os g = fold_left (fun g p => dict_append (fst p) (snd p) g) (map (fun o => (o, i)) os) g.
  Proof. induction os as [|o t IH]; intros g; [reflexivity|]. cbn [fold_left map fst snd]. apply IH. Qed.

  Lemma group_all_tbl fs ids : forall g,
    fold_left (add_field c fs) ids g = fold_left (fun g p => dict_append (fst p) (snd p) g) (tbl_of fs ids) g.
  Proof.
    induction ids as [|i t IH]; intros g; [reflexivity|]. cbn [fold_left tbl_of flat_map]. rewrite fold_left_app, <- fold_dict_append.
    apply IH.
  Qed.

  Lemma get_conflict_fn_tbl fs ids : get_conflict_fn c fs ids = first_conflict (tbl_of fs ids) (tbl_of fs ids).
  Proof. unfold get_conflict_fn, group_all. rewrite group_all_tbl. apply first_multi_group. Qed.

  Lemma tbl_of_seq : forall fs pre, tbl_of (pre ++ fs) (seq (List.length pre) (List.length fs)) = index_opts opts (List.length pre) fs.
  Proof.
    induction fs as [|f t IH]; intros pre; [reflexivity|]. cbn [List.length seq tbl_of flat_map index_opts].
    unfold nth_fw at 1. rewrite app_nth2 by lia. rewrite Nat.sub_diag. cbn [nth]. f_equal.
    specialize (IH (pre ++ [f])%list). rewrite <- app_assoc, app_length in IH. cbn [List.length app] in IH.
    rewrite Nat.add_1_r in IH. exact IH.
  Qed.

  (* on all the positions in order: the model's get_conflict *)
  Theorem get_conflict_fn_all fs : get_conflict_fn c fs (seq 0 (List.length fs)) = get_conflict opts fs.
  Proof. rewrite get_conflict_fn_tbl. unfold get_conflict. pose proof (tbl_of_seq fs []) as H. cbn [app List.length] in H. rewrite H. reflexivity. Qed.

  (* on a list of references: the same option string as the model's get_conflict on the referenced wrappers *)
  Lemma tbl_of_keys fs ids : map fst (tbl_of fs ids) = map fst (index_opts opts 0 (map (nth_fw fs) ids)).
  Proof.
    rewrite map_fst_index_opts. unfold tbl_of. induction ids as [|i t IH]; [reflexivity|].
    cbn [flat_map map List.concat]. rewrite map_app, map_map, IH. cbn [fst]. rewrite map_id. reflexivity.
  Qed.
  Theorem get_conflict_fn_refs fs ids :
    option_map fst (get_conflict_fn c fs ids) = option_map fst (get_conflict opts (map (nth_fw fs) ids)).
  Proof. rewrite get_conflict_fn_tbl. unfold get_conflict. apply first_conflict_keys, tbl_of_keys. Qed.
End Pure.

(* ---------- _fix_conflict_explicit ---------- *)
Lemma any_prefix c fs r : lookup "FIELDS" r = Some (store c fs) -> forall ids, Forall (fun i => i < List.length fs) ids ->
  any_list (fun v => eval (assign "w" v r) (EAttr (EGetItem (EVar "FIELDS") (EVar "w")) "prefix")) (map VN ids)
  = Ok (VB (existsb (fun i => negb (String.eqb (pfx (nth_fw fs i)) "")) ids)).
Proof.
  intros HF.
  assert (EV : forall i, i < List.length fs ->
            eval (assign "w" (VN i) r) (EAttr (EGetItem (EVar "FIELDS") (EVar "w")) "prefix") = Ok (VS (pfx (nth_fw fs i)))).
  { intros i Hi. rewrite eval_attr. cbn [eval]. lk. rewrite HF. unfold store. ops. rewrite (store_get c fs i Hi). reflexivity. }
  induction ids as [|i t IH]; intros Hall; [reflexivity|]. inversion Hall as [|? ? Hi Ht]; subst.
  cbn [map any_list existsb]. rewrite (EV i Hi). cbn [truthy].
  destruct (negb (String.eqb (pfx (nth_fw fs i)) "")); [reflexivity | exact (IH Ht)].
Qed.

Definition explicit_body : list stmt :=
  [SAssign "explicit_prefix" (EAdd (EAttr (EAttr (EGetItem (EVar "FIELDS") (EVar "field_wrapper")) "parent") "dest") (EStr "."));
   SSetPath "FIELDS" [(false, EVar "field_wrapper"); (true, EStr "prefix")] (EVar "explicit_prefix")].

Definition explicit_all (fs : list fw) (ids : list nat) : list fw :=
  fold_left (fun acc i => update acc i (set_pfx (nth_fw acc i) (explicit_pfx (nth_fw acc i)))) ids fs.

Lemma explicit_all_length ids : forall fs, List.length (explicit_all fs ids) = List.length fs.
Proof. unfold explicit_all. induction ids as [|i t IH]; intros fs; [reflexivity|]. cbn [fold_left]. rewrite IH, update_length. reflexivity. Qed.

Lemma explicit_loop c : forall ids fs r,
  lookup "FIELDS" r = Some (store c fs) -> Forall (fun i => i < List.length fs) ids ->
  exists r', iter_list (fun v r => exec_block (assign "field_wrapper" v r) explicit_body) (map VN ids) r = Ok (r', None)
             /\ lookup "FIELDS" r' = Some (store c (explicit_all fs ids))
             /\ (forall y, String.eqb "FIELDS" y = false -> String.eqb "field_wrapper" y = false -> String.eqb "explicit_prefix" y = false -> lookup y r' = lookup y r).
Proof.
  induction ids as [|i t IH]; intros fs r HF Hall; cbn [map iter_list].
  - exists r. auto.
  - inversion Hall as [|? ? Hi Ht]; subst. unfold explicit_body at 1.
    rewrite exec_block_cons, exec_assign.
    assert (EX : eval (assign "field_wrapper" (VN i) r) (EAdd (EAttr (EAttr (EGetItem (EVar "FIELDS") (EVar "field_wrapper")) "parent") "dest") (EStr "."))
                 = Ok (VS (explicit_pfx (nth_fw fs i)))).
    { change (eval ?r0 (EAdd ?a ?b)) with (match eval r0 a, eval r0 b with
        | Ok (VN x), Ok (VN y) => Ok (VN (x + y)) | Ok (VS x), Ok (VS y) => Ok (VS (x ++ y)) | Ok (VL x), Ok (VL y) => Ok (VL (x ++ y))
        | Ok (VT x), Ok (VT y) => Ok (VT (x ++ y)) | Ok _, Ok _ => rerr | Err z, _ => Err z | _, Err z => Err z end).
      rewrite !eval_attr. cbn [eval]. lk. rewrite HF. unfold store. ops. rewrite (store_get c fs i Hi). reflexivity. }
    rewrite EX. rewrite exec_block_cons, exec_setpath. cbn [eval eval_path]. lk. ops. lk. rewrite HF.
    rewrite (set_prefix_store c fs i _ Hi). rewrite exec_block_nil.
    match goal with |- context [iter_list _ _ ?r1] =>
      destruct (IH (update fs i (set_pfx (nth_fw fs i) (explicit_pfx (nth_fw fs i)))) r1) as [r' [E [F K]]];
        [lk; reflexivity | rewrite update_length; exact Ht|] end.
    exists r'. split; [exact E|]. split; [exact F|]. intros y Y1 Y2 Y3. rewrite (K y Y1 Y2 Y3). lk. rewrite Y1, Y2, Y3. reflexivity.
Qed.

Lemma refs_ok_forall n ids : refs_ok n ids = true -> Forall (fun i => i < n) ids.
Proof.
  unfold refs_ok. intros H. apply andb_true_iff in H as [A _]. apply Forall_forall. intros i Hi. rewrite forallb_forall in A. apply Nat.ltb_lt, A, Hi.
Qed.

Theorem fix_explicit_is_model c fs selfv o ids :
  refs_ok (List.length fs) ids = true ->
  final_store (exec_block (fa_env c fs selfv o ids) fix_conflict_explicit_src)
  = match fix_explicit (option_strings c) fs o ids with
    | Ok fs' => Ok (store c fs')
    | Err e => Err (enc_err e)
    end.
Proof.
  intros Hok. pose proof (refs_ok_forall _ _ Hok) as Hall. unfold final_store, fix_explicit.
  assert (HF : lookup "FIELDS" (fa_env c fs selfv o ids) = Some (store c fs)) by reflexivity.
  assert (HS : lookup "self" (fa_env c fs selfv o ids) = Some selfv) by reflexivity.
  assert (HC : lookup "conflict" (fa_env c fs selfv o ids) = Some (enc_conflict (Some (o, ids)))) by reflexivity.
  set (r0 := fa_env c fs selfv o ids) in *. clearbody r0.
  unfold fix_conflict_explicit_src.
  (* any(w.prefix for w in conflict.wrappers) *)
  rewrite exec_block_cons, exec_if.
  change (eval r0 (EAny ?b ?x ?it)) with (match eval r0 it with
     | Ok itv => match seq_items itv with Some l => any_list (fun v => eval (assign x v r0) b) l | None => rerr end | Err z => Err z end).
  rewrite eval_attr, eval_var, HC. unfold attr_of. cbn [enc_conflict rget String.eqb Ascii.eqb Bool.eqb seq_items].
  rewrite (any_prefix c fs r0 HF ids Hall). cbn [truthy].
  destruct (existsb (fun i => negb (String.eqb (pfx (nth_fw fs i)) "")) ids).
  { rewrite exec_block_cons, exec_raise. reflexivity. }
  rewrite exec_block_nil.
  (* the loop that sets the explicit prefixes *)
  rewrite exec_block_cons, exec_for, eval_attr, eval_var, HC. unfold attr_of. cbn [enc_conflict rget String.eqb Ascii.eqb Bool.eqb].
  match goal with |- context [iter_list ?f _ _] => change f with (fun v r => exec_block (assign "field_wrapper" v r) explicit_body) end.
  destruct (explicit_loop c ids fs r0 HF Hall) as [r1 [E [F K]]]. rewrite E.
  fold (explicit_all fs ids). set (fs' := explicit_all fs ids) in *.
  (* another_conflict = self.get_conflict(conflict.wrappers) *)
  rewrite exec_block_cons, exec_callret. cbn [bind_ins]. rewrite !eval_var, F, (K "self"), HS by reflexivity.
  rewrite eval_attr, eval_var, (K "conflict"), HC by reflexivity. unfold attr_of. cbn [enc_conflict rget String.eqb Ascii.eqb Bool.eqb].
  cbn [assign String.eqb Ascii.eqb Bool.eqb].
  change [("FIELDS", store c fs'); ("self", selfv); ("wrappers", VL (map VN ids))] with (gc_env c fs' selfv (VL (map VN ids))).
  assert (Hok' : refs_ok (List.length fs') ids = true) by (unfold fs'; rewrite explicit_all_length; exact Hok).
  match goal with |- context [exec_block (gc_env c fs' selfv (VL (map VN ids))) ?b] => change b with get_conflict_src end.
  destruct (get_conflict_refs c fs' selfv ids Hok') as [rg Eg]. rewrite Eg. cbn [copy_back ret_to].
  (* the final test *)
  pose proof (get_conflict_fn_refs c fs' ids) as R.
  rewrite exec_block_cons, exec_if.
  change (eval ?r (EAnd ?a ?b)) with (match eval r a with Ok v => if truthy v then eval r b else Ok v | Err z => Err z end).
  rewrite eval_var. lk.
  destruct (get_conflict_fn c fs' ids) as [[o' l']|]; destruct (get_conflict (option_strings c) (map (nth_fw fs') ids)) as [[o'' l'']|];
    cbn [option_map fst] in R; try discriminate.
  - injection R as <-. cbn [enc_conflict truthy]. cbn [eval]. lk. ops. cbn [enc_conflict rget String.eqb Ascii.eqb Bool.eqb].
    rewrite (K "conflict"), HC by reflexivity. ops. cbn [enc_conflict rget String.eqb Ascii.eqb Bool.eqb val_eqb truthy].
    destruct (String.eqb o' o).
    + rewrite exec_block_cons, exec_raise. reflexivity.
    + rewrite !exec_block_nil. lk. rewrite F. reflexivity.
  - cbn [enc_conflict truthy]. rewrite !exec_block_nil. lk. rewrite F. reflexivity.
Qed.

Lemma NoDup_app_l {A} (a b : list A) : NoDup (a ++ b) -> NoDup a.
Proof.
  induction a as [|x t IH]; intros H; [constructor|]. cbn [app] in H. inversion H as [|? ? Hx Ht]; subst.
  constructor; [|exact (IH Ht)]. intros Hin. apply Hx. apply in_or_app. left. exact Hin.
Qed.

(* ---------- _conflict_exists: False when the option strings are pairwise distinct ---------- *)
Definition ce_opt_body : list stmt :=
  [SIf (EIn (EVar "option") (EVar "arg_names")) [SReturn (EBool true)] []; SAppend "arg_names" (EVar "option")].

Lemma ce_opts_loop : forall os acc r,
  lookup "arg_names" r = Some (VL (map VS acc)) -> NoDup (acc ++ os) ->
  exists r', iter_list (fun v r => exec_block (assign "option" v r) ce_opt_body) (map VS os) r = Ok (r', None)
             /\ lookup "arg_names" r' = Some (VL (map VS (acc ++ os)))
             /\ (forall y, String.eqb "arg_names" y = false -> String.eqb "option" y = false -> lookup y r' = lookup y r).
Proof.
  induction os as [|o t IH]; intros acc r Ha N; cbn [map iter_list].
  - exists r. rewrite app_nil_r. auto.
  - unfold ce_opt_body at 1. rewrite exec_block_cons, exec_if. cbn [eval]. lk. rewrite Ha. rewrite existsb_VS.
    assert (Hn : str_in o acc = false).
    { apply str_in_false. intros Hin. apply NoDup_remove_2 in N. apply N. apply in_or_app. left. exact Hin. }
    rewrite Hn. cbn [truthy]. rewrite exec_block_nil.
    rewrite exec_block_cons, exec_append'. cbn [eval]. lk. rewrite Ha. rewrite exec_block_nil.
    destruct (IH (acc ++ [o])%list (assign "arg_names" (VL (map VS acc ++ [VS o])) (assign "option" (VS o) r))) as [r' [E [A K]]].
    + lk. rewrite map_app. reflexivity.
    + rewrite <- app_assoc. exact N.
    + exists r'. split; [exact E|]. split; [rewrite A, <- app_assoc; reflexivity|].
      intros y Y1 Y2. rewrite (K y Y1 Y2). lk. rewrite Y1, Y2. reflexivity.
Qed.

Definition ce_field_body : list stmt :=
  [SCallRet "option_strings of field" option_strings_src (opts_ins "field") [];
   SFor "option" (EVar "option_strings of field") ce_opt_body].

Definition all_opts (c : cfg) (fs : list fw) (ids : list nat) : list string := List.concat (map (fun i => option_strings c (nth_fw fs i)) ids).

Lemma ce_fields_loop c fs : forall ids acc r,
  lookup "FIELDS" r = Some (store c fs) -> lookup "arg_names" r = Some (VL (map VS acc)) ->
  Forall (fun i => i < List.length fs) ids -> NoDup (acc ++ all_opts c fs ids) ->
  exists r', iter_list (fun v r => exec_block (assign "field" v r) ce_field_body) (map VN ids) r = Ok (r', None)
             /\ lookup "arg_names" r' = Some (VL (map VS (acc ++ all_opts c fs ids))) /\ lookup "FIELDS" r' = Some (store c fs).
Proof.
  induction ids as [|i t IH]; intros acc r HF Ha Hall N; cbn [map iter_list].
  - exists r. unfold all_opts. cbn [map List.concat]. rewrite app_nil_r. auto.
  - inversion Hall as [|? ? Hi Ht]; subst. unfold ce_field_body at 1. rewrite exec_block_cons.
    rewrite (opts_call c fs "field" i _ (assign "field" (VN i) r)); [|lk; exact HF|lk; reflexivity|exact Hi].
    rewrite exec_block_cons, exec_for, eval_var. lk.
    unfold all_opts in N. cbn [map List.concat] in N. rewrite app_assoc in N.
    match goal with |- context [iter_list _ _ ?r1] =>
      destruct (ce_opts_loop (option_strings c (nth_fw fs i)) acc r1) as [r' [E [A K]]];
        [lk; exact Ha | apply NoDup_app_l in N; exact N |] end.
    rewrite E, exec_block_nil.
    destruct (IH (acc ++ option_strings c (nth_fw fs i))%list r') as [r2 [E2 [A2 F2]]]; [|exact A|exact Ht|exact N|].
    + rewrite K by reflexivity. lk. exact HF.
    + exists r2. split; [exact E2|]. split; [|exact F2]. rewrite A2. unfold all_opts. cbn [map List.concat]. rewrite app_assoc. reflexivity.
Qed.

Lemma all_opts_app c fs a b : all_opts c fs (a ++ b) = (all_opts c fs a ++ all_opts c fs b)%list.
Proof. unfold all_opts. rewrite map_app, concat_app. reflexivity. Qed.

Lemma ce_wrappers_loop c fs : forall gs acc r,
  lookup "FIELDS" r = Some (store c fs) -> lookup "arg_names" r = Some (VL (map VS acc)) ->
  Forall (fun i => i < List.length fs) (List.concat gs) -> NoDup (acc ++ all_opts c fs (List.concat gs)) ->
  exists r', iter_list (fun v r => exec_block (assign "wrapper" v r) [SFor "field" (EAttr (EVar "wrapper") "fields") ce_field_body])
                       (map enc_group gs) r = Ok (r', None).
Proof.
  induction gs as [|g t IH]; intros acc r HF Ha Hall N; cbn [map iter_list].
  - exists r. reflexivity.
  - cbn [List.concat] in Hall, N. apply Forall_app in Hall as [Hg Ht]. rewrite all_opts_app, app_assoc in N.
    rewrite exec_block_cons, exec_for. cbn [eval]. lk. rewrite group_fields.
    match goal with |- context [iter_list _ _ ?r1] =>
      destruct (ce_fields_loop c fs g acc r1) as [r' [E [A F]]]; [lk; exact HF | lk; exact Ha | exact Hg | apply NoDup_app_l in N; exact N|] end.
    rewrite E, exec_block_nil. exact (IH _ r' F A Ht N).
Qed.

Definition ce_env (c : cfg) (fs : list fw) (selfv : val) (gs : list (list nat)) : env :=
  [("FIELDS", store c fs); ("self", selfv); ("all_wrappers", VL (map enc_group gs))].

Theorem conflict_exists_false c fs selfv gs :
  Forall (fun i => i < List.length fs) (List.concat gs) -> NoDup (all_opts c fs (List.concat gs)) ->
  exists r1, exec_block (ce_env c fs selfv gs) conflict_exists_src = Ok (r1, Some (VB false)).
Proof.
  intros Hall N. unfold conflict_exists_src.
  rewrite exec_block_cons, exec_assign. cbn [eval].
  rewrite exec_block_cons, exec_for, eval_var. lk. cbn [ce_env lookup String.eqb Ascii.eqb Bool.eqb].
  match goal with |- context [iter_list ?f _ ?r1] =>
    change f with (fun v r => exec_block (assign "wrapper" v r) [SFor "field" (EAttr (EVar "wrapper") "fields") ce_field_body]);
    destruct (ce_wrappers_loop c fs gs [] r1) as [r' E]; [lk; reflexivity | lk; reflexivity | exact Hall | exact N|] end.
  rewrite E. rewrite exec_block_cons, exec_return. cbn [eval]. eexists. reflexivity.
Qed.

(* ---------- the loop of resolve_and_flatten ---------- *)
Definition mode_name (m : crmode) : string :=
  match m with CRNone => "ConflictResolution.NONE" | CRExplicit => "ConflictResolution.EXPLICIT" | CRAuto => "ConflictResolution.AUTO" end.
Definition resolver (m : crmode) : val :=
  VR "ConflictResolver" [("conflict_resolution", VS (mode_name m)); ("max_attempts", VN max_attempts_gen)].
(* the dataclass wrappers of the flat list: their `fields` are the positions 0 .. n-1 in order *)
Fixpoint nats_eqb (a b : list nat) : bool :=
  match a, b with [], [] => true | x :: t, y :: u => Nat.eqb x y && nats_eqb t u | _, _ => false end.
Definition flat_ok (n : nat) (gs : list (list nat)) : bool := nats_eqb (List.concat gs) (seq 0 n).

Lemma list_eqb_nat a : forall b, nats_eqb a b = true -> a = b.
Proof.
  induction a as [|x t IH]; intros [|y u] H; try discriminate; [reflexivity|]. cbn [nats_eqb] in H.
  apply andb_true_iff in H as [E H]. apply Nat.eqb_eq in E. subst. f_equal. exact (IH u H).
Qed.

Lemma seq_refs_ok n : refs_ok n (seq 0 n) = true.
Proof.
  unfold refs_ok. apply andb_true_iff. split.
  - apply forallb_forall. intros i Hi. apply in_seq in Hi. apply Nat.ltb_lt. lia.
  - apply nat_nodupb_NoDup, seq_NoDup.
Qed.

Lemma all_opts_seq c : forall fs pre, all_opts c (pre ++ fs) (seq (List.length pre) (List.length fs)) = List.concat (map (option_strings c) fs).
Proof.
  induction fs as [|f t IH]; intros pre; [reflexivity|]. unfold all_opts in *. cbn [List.length seq map List.concat].
  unfold nth_fw at 1. rewrite app_nth2 by lia. rewrite Nat.sub_diag. cbn [nth]. f_equal.
  specialize (IH (pre ++ [f])%list). rewrite <- app_assoc, app_length in IH. cbn [List.length app] in IH. rewrite Nat.add_1_r in IH. exact IH.
Qed.

Section Loop.
  Variable c : cfg.
  Variable m : crmode.
  Variable gs : list (list nat).
  Let opts := option_strings c.

  Definition res_inv (fs : list fw) (r : env) : Prop :=
    lookup "FIELDS" r = Some (store c fs) /\ lookup "self" r = Some (resolver m) /\ lookup "wrappers_flat" r = Some (VL (map enc_group gs)).

  (* conflict = self.get_conflict(wrappers_flat) *)
  Lemma gc_step fs r :
    res_inv fs r -> List.concat gs = seq 0 (List.length fs) ->
    exec r (gc_call "conflict" (EVar "wrappers_flat")) = Ok (assign "conflict" (enc_conflict (get_conflict opts fs)) r, None).
  Proof.
    intros [HF [HS HW]] Hgs. unfold gc_call. rewrite exec_callret. cbn [bind_ins]. rewrite !eval_var, HF, HS, HW.
    cbn [assign String.eqb Ascii.eqb Bool.eqb].
    change [("FIELDS", store c fs); ("self", resolver m); ("wrappers", VL (map enc_group gs))] with (gc_env c fs (resolver m) (VL (map enc_group gs))).
    destruct (get_conflict_groups c fs (resolver m) gs) as [r1 E]; [rewrite Hgs; apply seq_refs_ok|].
    rewrite E. cbn [copy_back ret_to]. rewrite Hgs, get_conflict_fn_all. reflexivity.
  Qed.

  (* self._fix_conflict_xxx(conflict): the store afterwards *)
  Lemma fix_step body fs o ids r (model : res (list fw)) :
    res_inv fs r -> lookup "conflict" r = Some (enc_conflict (Some (o, ids))) ->
    final_store (exec_block (fa_env c fs (resolver m) o ids) body) = match model with Ok fs' => Ok (store c fs') | Err e => Err (enc_err e) end ->
    exec r (fix_call body) = match model with Ok fs' => Ok (assign "FIELDS" (store c fs') r, None) | Err e => Err (enc_err e) end.
  Proof.
    intros [HF [HS HW]] HC H. unfold fix_call. rewrite exec_call. cbn [bind_ins]. rewrite !eval_var, HF, HS, HC.
    cbn [assign String.eqb Ascii.eqb Bool.eqb].
    change [("FIELDS", store c fs); ("self", resolver m); ("conflict", enc_conflict (Some (o, ids)))] with (fa_env c fs (resolver m) o ids).
    unfold final_store in H. destruct (exec_block (fa_env c fs (resolver m) o ids) body) as [[r1 o1]|z].
    - cbn [copy_back]. destruct (lookup "FIELDS" r1) as [v|]; destruct model as [fs'|e]; try discriminate.
      + injection H as ->. reflexivity.
      + injection H as <-. reflexivity.
    - destruct model as [fs'|e]; [discriminate|]. injection H as ->. reflexivity.
  Qed.

  Definition loop_body : list stmt :=
    [SIf (mode_is "ConflictResolution.NONE") [SRaise "ConflictResolutionError"]
       [SIf (mode_is "ConflictResolution.EXPLICIT") [fix_call fix_conflict_explicit_src]
          [SIf (mode_is "ConflictResolution.ALWAYS_MERGE") [SRaise "MergeNotModelled"]
             [SIf (mode_is "ConflictResolution.AUTO") [fix_call fix_conflict_auto_src] []]]];
     gc_call "conflict" (EVar "wrappers_flat");
     SAssign "cur_attempts" (EAdd (EVar "cur_attempts") (ENat 1));
     SIf (EEq (EVar "cur_attempts") (EAttr (EVar "self") "max_attempts")) [SRaise "ConflictResolutionError"] []].

  (* one round of the model: the fix of the current mode *)
  Definition fix_of (fs : list fw) (o : string) (ids : list nat) : res (list fw) :=
    match m with
    | CRNone => Err CRE
    | CRExplicit => fix_explicit opts fs o ids
    | CRAuto => fix_auto auto_index_gen exhausted_err_gen skip_first_strict_gen fs ids
    end.

  Lemma conflict_refs fs o ids : get_conflict opts fs = Some (o, ids) -> refs_ok (List.length fs) ids = true /\ 2 <= List.length ids.
  Proof.
    intros G. destruct (conflict_members opts (option_strings_NoDup c) fs o ids G) as [N [L R]]. split; [|lia].
    unfold refs_ok. apply andb_true_iff. split; [|apply nat_nodupb_NoDup; exact N].
    apply forallb_forall. intros i Hi. apply Nat.ltb_lt. exact (proj1 (R i Hi)).
  Qed.

  Lemma fix_of_length fs o ids fs' : fix_of fs o ids = Ok fs' -> List.length fs' = List.length fs.
  Proof.
    unfold fix_of. destruct m; intros H; [discriminate| |].
    - apply fix_explicit_shape in H. apply (f_equal (@List.length _)) in H. rewrite !map_length in H. exact H.
    - apply fix_auto_shape in H. apply (f_equal (@List.length _)) in H. rewrite !map_length in H. exact H.
  Qed.

  Lemma mode_test r s : lookup "self" r = Some (resolver m) -> eval r (mode_is s) = Ok (VB (String.eqb (mode_name m) s)).
  Proof. intros H. unfold mode_is. cbn [eval]. rewrite H. reflexivity. Qed.

  Lemma body_step fs o ids a r :
    res_inv fs r -> get_conflict opts fs = Some (o, ids) -> lookup "conflict" r = Some (enc_conflict (Some (o, ids))) ->
    lookup "cur_attempts" r = Some (VN a) -> List.concat gs = seq 0 (List.length fs) ->
    match fix_of fs o ids with
    | Err e => exec_block r loop_body = Err (enc_err e)
    | Ok fs' =>
        if Nat.eqb (a + 1) max_attempts_gen then exec_block r loop_body = Err cre
        else exists r', exec_block r loop_body = Ok (r', None) /\ res_inv fs' r'
                        /\ lookup "conflict" r' = Some (enc_conflict (get_conflict opts fs')) /\ lookup "cur_attempts" r' = Some (VN (a + 1))
    end.
  Proof.
    intros Hi G HC Ha Hgs. destruct (conflict_refs fs o ids G) as [Hok Hlen].
    pose proof Hi as [HF [HS HW]].
    (* the part after the fix, from the updated store *)
    assert (TAIL : forall fs', List.length fs' = List.length fs ->
              let r1 := assign "FIELDS" (store c fs') r in
              if Nat.eqb (a + 1) max_attempts_gen
              then exec_block r1 (skipn 1 loop_body) = Err cre
              else exists r', exec_block r1 (skipn 1 loop_body) = Ok (r', None) /\ res_inv fs' r'
                              /\ lookup "conflict" r' = Some (enc_conflict (get_conflict opts fs')) /\ lookup "cur_attempts" r' = Some (VN (a + 1))).
    { intros fs' Hl r1. unfold loop_body. cbn [skipn].
      assert (I1 : res_inv fs' r1) by (unfold r1; repeat split; lk; try assumption; reflexivity).
      rewrite exec_block_cons, (gc_step fs' r1 I1) by (rewrite Hl; exact Hgs).
      rewrite exec_block_cons, exec_assign. cbn [eval]. unfold r1. lk. rewrite Ha.
      rewrite exec_block_cons, exec_if. cbn [eval]. lk. rewrite HS. cbn [op_attr resolver rget String.eqb Ascii.eqb Bool.eqb val_eqb truthy].
      destruct (Nat.eqb (a + 1) max_attempts_gen).
      - rewrite exec_block_cons, exec_raise. reflexivity.
      - rewrite !exec_block_nil. eexists. split; [reflexivity|]. repeat split; lk; try assumption; reflexivity. }
    assert (D : m = CRNone \/ m = CRExplicit \/ m = CRAuto) by (destruct m; auto).
    unfold fix_of. unfold loop_body at 1 2 3. destruct D as [Em|[Em|Em]].
    - (* NONE *)
      rewrite Em. rewrite exec_block_cons, exec_if, (mode_test r _ HS), Em. cbn [mode_name String.eqb Ascii.eqb Bool.eqb truthy].
      rewrite exec_block_cons, exec_raise. reflexivity.
    - (* EXPLICIT *)
      rewrite Em. rewrite exec_block_cons, exec_if, (mode_test r _ HS), Em. cbn [mode_name String.eqb Ascii.eqb Bool.eqb truthy].
      rewrite exec_block_cons, exec_if, (mode_test r _ HS), Em. cbn [mode_name String.eqb Ascii.eqb Bool.eqb truthy].
      rewrite exec_block_cons.
      rewrite (fix_step fix_conflict_explicit_src fs o ids r (fix_explicit opts fs o ids) Hi HC (fix_explicit_is_model c fs (resolver m) o ids Hok)).
      destruct (fix_explicit opts fs o ids) as [fs'|e] eqn:Fx; [|reflexivity].
      rewrite !exec_block_nil.
      assert (Hl : List.length fs' = List.length fs).
      { apply fix_explicit_shape in Fx. apply (f_equal (@List.length _)) in Fx. rewrite !map_length in Fx. exact Fx. }
      exact (TAIL fs' Hl).
    - (* AUTO *)
      rewrite Em. rewrite exec_block_cons, exec_if, (mode_test r _ HS), Em. cbn [mode_name String.eqb Ascii.eqb Bool.eqb truthy].
      rewrite exec_block_cons, exec_if, (mode_test r _ HS), Em. cbn [mode_name String.eqb Ascii.eqb Bool.eqb truthy].
      rewrite exec_block_cons, exec_if, (mode_test r _ HS), Em. cbn [mode_name String.eqb Ascii.eqb Bool.eqb truthy].
      rewrite exec_block_cons, exec_if, (mode_test r _ HS), Em. cbn [mode_name String.eqb Ascii.eqb Bool.eqb truthy].
      rewrite exec_block_cons.
      rewrite (fix_step fix_conflict_auto_src fs o ids r (fix_auto auto_index_gen exhausted_err_gen skip_first_strict_gen fs ids) Hi HC
                 (fix_auto_is_model c fs (resolver m) o ids Hok Hlen)).
      destruct (fix_auto auto_index_gen exhausted_err_gen skip_first_strict_gen fs ids) as [fs'|e] eqn:Fx; [|reflexivity].
      rewrite !exec_block_nil.
      assert (Hl : List.length fs' = List.length fs).
      { apply fix_auto_shape in Fx. apply (f_equal (@List.length _)) in Fx. rewrite !map_length in Fx. exact Fx. }
      exact (TAIL fs' Hl).
  Qed.

  Lemma loop_unfold k fs :
    loop_gen opts m (S k) fs =
    match get_conflict opts fs with
    | None => Ok fs
    | Some (o, ids) => match fix_of fs o ids with
                       | Err e => Err e
                       | Ok fs' => match k with 0 => Err CRE | S _ => loop_gen opts m k fs' end
                       end
    end.
  Proof.
    unfold loop_gen, fix_of. cbn [loop]. destruct (get_conflict opts fs) as [[o ids]|]; [|reflexivity]. destruct m; reflexivity.
  Qed.

  (* the while loop, by induction on the remaining rounds: cur_attempts + remaining rounds = max_attempts *)
  Lemma while_spec : forall k fs r a,
    res_inv fs r -> lookup "conflict" r = Some (enc_conflict (get_conflict opts fs)) -> lookup "cur_attempts" r = Some (VN a) ->
    a + S k = max_attempts_gen -> List.concat gs = seq 0 (List.length fs) ->
    match loop_gen opts m (S k) fs with
    | Ok fs' => exists r', while_loop (S k) (fun r => eval r (EVar "conflict")) (fun r => exec_block r loop_body) r = Ok (r', None)
                           /\ res_inv fs' r' /\ get_conflict opts fs' = None /\ List.length fs' = List.length fs
    | Err e => while_loop (S k) (fun r => eval r (EVar "conflict")) (fun r => exec_block r loop_body) r = Err (enc_err e)
    end.
  Proof.
    induction k as [|k IH]; intros fs r a Hi HC Ha Hsum Hgs; rewrite loop_unfold; cbn [while_loop]; rewrite eval_var, HC.
    - destruct (get_conflict opts fs) as [[o ids]|] eqn:G; cbn [enc_conflict truthy].
      + pose proof (body_step fs o ids a r Hi G HC Ha Hgs) as B.
        destruct (fix_of fs o ids) as [fs'|e]; [|rewrite B; reflexivity].
        assert (E : Nat.eqb (a + 1) max_attempts_gen = true) by (apply Nat.eqb_eq; lia). rewrite E in B. rewrite B. reflexivity.
      + exists r. auto.
    - destruct (get_conflict opts fs) as [[o ids]|] eqn:G; cbn [enc_conflict truthy].
      + pose proof (body_step fs o ids a r Hi G HC Ha Hgs) as B.
        destruct (fix_of fs o ids) as [fs'|e] eqn:Fx; [|rewrite B; reflexivity].
        assert (E : Nat.eqb (a + 1) max_attempts_gen = false) by (apply Nat.eqb_neq; lia). rewrite E in B.
        destruct B as [r' [Eb [I' [C' A']]]]. rewrite Eb.
        pose proof (fix_of_length fs o ids fs' Fx) as Hl.
        specialize (IH fs' r' (a + 1) I' C' A').
        destruct (loop_gen opts m (S k) fs') as [fs''|e].
        * destruct IH as [r'' [E2 [I2 [G2 L2]]]]; [lia | rewrite Hl; exact Hgs|]. exists r''. repeat split; try assumption; try (apply I2). lia.
        * apply IH; [lia | rewrite Hl; exact Hgs].
      + exists r. auto.
  Qed.
End Loop.

(* ---------- resolve_and_flatten (from its first get_conflict on) = resolve_gen ---------- *)
Definition resolve_env (c : cfg) (m : crmode) (fs : list fw) (gs : list (list nat)) : env :=
  [("FIELDS", store c fs); ("self", resolver m); ("wrappers_flat", VL (map enc_group gs))].

Theorem resolve_src_is_model c m fs gs :
  flat_ok (List.length fs) gs = true ->
  match resolve_gen (option_strings c) m fs with
  | Ok fs' => exists r1, exec_block (resolve_env c m fs gs) resolve_src = Ok (r1, Some (VL (map enc_group gs)))
                         /\ lookup "FIELDS" r1 = Some (store c fs')
  | Err e => exec_block (resolve_env c m fs gs) resolve_src = Err (enc_err e)
  end.
Proof.
  intros Hflat. apply list_eqb_nat in Hflat.
  destruct resolve_skeleton as [SK FUEL]. rewrite SK. unfold resolve_gen.
  assert (I0 : res_inv c m gs fs (resolve_env c m fs gs)) by (repeat split; reflexivity).
  set (r0 := resolve_env c m fs gs) in *. clearbody r0.
  rewrite exec_block_cons, (gc_step c m gs fs r0 I0 Hflat).
  rewrite exec_block_cons, exec_assign. cbn [eval].
  rewrite exec_block_cons, exec_while. rewrite FUEL.
  fold (loop_body).
  assert (MX : exists k, max_attempts_gen = S k) by (eexists; reflexivity). destruct MX as [k MX].
  match goal with |- context [while_loop _ _ _ ?r1] =>
    pose proof (while_spec c m gs k fs r1 0) as W end.
  rewrite MX in *.
  destruct (loop_gen (option_strings c) m (S k) fs) as [fs'|e].
  - destruct W as [r' [E [[HF [HS HW]] [G L]]]];
      [destruct I0 as [A [B C]]; repeat split; lk; assumption | lk; reflexivity | lk; reflexivity | rewrite <- MX; reflexivity | exact Hflat|].
    rewrite E.
    (* assert not self._conflict_exists(wrappers_flat) *)
    rewrite exec_block_cons, exec_callret. cbn [bind_ins]. rewrite !eval_var, HF, HS, HW. cbn [assign String.eqb Ascii.eqb Bool.eqb].
    change [("FIELDS", store c fs'); ("self", resolver m); ("all_wrappers", VL (map enc_group gs))] with (ce_env c fs' (resolver m) gs).
    destruct (conflict_exists_false c fs' (resolver m) gs) as [rc Ec].
    + rewrite Hflat, <- L. apply refs_ok_forall, seq_refs_ok.
    + rewrite Hflat, <- L. pose proof (all_opts_seq c fs' []) as AO. cbn [app List.length] in AO. rewrite AO. apply no_conflict_nodup. exact G.
    + rewrite Ec. cbn [copy_back ret_to].
      rewrite exec_block_cons, exec_assert. cbn [eval]. lk. cbn [truthy negb].
      rewrite exec_block_cons, exec_return, eval_var. lk. rewrite HW.
      eexists. split; [reflexivity|]. lk. exact HF.
  - rewrite W; [reflexivity | destruct I0 as [A [B C]]; repeat split; lk; assumption | lk; reflexivity | lk; reflexivity | rewrite <- MX; reflexivity | exact Hflat].
Qed.

(* ---------- the C03 theorems, transported to the regenerated source ---------- *)
Lemma option_strings_src_is_model c f : run_src c f = Ok (VL (map VS (option_strings c f))).
Proof. destruct (positional f) eqn:P; [apply src_is_model_positional | apply src_is_model]; exact P. Qed.

(* when the regenerated resolver returns, the store it leaves holds field wrappers whose option strings - as computed by the
   regenerated FieldWrapper.option_strings - are pairwise distinct, within and across fields *)
Theorem source_resolved_options_unique c m fs gs r1 v :
  flat_ok (List.length fs) gs = true ->
  exec_block (resolve_env c m fs gs) resolve_src = Ok (r1, v) ->
  exists fs', lookup "FIELDS" r1 = Some (store c fs') /\ resolve_gen (option_strings c) m fs = Ok fs'
              /\ NoDup (List.concat (map (option_strings c) fs'))
              /\ Forall (fun f => run_src c f = Ok (VL (map VS (option_strings c f)))) fs'.
Proof.
  intros Hflat E. pose proof (resolve_src_is_model c m fs gs Hflat) as R.
  destruct (resolve_gen (option_strings c) m fs) as [fs'|e] eqn:G.
  - destruct R as [r1' [E' F]]. rewrite E in E'. injection E' as -> _. exists fs'. repeat split; [exact F | | ].
    + exact (resolve_ok_nodup (option_strings c) m fs fs' G).
    + apply Forall_forall. intros f _. apply option_strings_src_is_model.
  - rewrite E in R. discriminate.
Qed.

(* NONE: the regenerated resolver raises ConflictResolutionError exactly when a clash exists, and otherwise leaves the store as it was *)
Theorem source_none_iff_clash c fs gs :
  flat_ok (List.length fs) gs = true ->
  match get_conflict (option_strings c) fs with
  | None => exists r1, exec_block (resolve_env c CRNone fs gs) resolve_src = Ok (r1, Some (VL (map enc_group gs)))
                       /\ lookup "FIELDS" r1 = Some (store c fs)
  | Some _ => exec_block (resolve_env c CRNone fs gs) resolve_src = Err cre
  end.
Proof.
  intros Hflat. pose proof (resolve_src_is_model c CRNone fs gs Hflat) as R. rewrite none_iff_clash in R.
  destruct (get_conflict (option_strings c) fs); exact R.
Qed.

