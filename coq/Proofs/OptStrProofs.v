(* Proofs/OptStrProofs.v — option_strings (C10): the registered spellings are exactly the documented ones. *)
From Coq Require Import Permutation.
From SPV Require Import Base.Str Model.OptStr Model.SpellSpec.

(* ---------- sort_by is a permutation; dedupe keeps exactly the elements, once ---------- *)
Lemma ins_by_perm {A} (key : A -> nat) x l : Permutation (ins_by key x l) (x :: l).
Proof.
  induction l as [|y r IH]; simpl; [reflexivity|].
  destruct (Nat.ltb (key x) (key y)); [reflexivity|].
  rewrite IH. apply perm_swap.
Qed.

Lemma fold_ins_perm {A} (key : A -> nat) l : forall acc,
  Permutation (fold_left (fun a x => ins_by key x a) l acc) (l ++ acc).
Proof.
  induction l as [|x r IH]; intros acc; simpl; [reflexivity|].
  rewrite IH, ins_by_perm. symmetry. apply Permutation_middle.
Qed.

Lemma sort_by_perm {A} (key : A -> nat) l : Permutation (sort_by key l) l.
Proof. unfold sort_by. rewrite fold_ins_perm, app_nil_r. reflexivity. Qed.

Lemma sort_by_In {A} (key : A -> nat) l y : In y (sort_by key l) <-> In y l.
Proof.
  split; apply Permutation_in; [apply sort_by_perm | symmetry; apply sort_by_perm].
Qed.

Lemma dedupe_In l : forall seen y, In y (dedupe l seen) <-> In y l /\ ~ In y seen.
Proof.
  induction l as [|x r IH]; intros seen y; simpl; [intuition|].
  destruct (str_in x seen) eqn:E.
  - apply str_in_In in E. rewrite IH. split.
    + intros [H1 H2]. auto.
    + intros [[->|H1] H2]; [contradiction | auto].
  - apply str_in_false in E. simpl. rewrite IH. simpl. split.
    + intros [->|[H1 H2]]; [auto|]. split; [auto|]. intros H3. apply H2. now right.
    + intros [[->|H1] H2]; [auto|]. destruct (string_dec x y) as [->|N]; [auto|]. right. split; [exact H1|].
      intros [H3|H3]; auto.
Qed.

Lemma dedupe_NoDup l : forall seen, NoDup (dedupe l seen).
Proof.
  induction l as [|x r IH]; intros seen; simpl; [constructor|].
  destruct (str_in x seen); [apply IH|]. constructor; [|apply IH].
  rewrite dedupe_In. intros [_ H]. apply H. now left.
Qed.

Theorem option_strings_NoDup c f : NoDup (option_strings c f).
Proof.
  unfold option_strings. destruct (positional f); [repeat constructor; auto|].
  apply (Permutation_NoDup (l := dedupe (raw_options c f) [])); [symmetry; apply sort_by_perm | apply dedupe_NoDup].
Qed.

Lemma option_strings_In c f s :
  positional f = false -> (In s (option_strings c f) <-> In s (raw_options c f)).
Proof.
  intros P. unfold option_strings. rewrite P, sort_by_In, dedupe_In. simpl. intuition.
Qed.

(* ---------- raw options = documented options, as sets ---------- *)
Definition wf_names (f : fw) : Prop := forallb nodot (path f ++ [name f]) = true /\ path f <> [].

Lemma nested_is_documented c f :
  wf_names f ->
  match nm c with NDefault => dest f | NWithoutRoot => join_dot (tl (split_dot (dest f))) end
  = join_dot (match nm c with NDefault => (path f ++ [name f])%list | NWithoutRoot => tl (path f ++ [name f]) end).
Proof.
  intros [Hw Hne]. destruct (nm c); [reflexivity|]. unfold dest.
  rewrite split_join_dot; [reflexivity| |exact Hw]. destruct (path f); [congruence|discriminate].
Qed.

Lemma in_gen_iff (dash : string) (cands : list string) (p : string * string) :
  In p (map (fun o => (dash, o)) cands ++ (if String.eqb dash "-" then map (fun o => ("--", o)) cands else []))%list
  <-> In p (flat_map (fun s => if String.eqb dash "-" then [("-", s); ("--", s)] else [(dash, s)]) cands).
Proof.
  rewrite in_app_iff, in_flat_map, in_map_iff. destruct (String.eqb dash "-") eqn:E.
  - apply String.eqb_eq in E. subst dash. rewrite in_map_iff. split.
    + intros [[x [<- Hx]]|[x [<- Hx]]]; exists x; simpl; auto.
    + intros [x [Hx [<-|[<-|[]]]]]; [left|right]; exists x; auto.
  - split.
    + intros [[x [<- Hx]]|[]]. exists x. simpl. auto.
    + intros [x [Hx [<-|[]]]]. left. exists x. auto.
Qed.

Lemma dash_for_cases n : dash_for n = "-" \/ dash_for n = "--".
Proof. unfold dash_for. destruct (Nat.eqb _ 1); auto. Qed.

Theorem raw_pairs_documented c f p :
  wf_names f -> pfx f = "" ->
  (In p (raw_pairs c f) <-> In p (doc_pairs c (path f ++ [name f]) (name f) (aliases f))).
Proof.
  intros W P. unfold raw_pairs, doc_pairs. rewrite P. cbn [append].
  rewrite (nested_is_documented c f W).
  set (d := (path f ++ [name f])%list).
  set (nested := join_dot (match nm c with NDefault => d | NWithoutRoot => tl d end)).
  assert (Hals : map (fun a => let (d0, n) := alias_parts a in (d0, n)) (aliases f) = map alias_parts (aliases f)).
  { apply map_ext. intros a. destruct (alias_parts a). reflexivity. }
  rewrite Hals.
  assert (Hc : match gm c with
               | GFlat => [match dv c with DDash => us2dash (name f) | _ => name f end]
               | GNested => [match dv c with DDash => us2dash nested | _ => nested end]
               | GBoth => [match dv c with DDash => us2dash (name f) | _ => name f end;
                           match dv c with DDash => us2dash nested | _ => nested end]
               end = match dv c with DDash => map us2dash (doc_names c d (name f)) | _ => doc_names c d (name f) end).
  { unfold doc_names. fold nested. destruct (gm c), (dv c); reflexivity. }
  rewrite Hc. clear Hc.
  set (lits := match dv c with DDash => map us2dash (doc_names c d (name f)) | _ => doc_names c d (name f) end).
  set (dash := dash_for (name f)).
  set (gen1 := (map (fun o => (dash, o)) lits ++ (if String.eqb dash "-" then map (fun o => ("--", o)) lits else []))%list).
  set (gen2 := flat_map (fun s => if String.eqb dash "-" then [("-", s); ("--", s)] else [("--", s)]) lits).
  assert (G : forall q, In q gen1 <-> In q gen2).
  { intros q. unfold gen1, gen2. rewrite in_gen_iff.
    destruct (dash_for_cases (name f)) as [E|E]; fold dash in E; rewrite E; reflexivity. }
  assert (B : forall q, In q (gen1 ++ map alias_parts (aliases f))%list <-> In q (gen2 ++ map alias_parts (aliases f))%list).
  { intros q. rewrite !in_app_iff, G. reflexivity. }
  rewrite in_app_iff, (in_app_iff (gen2 ++ _)%list), B.
  apply or_iff_compat_l.
  destruct (dv c); try reflexivity.
  rewrite in_map_iff, in_flat_map. split.
  - intros [q [<- Hq]]. apply filter_In in Hq as [Hq1 Hq2]. exists q. rewrite <- B, Hq2. split; [exact Hq1 | now left].
  - intros [q [Hq1 Hq2]]. destruct (has_char "_"%char (snd q)) eqn:E; [|contradiction].
    destruct Hq2 as [<-|[]]. exists q. split; [reflexivity|]. apply filter_In. rewrite B. auto.
Qed.

(* the accepted spellings of a field whose name clashes with nothing are exactly the documented ones *)
Theorem options_are_documented c f s :
  wf_names f -> pfx f = "" -> positional f = false ->
  (In s (option_strings c f) <-> In s (doc_options c (path f ++ [name f]) (name f) (aliases f))).
Proof.
  intros W P Pos. rewrite (option_strings_In c f s Pos). unfold raw_options, doc_options. rewrite Pos.
  rewrite !in_map_iff. split; intros [p [<- Hp]]; exists p; (split; [reflexivity|]);
    apply (raw_pairs_documented c f p W P); exact Hp.
Qed.

(* a positional field is addressed by its destination only *)
Theorem positional_options c f : positional f = true -> option_strings c f = [dest f].
Proof. intros P. unfold option_strings. now rewrite P. Qed.
