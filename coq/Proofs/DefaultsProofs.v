(* Proofs/DefaultsProofs.v — C01: the model of "parse an empty command line" (instantiated with the regenerated facts) against the
   spec "every destination holds the caller's default instance or what the constructor builds by itself".
   Induction on the class tree (nested induction on fld, no depth bound); all configurations. *)
From SPV Require Import Base.Str Model.Leaf Model.LeafSpec Model.OptStr Model.Defaults Model.DefaultsSpec
     Gen.FactsConflicts Gen.FactsDefaults Proofs.ConflictsProofs.
Open Scope string_scope.

(* ---------------------------------------------------------------------------------------------- *)
(* induction principles for the nested types                                                        *)
(* ---------------------------------------------------------------------------------------------- *)
Section ValueInd.
  Variable P : value -> Prop.
  Hypothesis HInt : forall z, P (VInt z).
  Hypothesis HFlt : forall n i f, P (VFlt n i f).
  Hypothesis HStr : forall s, P (VStr s).
  Hypothesis HBool : forall b, P (VBool b).
  Hypothesis HNone : P VNone.
  Hypothesis HEnum : forall m, P (VEnum m).
  Hypothesis HPath : forall s, P (VPath s).
  Hypothesis HList : forall vs, Forall P vs -> P (VList vs).
  Hypothesis HTup : forall vs, Forall P vs -> P (VTup vs).
  Fixpoint value_ind' (v : value) : P v :=
    match v with
    | VInt z => HInt z | VFlt n i f => HFlt n i f | VStr s => HStr s | VBool b => HBool b
    | VNone => HNone | VEnum m => HEnum m | VPath s => HPath s
    | VList vs => HList vs ((fix go (l : list value) : Forall P l :=
                               match l with [] => Forall_nil P | x :: r => Forall_cons x (value_ind' x) (go r) end) vs)
    | VTup vs => HTup vs ((fix go (l : list value) : Forall P l :=
                             match l with [] => Forall_nil P | x :: r => Forall_cons x (value_ind' x) (go r) end) vs)
    end.
End ValueInd.

Section FldInd.
  Variable P : fld -> Prop.
  Hypothesis HLeaf : forall n t d fac, P (FLeaf n t d fac).
  Hypothesis HNest : forall n opt cn cfs nd, Forall P cfs -> P (FNest n opt cn cfs nd).
  Fixpoint fld_ind' (f : fld) : P f :=
    match f with
    | FLeaf n t d fac => HLeaf n t d fac
    | FNest n opt cn cfs nd =>
        HNest n opt cn cfs nd ((fix go (l : list fld) : Forall P l :=
                                  match l with [] => Forall_nil P | x :: r => Forall_cons x (fld_ind' x) (go r) end) cfs)
    end.
End FldInd.

(* ---------------------------------------------------------------------------------------------- *)
(* values                                                                                           *)
(* ---------------------------------------------------------------------------------------------- *)
Lemma value_eqb_refl v : value_eqb v v = true.
Proof.
  induction v using value_ind'; cbn [value_eqb]; auto using Z.eqb_refl, String.eqb_refl.
  - rewrite Bool.eqb_reflx, Z.eqb_refl, String.eqb_refl. reflexivity.
  - apply Bool.eqb_reflx.
  - induction H as [|x r Hx _ IH]; [reflexivity | rewrite Hx, IH; reflexivity].
  - induction H as [|x r Hx _ IH]; [reflexivity | rewrite Hx, IH; reflexivity].
Qed.

Lemma value_eqb_VStr v s : value_eqb v (VStr s) = true -> v = VStr s.
Proof. destruct v; cbn; try discriminate. intros H. apply String.eqb_eq in H. now subst. Qed.
Lemma value_eqb_VInt v z : value_eqb v (VInt z) = true -> v = VInt z.
Proof. destruct v; cbn; try discriminate. intros H. apply Z.eqb_eq in H. now subst. Qed.

(* ---------------------------------------------------------------------------------------------- *)
(* postprocess_default_id: post-processing a well-typed default is the identity                      *)
(* (falsy values 0 / '' / False / [] / () / None are ordinary well-typed values here)               *)
(* ---------------------------------------------------------------------------------------------- *)
Lemma find_unique {A} (key : A -> string) (l : list A) (a : A) :
  NoDup (map key l) -> In a l -> find (fun x => String.eqb (key x) (key a)) l = Some a.
Proof.
  induction l as [|x r IH]; intros ND Hin; [destruct Hin|].
  cbn [map] in ND. inversion ND as [|? ? Hnot ND']; subst. cbn [find].
  destruct Hin as [->|Hin].
  - now rewrite String.eqb_refl.
  - destruct (String.eqb (key x) (key a)) eqn:E.
    + apply String.eqb_eq in E. exfalso. apply Hnot. rewrite E. now apply in_map.
    + now apply IH.
Qed.

Lemma lookup_lit_member cs l :
  lit_names_distinct cs = true -> In l cs -> lookup_lit cs (lit_name l) = Some (lit_value l).
Proof.
  intros D Hin. unfold lookup_lit, lit_names_distinct in *. apply str_nodupb_NoDup in D.
  assert (ND : NoDup (map lit_name (rev cs))) by (rewrite map_rev; now apply NoDup_rev).
  rewrite (find_unique lit_name (rev cs) l ND); [reflexivity | now apply in_rev in Hin].
Qed.

Lemma post_lit cs v : lit_names_distinct cs = true -> has_type v (TLit cs) = true -> post (TLit cs) v = v.
Proof.
  intros D H. cbn [has_type] in H. apply existsb_exists in H as [l [Hin He]].
  destruct l as [s|z]; cbn [lit_value] in He.
  - apply value_eqb_VStr in He. subst v. unfold post. cbn [raw_of_value postprocess].
    change s with (lit_name (LStr s)). rewrite (lookup_lit_member cs (LStr s) D Hin). reflexivity.
  - apply value_eqb_VInt in He. subst v. reflexivity.
Qed.

Lemma postprocess_default_id t v : cli_type t = true -> has_type v t = true -> post t v = v.
Proof.
  intros C H. destruct t.
  - destruct v; cbn in H; try discriminate; reflexivity.
  - destruct v; cbn in H; try discriminate; reflexivity.
  - destruct v; cbn in H; try discriminate; reflexivity.
  - destruct v; cbn in H; try discriminate; reflexivity.
  - destruct v; cbn in H; try discriminate; reflexivity.
  - destruct v; cbn in H; try discriminate; reflexivity.
  - apply post_lit; [|exact H]. cbn [cli_type] in C. now apply andb_true_iff in C as [_ C].
  - destruct v; cbn in H; try discriminate; reflexivity.
  - destruct v; cbn in H; try discriminate; reflexivity.
  - destruct v; cbn in H; try discriminate; reflexivity.
  - cbn [cli_type] in C.
    destruct v; try reflexivity; destruct t; cbn in C, H; try discriminate; try reflexivity.
Qed.

(* ---------------------------------------------------------------------------------------------- *)
(* default_resolves: FieldWrapper.default along the three propagation paths                          *)
(* ---------------------------------------------------------------------------------------------- *)
Definition order_std : list dsource := [SManual; SSubgroup; SParentDefaults; SFieldDefault; SFactory; SStoreTrue; SStoreFalse].
Lemma order_is_std : default_sources_gen = order_std.
Proof. reflexivity. Qed.

Definition dv_std : list dvsrc := [DvDefault; DvFactory].
Lemma default_value_sources_std : default_value_sources_gen = dv_std.
Proof. reflexivity. Qed.
Lemma dvalues_std cn cfs nd : dvalues dv_std cn cfs nd = [default_value cn cfs nd].
Proof. destruct nd; reflexivity. Qed.

Definition is_inst (D : vt) : Prop := exists cn vals, D = VD cn vals.

Lemma norm_manual_spec v : norm_manual v = None /\ v = VNone \/ norm_manual v = Some v /\ v <> VNone.
Proof. destruct v; cbn; auto; right; split; auto; discriminate. Qed.

Section Resolve.
  Variable cached : bool.
  Let ld := leaf_default order_std cached.

  (* (1) the wrapper was handed a default instance: its attribute (set_default, or the parent-defaults arm when it is None) *)
  Lemma default_from_wrapper_default n d fac D :
    is_inst D -> ld n d fac (Some D) [D] = as_value (attr D n).
  Proof.
    intros [cn [vals ->]]. unfold ld, leaf_default, manual_init.
    destruct (norm_manual_spec (as_value (attr (VD cn vals) n))) as [[-> E]|[-> _]]; reflexivity.
  Qed.

  (* (2) no default instance for the wrapper, but the parent's default list holds an instance (member default factory) *)
  Lemma default_from_parent_default n d fac D :
    is_inst D -> ld n d fac None [D] = as_value (attr D n).
  Proof. intros [cn [vals ->]]. reflexivity. Qed.

  (* (3) nothing above: the field's own default / the cached factory value *)
  Lemma default_from_field n d fac : ld n d fac None [] = d.
  Proof.
    unfold ld, leaf_default, manual_init. cbn [non_none filter].
    destruct cached, fac; cbn; try reflexivity.
    destruct (norm_manual_spec d) as [[-> E]|[-> _]]; cbn; [|reflexivity]. reflexivity.
  Qed.

  (* (3') the parent's default list only holds None (an Optional member that is None): the field's own default again *)
  Lemma default_under_none n d fac : ld n d fac None [vnone] = d.
  Proof.
    unfold ld, leaf_default, manual_init. cbn [non_none filter is_vnone vnone negb].
    destruct cached, fac; cbn; try reflexivity.
    destruct (norm_manual_spec d) as [[-> E]|[-> _]]; cbn; [|reflexivity]. reflexivity.
  Qed.
End Resolve.

(* ---------------------------------------------------------------------------------------------- *)
(* instances                                                                                        *)
(* ---------------------------------------------------------------------------------------------- *)
Lemma wf_inst_fld_nest n opt cn cfs nd c vals :
  wf_inst_fld (FNest n opt cn cfs nd) (VD c vals) = String.eqb c cn && wf_attrs cfs vals.
Proof. reflexivity. Qed.

Lemma wf_attrs_length fs vals : wf_attrs fs vals = true -> List.length fs = List.length vals.
Proof.
  revert vals. induction fs as [|g rf IH]; intros [|[n x] rv] H; cbn in H; try discriminate; [reflexivity|].
  apply andb_true_iff in H as [_ H]. cbn. f_equal. now apply IH.
Qed.

Lemma wf_attrs_names fs vals : wf_attrs fs vals = true -> map fst vals = map fname fs.
Proof.
  revert vals. induction fs as [|g rf IH]; intros [|[n x] rv] H; cbn in H; try discriminate; [reflexivity|].
  apply andb_true_iff in H as [H1 H]. apply andb_true_iff in H1 as [Hn _]. apply String.eqb_eq in Hn.
  cbn. rewrite Hn. f_equal. now apply IH.
Qed.

Lemma wf_attrs_in fs vals g n x :
  wf_attrs fs vals = true -> In (g, (n, x)) (combine fs vals) -> n = fname g /\ wf_inst_fld g x = true /\ In (n, x) vals.
Proof.
  revert vals. induction fs as [|g0 rf IH]; intros [|[n0 x0] rv] H Hin; cbn in H, Hin; try contradiction; try discriminate.
  apply andb_true_iff in H as [H1 H]. apply andb_true_iff in H1 as [Hn Hw]. apply String.eqb_eq in Hn.
  destruct Hin as [E|Hin].
  - inversion E; subst. repeat split; auto. now left.
  - destruct (IH rv H Hin) as [A [B C]]. repeat split; auto. now right.
Qed.

Lemma attr_at cn fs vals g n x :
  wf_attrs fs vals = true -> NoDup (map fname fs) -> In (g, (n, x)) (combine fs vals) ->
  attr (VD cn vals) (fname g) = x /\ n = fname g /\ wf_inst_fld g x = true.
Proof.
  intros W ND Hin. destruct (wf_attrs_in fs vals g n x W Hin) as [Hn [Hw Hv]]. subst n.
  repeat split; auto. unfold attr.
  assert (ND' : NoDup (map fst vals)) by (rewrite (wf_attrs_names fs vals W); exact ND).
  pose proof (find_unique (fun p : string * vt => fst p) vals (fname g, x) ND' Hv) as F. cbn [fst] in F.
  rewrite F. reflexivity.
Qed.

Lemma map_pointwise {A B} (F : A -> B) l1 l2 :
  List.length l1 = List.length l2 -> (forall a b, In (a, b) (combine l1 l2) -> F a = b) -> map F l1 = l2.
Proof.
  revert l2. induction l1 as [|a r IH]; intros [|b r2] L H; cbn in L; try discriminate; [reflexivity|].
  cbn. f_equal; [apply H; now left | apply IH; [now injection L | intros; apply H; now right]].
Qed.

Lemma Forall_combine_l {A B} (P : A -> Prop) (l1 : list A) (l2 : list B) a b :
  Forall P l1 -> In (a, b) (combine l1 l2) -> P a.
Proof. intros F Hin. apply in_combine_l in Hin. rewrite Forall_forall in F. now apply F. Qed.

(* the constructor's own result is a well-formed instance *)
Lemma construct_wf_fld : forall g, wf_fld g = true -> wf_inst_fld g (snd (construct_fld g)) = true /\ fst (construct_fld g) = fname g.
Proof.
  induction g using fld_ind'; intros W.
  - cbn in *. apply andb_true_iff in W as [_ W]. auto.
  - cbn [wf_fld] in W. apply andb_true_iff in W as [W Wd]. apply andb_true_iff in W as [Wc Wn].
    split; [|reflexivity]. cbn [construct_fld snd]. destruct nd.
    + rewrite wf_inst_fld_nest, String.eqb_refl. cbn [andb].
      clear Wd Wn. induction cfs as [|g r IHr]; [reflexivity|].
      cbn [forallb] in Wc. apply andb_true_iff in Wc as [Wg Wr]. inversion H as [|? ? Pg Pr]; subst.
      destruct (Pg Wg) as [A B]. cbn [map wf_attrs]. destruct (construct_fld g) as [m x]. cbn [fst snd] in *.
      subst m. rewrite String.eqb_refl, A. cbn [andb]. now apply IHr.
    + cbn. exact Wd.
    + unfold wf_inst in Wd. destruct i as [v|c vals]; [discriminate|]. now rewrite wf_inst_fld_nest.
Qed.

Lemma construct_wf_attrs cfs : forallb wf_fld cfs = true -> wf_attrs cfs (construct_fields cfs) = true.
Proof.
  induction cfs as [|g r IH]; intros W; [reflexivity|].
  cbn [forallb] in W. apply andb_true_iff in W as [Wg Wr]. destruct (construct_wf_fld g Wg) as [A B].
  unfold construct_fields in *. cbn [map wf_attrs]. destruct (construct_fld g) as [n x]. cbn [fst snd] in *. subst n.
  rewrite String.eqb_refl, A. cbn [andb]. now apply IH.
Qed.

(* ---------------------------------------------------------------------------------------------- *)
(* NONE / EXPLICIT / AUTO: bottom-up instantiation rebuilds the default instance / the constructor's  *)
(* ---------------------------------------------------------------------------------------------- *)
Lemma wf_fld_nest n opt cn cfs nd :
  wf_fld (FNest n opt cn cfs nd) = true ->
  forallb wf_fld cfs = true /\ NoDup (map fname cfs)
  /\ match nd with DFac => True | DNone => opt = true | DInst i => wf_inst cn cfs i = true end.
Proof.
  cbn [wf_fld]. intros W. apply andb_true_iff in W as [W Wd]. apply andb_true_iff in W as [Wc Wn].
  repeat split; auto; [now apply str_nodupb_NoDup | destruct nd; auto].
Qed.

Lemma is_inst_not_vnone D : is_inst D -> is_vnone D = false.
Proof. intros [cn [vals ->]]. reflexivity. Qed.

Section Plain.
  Variable g0 : guard_kind.
  Variable cached : bool.

  Definition wdof (has_wd : bool) (D : vt) : option vt := if has_wd then Some D else None.

  Lemma leaf_default_inst has_wd n d fac D :
    is_inst D -> leaf_default order_std cached n d fac (wdof has_wd D) [D] = as_value (attr D n).
  Proof.
    intros I. destruct has_wd; cbn [wdof].
    - now apply default_from_wrapper_default.
    - now apply default_from_parent_default.
  Qed.

  (* under an Optional member that is None, every leaf argument equals its default: the member comes back None *)
  Lemma leaves_at_default_none cfs :
    forallb wf_fld cfs = true ->
    leaves_at_default order_std cached cfs (map (run_fld g0 order_std cached dv_std None [vnone]) cfs) None [vnone] = true.
  Proof.
    induction cfs as [|g r IH]; intros W; [reflexivity|].
    cbn [forallb] in W. apply andb_true_iff in W as [Wg Wr]. destruct g as [n t d fac|n opt cn cfs nd].
    - cbn [map run_fld leaves_at_default]. rewrite default_under_none.
      cbn [wf_fld] in Wg. apply andb_true_iff in Wg as [C T]. rewrite (postprocess_default_id t d C T).
      cbn [vt_eqb]. rewrite value_eqb_refl. cbn [andb]. now apply IH.
    - cbn [map leaves_at_default]. destruct (run_fld g0 order_std cached dv_std None [vnone] (FNest n opt cn cfs nd)). now apply IH.
  Qed.

  Lemma guard_none_vnone : guard_none g0 None [vnone] = true.
  Proof. destruct g0; reflexivity. Qed.

  (* a wrapper whose default list holds the instance D (handed down from the caller: has_wd, or from a member's default factory) *)
  Lemma run_fld_inst : forall g has_wd D x,
    is_inst D -> wf_fld g = true -> wf_inst_fld g x = true -> attr D (fname g) = x ->
    shape3_free_fld g0 has_wd (Some D) g = true ->
    run_fld g0 order_std cached dv_std (wdof has_wd D) [D] g = (fname g, x).
  Proof.
    induction g as [n t d fac|n opt cn cfs nd IH] using fld_ind'; intros has_wd D x I W WI A S3.
    - cbn [run_fld fname] in *. rewrite (leaf_default_inst has_wd n d fac D I), A.
      cbn [wf_inst_fld] in WI. destruct x as [v|]; [|discriminate]. cbn [as_value].
      cbn [wf_fld] in W. apply andb_true_iff in W as [C _]. now rewrite (postprocess_default_id t v C WI).
    - destruct (wf_fld_nest _ _ _ _ _ W) as [Wc [ND _]].
      cbn [fname] in A. cbn [run_fld fname].
      assert (CD : child_default (wdof has_wd D) n = if has_wd then some_inst x else None)
        by (destruct has_wd; cbn [wdof child_default]; [now rewrite A | reflexivity]).
      rewrite CD. destruct x as [v|c vals].
      + (* the member is None in D *)
        cbn [wf_inst_fld] in WI. destruct v; try discriminate. subst opt.
        assert (E : (if has_wd then some_inst (VL VNone) else None) = None) by (destruct has_wd; reflexivity).
        rewrite E. cbn [child_defaults map]. rewrite (is_inst_not_vnone D I), A.
        change (VL VNone) with vnone. rewrite guard_none_vnone, (leaves_at_default_none cfs Wc). reflexivity.
      + rewrite wf_inst_fld_nest in WI. apply andb_true_iff in WI as [Ec WA]. apply String.eqb_eq in Ec. subst c.
        cbn [shape3_free_fld] in S3. rewrite A in S3. cbn [some_inst is_vnone] in S3.
        apply andb_true_iff in S3 as [S3a S3c].
        assert (IX : is_inst (VD cn vals)) by (now exists cn, vals).
        assert (V : forall hw, hw = has_wd ->
                  map (run_fld g0 order_std cached dv_std (wdof hw (VD cn vals)) [VD cn vals]) cfs = vals).
        { intros hw ->. apply map_pointwise; [now apply wf_attrs_length|].
          intros g [m y] Hin. destruct (attr_at cn cfs vals g m y WA ND Hin) as [At [-> Wy]].
          apply (Forall_combine_l _ _ _ _ _ IH Hin); auto.
          - rewrite forallb_forall in Wc. apply Wc. now apply in_combine_l in Hin.
          - rewrite forallb_forall in S3c. apply S3c. now apply in_combine_l in Hin. }
        destruct has_wd.
        * cbn [some_inst is_vnone child_defaults]. change (Some (VD cn vals)) with (wdof true (VD cn vals)).
          rewrite (V true eq_refl). cbn [wdof guard_none]. now rewrite andb_false_r.
        * cbn [child_defaults map]. rewrite (is_inst_not_vnone D I), A.
          change (@None vt) with (wdof false (VD cn vals)). rewrite (V false eq_refl). cbn [wdof].
          cbn [orb] in S3a. apply orb_true_iff in S3a as [O|G].
          -- apply negb_true_iff in O. subst opt. reflexivity.
          -- destruct g0; [discriminate|]. cbn [guard_none forallb is_vnone]. now rewrite andb_false_r.
  Qed.

  Lemma run_fields_inst fs has_wd cn vals :
    forallb wf_fld fs = true -> NoDup (map fname fs) -> wf_attrs fs vals = true ->
    forallb (shape3_free_fld g0 has_wd (Some (VD cn vals))) fs = true ->
    run_fields g0 order_std cached dv_std fs (wdof has_wd (VD cn vals)) [VD cn vals] = vals.
  Proof.
    intros W ND WA S3. unfold run_fields. apply map_pointwise; [now apply wf_attrs_length|].
    intros g [m y] Hin. destruct (attr_at cn fs vals g m y WA ND Hin) as [At [-> Wy]].
    apply run_fld_inst; auto.
    - now exists cn, vals.
    - rewrite forallb_forall in W. apply W. now apply in_combine_l in Hin.
    - rewrite forallb_forall in S3. apply S3. now apply in_combine_l in Hin.
  Qed.

  (* a wrapper with no default instance anywhere above it: the constructor's own value *)
  Lemma run_fld_construct g :
    wf_fld g = true -> shape3_free_fld g0 false None g = true ->
    run_fld g0 order_std cached dv_std None [] g = construct_fld g.
  Proof.
    destruct g as [n t d fac|n opt cn cfs nd]; intros W S3.
    - cbn [run_fld construct_fld]. rewrite default_from_field.
      cbn [wf_fld] in W. apply andb_true_iff in W as [C T]. now rewrite (postprocess_default_id t d C T).
    - destruct (wf_fld_nest _ _ _ _ _ W) as [Wc [ND Wd]].
      cbn [run_fld construct_fld child_default child_defaults]. rewrite dvalues_std. cbn [shape3_free_fld] in S3.
      assert (K : forall vals, default_value cn cfs nd = VD cn vals -> wf_attrs cfs vals = true ->
                  (if opt && guard_none g0 None [VD cn vals]
                      && leaves_at_default order_std cached cfs
                           (map (run_fld g0 order_std cached dv_std None [VD cn vals]) cfs) None [VD cn vals]
                   then vnone else VD cn (map (run_fld g0 order_std cached dv_std None [VD cn vals]) cfs)) = VD cn vals).
      { intros vals E WA. rewrite E in S3. cbn [some_inst is_vnone] in S3. apply andb_true_iff in S3 as [S3a S3c].
        pose proof (run_fields_inst cfs false cn vals Wc ND WA S3c) as R. unfold run_fields in R. cbn [wdof] in R. rewrite R.
        cbn [orb] in S3a. apply orb_true_iff in S3a as [O|G].
        - apply negb_true_iff in O. subst opt. reflexivity.
        - destruct g0; [discriminate|]. cbn [guard_none forallb is_vnone]. now rewrite andb_false_r. }
      destruct nd as [| |i].
      + cbn [default_value] in *. f_equal. apply (K (construct_fields cfs) eq_refl). now apply construct_wf_attrs.
      + cbn [default_value]. subst opt. change (VL VNone) with vnone.
        rewrite guard_none_vnone, (leaves_at_default_none cfs Wc). reflexivity.
      + cbn [default_value] in *. unfold wf_inst in Wd. destruct i as [v|c vals]; [discriminate|].
        apply andb_true_iff in Wd as [Ec WA]. apply String.eqb_eq in Ec. subst c. f_equal. now apply (K vals eq_refl).
  Qed.

  Lemma run_fields_construct fs :
    forallb wf_fld fs = true -> forallb (shape3_free_fld g0 false None) fs = true ->
    run_fields g0 order_std cached dv_std fs None [] = construct_fields fs.
  Proof.
    intros W S3. unfold run_fields, construct_fields. apply map_ext_in. intros g Hin.
    rewrite forallb_forall in W, S3. now apply run_fld_construct; [apply W | apply S3].
  Qed.

  Theorem parse_plain_meets f :
    wf_forest f = true -> shape3_free g0 f = true -> parse_plain g0 order_std cached dv_std f = spec_C01 f.
  Proof.
    unfold wf_forest, shape3_free, parse_plain, spec_C01. intros W S3. apply andb_true_iff in W as [_ W].
    apply map_ext_in. intros [[d c] i] Hin. rewrite forallb_forall in W, S3.
    specialize (W _ Hin). specialize (S3 _ Hin). cbn beta iota in W, S3. unfold wf_entry in W.
    apply andb_true_iff in W as [Wf Wi]. unfold wf_fields in Wf. apply andb_true_iff in Wf as [Wc Wn].
    apply str_nodupb_NoDup in Wn. f_equal. destruct i as [D|].
    - unfold wf_inst in Wi. destruct D as [v|cn vals]; [discriminate|]. apply andb_true_iff in Wi as [Ec WA].
      apply String.eqb_eq in Ec. subst cn. cbn [root_defaults is_some] in *. f_equal.
      apply (run_fields_inst (snd c) true (fst c) vals Wc Wn WA S3).
    - cbn [root_defaults is_some] in *. unfold construct. f_equal. now apply run_fields_construct.
  Qed.
End Plain.

(* ---------------------------------------------------------------------------------------------- *)
(* the boolean equalities used by uniform_scope decide Leibniz equality                             *)
(* ---------------------------------------------------------------------------------------------- *)
Lemma list_beq_eq {A} (eqb : A -> A -> bool) (l1 l2 : list A) :
  Forall (fun x => forall y, eqb x y = true -> x = y) l1 -> list_beq eqb l1 l2 = true -> l1 = l2.
Proof.
  intros F. revert l2. induction F as [|x r Hx _ IH]; intros [|y r2] H; cbn in H; try discriminate; [reflexivity|].
  apply andb_true_iff in H as [H1 H2]. f_equal; [now apply Hx | now apply IH].
Qed.

Lemma strs_beq_eq l1 l2 : list_beq String.eqb l1 l2 = true -> l1 = l2.
Proof. apply list_beq_eq. apply Forall_forall. intros x _ y H. now apply String.eqb_eq. Qed.

Lemma value_eqb_eq : forall a b, value_eqb a b = true -> a = b.
Proof.
  induction a using value_ind'; intros w E; destruct w; cbn [value_eqb] in E; try discriminate.
  - apply Z.eqb_eq in E. now subst.
  - apply andb_true_iff in E as [E E3]. apply andb_true_iff in E as [E1 E2].
    apply Bool.eqb_prop in E1. apply Z.eqb_eq in E2. apply String.eqb_eq in E3. now subst.
  - apply String.eqb_eq in E. now subst.
  - apply Bool.eqb_prop in E. now subst.
  - reflexivity.
  - apply String.eqb_eq in E. now subst.
  - apply String.eqb_eq in E. now subst.
  - f_equal. revert vs0 E. induction H as [|x r Hx _ IH]; intros [|y r2] E; try discriminate; [reflexivity|].
    apply andb_true_iff in E as [E1 E2]. f_equal; [now apply Hx | now apply IH].
  - f_equal. revert vs0 E. induction H as [|x r Hx _ IH]; intros [|y r2] E; try discriminate; [reflexivity|].
    apply andb_true_iff in E as [E1 E2]. f_equal; [now apply Hx | now apply IH].
Qed.

Section VtInd.
  Variable P : vt -> Prop.
  Hypothesis HL : forall v, P (VL v).
  Hypothesis HD : forall cn fs, Forall (fun p => P (snd p)) fs -> P (VD cn fs).
  Fixpoint vt_ind' (v : vt) : P v :=
    match v with
    | VL x => HL x
    | VD cn fs => HD cn fs ((fix go (l : list (string * vt)) : Forall (fun p => P (snd p)) l :=
                              match l with
                              | [] => Forall_nil _
                              | p :: r => Forall_cons p (vt_ind' (snd p)) (go r)
                              end) fs)
    end.
End VtInd.

Lemma vt_eqb_eq : forall a b, vt_eqb a b = true -> a = b.
Proof.
  induction a using vt_ind'; intros b E; destruct b as [w|c2 f2]; cbn [vt_eqb] in E; try discriminate.
  - f_equal. now apply value_eqb_eq.
  - apply andb_true_iff in E as [Ec E]. apply String.eqb_eq in Ec. subst c2. f_equal.
    revert f2 E. induction H as [|[n x] r Hx _ IH]; intros [|[m y] r2] E; try discriminate; [reflexivity|].
    apply andb_true_iff in E as [E E2]. apply andb_true_iff in E as [En Ex]. apply String.eqb_eq in En. subst m.
    cbn [snd] in Hx. f_equal; [f_equal; now apply Hx | now apply IH].
Qed.

Section TyInd.
  Variable P : ty -> Prop.
  Hypothesis H0 : P TInt. Hypothesis H1 : P TFloat. Hypothesis H2 : P TStr. Hypothesis H3 : P TBool. Hypothesis H4 : P TPath.
  Hypothesis H5 : forall ms, P (TEnum ms). Hypothesis H6 : forall cs, P (TLit cs).
  Hypothesis H7 : forall t, P t -> P (TList t).
  Hypothesis H8 : forall ts, Forall P ts -> P (TTupFix ts).
  Hypothesis H9 : forall t, P t -> P (TTupVar t).
  Hypothesis H10 : forall t, P t -> P (TOpt t).
  Fixpoint ty_ind' (t : ty) : P t :=
    match t with
    | TInt => H0 | TFloat => H1 | TStr => H2 | TBool => H3 | TPath => H4 | TEnum ms => H5 ms | TLit cs => H6 cs
    | TList u => H7 u (ty_ind' u)
    | TTupFix ts => H8 ts ((fix go (l : list ty) : Forall P l :=
                              match l with [] => Forall_nil P | x :: r => Forall_cons x (ty_ind' x) (go r) end) ts)
    | TTupVar u => H9 u (ty_ind' u)
    | TOpt u => H10 u (ty_ind' u)
    end.
End TyInd.

Lemma ty_beq_eq : forall a b, ty_beq a b = true -> a = b.
Proof.
  induction a using ty_ind'; intros b E; destruct b; cbn [ty_beq] in E; try discriminate; try reflexivity.
  - f_equal. now apply strs_beq_eq.
  - f_equal. revert E. apply list_beq_eq. apply Forall_forall. intros x _ y Hxy.
    destruct x, y; try discriminate; f_equal; [now apply String.eqb_eq | now apply Z.eqb_eq].
  - f_equal. now apply IHa.
  - f_equal. revert ts0 E. induction H as [|x r Hx _ IH]; intros [|y r2] E; try discriminate; [reflexivity|].
    apply andb_true_iff in E as [E1 E2]. f_equal; [now apply Hx | now apply IH].
  - f_equal. now apply IHa.
  - f_equal. now apply IHa.
Qed.

Lemma fld_beq_eq : forall a b, fld_beq a b = true -> a = b.
Proof.
  induction a as [n t d fac|n opt cn cfs nd IH] using fld_ind'; intros b E; destruct b as [n2 t2 d2 fac2|n2 opt2 cn2 cfs2 nd2];
    cbn [fld_beq] in E; try discriminate.
  - repeat (apply andb_true_iff in E as [E ?]).
    apply String.eqb_eq in E. apply ty_beq_eq in H1. apply value_eqb_eq in H0. apply Bool.eqb_prop in H. now subst.
  - repeat (apply andb_true_iff in E as [E ?]).
    apply String.eqb_eq in E. apply Bool.eqb_prop in H2. apply String.eqb_eq in H1. subst.
    assert (nd = nd2).
    { destruct nd, nd2; cbn in H0; try discriminate; try reflexivity. f_equal. now apply vt_eqb_eq. }
    subst. f_equal.
    revert cfs2 H. induction IH as [|x r Hx _ IHr]; intros [|y r2] E; try discriminate; [reflexivity|].
    apply andb_true_iff in E as [E1 E2]. f_equal; [now apply Hx | now apply IHr].
Qed.

Lemma dcls_beq_eq a b : dcls_beq a b = true -> a = b.
Proof.
  destruct a as [c1 f1], b as [c2 f2]. unfold dcls_beq. cbn [fst snd]. intros E.
  apply andb_true_iff in E as [Ec Ef]. apply String.eqb_eq in Ec. subst. f_equal.
  revert Ef. apply list_beq_eq. apply Forall_forall. intros x _ y. apply fld_beq_eq.
Qed.

(* ---------------------------------------------------------------------------------------------- *)
(* ALWAYS_MERGE, the same class at k >= 2 destinations: per-destination default lists               *)
(* ---------------------------------------------------------------------------------------------- *)
Definition chain_today : list pk_test := [PkContainerTypeAndLenNeN; PkNotIsList].
Definition chain_repaired : list pk_test := [PkSingleValue; PkContainerTypeAndLenNeN; PkNotIsList].
Definition chain_known (chain : list pk_test) : Prop := chain = chain_today \/ chain = chain_repaired.
Lemma pk_chain_known : chain_known pk_chain_gen.
Proof. first [left; reflexivity | right; reflexivity]. Qed.

Lemma leb_k_1 k : 2 <= k -> Nat.leb k 1 = false.
Proof. intros H. apply Nat.leb_gt. lia. Qed.

(* one entry per destination already: kept as it is *)
Lemma package_per_dest chain t k l :
  chain_known chain -> 2 <= k -> List.length l = k -> package chain t k (VList l, false) = Ok (VList l).
Proof.
  intros [-> | ->] Hk Hl; unfold package; rewrite (leb_k_1 k Hk); cbn [orb is_VNone];
    cbn [pk_holds chain_today chain_repaired py_len is_vlist negb]; rewrite Hl, Nat.eqb_refl; cbn [negb];
    destruct (is_seq_ty t); cbn; rewrite Hl, Nat.eqb_refl; reflexivity.
Qed.

(* the final chain of duplicate_if_needed, as regenerated *)
Definition dup_std : list (len_test * dup_act) := [(LenEqN, DAsIs); (LenEqOne, DTimesN)].
Lemma dup_chain_std : dup_chain_gen = dup_std /\ dup_else_gen = DInconsistent.
Proof. split; reflexivity. Qed.

Lemma list_times_single {A} (x : A) k : list_times [x] k = repeat x k.
Proof. induction k as [|k IH]; [reflexivity | cbn; now rewrite IH]. Qed.
Lemma concat_repeat_single {A} (x : A) k : List.concat (repeat [x] k) = repeat x k.
Proof. induction k as [|k IH]; [reflexivity | cbn; now rewrite IH]. Qed.

Lemma duplicate_list t k l :
  2 <= k -> List.length l = k -> duplicate_if_needed dup_std DInconsistent t (VList l) k = Ok l.
Proof.
  intros Hk Hl. destruct l as [|a [|b r]]; cbn [List.length] in Hl; try lia. subst k.
  unfold duplicate_if_needed, dup_std.
  destruct (negb (is_tuple_ty t) && negb (is_list_ty t)); cbv iota beta; now rewrite Nat.eqb_refl.
Qed.

Lemma duplicate_none t k : 2 <= k -> duplicate_if_needed dup_std DInconsistent t VNone k = Ok (repeat VNone k).
Proof.
  intros Hk. unfold duplicate_if_needed, dup_std. cbn [List.length].
  assert (E : Nat.eqb 1 k = false) by (apply Nat.eqb_neq; lia).
  destruct (negb (is_tuple_ty t) && negb (is_list_ty t)); cbv iota beta; rewrite E; cbn [Nat.eqb]; now rewrite list_times_single.
Qed.

Lemma nth_repeat_lt {A} (a d : A) k i : i < k -> nth i (repeat a k) d = a.
Proof. revert i. induction k as [|k IH]; intros [|i] H; cbn; try lia; [reflexivity | apply IH; lia]. Qed.

(* one value for all destinations: replicated — unless it is a Python list that is taken for "one entry per destination" (#4) *)
Lemma package_single chain t k d :
  chain_known chain -> 2 <= k -> has_type d t = true -> d <> VNone ->
  pk_repaired chain || negb (dealt_shape k t d) = true ->
  package chain t k (d, true) = Ok (VList (repeat d k)).
Proof.
  intros Hc Hk T NN ND. unfold package. rewrite (leb_k_1 k Hk).
  assert (E : is_VNone d = false) by (destruct d; try reflexivity; congruence). rewrite E. cbn [orb].
  assert (W : pk_holds chain t k d true = Ok true).
  { destruct Hc as [-> | ->]; [|reflexivity].
    cbn [pk_repaired chain_today orb] in ND. apply negb_true_iff in ND.
    cbn [pk_holds chain_today].
    destruct t; cbn [is_seq_ty]; destruct d; cbn [has_type] in T; try discriminate; try reflexivity;
      cbn [dealt_shape] in ND; try discriminate; cbn [py_len is_vlist negb].
    - rewrite ND. reflexivity.
    - destruct (Nat.eqb (List.length vs) k); reflexivity.
    - destruct (Nat.eqb (List.length vs) k); reflexivity. }
  rewrite W. cbn [py_len]. rewrite repeat_length, Nat.eqb_refl. reflexivity.
Qed.

Lemma map_res_ok {A B} (F : A -> res B) (G : A -> B) l :
  (forall a, In a l -> F a = Ok (G a)) -> map_res F l = Ok (map G l).
Proof.
  induction l as [|a r IH]; intros H; [reflexivity|].
  cbn [map_res map]. rewrite (H a (or_introl eq_refl)), IH; [reflexivity | intros; apply H; now right].
Qed.

Lemma non_none_insts defs : Forall is_inst defs -> non_none defs = defs.
Proof.
  induction 1 as [|D r HD _ IH]; [reflexivity|]. cbn [non_none filter]. rewrite (is_inst_not_vnone D HD). cbn [negb].
  f_equal. exact IH.
Qed.

Lemma in_combine_ex {A B} (l1 : list A) (l2 : list B) a :
  List.length l1 = List.length l2 -> In a l1 -> exists b, In (a, b) (combine l1 l2).
Proof.
  revert l2. induction l1 as [|x r IH]; intros [|y r2] L Hin; cbn in L; try discriminate; [destruct Hin|].
  destruct Hin as [->|Hin]; [exists y; now left|].
  destruct (IH r2 (f_equal pred L) Hin) as [b Hb]. exists b. now right.
Qed.

Lemma attr_member cn fs vals g :
  wf_attrs fs vals = true -> NoDup (map fname fs) -> In g fs -> wf_inst_fld g (attr (VD cn vals) (fname g)) = true.
Proof.
  intros WA ND Hin. destruct (in_combine_ex fs vals g (wf_attrs_length _ _ WA) Hin) as [[m y] Hc].
  destruct (attr_at cn fs vals g m y WA ND Hc) as [-> [_ W]]. exact W.
Qed.

Lemma attrs_rebuild cn fs vals :
  wf_attrs fs vals = true -> NoDup (map fname fs) -> map (fun g => (fname g, attr (VD cn vals) (fname g))) fs = vals.
Proof.
  intros WA ND. apply map_pointwise; [now apply wf_attrs_length|].
  intros g [m y] Hin. destruct (attr_at cn fs vals g m y WA ND Hin) as [-> [-> _]]. reflexivity.
Qed.

Section Uniform.
  Variable chain : list pk_test.
  Hypothesis Hchain : chain_known chain.
  Variables k i : nat.
  Hypothesis Hk : 2 <= k.
  Hypothesis Hi : i < k.

  (* the merged wrapper has one default instance per destination: destination i gets the attributes of instance i *)
  Lemma uni_fld_inst : forall g defs,
    List.length defs = k -> Forall is_inst defs -> wf_fld g = true -> has_optional_fld g = false ->
    (forall D, In D defs -> wf_inst_fld g (attr D (fname g)) = true) ->
    uni_fld order_std chain dv_std dup_std DInconsistent k i defs g = Ok (fname g, attr (nth i defs vnone) (fname g)).
  Proof.
    induction g as [n t d fac|n opt cn cfs nd IH] using fld_ind'; intros defs L I W O WD.
    - cbn [uni_fld fname] in *. unfold uni_leaf.
      assert (R : raw_default order_std None defs n d fac = (VList (map (fun D => as_value (attr D n)) defs), false)).
      { cbn [raw_default order_std]. rewrite (non_none_insts defs I).
        destruct defs as [|D [|D2 more]]; cbn [List.length] in L; try lia.
        assert (E : Nat.eqb (List.length (D :: D2 :: more)) 1 = false) by reflexivity. rewrite E. reflexivity. }
      rewrite R, (package_per_dest chain t k _ Hchain Hk) by (now rewrite map_length).
      rewrite (leb_k_1 k Hk), (duplicate_list t k _ Hk) by (now rewrite map_length).
      change VNone with ((fun D => as_value (attr D n)) vnone). rewrite map_nth.
      assert (Hin : In (nth i defs vnone) defs) by (apply nth_In; lia).
      specialize (WD _ Hin). cbn [wf_inst_fld] in WD. destruct (attr (nth i defs vnone) n) as [v|]; [|discriminate].
      cbn [as_value]. cbn [wf_fld] in W. apply andb_true_iff in W as [C _]. now rewrite (postprocess_default_id t v C WD).
    - destruct (wf_fld_nest _ _ _ _ _ W) as [Wc [ND _]].
      cbn [has_optional_fld] in O. apply orb_false_iff in O as [-> Oc].
      cbn [uni_fld fname] in *.
      assert (NE : match defs with [] => List.concat (repeat (dvalues dv_std cn cfs nd) k) | _ :: _ => map (fun D => attr D n) defs end
                   = map (fun D => attr D n) defs) by (destruct defs; [cbn in L; lia | reflexivity]).
      rewrite NE. clear NE. set (cdefs := map (fun D => attr D n) defs).
      (* every member default is an instance of cn with well-formed attributes *)
      assert (CI : forall D', In D' cdefs -> exists vals, D' = VD cn vals /\ wf_attrs cfs vals = true).
      { intros D' Hin. apply in_map_iff in Hin as [D [<- HD]]. specialize (WD D HD).
        destruct (attr D n) as [v|c vals]; [destruct v; discriminate|].
        rewrite wf_inst_fld_nest in WD. apply andb_true_iff in WD as [Ec WA]. apply String.eqb_eq in Ec. subst c. now exists vals. }
      assert (CL : List.length cdefs = k) by (unfold cdefs; now rewrite map_length).
      assert (CF : Forall is_inst cdefs).
      { apply Forall_forall. intros D' Hin. destruct (CI D' Hin) as [vals [-> _]]. now exists cn, vals. }
      rewrite (map_res_ok _ (fun g => (fname g, attr (nth i cdefs vnone) (fname g)))).
      + assert (Hin : In (nth i cdefs vnone) cdefs) by (apply nth_In; lia).
        destruct (CI _ Hin) as [vals [E WA]].
        assert (E2 : attr (nth i defs vnone) n = VD cn vals).
        { rewrite <- E. unfold cdefs. change vnone with ((fun D => attr D n) vnone) at 2. now rewrite map_nth. }
        rewrite E2, E, (attrs_rebuild cn cfs vals WA ND). reflexivity.
      + intros g Hg. rewrite Forall_forall in IH. apply (IH g Hg cdefs CL CF).
        * rewrite forallb_forall in Wc. now apply Wc.
        * cbn [has_optional] in *. destruct (has_optional_fld g) eqn:Og; [|reflexivity].
          exfalso. assert (X : existsb has_optional_fld cfs = true) by (apply existsb_exists; now exists g). congruence.
        * intros D' HD'. destruct (CI D' HD') as [vals [-> WA]]. exact (attr_member cn cfs vals g WA ND Hg).
  Qed.

  Definition leaf_not_dealt (g : fld) : bool :=
    match g with FLeaf _ t d _ => negb (dealt_shape k t d) | FNest _ _ _ _ _ => true end.

  (* no destination was given a default instance: every destination gets the constructor's value *)
  Lemma uni_fld_construct g :
    wf_fld g = true -> has_optional_fld g = false -> pk_repaired chain || leaf_not_dealt g = true ->
    uni_fld order_std chain dv_std dup_std DInconsistent k i [] g = Ok (construct_fld g).
  Proof.
    destruct g as [n t d fac|n opt cn cfs nd]; intros W O ND.
    - cbn [uni_fld construct_fld]. unfold uni_leaf.
      assert (R : raw_default order_std None [] n d fac = (d, true)) by (destruct fac; reflexivity). rewrite R.
      cbn [wf_fld] in W. apply andb_true_iff in W as [C T].
      destruct (is_VNone d) eqn:EN.
      + destruct d; try discriminate. unfold package. rewrite (leb_k_1 k Hk). cbn [is_VNone orb].
        rewrite (duplicate_none t k Hk), (nth_repeat_lt VNone VNone k i Hi). now rewrite (postprocess_default_id t VNone C T).
      + assert (NN : d <> VNone) by (intros ->; discriminate).
        rewrite (package_single chain t k d Hchain Hk T NN ND), (leb_k_1 k Hk).
        rewrite (duplicate_list t k _ Hk (repeat_length d k)), (nth_repeat_lt d VNone k i Hi).
        now rewrite (postprocess_default_id t d C T).
    - destruct (wf_fld_nest _ _ _ _ _ W) as [Wc [NDn Wd]].
      cbn [has_optional_fld] in O. apply orb_false_iff in O as [-> Oc]. cbn [uni_fld construct_fld].
      rewrite dvalues_std, concat_repeat_single.
      assert (DV : exists vals, default_value cn cfs nd = VD cn vals /\ wf_attrs cfs vals = true
                                /\ match nd with DFac => VD cn (map construct_fld cfs) | DNone => vnone | DInst i0 => i0 end = VD cn vals).
      { destruct nd as [| |i0].
        - exists (construct_fields cfs). repeat split; auto. now apply construct_wf_attrs.
        - discriminate.
        - unfold wf_inst in Wd. destruct i0 as [v|c vals]; [discriminate|]. apply andb_true_iff in Wd as [Ec WA].
          apply String.eqb_eq in Ec. subst c. exists vals. auto. }
      destruct DV as [vals [E [WA E2]]]. rewrite E, E2.
      set (cdefs := repeat (VD cn vals) k).
      assert (CF : Forall is_inst cdefs).
      { apply Forall_forall. intros D HD. apply repeat_spec in HD. subst D. now exists cn, vals. }
      rewrite (map_res_ok _ (fun g => (fname g, attr (nth i cdefs vnone) (fname g)))).
      + unfold cdefs. rewrite (nth_repeat_lt _ vnone k i Hi), (attrs_rebuild cn cfs vals WA NDn). reflexivity.
      + intros g Hg. apply uni_fld_inst; auto.
        * unfold cdefs. apply repeat_length.
        * rewrite forallb_forall in Wc. now apply Wc.
        * cbn [has_optional] in *. destruct (has_optional_fld g) eqn:Og; [|reflexivity].
          exfalso. assert (X : existsb has_optional_fld cfs = true) by (apply existsb_exists; now exists g). congruence.
        * intros D HD. apply repeat_spec in HD. subst D. exact (attr_member cn cfs vals g WA NDn Hg).
  Qed.
End Uniform.

Lemma all_some_spec (l : list (option vt)) :
  (forall o, In o l -> is_some o = true) ->
  exists ds, all_some l = Some ds /\ List.length ds = List.length l
             /\ (forall j D, nth_error l j = Some (Some D) -> nth j ds vnone = D)
             /\ (forall D, In D ds -> In (Some D) l).
Proof.
  induction l as [|o r IH]; intros H.
  - exists []. repeat split; auto. intros [|j] D E; discriminate.
  - destruct o as [D0|]; [|specialize (H None (or_introl eq_refl)); discriminate].
    destruct IH as [ds [E [L [N I]]]]; [intros; apply H; now right|].
    exists (D0 :: ds). cbn [all_some]. rewrite E. repeat split; cbn; auto.
    + intros [|j] D Ej; cbn in Ej; [now injection Ej | now apply N].
    + intros D [->|HD]; [now left | right; now apply I].
Qed.

Lemma uniform_go_ok chain k c defs : forall l i,
  (forall j d ce De, nth_error l j = Some (d, ce, De) ->
     exists fs, uni_fields order_std chain dv_std dup_std DInconsistent k (i + j) (snd c) defs = Ok fs
                /\ VD (fst c) fs = match De with Some D => D | None => construct ce end) ->
  uniform_go order_std chain dv_std dup_std DInconsistent k c defs i l = Ok (spec_C01 l).
Proof.
  induction l as [|[[d ce] De] r IH]; intros i H; [reflexivity|].
  cbn [uniform_go]. destruct (H 0 d ce De eq_refl) as [fs [E1 E2]]. rewrite Nat.add_0_r in E1. rewrite E1.
  rewrite (IH (S i)).
  - unfold spec_C01. cbn [map]. now rewrite E2.
  - intros j d' ce' De' Ej. replace (S i + j) with (i + S j) by lia. exact (H (S j) d' ce' De' Ej).
Qed.

Theorem parse_uniform_meets chain c e0 e1 r :
  chain_known chain ->
  let f := e0 :: e1 :: r in
  wf_forest f = true ->
  (forall e : entry, In e f -> snd (fst e) = c) ->
  (forall e : entry, In e f -> is_some (snd e) = is_some (snd e0)) ->
  has_optional (snd c) = false ->
  no_dealt chain f = true ->
  parse_uniform order_std chain dv_std dup_std DInconsistent c f = Ok (spec_C01 f).
Proof.
  intros Hc f W SC SD NO NDl. subst f. remember (e0 :: e1 :: r) as f eqn:Ef. unfold parse_uniform.
  assert (Hk : 2 <= List.length f) by (rewrite Ef; cbn; lia).
  assert (In0 : In e0 f) by (rewrite Ef; now left).
  unfold wf_forest in W. apply andb_true_iff in W as [_ W]. rewrite forallb_forall in W.
  assert (WC : forallb wf_fld (snd c) = true /\ NoDup (map fname (snd c))).
  { specialize (W e0 In0). specialize (SC e0 In0). destruct e0 as [[d0 c0] D0].
    cbn [fst snd] in SC. subst c0. unfold wf_entry in W. apply andb_true_iff in W as [W _]. unfold wf_fields in W.
    apply andb_true_iff in W as [A B]. split; [exact A | now apply str_nodupb_NoDup]. }
  destruct WC as [Wc NDn].
  assert (OPT : forall g, In g (snd c) -> has_optional_fld g = false).
  { intros g Hg. destruct (has_optional_fld g) eqn:Og; [|reflexivity]. exfalso.
    assert (X : has_optional (snd c) = true) by (apply existsb_exists; now exists g). congruence. }
  apply uniform_go_ok. intros j d ce De Ej. cbn [Nat.add].
  assert (Hin : In (d, ce, De) f) by (eapply nth_error_In; exact Ej).
  assert (Hj : j < List.length f) by (apply (proj1 (nth_error_Some f j)); intros X; generalize (eq_trans (eq_sym X) Ej); discriminate).
  pose proof (SC _ Hin) as Ece. cbn [fst snd] in Ece. subst ce.
  destruct (snd e0) as [D0|] eqn:E0.
  - (* a default instance on every destination *)
    assert (AS : forall o, In o (map (fun e : entry => snd e) f) -> is_some o = true).
    { intros o Ho. apply in_map_iff in Ho as [e [<- He]]. rewrite (SD e He). reflexivity. }
    destruct (all_some_spec _ AS) as [ds [EA [L [N I]]]]. unfold uniform_defaults. rewrite EA. rewrite map_length in L.
    assert (WD : forall D, In D ds -> exists vals, D = VD (fst c) vals /\ wf_attrs (snd c) vals = true).
    { intros D HD. apply I in HD. apply in_map_iff in HD as [[[d' c'] D'] [E' He']]. cbn [snd] in E'. subst D'.
      pose proof (SC _ He') as Ec'. cbn [fst snd] in Ec'. subst c'. specialize (W _ He'). unfold wf_entry in W.
      apply andb_true_iff in W as [_ W]. unfold wf_inst in W. destruct D as [v|cn vals]; [discriminate|].
      apply andb_true_iff in W as [Ec WA]. apply String.eqb_eq in Ec. subst cn. now exists vals. }
    assert (DeS : exists D, De = Some D).
    { pose proof (SD _ Hin) as X. cbn [snd] in X. destruct De; [eauto | discriminate]. }
    destruct DeS as [D ->].
    assert (ND : nth j ds vnone = D).
    { apply N. exact (map_nth_error (fun e : entry => snd e) j f Ej). }
    assert (HD : In D ds) by (rewrite <- ND; apply nth_In; lia).
    destruct (WD D HD) as [vals [-> WA]].
    exists vals. split; [|reflexivity]. unfold uni_fields.
    rewrite (map_res_ok _ (fun g => (fname g, attr (nth j ds vnone) (fname g)))).
    + now rewrite ND, (attrs_rebuild (fst c) (snd c) vals WA NDn).
    + intros g Hg. apply uni_fld_inst; auto.
      * apply Forall_forall. intros D' HD'. destruct (WD D' HD') as [v' [-> _]]. now exists (fst c), v'.
      * rewrite forallb_forall in Wc. now apply Wc.
      * intros D' HD'. destruct (WD D' HD') as [v' [-> WA']]. exact (attr_member (fst c) (snd c) v' g WA' NDn Hg).
  - (* no default instance anywhere *)
    assert (DeN : De = None).
    { pose proof (SD _ Hin) as X. cbn [snd] in X. destruct De; [discriminate | reflexivity]. }
    subst De.
    assert (UD : uniform_defaults f = []).
    { unfold uniform_defaults. rewrite Ef. cbn [map]. rewrite E0. reflexivity. }
    rewrite UD. exists (construct_fields (snd c)). split; [|reflexivity]. unfold uni_fields, construct_fields.
    apply map_res_ok. intros g Hg. apply uni_fld_construct; auto.
    + rewrite forallb_forall in Wc. now apply Wc.
    + unfold no_dealt in NDl. destruct (pk_repaired chain); [reflexivity|]. cbn [orb] in *.
      pose proof (SC _ In0) as X. subst f. destruct e0 as [[d0 c0] D0]. cbn [snd] in E0. subst D0. cbn [fst snd] in X. subst c0.
      rewrite forallb_forall in NDl. specialize (NDl g Hg). destruct g; [exact NDl | reflexivity].
Qed.

(* ---------------------------------------------------------------------------------------------- *)
(* the whole run, every configuration                                                              *)
(* ---------------------------------------------------------------------------------------------- *)
Lemma shape3_repaired_fld : forall g hw E, shape3_free_fld GDefaultAndDefaults hw E g = true.
Proof.
  induction g as [|n opt cn cfs nd IH] using fld_ind'; intros hw E; [reflexivity|].
  cbn [shape3_free_fld]. destruct (match E with Some D => some_inst (attr D n) | None => some_inst (default_value cn cfs nd) end); [|reflexivity].
  cbn [guard_repaired]. rewrite !orb_true_r. cbn [andb]. apply forallb_forall. intros g Hg.
  rewrite Forall_forall in IH. now apply IH.
Qed.

Lemma shape3_repaired f : shape3_free GDefaultAndDefaults f = true.
Proof.
  unfold shape3_free. apply forallb_forall. intros [[d c] i] _. cbn beta iota. apply forallb_forall. intros g _. apply shape3_repaired_fld.
Qed.

Lemma uniform_scope_inv ma e0 e1 r :
  uniform_scope ma (e0 :: e1 :: r) = true ->
  (forall e : entry, In e (e0 :: e1 :: r) -> snd (fst e) = snd (fst e0))
  /\ (forall e : entry, In e (e0 :: e1 :: r) -> is_some (snd e) = is_some (snd e0))
  /\ has_optional (snd (snd (fst e0))) = false.
Proof.
  destruct e0 as [[d0 c0] i0]. unfold uniform_scope. cbn [fst snd]. intros U.
  apply andb_true_iff in U as [U H]. apply andb_true_iff in U as [U H0]. apply andb_true_iff in U as [U H1].
  apply andb_true_iff in U as [U H2].
  rewrite forallb_forall in U, H2. repeat split.
  - intros e [<-|He]; [reflexivity|]. apply dcls_beq_eq. now apply U.
  - intros e [<-|He]; [reflexivity|]. apply Bool.eqb_prop. now apply H2.
  - cbn [List.length Nat.leb orb] in H0. now apply negb_true_iff in H0.
Qed.

(* C03: the resolver fails with a ConflictResolutionError only *)
Lemma resolve_errors_CRE opts m fs e : resolve_gen opts m fs = Err e -> e = CRE.
Proof. exact (errors_are_CRE opts m max_attempts_gen fs e). Qed.

(* the run, with the regenerated facts computed away (a flipped fact makes this lemma fail) *)
Lemma sp_unfold c f : api_ok c f = true ->
  sp_parse_empty_gen c f =
  match p_mode c with
  | MPlain m => match resolve_gen (option_strings (p_cfg c)) m (forest_fws f) with
                | Err e => Err e
                | Ok _ => Ok (parse_plain guard_gen order_std factory_cached_gen dv_std f)
                end
  | MMerge => if uniform_scope max_attempts_gen f then
                if same_field_clashes (p_cfg c) then
                  match f with
                  | [_] => Ok (parse_plain guard_gen order_std factory_cached_gen dv_std f)
                  | (_, c0, _) :: _ => parse_uniform order_std pk_chain_gen dv_std dup_std DInconsistent c0 f
                  | [] => Ok []
                  end
                else Ok (parse_plain guard_gen order_std factory_cached_gen dv_std f)
              else parse_merge_gen (option_strings (p_cfg c)) f
  end.
Proof.
  intros A. unfold sp_parse_empty_gen, sp_parse_empty.
  change pipeline_std_gen with true. change forwards_default_gen with true. cbv beta iota zeta. cbn [negb].
  rewrite A. change (resets_self merge_resets_gen) with true. change init_caches_gen with true. rewrite !andb_true_r.
  destruct (p_api c); reflexivity.
Qed.

Theorem empty_defaults_partial c f :
  wf_forest f = true -> api_ok c f = true -> side_ok_gen c f = true ->
  meets_C01 f (sp_parse_empty_gen c f).
Proof.
  intros W A S. rewrite (sp_unfold c f A).
  unfold side_ok_gen, side_ok in S. destruct (p_mode c) as [m|].
  - destruct (resolve_gen (option_strings (p_cfg c)) m (forest_fws f)) as [fs|e] eqn:R.
    + cbn [meets_C01]. exact (parse_plain_meets guard_gen factory_cached_gen f W S).
    + rewrite (resolve_errors_CRE _ _ _ _ R). exact I.
  - apply andb_true_iff in S as [S S3]. apply andb_true_iff in S as [U NDl]. rewrite U.
    destruct (same_field_clashes (p_cfg c));
      [|cbn [meets_C01]; exact (parse_plain_meets guard_gen factory_cached_gen f W S3)].
    destruct f as [|e0 [|e1 r]].
    + discriminate.
    + destruct e0 as [[d0 c0] i0]. cbn [meets_C01]. exact (parse_plain_meets guard_gen factory_cached_gen _ W S3).
    + destruct (uniform_scope_inv _ _ _ _ U) as [SC [SD NO]].
      destruct e0 as [[d0 c0] i0]. cbn [fst snd] in SC, SD, NO.
      rewrite (parse_uniform_meets pk_chain_gen c0 (d0, c0, i0) e1 r pk_chain_known W SC SD NO NDl). reflexivity.
Qed.

(* once the guard of _create_dataclass_instance also looks at wrapper.defaults (#3 repaired), NONE / EXPLICIT / AUTO need no side
   condition at all *)
Theorem plain_full_if_guard_repaired :
  guard_gen = GDefaultAndDefaults ->
  forall c f m, p_mode c = MPlain m -> wf_forest f = true -> api_ok c f = true -> meets_C01 f (sp_parse_empty_gen c f).
Proof.
  intros G c f m M W A. apply empty_defaults_partial; auto.
  unfold side_ok_gen, side_ok. rewrite M, G. apply shape3_repaired.
Qed.

(* ---------------------------------------------------------------------------------------------- *)
(* the full-strength statement is false of the code as it is: witnesses                            *)
(* ---------------------------------------------------------------------------------------------- *)
Definition cfg_auto : pcfg := mkp (MPlain CRAuto) (mkcfg DUnderscore GFlat NDefault) AParser.
Definition cfg_merge : pcfg := mkp MMerge (mkcfg DUnderscore GFlat NDefault) AParser.
Definition cfg_parse : pcfg := mkp (MPlain CRAuto) (mkcfg DUnderscore GFlat NWithoutRoot) AParse.

Definition cls_Leaf : dcls := ("Leaf", [FLeaf "x" TInt (VInt 0) false; FLeaf "s" TStr (VStr "") false]).
(* #3   o: Optional[Leaf] = field(default_factory=Leaf) *)
Definition cls_T3 : dcls := ("T3", [FLeaf "y" TInt (VInt 5) false; FNest "o" true "Leaf" (snd cls_Leaf) DFac]).
Definition forest_3 : forest := [("d0", cls_T3, None)].
(* #4   xs: List[int] = [1, 2] at two destinations *)
Definition cls_M4 : dcls := ("M4", [FLeaf "xs" (TList TInt) (VList [VInt 1; VInt 2]) true]).
Definition forest_4 : forest := [("d0", cls_M4, None); ("d1", cls_M4, None)].
(* #19  a default instance on one of two merged destinations *)
Definition cls_In : dcls := ("In", [FLeaf "z" TInt (VInt 1) false]).
Definition cls_M19 : dcls := ("M19", [FLeaf "y" TInt (VInt 5) false; FNest "inner" false "In" (snd cls_In) DFac]).
Definition inst_M19 : vt := VD "M19" [("y", VL (VInt 9)); ("inner", VD "In" [("z", VL (VInt 4))])].
Definition forest_19 : forest := [("d0", cls_M19, Some inst_M19); ("d1", cls_M19, None)].
(* #20  a class that is nested twice and registered at top level *)
Definition cls_T20 : dcls := ("T20", [FNest "a" false "In" (snd cls_In) DFac; FNest "b" false "In" (snd cls_In) DFac]).
Definition forest_20 : forest := [("d0", cls_T20, None); ("d1", cls_In, None)].
(* an Optional member that is None by default comes back as an instance when its class is merged *)
Definition cls_T21 : dcls := ("T21", [FLeaf "y" TInt (VInt 5) false; FNest "o" true "In" (snd cls_In) DNone]).
Definition forest_21 : forest := [("d0", cls_T21, None); ("d1", cls_T21, None)].

(* #3 (Optional member with a default instance came back None) and #4 (a list default dealt out element-wise under ALWAYS_MERGE)
   were repaired in the repository; their shrunk inputs stay in corpus/C01 and are replayed first in every run.  forest_3 and
   forest_4 now satisfy the statement: *)
Lemma repaired_3_4 :
  meets_C01 forest_3 (sp_parse_empty_gen cfg_auto forest_3) /\ meets_C01 forest_3 (sp_parse_empty_gen cfg_parse forest_3)
  /\ meets_C01 forest_4 (sp_parse_empty_gen cfg_merge forest_4)
  /\ parse_merge_gen (option_strings (p_cfg cfg_merge)) forest_4 = Ok (spec_C01 forest_4).
Proof. vm_compute. repeat split; reflexivity. Qed.

Lemma witness_19 : wf_forest forest_19 = true /\ api_ok cfg_merge forest_19 = true
  /\ sp_parse_empty_gen cfg_merge forest_19
     = Ok [("d0", inst_M19); ("d1", VD "M19" [("y", VL (VInt 9)); ("inner", VD "In" [("z", VL (VInt 1))])])]
  /\ ~ meets_C01 forest_19 (sp_parse_empty_gen cfg_merge forest_19).
Proof. vm_compute. repeat split; try reflexivity. intros H. discriminate H. Qed.

Lemma witness_20 : wf_forest forest_20 = true /\ api_ok cfg_merge forest_20 = true
  /\ sp_parse_empty_gen cfg_merge forest_20 = Err (Raise "ValueError")
  /\ ~ meets_C01 forest_20 (sp_parse_empty_gen cfg_merge forest_20).
Proof. vm_compute. repeat split; try reflexivity. intros H. exact H. Qed.

Lemma witness_21 : wf_forest forest_21 = true /\ api_ok cfg_merge forest_21 = true
  /\ sp_parse_empty_gen cfg_merge forest_21
     = Ok [("d0", VD "T21" [("y", VL (VInt 5)); ("o", VD "In" [("z", VL (VInt 1))])]);
           ("d1", VD "T21" [("y", VL (VInt 5)); ("o", VD "In" [("z", VL (VInt 1))])])]
  /\ ~ meets_C01 forest_21 (sp_parse_empty_gen cfg_merge forest_21).
Proof. vm_compute. repeat split; try reflexivity. intros H. discriminate H. Qed.

Definition full_statement : Prop :=
  forall c f, wf_forest f = true -> api_ok c f = true -> meets_C01 f (sp_parse_empty_gen c f).

(* refuted by #19 (a known finding) *)
Theorem empty_defaults_refuted : ~ full_statement.
Proof.
  intros F. destruct witness_19 as [W [A [_ N]]]. exact (N (F cfg_merge forest_19 W A)).
Qed.
(* NONE / EXPLICIT / AUTO: the full-strength statement, no side condition (the regenerated guard is the repaired one) *)
Theorem plain_full : forall c f m,
  p_mode c = MPlain m -> wf_forest f = true -> api_ok c f = true -> meets_C01 f (sp_parse_empty_gen c f).
Proof. exact (plain_full_if_guard_repaired eq_refl). Qed.
Theorem refuted_by_partial_default_instances :
  exists c f, wf_forest f = true /\ api_ok c f = true /\ ~ meets_C01 f (sp_parse_empty_gen c f).
Proof. exists cfg_merge, forest_19. destruct witness_19 as [W [A [_ N]]]. auto. Qed.
Theorem refuted_by_merge_at_different_depths :
  exists c f, wf_forest f = true /\ api_ok c f = true /\ sp_parse_empty_gen c f = Err (Raise "ValueError").
Proof. exists cfg_merge, forest_20. destruct witness_20 as [W [A [E _]]]. auto. Qed.
Theorem refuted_by_merged_optional_member :
  exists c f, wf_forest f = true /\ api_ok c f = true /\ ~ meets_C01 f (sp_parse_empty_gen c f).
Proof. exists cfg_merge, forest_21. destruct witness_21 as [W [A [_ N]]]. auto. Qed.

(* ---------------------------------------------------------------------------------------------- *)
(* statements re-exported by Properties/C01.v                                                      *)
(* ---------------------------------------------------------------------------------------------- *)
Theorem default_resolves n d fac D :
  is_inst D ->
  leaf_default_gen n d fac (Some D) [D] = as_value (attr D n)      (* the wrapper's own default instance (caller / parent attribute) *)
  /\ leaf_default_gen n d fac None [D] = as_value (attr D n)       (* the default list of the parent wrapper (member default factory) *)
  /\ leaf_default_gen n d fac None [] = d                          (* the field default / the cached default_factory value *)
  /\ leaf_default_gen n d fac None [vnone] = d.                    (* below an Optional member that is None *)
Proof.
  intros I. repeat split.
  - exact (default_from_wrapper_default factory_cached_gen n d fac D I).
  - exact (default_from_parent_default factory_cached_gen n d fac D I).
  - exact (default_from_field factory_cached_gen n d fac).
  - exact (default_under_none factory_cached_gen n d fac).
Qed.

Theorem bottom_up_rebuilds cn fs vals has_wd :
  wf_fields fs = true -> wf_inst cn fs (VD cn vals) = true ->
  forallb (shape3_free_fld guard_gen has_wd (Some (VD cn vals))) fs = true ->
  VD cn (run_fields_gen fs (if has_wd then Some (VD cn vals) else None) [VD cn vals]) = VD cn vals.
Proof.
  intros W WI S3. unfold wf_fields in W. apply andb_true_iff in W as [Wc Wn]. apply str_nodupb_NoDup in Wn.
  unfold wf_inst in WI. apply andb_true_iff in WI as [_ WA]. f_equal.
  exact (run_fields_inst guard_gen factory_cached_gen fs has_wd cn vals Wc Wn WA S3).
Qed.

Theorem constructor_value_rebuilt c :
  wf_fields (snd c) = true -> forallb (shape3_free_fld guard_gen false None) (snd c) = true ->
  VD (fst c) (run_fields_gen (snd c) None []) = construct c.
Proof.
  intros W S3. unfold wf_fields in W. apply andb_true_iff in W as [Wc _]. unfold construct. f_equal.
  exact (run_fields_construct guard_gen factory_cached_gen (snd c) Wc S3).
Qed.

Theorem side_plain_is_shape3 c f m : p_mode c = MPlain m -> side_ok_gen c f = shape3_free guard_gen f.
Proof. intros M. unfold side_ok_gen, side_ok. now rewrite M. Qed.

Theorem no_dealt_repaired chain f : pk_repaired chain = true -> no_dealt chain f = true.
Proof. intros P. unfold no_dealt. now rewrite P. Qed.

(* the shapes of the code sites the model relies on, as regenerated from the source on this run (an edit of one of these sites
   changes the regenerated constant or makes the translator fail closed: this lemma, and sp_unfold, then no longer hold) *)
Definition post_arms_std : list post_arm :=
  [PaEnumByName; PaChoiceDict; PaTupleOfSeq; PaBoolId; PaListOfTuple; PaSubparserId; PaOptTupleOfList; PaCallType].
Theorem code_shapes :
  default_sources_gen = order_std /\ default_value_sources_gen = dv_std
  /\ dup_chain_gen = dup_std /\ dup_else_gen = DInconsistent
  /\ merge_resets_gen = MrSelf /\ init_caches_gen = true
  /\ forwards_default_gen = true /\ pipeline_std_gen = true
  /\ postprocess_arms_gen = post_arms_std          (* Model/Leaf.v postprocess hard-codes these arm bodies, in this order *)
  /\ deepest_first_gen = true /\ parse_is_parser_gen = true /\ merge_rest_sorted_gen = false.
Proof. repeat split; reflexivity. Qed.

(* non-vacuity *)
Definition cls_NV : dcls :=
  ("T", [FLeaf "y" TInt (VInt 0) false;
         FLeaf "xs" (TList TStr) (VList []) true;
         FLeaf "t" (TOpt (TTupVar TInt)) VNone false;
         FNest "o" true "Leaf" (snd cls_Leaf) DNone;
         FNest "p" true "Leaf" (snd cls_Leaf) DFac;
         FNest "n" false "In" (snd cls_In) (DInst (VD "In" [("z", VL (VInt 7))]))]).
Definition inst_NV : vt :=
  VD "T" [("y", VL (VInt 3)); ("xs", VL (VList [VStr ""; VStr "a"])); ("t", VL (VTup [VInt 1]));
          ("o", VD "Leaf" [("x", VL (VInt 2)); ("s", VL (VStr "k"))]); ("p", VL VNone); ("n", VD "In" [("z", VL (VInt 0))])].
Definition forest_NV : forest := [("d0", cls_NV, Some inst_NV); ("d1", cls_In, None)].
Definition forest_NV_merge : forest :=
  [("d0", cls_M19, Some inst_M19); ("d1", cls_M19, Some (VD "M19" [("y", VL (VInt 0)); ("inner", VD "In" [("z", VL (VInt 0))])]))].

Lemma nonvacuous :
  wf_forest forest_NV = true /\ api_ok cfg_auto forest_NV = true /\ side_ok_gen cfg_auto forest_NV = true
  /\ sp_parse_empty_gen cfg_auto forest_NV = Ok [("d0", inst_NV); ("d1", VD "In" [("z", VL (VInt 1))])]
  /\ wf_forest forest_NV_merge = true /\ side_ok_gen cfg_merge forest_NV_merge = true
  /\ sp_parse_empty_gen cfg_merge forest_NV_merge = Ok (spec_C01 forest_NV_merge)
  /\ parse_merge_gen (option_strings (p_cfg cfg_merge)) forest_NV_merge = Ok (spec_C01 forest_NV_merge).
Proof. vm_compute. repeat split; reflexivity. Qed.
