(* Proofs/DefaultsProofs.v — C01: the model of "parse an empty command line" (instantiated with the regenerated facts) against the
   spec "every destination holds the caller's default instance or what the constructor builds by itself".
   Induction on the class tree (nested induction on fld, no depth bound); all configurations. *)
From SPV Require Import Base.Str Model.Leaf Model.LeafSpec Model.OptStr Model.Defaults Model.DefaultsSpec
     Gen.FactsConflicts Gen.FactsDefaults Proofs.ConflictsProofs.
Open Scope string_scope.

(* ---------------------------------------------------------------------------------------------- *)
(* induction principles for the nested types                                                        *)
(* ---------------------------------------------------------------------------------------------- *)
Section ValueInd.
  Variable P : value -> Prop.
  Hypothesis HInt : forall z, P (VInt z).
  Hypothesis HFlt : forall n i f, P (VFlt n i f).
  Hypothesis HStr : forall s, P (VStr s).
  Hypothesis HBool : forall b, P (VBool b).
  Hypothesis HNone : P VNone.
  Hypothesis HEnum : forall m, P (VEnum m).
  Hypothesis HPath : forall s, P (VPath s).
  Hypothesis HList : forall vs, Forall P vs -> P (VList vs).
  Hypothesis HTup : forall vs, Forall P vs -> P (VTup vs).
  Fixpoint value_ind' (v : value) : P v :=
    match v with
    | VInt z => HInt z | VFlt n i f => HFlt n i f | VStr s => HStr s | VBool b => HBool b
    | VNone => HNone | VEnum m => HEnum m | VPath s => HPath s
    | VList vs => HList vs ((fix go (l : list value) : Forall P l :=
                               match l with [] => Forall_nil P | x :: r => Forall_cons x (value_ind' x) (go r) end) vs)
    | VTup vs => HTup vs ((fix go (l : list value) : Forall P l :=
                             match l with [] => Forall_nil P | x :: r => Forall_cons x (value_ind' x) (go r) end) vs)
    end.
End ValueInd.

Section FldInd.
  Variable P : fld -> Prop.
  Hypothesis HLeaf : forall n t d fac, P (FLeaf n t d fac).
  Hypothesis HNest : forall n opt cn cfs nd, Forall P cfs -> P (FNest n opt cn cfs nd).
  Fixpoint fld_ind' (f : fld) : P f :=
    match f with
    | FLeaf n t d fac => HLeaf n t d fac
    | FNest n opt cn cfs nd =>
        HNest n opt cn cfs nd ((fix go (l : list fld) : Forall P l :=
                                  match l with [] => Forall_nil P | x :: r => Forall_cons x (fld_ind' x) (go r) end) cfs)
    end.
End FldInd.

(* ---------------------------------------------------------------------------------------------- *)
(* values                                                                                           *)
(* ---------------------------------------------------------------------------------------------- *)
Lemma value_eqb_refl v : value_eqb v v = true.
Proof.
  induction v using value_ind'; cbn [value_eqb]; auto using Z.eqb_refl, String.eqb_refl.
  - rewrite Bool.eqb_reflx, Z.eqb_refl, String.eqb_refl. reflexivity.
  - apply Bool.eqb_reflx.
  - induction H as [|x r Hx _ IH]; [reflexivity | rewrite Hx, IH; reflexivity].
  - induction H as [|x r Hx _ IH]; [reflexivity | rewrite Hx, IH; reflexivity].
Qed.

Lemma value_eqb_VStr v s : value_eqb v (VStr s) = true -> v = VStr s.
Proof. destruct v; cbn; try discriminate. intros H. apply String.eqb_eq in H. now subst. Qed.
Lemma value_eqb_VInt v z : value_eqb v (VInt z) = true -> v = VInt z.
Proof. destruct v; cbn; try discriminate. intros H. apply Z.eqb_eq in H. now subst. Qed.

(* ---------------------------------------------------------------------------------------------- *)
(* postprocess_default_id: post-processing a well-typed default is the identity                      *)
(* (falsy values 0 / '' / False / [] / () / None are ordinary well-typed values here)               *)
(* ---------------------------------------------------------------------------------------------- *)
Lemma find_unique {A} (key : A -> string) (l : list A) (a : A) :
  NoDup (map key l) -> In a l -> find (fun x => String.eqb (key x) (key a)) l = Some a.
Proof.
  induction l as [|x r IH]; intros ND Hin; [destruct Hin|].
  cbn [map] in ND. inversion ND as [|? ? Hnot ND']; subst. cbn [find].
  destruct Hin as [->|Hin].
  - now rewrite String.eqb_refl.
  - destruct (String.eqb (key x) (key a)) eqn:E.
    + apply String.eqb_eq in E. exfalso. apply Hnot. rewrite E. now apply in_map.
    + now apply IH.
Qed.

Lemma lookup_lit_member cs l :
  lit_names_distinct cs = true -> In l cs -> lookup_lit cs (lit_name l) = Some (lit_value l).
Proof.
  intros D Hin. unfold lookup_lit, lit_names_distinct in *. apply str_nodupb_NoDup in D.
  assert (ND : NoDup (map lit_name (rev cs))) by (rewrite map_rev; now apply NoDup_rev).
  rewrite (find_unique lit_name (rev cs) l ND); [reflexivity | now apply in_rev in Hin].
Qed.

Lemma post_lit cs v : lit_names_distinct cs = true -> has_type v (TLit cs) = true -> post (TLit cs) v = v.
Proof.
  intros D H. cbn [has_type] in H. apply existsb_exists in H as [l [Hin He]].
  destruct l as [s|z]; cbn [lit_value] in He.
  - apply value_eqb_VStr in He. subst v. unfold post. cbn [raw_of_value postprocess].
    change s with (lit_name (LStr s)). rewrite (lookup_lit_member cs (LStr s) D Hin). reflexivity.
  - apply value_eqb_VInt in He. subst v. reflexivity.
Qed.

Lemma postprocess_default_id t v : cli_type t = true -> has_type v t = true -> post t v = v.
Proof.
  intros C H. destruct t.
  - destruct v; cbn in H; try discriminate; reflexivity.
  - destruct v; cbn in H; try discriminate; reflexivity.
  - destruct v; cbn in H; try discriminate; reflexivity.
  - destruct v; cbn in H; try discriminate; reflexivity.
  - destruct v; cbn in H; try discriminate; reflexivity.
  - destruct v; cbn in H; try discriminate; reflexivity.
  - apply post_lit; [|exact H]. cbn [cli_type] in C. now apply andb_true_iff in C as [_ C].
  - destruct v; cbn in H; try discriminate; reflexivity.
  - destruct v; cbn in H; try discriminate; reflexivity.
  - destruct v; cbn in H; try discriminate; reflexivity.
  - cbn [cli_type] in C.
    destruct v; try reflexivity; destruct t; cbn in C, H; try discriminate; try reflexivity.
Qed.

(* ---------------------------------------------------------------------------------------------- *)
(* default_resolves: FieldWrapper.default along the three propagation paths                          *)
(* ---------------------------------------------------------------------------------------------- *)
Definition order_std : list dsource := [SManual; SSubgroup; SParentDefaults; SFieldDefault; SFactory; SStoreTrue; SStoreFalse].
Lemma order_is_std : default_sources_gen = order_std.
Proof. reflexivity. Qed.

Definition is_inst (D : vt) : Prop := exists cn vals, D = VD cn vals.

Lemma norm_manual_spec v : norm_manual v = None /\ v = VNone \/ norm_manual v = Some v /\ v <> VNone.
Proof. destruct v; cbn; auto; right; split; auto; discriminate. Qed.

Section Resolve.
  Variable cached : bool.
  Let ld := leaf_default order_std cached.

  (* (1) the wrapper was handed a default instance: its attribute (set_default, or the parent-defaults arm when it is None) *)
  Lemma default_from_wrapper_default n d fac D :
    is_inst D -> ld n d fac (Some D) [D] = as_value (attr D n).
  Proof.
    intros [cn [vals ->]]. unfold ld, leaf_default, manual_init.
    destruct (norm_manual_spec (as_value (attr (VD cn vals) n))) as [[-> E]|[-> _]]; reflexivity.
  Qed.

  (* (2) no default instance for the wrapper, but the parent's default list holds an instance (member default factory) *)
  Lemma default_from_parent_default n d fac D :
    is_inst D -> ld n d fac None [D] = as_value (attr D n).
  Proof. intros [cn [vals ->]]. reflexivity. Qed.

  (* (3) nothing above: the field's own default / the cached factory value *)
  Lemma default_from_field n d fac : ld n d fac None [] = d.
  Proof.
    unfold ld, leaf_default, manual_init. cbn [non_none filter].
    destruct cached, fac; cbn; try reflexivity.
    destruct (norm_manual_spec d) as [[-> E]|[-> _]]; cbn; [|reflexivity]. reflexivity.
  Qed.

  (* (3') the parent's default list only holds None (an Optional member that is None): the field's own default again *)
  Lemma default_under_none n d fac : ld n d fac None [vnone] = d.
  Proof.
    unfold ld, leaf_default, manual_init. cbn [non_none filter is_vnone vnone negb].
    destruct cached, fac; cbn; try reflexivity.
    destruct (norm_manual_spec d) as [[-> E]|[-> _]]; cbn; [|reflexivity]. reflexivity.
  Qed.
End Resolve.

(* ---------------------------------------------------------------------------------------------- *)
(* instances                                                                                        *)
(* ---------------------------------------------------------------------------------------------- *)
Lemma wf_inst_fld_nest n opt cn cfs nd c vals :
  wf_inst_fld (FNest n opt cn cfs nd) (VD c vals) = String.eqb c cn && wf_attrs cfs vals.
Proof. reflexivity. Qed.

Lemma wf_attrs_length fs vals : wf_attrs fs vals = true -> List.length fs = List.length vals.
Proof.
  revert vals. induction fs as [|g rf IH]; intros [|[n x] rv] H; cbn in H; try discriminate; [reflexivity|].
  apply andb_true_iff in H as [_ H]. cbn. f_equal. now apply IH.
Qed.

Lemma wf_attrs_names fs vals : wf_attrs fs vals = true -> map fst vals = map fname fs.
Proof.
  revert vals. induction fs as [|g rf IH]; intros [|[n x] rv] H; cbn in H; try discriminate; [reflexivity|].
  apply andb_true_iff in H as [H1 H]. apply andb_true_iff in H1 as [Hn _]. apply String.eqb_eq in Hn.
  cbn. rewrite Hn. f_equal. now apply IH.
Qed.

Lemma wf_attrs_in fs vals g n x :
  wf_attrs fs vals = true -> In (g, (n, x)) (combine fs vals) -> n = fname g /\ wf_inst_fld g x = true /\ In (n, x) vals.
Proof.
  revert vals. induction fs as [|g0 rf IH]; intros [|[n0 x0] rv] H Hin; cbn in H, Hin; try contradiction; try discriminate.
  apply andb_true_iff in H as [H1 H]. apply andb_true_iff in H1 as [Hn Hw]. apply String.eqb_eq in Hn.
  destruct Hin as [E|Hin].
  - inversion E; subst. repeat split; auto. now left.
  - destruct (IH rv H Hin) as [A [B C]]. repeat split; auto. now right.
Qed.

Lemma attr_at cn fs vals g n x :
  wf_attrs fs vals = true -> NoDup (map fname fs) -> In (g, (n, x)) (combine fs vals) ->
  attr (VD cn vals) (fname g) = x /\ n = fname g /\ wf_inst_fld g x = true.
Proof.
  intros W ND Hin. destruct (wf_attrs_in fs vals g n x W Hin) as [Hn [Hw Hv]]. subst n.
  repeat split; auto. unfold attr.
  assert (ND' : NoDup (map fst vals)) by (rewrite (wf_attrs_names fs vals W); exact ND).
  pose proof (find_unique (fun p : string * vt => fst p) vals (fname g, x) ND' Hv) as F. cbn [fst] in F.
  rewrite F. reflexivity.
Qed.

Lemma map_pointwise {A B} (F : A -> B) l1 l2 :
  List.length l1 = List.length l2 -> (forall a b, In (a, b) (combine l1 l2) -> F a = b) -> map F l1 = l2.
Proof.
  revert l2. induction l1 as [|a r IH]; intros [|b r2] L H; cbn in L; try discriminate; [reflexivity|].
  cbn. f_equal; [apply H; now left | apply IH; [now injection L | intros; apply H; now right]].
Qed.

Lemma Forall_combine_l {A B} (P : A -> Prop) (l1 : list A) (l2 : list B) a b :
  Forall P l1 -> In (a, b) (combine l1 l2) -> P a.
Proof. intros F Hin. apply in_combine_l in Hin. rewrite Forall_forall in F. now apply F. Qed.

(* the constructor's own result is a well-formed instance *)
Lemma construct_wf_fld : forall g, wf_fld g = true -> wf_inst_fld g (snd (construct_fld g)) = true /\ fst (construct_fld g) = fname g.
Proof.
  induction g using fld_ind'; intros W.
  - cbn in *. apply andb_true_iff in W as [_ W]. auto.
  - cbn [wf_fld] in W. apply andb_true_iff in W as [W Wd]. apply andb_true_iff in W as [Wc Wn].
    split; [|reflexivity]. cbn [construct_fld snd]. destruct nd.
    + rewrite wf_inst_fld_nest, String.eqb_refl. cbn [andb].
      clear Wd Wn. induction cfs as [|g r IHr]; [reflexivity|].
      cbn [forallb] in Wc. apply andb_true_iff in Wc as [Wg Wr]. inversion H as [|? ? Pg Pr]; subst.
      destruct (Pg Wg) as [A B]. cbn [map wf_attrs]. destruct (construct_fld g) as [m x]. cbn [fst snd] in *.
      subst m. rewrite String.eqb_refl, A. cbn [andb]. now apply IHr.
    + cbn. exact Wd.
    + unfold wf_inst in Wd. destruct i as [v|c vals]; [discriminate|]. now rewrite wf_inst_fld_nest.
Qed.

Lemma construct_wf_attrs cfs : forallb wf_fld cfs = true -> wf_attrs cfs (construct_fields cfs) = true.
Proof.
  induction cfs as [|g r IH]; intros W; [reflexivity|].
  cbn [forallb] in W. apply andb_true_iff in W as [Wg Wr]. destruct (construct_wf_fld g Wg) as [A B].
  unfold construct_fields in *. cbn [map wf_attrs]. destruct (construct_fld g) as [n x]. cbn [fst snd] in *. subst n.
  rewrite String.eqb_refl, A. cbn [andb]. now apply IH.
Qed.

(* ---------------------------------------------------------------------------------------------- *)
(* NONE / EXPLICIT / AUTO: bottom-up instantiation rebuilds the default instance / the constructor's  *)
(* ---------------------------------------------------------------------------------------------- *)
Lemma wf_fld_nest n opt cn cfs nd :
  wf_fld (FNest n opt cn cfs nd) = true ->
  forallb wf_fld cfs = true /\ NoDup (map fname cfs)
  /\ match nd with DFac => True | DNone => opt = true | DInst i => wf_inst cn cfs i = true end.
Proof.
  cbn [wf_fld]. intros W. apply andb_true_iff in W as [W Wd]. apply andb_true_iff in W as [Wc Wn].
  repeat split; auto; [now apply str_nodupb_NoDup | destruct nd; auto].
Qed.

Lemma is_inst_not_vnone D : is_inst D -> is_vnone D = false.
Proof. intros [cn [vals ->]]. reflexivity. Qed.

Section Plain.
  Variable g0 : guard_kind.
  Variable cached : bool.

  Definition wdof (has_wd : bool) (D : vt) : option vt := if has_wd then Some D else None.

  Lemma leaf_default_inst has_wd n d fac D :
    is_inst D -> leaf_default order_std cached n d fac (wdof has_wd D) [D] = as_value (attr D n).
  Proof.
    intros I. destruct has_wd; cbn [wdof].
    - now apply default_from_wrapper_default.
    - now apply default_from_parent_default.
  Qed.

  (* under an Optional member that is None, every leaf argument equals its default: the member comes back None *)
  Lemma leaves_at_default_none cfs :
    forallb wf_fld cfs = true ->
    leaves_at_default order_std cached cfs (map (run_fld g0 order_std cached None [vnone]) cfs) None [vnone] = true.
  Proof.
    induction cfs as [|g r IH]; intros W; [reflexivity|].
    cbn [forallb] in W. apply andb_true_iff in W as [Wg Wr]. destruct g as [n t d fac|n opt cn cfs nd].
    - cbn [map run_fld leaves_at_default]. rewrite default_under_none.
      cbn [wf_fld] in Wg. apply andb_true_iff in Wg as [C T]. rewrite (postprocess_default_id t d C T).
      cbn [vt_eqb]. rewrite value_eqb_refl. cbn [andb]. now apply IH.
    - cbn [map leaves_at_default]. destruct (run_fld g0 order_std cached None [vnone] (FNest n opt cn cfs nd)). now apply IH.
  Qed.

  Lemma guard_none_vnone : guard_none g0 None [vnone] = true.
  Proof. destruct g0; reflexivity. Qed.

  (* a wrapper whose default list holds the instance D (handed down from the caller: has_wd, or from a member's default factory) *)
  Lemma run_fld_inst : forall g has_wd D x,
    is_inst D -> wf_fld g = true -> wf_inst_fld g x = true -> attr D (fname g) = x ->
    shape3_free_fld g0 has_wd (Some D) g = true ->
    run_fld g0 order_std cached (wdof has_wd D) [D] g = (fname g, x).
  Proof.
    induction g as [n t d fac|n opt cn cfs nd IH] using fld_ind'; intros has_wd D x I W WI A S3.
    - cbn [run_fld fname] in *. rewrite (leaf_default_inst has_wd n d fac D I), A.
      cbn [wf_inst_fld] in WI. destruct x as [v|]; [|discriminate]. cbn [as_value].
      cbn [wf_fld] in W. apply andb_true_iff in W as [C _]. now rewrite (postprocess_default_id t v C WI).
    - destruct (wf_fld_nest _ _ _ _ _ W) as [Wc [ND _]].
      cbn [fname] in A. cbn [run_fld fname].
      assert (CD : child_default (wdof has_wd D) n = if has_wd then some_inst x else None)
        by (destruct has_wd; cbn [wdof child_default]; [now rewrite A | reflexivity]).
      rewrite CD. destruct x as [v|c vals].
      + (* the member is None in D *)
        cbn [wf_inst_fld] in WI. destruct v; try discriminate. subst opt.
        assert (E : (if has_wd then some_inst (VL VNone) else None) = None) by (destruct has_wd; reflexivity).
        rewrite E. cbn [child_defaults map]. rewrite (is_inst_not_vnone D I), A.
        change (VL VNone) with vnone. rewrite guard_none_vnone, (leaves_at_default_none cfs Wc). reflexivity.
      + rewrite wf_inst_fld_nest in WI. apply andb_true_iff in WI as [Ec WA]. apply String.eqb_eq in Ec. subst c.
        cbn [shape3_free_fld] in S3. rewrite A in S3. cbn [some_inst is_vnone] in S3.
        apply andb_true_iff in S3 as [S3a S3c].
        assert (IX : is_inst (VD cn vals)) by (now exists cn, vals).
        assert (V : forall hw, hw = has_wd ->
                  map (run_fld g0 order_std cached (wdof hw (VD cn vals)) [VD cn vals]) cfs = vals).
        { intros hw ->. apply map_pointwise; [now apply wf_attrs_length|].
          intros g [m y] Hin. destruct (attr_at cn cfs vals g m y WA ND Hin) as [At [-> Wy]].
          apply (Forall_combine_l _ _ _ _ _ IH Hin); auto.
          - rewrite forallb_forall in Wc. apply Wc. now apply in_combine_l in Hin.
          - rewrite forallb_forall in S3c. apply S3c. now apply in_combine_l in Hin. }
        destruct has_wd.
        * cbn [some_inst is_vnone child_defaults]. change (Some (VD cn vals)) with (wdof true (VD cn vals)).
          rewrite (V true eq_refl). cbn [wdof guard_none]. now rewrite andb_false_r.
        * cbn [child_defaults map]. rewrite (is_inst_not_vnone D I), A.
          change (@None vt) with (wdof false (VD cn vals)). rewrite (V false eq_refl). cbn [wdof].
          cbn [orb] in S3a. apply orb_true_iff in S3a as [O|G].
          -- apply negb_true_iff in O. subst opt. reflexivity.
          -- destruct g0; [discriminate|]. cbn [guard_none forallb is_vnone]. now rewrite andb_false_r.
  Qed.
