(* Proofs/ConflictsGroup.v — pure list algebra: the dict-of-lists reading of ConflictResolver.get_conflict (what the regenerated
   source computes: group the (option string, holder) pairs by option string in insertion order, take the first group with two
   holders) is Model/OptStr.v first_conflict / get_conflict.  No interpreter here. *)
From SPV Require Import Base.Str Model.OptStr Proofs.ConflictsProofs.

Definition gdict := list (string * list nat).
Fixpoint dict_append (o : string) (i : nat) (g : gdict) : gdict :=
  match g with
  | [] => [(o, [i])]
  | (o', l) :: t => if String.eqb o' o then (o', (l ++ [i])%list) :: t else (o', l) :: dict_append o i t
  end.
Definition group (tbl : list (string * nat)) : gdict := fold_left (fun g p => dict_append (fst p) (snd p) g) tbl [].
Definition first_multi (g : gdict) : option (string * list nat) := find (fun p => Nat.ltb 1 (List.length (snd p))) g.

(* keys in the order of their first occurrence *)
Definition keys_step (ks : list string) (p : string * nat) : list string := if str_in (fst p) ks then ks else (ks ++ [fst p])%list.
Definition keys_of (tbl : list (string * nat)) : list string := fold_left keys_step tbl [].

Lemma holders_snoc o t k i : holders o (t ++ [(k, i)]) = (holders o t ++ (if String.eqb k o then [i] else []))%list.
Proof. unfold holders. rewrite filter_app, map_app. cbn [filter fst]. destruct (String.eqb k o); reflexivity. Qed.

Lemma holders_not_key t : forall o, ~ In o (map fst t) -> holders o t = [].
Proof.
  unfold holders. induction t as [|[k i] r IH]; intros o H; [reflexivity|]. cbn [filter fst map] in *.
  destruct (String.eqb k o) eqn:E; [apply String.eqb_eq in E; subst; exfalso; apply H; left; reflexivity|].
  apply IH. intros Hin. apply H. right. exact Hin.
Qed.

Lemma keys_of_snoc t p : keys_of (t ++ [p]) = keys_step (keys_of t) p.
Proof. unfold keys_of. rewrite fold_left_app. reflexivity. Qed.

Lemma keys_of_in t : forall o, In o (keys_of t) <-> In o (map fst t).
Proof.
  induction t as [|p t IH] using rev_ind; intros o; [reflexivity|].
  rewrite keys_of_snoc, map_app, in_app_iff. unfold keys_step. cbn [map In].
  destruct (str_in (fst p) (keys_of t)) eqn:E.
  - apply str_in_In in E. rewrite IH. split; [auto|]. intros [H|[<-|[]]]; [exact H|]. apply IH. exact E.
  - rewrite in_app_iff, IH. cbn [In]. reflexivity.
Qed.

Lemma keys_of_nodup t : NoDup (keys_of t).
Proof.
  induction t as [|p t IH] using rev_ind; [constructor|]. rewrite keys_of_snoc. unfold keys_step.
  destruct (str_in (fst p) (keys_of t)) eqn:E; [exact IH|].
  apply str_in_false in E. apply NoDup_app_local; [exact IH | constructor; [intros []|constructor] |].
  intros x Hx [<-|[]]. contradiction.
Qed.

(* appending to the entry of a key that is present exactly once; adding a new entry otherwise *)
Lemma dict_append_present o i (h : string -> list nat) : forall ks,
  In o ks -> NoDup ks ->
  dict_append o i (map (fun k => (k, h k)) ks) = map (fun k => (k, if String.eqb k o then (h k ++ [i])%list else h k)) ks.
Proof.
  induction ks as [|k t IH]; intros Hin N; [contradiction|]. inversion N as [|? ? Hk Ht]; subst.
  cbn [map dict_append]. destruct (String.eqb k o) eqn:E.
  - apply String.eqb_eq in E. subst k. f_equal. apply map_ext_in. intros x Hx.
    destruct (String.eqb x o) eqn:E2; [apply String.eqb_eq in E2; subst; contradiction | reflexivity].
  - f_equal. apply IH; [|exact Ht]. destruct Hin as [->|H]; [rewrite String.eqb_refl in E; discriminate | exact H].
Qed.
Lemma dict_append_absent o i (h : string -> list nat) : forall ks,
  ~ In o ks -> dict_append o i (map (fun k => (k, h k)) ks) = (map (fun k => (k, h k)) ks ++ [(o, [i])])%list.
Proof.
  induction ks as [|k t IH]; intros H; [reflexivity|]. cbn [map dict_append app].
  destruct (String.eqb k o) eqn:E; [apply String.eqb_eq in E; subst; exfalso; apply H; left; reflexivity|].
  f_equal. apply IH. intros Hin. apply H. right. exact Hin.
Qed.

Lemma group_keys t : group t = map (fun k => (k, holders k t)) (keys_of t).
Proof.
  induction t as [|[o i] t IH] using rev_ind; [reflexivity|].
  unfold group in *. rewrite fold_left_app. cbn [fold_left fst snd]. rewrite IH, keys_of_snoc. unfold keys_step. cbn [fst].
  destruct (str_in o (keys_of t)) eqn:E.
  - apply str_in_In in E. rewrite (dict_append_present o i (fun k => holders k t) _ E (keys_of_nodup t)).
    apply map_ext. intros k. rewrite holders_snoc. rewrite (String.eqb_sym o k). destruct (String.eqb k o); [reflexivity | now rewrite app_nil_r].
  - apply str_in_false in E. rewrite (dict_append_absent o i (fun k => holders k t) _ E), map_app. cbn [map].
    f_equal.
    + apply map_ext_in. intros k Hk. rewrite holders_snoc.
      destruct (String.eqb o k) eqn:E2; [apply String.eqb_eq in E2; subst; contradiction | now rewrite app_nil_r].
    + rewrite holders_snoc, String.eqb_refl. rewrite holders_not_key; [reflexivity|]. intros Hin. apply E. apply keys_of_in. exact Hin.
Qed.

(* the first key (of a list of keys) held at least twice in `all` *)
Fixpoint find_key (ks : list string) (all : list (string * nat)) : option (string * list nat) :=
  match ks with
  | [] => None
  | k :: r => if Nat.ltb 1 (List.length (holders k all)) then Some (k, holders k all) else find_key r all
  end.
Lemma first_conflict_find tbl all : first_conflict tbl all = find_key (map fst tbl) all.
Proof. induction tbl as [|[o i] r IH]; [reflexivity|]. cbn [first_conflict map fst find_key]. now rewrite IH. Qed.
Lemma first_multi_find ks all : first_multi (map (fun k => (k, holders k all)) ks) = find_key ks all.
Proof. induction ks as [|k r IH]; [reflexivity|]. unfold first_multi in *. cbn [map find snd find_key]. now rewrite IH. Qed.
Lemma find_key_app a b all : find_key (a ++ b) all = match find_key a all with Some r => Some r | None => find_key b all end.
Proof. induction a as [|k r IH]; [reflexivity|]. cbn [app find_key]. destruct (Nat.ltb 1 (List.length (holders k all))); [reflexivity | exact IH]. Qed.
Lemma find_key_none ks all : find_key ks all = None -> forall k, In k ks -> Nat.ltb 1 (List.length (holders k all)) = false.
Proof.
  induction ks as [|x r IH]; intros H k Hin; [contradiction|]. cbn [find_key] in H.
  destruct (Nat.ltb 1 (List.length (holders x all))) eqn:E; [discriminate|]. destruct Hin as [<-|Hin]; [exact E | exact (IH H k Hin)].
Qed.

(* scanning the keys with repetitions or in first-occurrence order finds the same one *)
Lemma find_key_dedup t all : find_key (map fst t) all = find_key (keys_of t) all.
Proof.
  induction t as [|p t IH] using rev_ind; [reflexivity|].
  rewrite map_app, find_key_app, IH, keys_of_snoc. unfold keys_step. cbn [map].
  destruct (str_in (fst p) (keys_of t)) eqn:E.
  - destruct (find_key (keys_of t) all) eqn:F; [reflexivity|]. cbn [find_key].
    apply str_in_In in E. rewrite (find_key_none _ _ F _ E). reflexivity.
  - rewrite find_key_app. reflexivity.
Qed.

Theorem first_multi_group t : first_multi (group t) = first_conflict t t.
Proof. rewrite group_keys, first_multi_find, first_conflict_find, find_key_dedup. reflexivity. Qed.

(* only the keys matter for WHICH option string is reported *)
Lemma holders_length_keys o t1 t2 : map fst t1 = map fst t2 -> List.length (holders o t1) = List.length (holders o t2).
Proof. intros H. rewrite !holders_count, H. reflexivity. Qed.
Lemma find_key_keys ks t1 t2 : map fst t1 = map fst t2 -> option_map fst (find_key ks t1) = option_map fst (find_key ks t2).
Proof.
  intros H. induction ks as [|k r IH]; [reflexivity|]. cbn [find_key]. rewrite (holders_length_keys k t1 t2 H).
  destruct (Nat.ltb 1 (List.length (holders k t2))); [reflexivity | exact IH].
Qed.
Theorem first_conflict_keys t1 t2 :
  map fst t1 = map fst t2 -> option_map fst (first_conflict t1 t1) = option_map fst (first_conflict t2 t2).
Proof. intros H. rewrite !first_conflict_find, H. apply find_key_keys. exact H. Qed.
