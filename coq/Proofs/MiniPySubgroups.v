(* Proofs/MiniPySubgroups.v — regenerated source (Gen/FactsSubgroupsSrc.v) of ArgumentParser._remove_subgroups_from_namespace and of the
   per-field classification inside ArgumentParser._resolve_subgroups, against functional readings that use the vocabulary of
   Model/Subgroups.v (find_alt, the source kinds). *)
From SPV Require Import Base.Str Model.Subgroups.
From SPV Require Import Model.MiniPy Gen.FactsSubgroupsSrc Proofs.MiniPyLemmas.

Ltac ops := cbn [op_attr op_getattr op_hasattr op_vars op_getitem op_dictget op_copy op_keys op_values op_items op_zip op_splitdest
                   op_isconst bind2 st_unpack st_setpath st_popattr st_pop st_delattr].
Ltac hy := repeat match goal with H : lookup ?x ?r = Some _ |- context [lookup ?x ?r] => rewrite H end.
Ltac fin := repeat (progress (lk; hy; cbv beta iota; ops; cbv beta iota)).
Ltac nx :=
  rewrite exec_block_cons;
  first [rewrite exec_assign | rewrite exec_if | rewrite exec_return | rewrite exec_assert | rewrite exec_setpath | rewrite exec_raise];
  cbn [eval]; lk.
Ltac go := nx; fin.

(* ---------- _remove_subgroups_from_namespace ---------- *)
(* one subgroup destination: namespace.subgroups[dest] = getattr(namespace, dest); delattr(namespace, dest) *)
Definition move_one (cls : string) (ns : list (string * MiniPy.val)) (d : string) : res (list (string * MiniPy.val)) :=
  match rget d ns with
  | None => Err (Raise "AttributeError")
  | Some v => match upd_path (VR cls ns) [(true, VS "subgroups"); (false, VS d)] v with
              | Ok (VR _ ns1) => if is_some (rget d ns1) then Ok (rdel d ns1) else Err (Raise "AttributeError")
              | Ok _ => rerr
              | Err z => Err z
              end
  end.
Fixpoint move_all (cls : string) (ns : list (string * MiniPy.val)) (ds : list string) : res (list (string * MiniPy.val)) :=
  match ds with
  | [] => Ok ns
  | d :: t => match move_one cls ns d with Ok ns' => move_all cls ns' t | Err z => Err z end
  end.
Definition remove_fn (cls : string) (ns : list (string * MiniPy.val)) (ds : list string) : res (list (string * MiniPy.val)) :=
  match ds with
  | [] => Ok ns
  | _ => move_all cls (if is_some (rget "subgroups" ns) then ns else rset "subgroups" (VD []) ns) ds
  end.

Definition rm_body : list stmt :=
  [SAssign "chosen_value" (EGetAttr (EVar "parsed_args") (EVar "dest"));
   SSetPath "parsed_args" [(true, EStr "subgroups"); (false, EVar "dest")] (EVar "chosen_value");
   SDelAttr "parsed_args" (EVar "dest")].

Lemma exec_delattr r x k : exec r (SDelAttr x k) = st_delattr r x (eval r k).
Proof. reflexivity. Qed.

Lemma upd_keeps_record cls ns p v u : upd_path (VR cls ns) ((true, VS p) :: nil ++ [(false, v)])%list u = upd_path (VR cls ns) [(true, VS p); (false, v)] u.
Proof. reflexivity. Qed.

Lemma rm_step cls d ns r :
  lookup "parsed_args" r = Some (VR cls ns) ->
  match move_one cls ns d with
  | Err z => exec_block (assign "dest" (VS d) r) rm_body = Err z
  | Ok ns' => exists r', exec_block (assign "dest" (VS d) r) rm_body = Ok (r', None) /\ lookup "parsed_args" r' = Some (VR cls ns')
  end.
Proof.
  intros HP. unfold move_one, rm_body. go.
  destruct (rget d ns) as [v|]; [|reflexivity].
  go. cbn [eval_path eval]. fin.
  destruct (upd_path (VR cls ns) [(true, VS "subgroups"); (false, VS d)] v) as [u|z] eqn:U; [|reflexivity].
  assert (exists ns1, u = VR cls ns1) as [ns1 ->].
  { cbn [upd_path] in U. destruct (rget "subgroups" ns) as [w|]; [|discriminate].
    destruct w; try discriminate. injection U as <-. eexists. reflexivity. }
  rewrite exec_block_cons, exec_delattr. cbn [eval]. fin.
  destruct (rget d ns1); cbn [is_some]; [|reflexivity].
  rewrite exec_block_nil. eexists. split; [reflexivity|]. lk. reflexivity.
Qed.

Lemma rm_loop cls : forall ds ns r,
  lookup "parsed_args" r = Some (VR cls ns) ->
  match move_all cls ns ds with
  | Err z => iter_list (fun v r => exec_block (assign "dest" v r) rm_body) (map VS ds) r = Err z
  | Ok ns' => exists r', iter_list (fun v r => exec_block (assign "dest" v r) rm_body) (map VS ds) r = Ok (r', None)
                         /\ lookup "parsed_args" r' = Some (VR cls ns')
  end.
Proof.
  induction ds as [|d t IH]; intros ns r HP; cbn [move_all map iter_list].
  - exists r. auto.
  - pose proof (rm_step cls d ns r HP) as S. destruct (move_one cls ns d) as [ns1|z]; [|rewrite S; reflexivity].
    destruct S as [r' [E P]]. rewrite E. exact (IH ns1 r' P).
Qed.

Definition rm_env (selfv : MiniPy.val) (table : list (MiniPy.val * MiniPy.val)) (cls : string) (ns : list (string * MiniPy.val)) : env :=
  [("self", selfv); ("parsed_args", VR cls ns); ("_get_subgroup_fields", VD table)].

(* the method returns None; what matters is the namespace it leaves *)
Definition final_ns (o : res (env * option MiniPy.val)) : res MiniPy.val :=
  match o with Ok (r, _) => match lookup "parsed_args" r with Some v => Ok v | None => Err (Raise "NameError") end | Err z => Err z end.

Theorem remove_subgroups_is_model wrappers table cls ns ds :
  dget wrappers table = Some (VL (map VS ds)) ->     (* _get_subgroup_fields(self._wrappers): the subgroup destinations, in order *)
  final_ns (exec_block (rm_env (VR "ArgumentParser" [("_wrappers", wrappers)]) table cls ns) remove_subgroups_src)
  = match remove_fn cls ns ds with Ok ns' => Ok (VR cls ns') | Err z => Err z end.
Proof.
  intros HT. unfold final_ns, remove_fn, remove_subgroups_src.
  assert (HS : lookup "self" (rm_env (VR "ArgumentParser" [("_wrappers", wrappers)]) table cls ns) = Some (VR "ArgumentParser" [("_wrappers", wrappers)])) by reflexivity.
  assert (HP : lookup "parsed_args" (rm_env (VR "ArgumentParser" [("_wrappers", wrappers)]) table cls ns) = Some (VR cls ns)) by reflexivity.
  assert (HG : lookup "_get_subgroup_fields" (rm_env (VR "ArgumentParser" [("_wrappers", wrappers)]) table cls ns) = Some (VD table)) by reflexivity.
  set (r0 := rm_env _ table cls ns) in *. clearbody r0.
  rewrite exec_block_cons, exec_assign. cbn [eval]. hy. ops. cbn [rget String.eqb Ascii.eqb Bool.eqb op_calltable bind2]. rewrite HT.
  cbv beta iota.
  go.
  destruct ds as [|d0 t].
  - cbn [map truthy List.length Nat.eqb negb]. go. reflexivity.
  - cbn [map truthy List.length Nat.eqb negb]. rewrite exec_block_nil. change (VS d0 :: map VS t) with (map VS (d0 :: t)).
    go. destruct (rget "subgroups" ns) as [sv|] eqn:Esg; cbn [is_some negb truthy].
    + rewrite exec_block_nil. rewrite exec_block_cons, exec_for, eval_var. lk. hy.
      match goal with |- context [iter_list ?f _ ?r1] => change f with (fun v r => exec_block (assign "dest" v r) rm_body);
        pose proof (rm_loop cls (d0 :: t) ns r1) as L end.
      destruct (move_all cls ns (d0 :: t)) as [ns'|z].
      * destruct L as [r' [E P]]; [lk; exact HP|]. rewrite E, exec_block_nil, P. reflexivity.
      * rewrite L; [reflexivity | lk; exact HP].
    + go. cbn [eval_path eval]. fin. cbn [upd_path]. rewrite exec_block_nil.
      rewrite exec_block_cons, exec_for, eval_var. lk. hy.
      match goal with |- context [iter_list ?f _ ?r1] => change f with (fun v r => exec_block (assign "dest" v r) rm_body);
        pose proof (rm_loop cls (d0 :: t) (rset "subgroups" (VD []) ns) r1) as L end.
      destruct (move_all cls (rset "subgroups" (VD []) ns) (d0 :: t)) as [ns'|z].
      * destruct L as [r' [E P]]; [lk; reflexivity|]. rewrite E, exec_block_nil, P. reflexivity.
      * rewrite L; [reflexivity | lk; reflexivity].
Qed.

(* ---------- _resolve_subgroups: the classification of one subgroup field ---------- *)
Definition call_tbl (t : list (MiniPy.val * MiniPy.val)) (a : MiniPy.val) : res MiniPy.val :=
  match dget a t with
  | Some (VT [VC "raise"; VS cls]) => Err (Raise cls)
  | Some w => Ok w
  | None => Err (Raise "MiniPyUnknownCall")
  end.
Lemma eval_calltable r t a :
  eval r (ECallTable t a) =
  match eval r t, eval r a with
  | Ok (VD l), Ok v => call_tbl l v
  | Ok _, Ok _ => rerr | Err z, _ => Err z | _, Err z => Err z end.
Proof.
  cbn [eval]. unfold op_calltable, bind2, call_tbl.
  destruct (eval r t) as [[]|]; destruct (eval r a) as [?|]; reflexivity.
Qed.

Record cl_tables := mktabs { t_inst : list (MiniPy.val * MiniPy.val); t_isty : list (MiniPy.val * MiniPy.val);
                             t_callable : list (MiniPy.val * MiniPy.val); t_type : list (MiniPy.val * MiniPy.val) }.

Definition partial_replace (d : MiniPy.val) : MiniPy.val := VR "functools.partial" [("func", VC "dataclasses.replace"); ("arg", d)].

(* (default, dataclass_fn, dataclass_type) handed to self._add_arguments for the subgroup at `dest` *)
Definition classify_fn (T : cl_tables) (choices types : list (MiniPy.val * MiniPy.val)) (ns : list (string * MiniPy.val)) (dest : string)
  : res (MiniPy.val * MiniPy.val * MiniPy.val) :=
  match rget dest ns with
  | None => Err (Raise "AttributeError")
  | Some key =>
      match dget key choices with
      | None => Err (Raise "AssertionError")                       (* assert chosen_subgroup_key in subgroup_dict *)
      | Some d =>
          match call_tbl (t_inst T) d with
          | Err z => Err z
          | Ok b =>
              let check (dflt fn ty : MiniPy.val) (inst_ok : res MiniPy.val) :=
                match inst_ok with
                | Err z => Err z
                | Ok i => if negb (truthy i) then Err (Raise "AssertionError") else
                    match call_tbl (t_callable T) fn with
                    | Err z => Err z
                    | Ok cb => if negb (truthy cb) then Err (Raise "AssertionError") else
                        match call_tbl (t_isty T) ty with
                        | Err z => Err z
                        | Ok it => if negb (truthy it) then Err (Raise "AssertionError") else Ok (dflt, fn, ty)
                        end
                    end
                end in
              if truthy b then
                match call_tbl (t_type T) d with
                | Err z => Err z
                | Ok ty => check d (partial_replace d) ty (Ok b)
                end
              else
                match dget key types with
                | None => Err (Raise "KeyError")
                | Some ty => check VNone d ty (Ok (VB true))
                end
          end
      end
  end.

Definition enc_sgfield (choices types : list (MiniPy.val * MiniPy.val)) : MiniPy.val :=
  VR "FieldWrapper" [("subgroup_choices", VD choices);
                     ("field", VR "Field" [("metadata", VD [(VS "subgroup_dataclass_types", VD types)])])].
Definition cl_env (T : cl_tables) (choices types : list (MiniPy.val * MiniPy.val)) (cls : string) (ns : list (string * MiniPy.val)) (dest : string) : env :=
  [("subgroup_field", enc_sgfield choices types); ("parsed_args", VR cls ns); ("dest", VS dest);
   ("is_dataclass_instance", VD (t_inst T)); ("is_dataclass_type", VD (t_isty T)); ("callable", VD (t_callable T)); ("type", VD (t_type T))].

Lemma eval_in_vd r a b x d : eval r a = Ok x -> eval r b = Ok (VD d) -> eval r (EIn a b) = Ok (VB (is_some (dget x d))).
Proof. intros A B. cbn [eval]. rewrite A, B. destruct x; reflexivity. Qed.

Ltac fin2 := repeat (progress (lk; hy; cbv beta iota; ops; cbn [enc_sgfield rget String.eqb Ascii.eqb Bool.eqb dget val_eqb]; cbv beta iota)).

Theorem classify_is_model T choices types cls ns dest :
  match classify_fn T choices types ns dest with
  | Err z => exec_block (cl_env T choices types cls ns dest) classify_src = Err z
  | Ok (dflt, fn, ty) =>
      exists r1, exec_block (cl_env T choices types cls ns dest) classify_src = Ok (r1, None)
                 /\ lookup "default" r1 = Some dflt /\ lookup "dataclass_fn" r1 = Some fn /\ lookup "dataclass_type" r1 = Some ty
  end.
Proof.
  unfold classify_fn, classify_src.
  assert (H1 : lookup "subgroup_field" (cl_env T choices types cls ns dest) = Some (enc_sgfield choices types)) by reflexivity.
  assert (H2 : lookup "parsed_args" (cl_env T choices types cls ns dest) = Some (VR cls ns)) by reflexivity.
  assert (H3 : lookup "dest" (cl_env T choices types cls ns dest) = Some (VS dest)) by reflexivity.
  assert (H4 : lookup "is_dataclass_instance" (cl_env T choices types cls ns dest) = Some (VD (t_inst T))) by reflexivity.
  assert (H5 : lookup "is_dataclass_type" (cl_env T choices types cls ns dest) = Some (VD (t_isty T))) by reflexivity.
  assert (H6 : lookup "callable" (cl_env T choices types cls ns dest) = Some (VD (t_callable T))) by reflexivity.
  assert (H7 : lookup "type" (cl_env T choices types cls ns dest) = Some (VD (t_type T))) by reflexivity.
  set (r0 := cl_env T choices types cls ns dest) in *. clearbody r0.
  go. fin2.
  go. destruct (rget dest ns) as [key|]; [|reflexivity].
  rewrite exec_block_cons, exec_assert, (eval_in_vd _ _ _ key choices) by (rewrite eval_var; lk; reflexivity).
  destruct (dget key choices) as [d|] eqn:Ed; cbn [is_some truthy]; [|reflexivity].
  go. rewrite Ed. cbv beta iota. rewrite exec_block_cons, exec_if, eval_calltable, !eval_var. fin.
  (* the three asserts, from an environment that holds the three results *)
  assert (TAIL : forall r dflt fn ty (io : res MiniPy.val),
            lookup "default" r = Some dflt -> lookup "dataclass_fn" r = Some fn -> lookup "dataclass_type" r = Some ty ->
            lookup "is_dataclass_instance" r = Some (VD (t_inst T)) -> lookup "is_dataclass_type" r = Some (VD (t_isty T)) ->
            lookup "callable" r = Some (VD (t_callable T)) ->
            (match dflt with VNone => io = Ok (VB true) | _ => io = call_tbl (t_inst T) dflt end) ->
            match (match io with
                   | Err z => Err z
                   | Ok i => if negb (truthy i) then Err (Raise "AssertionError") else
                       match call_tbl (t_callable T) fn with
                       | Err z => Err z
                       | Ok cb => if negb (truthy cb) then Err (Raise "AssertionError") else
                           match call_tbl (t_isty T) ty with
                           | Err z => Err z
                           | Ok it => if negb (truthy it) then Err (Raise "AssertionError") else Ok (dflt, fn, ty)
                           end
                       end
                   end) with
            | Err z => exec_block r (skipn 5 classify_src) = Err z
            | Ok (a, b0, c0) => exists r1, exec_block r (skipn 5 classify_src) = Ok (r1, None)
                                /\ lookup "default" r1 = Some a /\ lookup "dataclass_fn" r1 = Some b0 /\ lookup "dataclass_type" r1 = Some c0
            end).
  { clear. intros r dflt fn ty io A B C I Y K Hio. unfold classify_src. cbn [skipn].
    rewrite exec_block_cons, exec_assert.
    change (eval r (EOr ?a ?b)) with (match eval r a with Ok v => if truthy v then Ok v else eval r b | Err z => Err z end).
    assert (EN : eval r (EIsNone (EVar "default")) = Ok (VB (match dflt with VNone => true | _ => false end))).
    { cbn [eval]. rewrite A. destruct dflt; reflexivity. }
    rewrite EN. rewrite eval_calltable, !eval_var, I, A.
    assert (STEP : (if truthy (VB (match dflt with VNone => true | _ => false end))
                    then Ok (VB (match dflt with VNone => true | _ => false end)) else call_tbl (t_inst T) dflt) = io).
    { destruct dflt; cbn [truthy]; symmetry; exact Hio. }
    rewrite STEP. destruct io as [i|z]; [|reflexivity]. destruct (truthy i); cbn [negb]; [|reflexivity].
    rewrite exec_block_cons, exec_assert, eval_calltable, !eval_var, K, B.
    destruct (call_tbl (t_callable T) fn) as [cb|z]; [|reflexivity]. destruct (truthy cb); cbn [negb]; [|reflexivity].
    rewrite exec_block_cons, exec_assert, eval_calltable, !eval_var, Y, C.
    destruct (call_tbl (t_isty T) ty) as [it|z]; [|reflexivity]. destruct (truthy it); cbn [negb]; [|reflexivity].
    rewrite exec_block_nil. eexists. repeat split; assumption. }
  destruct (call_tbl (t_inst T) d) as [b|z] eqn:Eb; [|reflexivity].
  destruct (truthy b) eqn:Tb.
  - go. nx. cbn [rset String.eqb Ascii.eqb Bool.eqb]. fin.
    rewrite exec_block_cons, exec_assign, eval_calltable, !eval_var. fin.
    destruct (call_tbl (t_type T) d) as [ty|z]; [|reflexivity]. rewrite exec_block_nil.
    (* (a table that calls None an instance: the assert is then satisfied by `default is None`) *)
    match goal with |- context [exec_block ?r (SAssert _ :: _)] =>
      pose proof (TAIL r d (partial_replace d) ty (match d with VNone => Ok (VB true) | _ => Ok b end)) as X end.
    destruct d; cbv beta iota in X; rewrite ?Tb in X; cbn [truthy negb] in X; apply X;
      try (lk; assumption || reflexivity); try (symmetry; exact Eb).
  - go. go. nx. fin2.
    destruct (dget key types) as [ty|]; [|reflexivity]. rewrite exec_block_nil.
    match goal with |- context [exec_block ?r (SAssert _ :: _)] => pose proof (TAIL r VNone d ty (Ok (VB true))) as X end.
    cbv beta iota in X. cbn [truthy negb] in X. apply X; try (lk; assumption || reflexivity).
Qed.

(* ---------- in the vocabulary of Model/Subgroups.v ---------- *)
Section ModelLink.
  Variable entry : source -> dc -> MiniPy.val.          (* how a table entry (a dataclass type, a partial, a frozen instance) is represented *)
  Fixpoint enc_alts (t : alts) : list (MiniPy.val * MiniPy.val) :=
    match t with ANil => [] | ACons k s d r => (VS k, entry s d) :: enc_alts r end.

  Lemma dget_alts k : forall t, dget (VS k) (enc_alts t) = option_map (fun p => entry (fst p) (snd p)) (find_alt k t).
  Proof. induction t as [|k' s d r IH]; [reflexivity|]. cbn [enc_alts dget val_eqb find_alt]. destruct (String.eqb k' k); [reflexivity | exact IH]. Qed.

  (* the key the throw-away parser left in the namespace is looked up in the table exactly like the model's find_alt:
     an unknown key is the AssertionError of Subgroups.round_sg, a known one selects the model's (source, dataclass) *)
  Theorem classify_key_is_find_alt T types ns dest k t :
    rget dest ns = Some (VS k) ->
    match find_alt k t with
    | None => classify_fn T (enc_alts t) types ns dest = Err (Raise "AssertionError")
    | Some (s, d) => classify_fn T (enc_alts t) types ns dest
                     = classify_fn T [(VS k, entry s d)] types ns dest
    end.
  Proof.
    intros H. unfold classify_fn. rewrite H, dget_alts. destruct (find_alt k t) as [[s d]|]; [|reflexivity].
    cbn [option_map fst snd dget val_eqb]. rewrite String.eqb_refl. reflexivity.
  Qed.
End ModelLink.
