(* Proofs/MiniPyPipeline.v — the regenerated source of ArgumentParser._fill_constructor_arguments_with_fields and of
   FieldWrapper.__call__ (MiniPy blocks dumped from the ast on every run, Gen/FactsPipelineSrc.v) computes exactly the functional
   model Model/Pipeline.v fill_fn / call_fn: for every list of wrappers, every field record, every namespace, every dict of
   constructor arguments, every table for duplicate_if_needed / postprocess. *)
From SPV Require Import Base.Str Model.MiniPy Model.Pipeline Gen.FactsPipelineSrc Proofs.MiniPyLemmas.

Ltac nx :=
  rewrite exec_block_cons;
  first [rewrite exec_assign | rewrite exec_if | rewrite exec_return | rewrite exec_assert | rewrite exec_setpath
        | rewrite exec_unpack | rewrite exec_continue | rewrite exec_popattr];
  cbn [eval]; lk.
Ltac hy := repeat match goal with H : lookup ?x ?r = Some _ |- context [lookup ?x ?r] => rewrite H end.
Ltac ops := cbn [op_attr op_getattr op_hasattr op_vars op_getitem op_dictget op_copy op_keys op_values op_items op_zip op_splitdest
                   op_isconst bind2 st_unpack st_setpath st_popattr].
Ltac rec := cbn [enc_field enc_wrapper enc_parser rget String.eqb Ascii.eqb Bool.eqb].
Ltac fin := repeat (progress (lk; hy; cbv beta iota; ops; rec; cbv beta iota)).
Ltac go := nx; fin.

(* ---------- FieldWrapper.__call__ ---------- *)
Definition call_body : list stmt :=
  match nth 3 field_call_src (SRaise "") with SFor2 _ _ _ b => b | _ => [] end.

Definition call_env (f : fieldw) (parser nsv values : val) (ca : list (val * val)) : env :=
  [("self", enc_field f); ("parser", parser); ("namespace", nsv); ("values", values); ("constructor_arguments", VD ca);
   ("option_string", VNone)].

Definition call_inv (f : fieldw) (nsv : val) (ca : list (val * val)) (r : env) : Prop :=
  lookup "self" r = Some (enc_field f) /\ lookup "namespace" r = Some nsv /\ lookup "constructor_arguments" r = Some (VD ca)
  /\ exists res, lookup "self._results" r = Some (VD res).

Lemma eval_calltable r t a :
  eval r (ECallTable t a) =
  match eval r t, eval r a with
  | Ok (VD l), Ok v => call_table l v
  | Ok _, Ok _ => rerr | Err z, _ => Err z | _, Err z => Err z end.
Proof.
  cbn [eval]. unfold op_calltable, bind2, call_table.
  destruct (eval r t) as [[]|]; destruct (eval r a) as [?|]; reflexivity.
Qed.

(* one iteration of the loop over zip(self.destinations, values), for a field that is not a subgroup *)
Lemma call_step f nsv ca r d v :
  f_is_subgroup f = false -> call_inv f nsv ca r ->
  match call_table (f_post f) v with
  | Err z => exec_block (assign "value" v (assign "destination" (VS d) r)) call_body = Err z
  | Ok v' => match ca_put ca d v' with
             | Err z => exec_block (assign "value" v (assign "destination" (VS d) r)) call_body = Err z
             | Ok ca' => exists r', exec_block (assign "value" v (assign "destination" (VS d) r)) call_body = Ok (r', None)
                                    /\ call_inv f nsv ca' r'
             end
  end.
Proof.
  intros Hsub [Hs [Hn [Hc [res Hr]]]]. unfold call_body, field_call_src. cbn [nth].
  go. rewrite Hsub. cbn [truthy]. rewrite exec_block_nil.
  go. cbn [seq_items pair_of List.length Nat.eqb combine fold_left fst snd].
  rewrite exec_block_cons, exec_assign, eval_calltable, eval_attr, !eval_var. lk. hy. unfold attr_of. rec. cbv beta iota. fin.
  destruct (call_table (f_post f) v) as [v'|z]; [|reflexivity].
  go. cbn [eval_path eval]. lk. cbv beta iota. hy. cbn [upd_path].
  go. cbn [eval_path eval]. lk. cbv beta iota. hy.
  unfold ca_put.
  destruct (upd_path (VD ca) [(false, VS (fst (split_dest d))); (false, VS (snd (split_dest d)))] v') as [u|z] eqn:U; [|reflexivity].
  assert (exists ca', u = VD ca') as [ca' ->].
  { cbn [upd_path] in U. destruct (dget (VS (fst (split_dest d))) ca) as [w|]; [|discriminate].
    destruct w; try discriminate. injection U as <-. eexists. reflexivity. }
  nx. fin. rewrite Hsub. cbn [truthy]. rewrite !exec_block_nil.
  eexists. split; [reflexivity|]. repeat split; lk; try assumption; try reflexivity. eexists. reflexivity.
Qed.

Definition pairs (l : list (string * val)) : list val := map (fun p => pair_of (VS (fst p)) (snd p)) l.
Definition call_iter : val -> env -> res (env * option val) :=
  pair_step (fun a b r => exec_block (assign "value" b (assign "destination" a r)) call_body).

Lemma call_iter_pair d v r :
  call_iter (pair_of (VS d) v) r = exec_block (assign "value" v (assign "destination" (VS d) r)) call_body.
Proof. reflexivity. Qed.

Lemma call_loop_spec f nsv : forall l ca r,
  call_inv f nsv ca r ->
  match call_loop f l ca with
  | Err z => iter_list_c call_iter (pairs l) r = Err z
  | Ok ca' => exists r' o, iter_list_c call_iter (pairs l) r = Ok (r', o)
                           /\ lookup "constructor_arguments" r' = Some (VD ca') /\ lookup "namespace" r' = Some nsv
  end.
Proof.
  destruct (f_is_subgroup f) eqn:Hsub.
  - (* a subgroup field: `return` at the first destination *)
    intros [|[d v] t] ca r [Hs [Hn [Hc Hr]]]; cbn [call_loop pairs map iter_list_c].
    + exists r, None. auto.
    + rewrite Hsub. cbn [fst snd]. rewrite call_iter_pair. unfold call_body, field_call_src. cbn [nth].
      go. rewrite Hsub. cbn [truthy]. go. cbn [is_cont].
      eexists _, _. split; [reflexivity|]. split; lk; assumption.
  - induction l as [|[d v] t IH]; intros ca r Hi; cbn [call_loop pairs map iter_list_c].
    + exists r, None. destruct Hi as [_ [Hn [Hc _]]]. auto.
    + rewrite Hsub. cbn [fst snd]. rewrite !call_iter_pair. change (map (fun p : string * val => pair_of (VS (fst p)) (snd p)) t) with (pairs t).
      pose proof (call_step f nsv ca r d v Hsub Hi) as S.
      destruct (call_table (f_post f) v) as [v'|z]; [|rewrite S; reflexivity].
      destruct (ca_put ca d v') as [ca'|z]; [|rewrite S; reflexivity].
      destruct S as [r' [E I]]. rewrite E. exact (IH ca' r' I).
Qed.

Lemma combine_pairs ds vs : map (fun p => pair_of (fst p) (snd p)) (combine (map VS ds) vs) = pairs (combine ds vs).
Proof. revert vs. induction ds as [|d t IH]; intros [|v u]; try reflexivity. cbn [map combine pairs fst snd]. f_equal. apply IH. Qed.

(* the whole procedure, in the environment an SCall builds for it *)
Lemma call_spec f parser nsv values ca :
  match call_fn f values ca with
  | Err z => exec_block (call_env f parser nsv values ca) field_call_src = Err z
  | Ok ca' => exists r1 o, exec_block (call_env f parser nsv values ca) field_call_src = Ok (r1, o)
                           /\ lookup "constructor_arguments" r1 = Some (VD ca') /\ lookup "namespace" r1 = Some nsv
  end.
Proof.
  unfold call_fn.
  assert (Hs : lookup "self" (call_env f parser nsv values ca) = Some (enc_field f)) by reflexivity.
  assert (Hp : lookup "parser" (call_env f parser nsv values ca) = Some parser) by reflexivity.
  assert (Hn : lookup "namespace" (call_env f parser nsv values ca) = Some nsv) by reflexivity.
  assert (Hv : lookup "values" (call_env f parser nsv values ca) = Some values) by reflexivity.
  assert (Hc : lookup "constructor_arguments" (call_env f parser nsv values ca) = Some (VD ca)) by reflexivity.
  set (r0 := call_env f parser nsv values ca) in *. clearbody r0.
  unfold field_call_src.
  go. go. destruct (f_is_reused f); cbn [truthy].
  - (* duplicate_if_needed *)
    rewrite exec_block_cons, exec_assign, eval_calltable, eval_attr, !eval_var. lk. hy. unfold attr_of. rec. cbv beta iota. fin.
    destruct (call_table (f_dup f) values) as [vals|z]; [|reflexivity].
    rewrite exec_block_nil. go. rewrite exec_block_cons, exec_for2. cbn [eval]. lk. fin.
    cbn [seq_items]. destruct (seq_items vals) as [vs|] eqn:Sv.
    2:{ destruct vals; try discriminate Sv; reflexivity. }
    rewrite combine_pairs.
    cbv beta iota. cbn [seq_items]. match goal with |- context [iter_list_c ?f ?l ?r] => change (iter_list_c f l r) with (iter_list_c call_iter l r) end.
    match goal with |- context [iter_list_c call_iter _ ?r] =>
      pose proof (call_loop_spec f nsv (combine (f_dests f) vs) ca r) as L end.
    destruct (call_loop f (combine (f_dests f) vs) ca) as [ca'|z].
    + destruct L as [r' [o [E [C N]]]]; [repeat split; lk; try assumption; eexists; reflexivity|].
      destruct o; eexists _, _; rewrite E, ?exec_block_nil; (split; [reflexivity|]); auto.
    + rewrite L; [reflexivity|]. repeat split; lk; try assumption; eexists; reflexivity.
  - go. rewrite exec_block_nil. go. rewrite exec_block_cons, exec_for2. cbn [eval]. lk. fin.
    cbn [seq_items]. rewrite combine_pairs. match goal with |- context [iter_list_c ?f ?l ?r] => change (iter_list_c f l r) with (iter_list_c call_iter l r) end.
    match goal with |- context [iter_list_c call_iter _ ?r] =>
      pose proof (call_loop_spec f nsv (combine (f_dests f) [values]) ca r) as L end.
    destruct (call_loop f (combine (f_dests f) [values]) ca) as [ca'|z].
    + destruct L as [r' [o [E [C N]]]]; [repeat split; lk; try assumption; eexists; reflexivity|].
      destruct o; eexists _, _; rewrite E, ?exec_block_nil; (split; [reflexivity|]); auto.
    + rewrite L; [reflexivity|]. repeat split; lk; try assumption; eexists; reflexivity.
Qed.

(* ---------- _fill_constructor_arguments_with_fields ---------- *)
Definition call_ins : list (string * expr) :=
  [("self", EVar "field"); ("parser", EVar "self"); ("namespace", EVar "parsed_args"); ("values", EVar "values");
   ("constructor_arguments", EVar "constructor_arguments"); ("option_string", ENone)].
Definition call_outs : list (string * string) := [("namespace", "parsed_args"); ("constructor_arguments", "constructor_arguments")].

Definition field_body : list stmt :=
  [SIf (EAnd (EIn (EConst "argparse.SUPPRESS") (EAttr (EVar "wrapper") "defaults")) (ENot (EIn (EAttr (EVar "field") "dest") (EVar "parsed_args"))))
     [SContinue] [];
   SIf (EAttr (EVar "field") "is_subgroup") [SContinue] [];
   SIf (ENot (EAttr (EAttr (EVar "field") "field") "init")) [SContinue] [];
   SPopAttr "values" "parsed_args" (EAttr (EVar "field") "dest") (Some (EAttr (EVar "field") "default"));
   SSetPath "deleted_values" [(false, EAttr (EVar "field") "dest")] (EVar "values");
   SCall field_call_src call_ins call_outs].

Lemma fill_shape :
  fill_src =
  [SIf (ENot (EEq (EAttr (EVar "self") "conflict_resolution") (EStr "ConflictResolution.ALWAYS_MERGE")))
     [SAssert (EEq (ELen (EVar "wrappers")) (ELen (EVar "initial_constructor_arguments")))] [];
   SAssign "constructor_arguments" (ECopy (EVar "initial_constructor_arguments"));
   SAssign "deleted_values" (EDict []);
   SFor "wrapper" (EVar "wrappers") [SForC "field" (EAttr (EVar "wrapper") "fields") field_body];
   SAssign "leftover_args" (EVar "parsed_args");
   SIf (EVar "deleted_values") [] [];
   SReturn (ETuple [EVar "leftover_args"; EVar "constructor_arguments"])].
Proof. reflexivity. Qed.

Definition fill_inv (p : val) (cls : string) (ns : list (string * val)) (ca : list (val * val)) (r : env) : Prop :=
  lookup "self" r = Some p /\ lookup "parsed_args" r = Some (VR cls ns) /\ lookup "constructor_arguments" r = Some (VD ca)
  /\ exists dv, lookup "deleted_values" r = Some (VD dv).

Lemma rdel_absent k d : rget k d = None -> rdel k d = d.
Proof.
  induction d as [|[k' v] t IH]; [reflexivity|]. cbn [rget rdel]. destruct (String.eqb k' k); [discriminate|].
  intros H. now rewrite IH.
Qed.

Lemma field_step p cls w f ns ca r :
  fill_inv p cls ns ca r -> lookup "wrapper" r = Some (enc_wrapper w) ->
  if skipped w f ns
  then exists r', exec_block (assign "field" (enc_field f) r) field_body = Ok (r', Some CONT)
                  /\ fill_inv p cls ns ca r' /\ lookup "wrapper" r' = Some (enc_wrapper w)
  else match call_fn f (match rget (f_dest f) ns with Some v => v | None => f_default f end) ca with
       | Err z => exec_block (assign "field" (enc_field f) r) field_body = Err z
       | Ok ca' => exists r', exec_block (assign "field" (enc_field f) r) field_body = Ok (r', None)
                              /\ fill_inv p cls (rdel (f_dest f) ns) ca' r' /\ lookup "wrapper" r' = Some (enc_wrapper w)
       end.
Proof.
  intros [Hs [Hn [Hc [dv Hd]]]] Hw. unfold skipped, field_body.
  go. unfold SUPPRESS.
  destruct (existsb (val_eqb (VC "argparse.SUPPRESS")) (w_defaults w)) eqn:Esup; cbn [truthy andb orb].
  - fin. cbn [truthy].
    destruct (rget (f_dest f) ns) as [v0|] eqn:Eg; cbn [is_some negb truthy orb].
    + rewrite exec_block_nil. go.
      destruct (f_is_subgroup f) eqn:Esub; cbn [truthy orb].
      { go. eexists. split; [reflexivity|]. repeat split; lk; try assumption. eexists; eassumption. }
      rewrite exec_block_nil. go. destruct (f_init f) eqn:Ei; cbn [negb truthy orb].
      2:{ go. eexists. split; [reflexivity|]. repeat split; lk; try assumption. eexists; eassumption. }
      rewrite exec_block_nil. go. rewrite Eg. cbv beta iota.
      go. cbn [eval_path eval]. lk. fin. cbn [upd_path].
      rewrite exec_block_cons, exec_call. unfold call_ins. cbn [bind_ins eval]. lk. hy. cbv beta iota. cbn [assign String.eqb Ascii.eqb Bool.eqb].
      change [("self", enc_field f); ("parser", p); ("namespace", VR cls (rdel (f_dest f) ns)); ("values", v0); ("constructor_arguments", VD ca); ("option_string", VNone)]
        with (call_env f p (VR cls (rdel (f_dest f) ns)) v0 ca).
      pose proof (call_spec f p (VR cls (rdel (f_dest f) ns)) v0 ca) as C.
      destruct (call_fn f v0 ca) as [ca'|z]; [|rewrite C; reflexivity].
      destruct C as [r1 [o [E [C1 C2]]]]. rewrite E. unfold call_outs. cbn [copy_back]. rewrite C2, C1. rewrite exec_block_nil.
      eexists. split; [reflexivity|]. repeat split; lk; try assumption; try reflexivity. eexists; reflexivity.
    + go. eexists. split; [reflexivity|]. repeat split; lk; try assumption. eexists; eassumption.
  - rewrite exec_block_nil. go.
    destruct (f_is_subgroup f) eqn:Esub; cbn [truthy orb].
    { go. eexists. split; [reflexivity|]. repeat split; lk; try assumption. eexists; eassumption. }
    rewrite exec_block_nil. go. destruct (f_init f) eqn:Ei; cbn [negb truthy orb].
    2:{ go. eexists. split; [reflexivity|]. repeat split; lk; try assumption. eexists; eassumption. }
    rewrite exec_block_nil. go.
    destruct (rget (f_dest f) ns) as [v0|] eqn:Eg; cbv beta iota.
    + go. cbn [eval_path eval]. lk. fin. cbn [upd_path].
      rewrite exec_block_cons, exec_call. unfold call_ins. cbn [bind_ins eval]. lk. hy. cbv beta iota. cbn [assign String.eqb Ascii.eqb Bool.eqb].
      change [("self", enc_field f); ("parser", p); ("namespace", VR cls (rdel (f_dest f) ns)); ("values", v0); ("constructor_arguments", VD ca); ("option_string", VNone)]
        with (call_env f p (VR cls (rdel (f_dest f) ns)) v0 ca).
      pose proof (call_spec f p (VR cls (rdel (f_dest f) ns)) v0 ca) as C.
      destruct (call_fn f v0 ca) as [ca'|z]; [|rewrite C; reflexivity].
      destruct C as [r1 [o [E [C1 C2]]]]. rewrite E. unfold call_outs. cbn [copy_back]. rewrite C2, C1. rewrite exec_block_nil.
      eexists. split; [reflexivity|]. repeat split; lk; try assumption; try reflexivity. eexists; reflexivity.
    + go. cbn [eval_path eval]. lk. fin. cbn [upd_path].
      rewrite exec_block_cons, exec_call. unfold call_ins. cbn [bind_ins eval]. lk. hy. cbv beta iota. cbn [assign String.eqb Ascii.eqb Bool.eqb].
      change [("self", enc_field f); ("parser", p); ("namespace", VR cls ns); ("values", f_default f); ("constructor_arguments", VD ca); ("option_string", VNone)]
        with (call_env f p (VR cls ns) (f_default f) ca).
      pose proof (call_spec f p (VR cls ns) (f_default f) ca) as C.
      destruct (call_fn f (f_default f) ca) as [ca'|z]; [|rewrite C; reflexivity].
      destruct C as [r1 [o [E [C1 C2]]]]. rewrite E. unfold call_outs. cbn [copy_back]. rewrite C2, C1. rewrite exec_block_nil.
      rewrite (rdel_absent _ _ Eg).
      eexists. split; [reflexivity|]. repeat split; lk; try assumption; try reflexivity. eexists; reflexivity.
Qed.

Lemma fields_loop p cls w : forall fs ns ca r,
  fill_inv p cls ns ca r -> lookup "wrapper" r = Some (enc_wrapper w) ->
  match fill_fields w fs ns ca with
  | Err z => iter_list_c (fun v r => exec_block (assign "field" v r) field_body) (map enc_field fs) r = Err z
  | Ok (ns', ca') => exists r', iter_list_c (fun v r => exec_block (assign "field" v r) field_body) (map enc_field fs) r = Ok (r', None)
                                /\ fill_inv p cls ns' ca' r'
  end.
Proof.
  induction fs as [|f t IH]; intros ns ca r Hi Hw; cbn [fill_fields map iter_list_c].
  - exists r. auto.
  - pose proof (field_step p cls w f ns ca r Hi Hw) as S.
    destruct (skipped w f ns).
    + destruct S as [r' [E [I W]]]. rewrite E. cbn [is_cont CONT String.eqb Ascii.eqb Bool.eqb]. exact (IH ns ca r' I W).
    + destruct (call_fn f _ ca) as [ca'|z]; [|rewrite S; reflexivity].
      destruct S as [r' [E [I W]]]. rewrite E. exact (IH _ ca' r' I W).
Qed.

Lemma wrappers_loop p cls : forall ws ns ca r,
  fill_inv p cls ns ca r ->
  match fill_wrappers ws ns ca with
  | Err z => iter_list (fun v r => exec_block (assign "wrapper" v r) [SForC "field" (EAttr (EVar "wrapper") "fields") field_body])
                       (map enc_wrapper ws) r = Err z
  | Ok (ns', ca') => exists r', iter_list (fun v r => exec_block (assign "wrapper" v r) [SForC "field" (EAttr (EVar "wrapper") "fields") field_body])
                                          (map enc_wrapper ws) r = Ok (r', None)
                                /\ fill_inv p cls ns' ca' r'
  end.
Proof.
  induction ws as [|w t IH]; intros ns ca r Hi; cbn [fill_wrappers map iter_list].
  - exists r. auto.
  - rewrite exec_block_cons, exec_forc. cbn [eval]. fin.
    assert (Hi' : fill_inv p cls ns ca (assign "wrapper" (enc_wrapper w) r)).
    { destruct Hi as [A [B [C [dv D]]]]. repeat split; lk; try assumption. eexists; eassumption. }
    assert (Hw : lookup "wrapper" (assign "wrapper" (enc_wrapper w) r) = Some (enc_wrapper w)) by (lk; reflexivity).
    pose proof (fields_loop p cls w (w_fields w) ns ca _ Hi' Hw) as F.
    destruct (fill_fields w (w_fields w) ns ca) as [[ns' ca']|z]; [|rewrite F; reflexivity].
    destruct F as [r' [E I]]. rewrite E, exec_block_nil. exact (IH ns' ca' r' I).
Qed.

(* the function's arguments, then every local pre-declared *)
Definition fill_env (mode cls : string) (ns : list (string * val)) (ws : list wrapperw) (ca0 : list (val * val)) : env :=
  ([("self", enc_parser mode); ("parsed_args", VR cls ns); ("wrappers", VL (map enc_wrapper ws));
    ("initial_constructor_arguments", VD ca0)]
   ++ map (fun x => (x, VNone)) fill_locals)%list.

(* what the function returns: the tuple (leftover namespace, constructor_arguments) *)
Definition fill_result (cls : string) (o : res (list (string * val) * list (val * val))) : res val :=
  match o with Ok (ns', ca') => Ok (VT [VR cls ns'; VD ca']) | Err z => Err z end.

Theorem fill_is_model mode cls ns ws ca0 :
  run (fill_env mode cls ns ws ca0) fill_src = fill_result cls (fill_fn (String.eqb mode MERGE) ws ns ca0).
Proof.
  unfold run, fill_fn. rewrite fill_shape.
  assert (H1 : lookup "self" (fill_env mode cls ns ws ca0) = Some (enc_parser mode)) by reflexivity.
  assert (H2 : lookup "parsed_args" (fill_env mode cls ns ws ca0) = Some (VR cls ns)) by reflexivity.
  assert (H3 : lookup "wrappers" (fill_env mode cls ns ws ca0) = Some (VL (map enc_wrapper ws))) by reflexivity.
  assert (H4 : lookup "initial_constructor_arguments" (fill_env mode cls ns ws ca0) = Some (VD ca0)) by reflexivity.
  set (r0 := fill_env mode cls ns ws ca0) in *. clearbody r0.
  go. cbn [val_eqb truthy]. unfold MERGE.
  assert (TAIL : forall r, lookup "self" r = Some (enc_parser mode) -> lookup "parsed_args" r = Some (VR cls ns) ->
                 lookup "wrappers" r = Some (VL (map enc_wrapper ws)) -> lookup "initial_constructor_arguments" r = Some (VD ca0) ->
                 match exec_block r (skipn 1 [SIf (EBool true) [] []; SAssign "constructor_arguments" (ECopy (EVar "initial_constructor_arguments"));
                     SAssign "deleted_values" (EDict []);
                     SFor "wrapper" (EVar "wrappers") [SForC "field" (EAttr (EVar "wrapper") "fields") field_body];
                     SAssign "leftover_args" (EVar "parsed_args"); SIf (EVar "deleted_values") [] [];
                     SReturn (ETuple [EVar "leftover_args"; EVar "constructor_arguments"])]) with
                 | Ok (_, Some v) => Ok v | Ok (_, None) => Ok VNone | Err z => Err z end
                 = fill_result cls (fill_wrappers ws ns ca0)).
  { clear. intros r H1 H2 H3 H4. cbn [skipn]. go. go.
    rewrite exec_block_cons, exec_for, eval_var. lk. hy.
    match goal with |- context [iter_list _ _ ?r] => pose proof (wrappers_loop (enc_parser mode) cls ws ns ca0 r) as L end.
    destruct (fill_wrappers ws ns ca0) as [[ns' ca']|z].
    - destruct L as [r' [E [A [B [C [dv D]]]]]]; [repeat split; lk; try assumption; eexists; reflexivity|].
      rewrite E. go. go. destruct (truthy (VD dv)); rewrite !exec_block_nil; go; reflexivity.
    - rewrite L; [reflexivity|]. repeat split; lk; try assumption; eexists; reflexivity. }
  destruct (String.eqb mode "ConflictResolution.ALWAYS_MERGE"); cbn [negb truthy andb].
  - rewrite exec_block_nil. exact (TAIL r0 H1 H2 H3 H4).
  - go. rewrite map_length. cbn [val_eqb truthy].
    destruct (Nat.eqb (List.length ws) (List.length ca0)); cbn [negb].
    + rewrite exec_block_nil. exact (TAIL r0 H1 H2 H3 H4).
    + reflexivity.
Qed.

(* FieldWrapper.__call__ alone: what it leaves in its two mutated arguments *)
Definition final_var (x : string) (o : res (env * option val)) : res val :=
  match o with
  | Ok (r, _) => match lookup x r with Some v => Ok v | None => Err (Raise "NameError") end
  | Err z => Err z
  end.

Theorem call_is_model f parser nsv values ca :
  final_var "constructor_arguments" (exec_block (call_env f parser nsv values ca) field_call_src)
  = match call_fn f values ca with Ok ca' => Ok (VD ca') | Err z => Err z end
  /\ final_var "namespace" (exec_block (call_env f parser nsv values ca) field_call_src)
     = match call_fn f values ca with Ok _ => Ok nsv | Err z => Err z end.
Proof.
  pose proof (call_spec f parser nsv values ca) as C.
  destruct (call_fn f values ca) as [ca'|z].
  - destruct C as [r1 [o [E [A B]]]]. rewrite E. cbn [final_var]. rewrite A, B. split; reflexivity.
  - rewrite C. split; reflexivity.
Qed.

(* non-vacuity: one dataclass wrapper merged over two destinations (a re-used field, dealt by the duplicate_if_needed table and
   post-processed by the postprocess table), one plain field whose option was given, one non-init field, one subgroup field *)
Example fill_nonvacuous :
  let reused := mkfieldw "a.x" (VL [VN 0]) false true true ["a.x"; "b.x"]
                         [(VL [VN 7], VL [VN 7; VN 7])] [(VN 7, VS "seven")] VNone in
  let plain := mkfieldw "a.y" (VS "dflt") false true false ["a.y"] [] [(VS "given", VS "given"); (VS "dflt", VS "dflt")] VNone in
  let noinit := mkfieldw "a.z" VNone false false false ["a.z"] [] [] VNone in
  let sub := mkfieldw "a.s" VNone true true false ["a.s"] [] [] (VD []) in
  run (fill_env "ConflictResolution.ALWAYS_MERGE" "Namespace" [("a.x", VL [VN 7]); ("a.y", VS "given"); ("other", VB true)]
                [mkwrapperw [reused; plain; noinit; sub] [VNone]] [(VS "a", VD []); (VS "b", VD [(VS "x", VNone)])]) fill_src
  = Ok (VT [VR "Namespace" [("other", VB true)];
            VD [(VS "a", VD [(VS "x", VS "seven"); (VS "y", VS "given")]); (VS "b", VD [(VS "x", VS "seven")])]]).
Proof. vm_compute. reflexivity. Qed.
