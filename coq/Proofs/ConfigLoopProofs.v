(* Proofs/ConfigLoopProofs.v — C15: the model of save() -> config_path against the spec, for all types of the grammar,
   all well-typed values, all trees; no size bound.  The generic part is proved for ANY encode table / suffix table that
   has the entries the loop relies on; the last section discharges those entries for the regenerated tables. *)
From SPV Require Import Base.Str Model.Leaf Model.LeafSpec Model.ConfigLoop Model.ConfigLoopSpec
                        Gen.FactsBool Gen.FactsLeaf Gen.FactsConfigLoop.

(* ---------- small facts about the shared definitions ---------- *)
Lemma value_eqb_refl_scalar : forall v, match v with VList _ | VTup _ => True | _ => value_eqb v v = true end.
Proof.
  destruct v; cbn [value_eqb]; auto using Z.eqb_refl, String.eqb_refl, Bool.eqb_reflx.
  rewrite Bool.eqb_reflx, Z.eqb_refl, String.eqb_refl. reflexivity.
Qed.

Lemma assoc_In_nodup {A} (l : list (string * A)) n a :
  NoDup (map fst l) -> In (n, a) l -> assoc n l = Some a.
Proof.
  induction l as [|[k b] r IH]; intros Hnd Hin; [destruct Hin|].
  cbn [map fst] in Hnd. inversion Hnd as [|? ? Hnotin Hnd']; subst.
  cbn [assoc]. destruct Hin as [Heq|Hin].
  - inversion Heq; subst. rewrite String.eqb_refl. reflexivity.
  - destruct (String.eqb n k) eqn:E.
    + apply String.eqb_eq in E; subst. exfalso. apply Hnotin. apply in_map_iff. exists (k, a). split; auto.
    + apply IH; assumption.
Qed.

(* member lists related name by name (Prop version of all2b) *)
Section All2P.
  Context {A B : Type}.
  Variable R : A -> B -> Prop.
  Fixpoint all2P (l1 : list (string * A)) (l2 : list (string * B)) : Prop :=
    match l1, l2 with
    | [], [] => True
    | (n, a) :: r1, (m, b) :: r2 => n = m /\ R a b /\ all2P r1 r2
    | _, _ => False
    end.
  Lemma all2P_names : forall l1 l2, all2P l1 l2 -> map fst l2 = map fst l1.
  Proof.
    induction l1 as [|[n a] r1 IH]; intros [|[m b] r2] H; try destruct H; [reflexivity|].
    destruct H0 as [_ H0]. cbn [map fst]. subst m. rewrite (IH r2 H0). reflexivity.
  Qed.
End All2P.

Section SchemaInd.
  Variable P : schema -> Prop.
  Hypothesis HLf : forall t d, P (SLeaf t d).
  Hypothesis HNd : forall fs, Forall (fun kv => P (snd kv)) fs -> P (SNode fs).
  Hypothesis HOpt : forall s, P s -> P (SOpt s).
  Fixpoint schema_nested_ind (s : schema) : P s :=
    match s with
    | SLeaf t d => HLf t d
    | SOpt s' => HOpt s' (schema_nested_ind s')
    | SNode fs => HNd fs ((fix go (l : list (string * schema)) : Forall (fun kv => P (snd kv)) l :=
                             match l with
                             | [] => Forall_nil _
                             | kv :: r => Forall_cons kv (schema_nested_ind (snd kv)) (go r)
                             end) fs)
    end.
End SchemaInd.

Section InstInd.
  Variable P : inst -> Prop.
  Hypothesis HLf : forall v, P (ILeaf v).
  Hypothesis HOp : forall w, P (IOpaque w).
  Hypothesis HNd : forall fs, Forall (fun kv => P (snd kv)) fs -> P (INode fs).
  Fixpoint inst_nested_ind (x : inst) : P x :=
    match x with
    | ILeaf v => HLf v
    | IOpaque w => HOp w
    | INode fs => HNd fs ((fix go (l : list (string * inst)) : Forall (fun kv => P (snd kv)) l :=
                            match l with
                            | [] => Forall_nil _
                            | kv :: r => Forall_cons kv (inst_nested_ind (snd kv)) (go r)
                            end) fs)
    end.
End InstInd.

(* ---------- the wiring the loop relies on (what the translator reads off the current source) ---------- *)
Definition W_EXPECTED : wiring :=
  mkwiring
    [(PtEnum, PrEnumByName); (PtChoice, PrChoice); (PtTuple, PrTuple true); (PtBool, PrIdentity); (PtList, PrListOfTuple);
     (PtSubparser, PrIdentity); (PtOptional, PrOptTuple); (PtNotBuiltin, PrCallType)]
    [DManual; DSubgroup; DParent; DFieldDefault; DFactory; DStoreTrue; DStoreFalse]
    true
    [GOptional; GDefaultNone; GDefaultsAllNone]
    [CCtor; CCli] NmWithoutRoot NmDefault [NmWithoutRoot] true true.

(* postprocess under that wiring, written out (Leaf.v's postprocess covers what a parse can produce; the remaining shapes a
   default can have are listed first) *)
Definition post_ref (t : ty) (x : value) : res value :=
  match t, x with
  | TEnum ms, VStr s => if str_in s ms then Ok (VEnum s) else Err (Raise "KeyError")
  | TPath, VStr s => Ok (VPath s)
  | TList _, VTup vs => Ok (VList vs)
  | TTupFix _, VNone | TTupVar _, VNone => Ok VNone
  | TTupFix _, VList _ | TTupVar _, VList _ | TTupFix _, VTup _ | TTupVar _, VTup _ => Ok (postprocess t (to_raw x))
  | TTupFix _, _ | TTupVar _, _ => Err (Raise "OutOfModel")
  | _, _ => Ok (postprocess t (to_raw x))
  end.

Lemma post_expected t x : post_value W_EXPECTED t x = post_ref t x.
Proof.
  destruct t as [| | | | |ms|cs|u|ts|u|u]; destruct x; try reflexivity; destruct u; reflexivity.
Qed.

Lemma map_fst_retag {A B} (f : A -> B) (xs : list (string * A)) :
  map fst (map (fun kv => (fst kv, f (snd kv))) xs) = map fst xs.
Proof. induction xs as [|[n a] r IH]; [reflexivity|]. cbn [map fst snd]. rewrite IH. reflexivity. Qed.

Section Generic.
  Variable str2bool : string -> option bool.
  Variable emc : string.
  Variable enc : list (string * erule).
  Variable exts : list (string * codec).
  Variable edn : bool.
  Variable W : wiring.
  Variable E : enum_env.
  Hypothesis Henum : assoc "Enum" enc = Some EName.
  Hypothesis Hpath : assoc "PathLike" enc = Some EFspath.
  Hypothesis Hlist : assoc "list" enc = Some ESeq.
  Hypothesis Htup : assoc "tuple" enc = Some ESeq.
  Hypothesis Hexts : forall sfx, str_in sfx four_suffixes = true ->
                       assoc sfx exts = Some CJson \/ assoc sfx exts = Some CYaml \/ assoc sfx exts = Some CPickle.

  Let enc' := encode_cfg enc.
  Hypothesis HW : W = W_EXPECTED.
  Hypothesis Hedn : edn = true.

  Let fin := finish_default str2bool emc edn W E.
  Let vvc := value_via_config str2bool emc edn W E.

  (* what a value is read back as: encode, then load *)
  Definition reload (v : value) : value := decode (enc' v).

  (* ---------- the interpreted tables, under the expected wiring ---------- *)
  Lemma fin_ref t d :
    fin t d = bind (argparse_default str2bool emc W E t (arg_options t) (as_argparse_default edn W E t d)) (post_ref t).
  Proof.
    unfold fin, finish_default.
    destruct (argparse_default str2bool emc W E t (arg_options t) (as_argparse_default edn W E t d)); [|reflexivity].
    cbn [bind]. rewrite HW. apply post_expected.
  Qed.

  Lemma field_default_ref defn v :
    field_default W defn v = match v with VNone => match defn with Some d => d | None => VNone end | _ => v end.
  Proof. rewrite HW. destruct v; destruct defn; reflexivity. Qed.

  (* ---------- encode then load ---------- *)
  Lemma reload_plain u v : plain_item u = true -> has_type v u = true -> reload v = v.
  Proof. destruct u; try discriminate; destruct v; try discriminate; reflexivity. Qed.

  Lemma reload_enum m : reload (VEnum m) = VStr m.
  Proof. unfold reload, enc'. cbn [encode_cfg]. rewrite Henum. reflexivity. Qed.
  Lemma reload_path s : reload (VPath s) = VStr s.
  Proof. unfold reload, enc'. cbn [encode_cfg]. rewrite Hpath. reflexivity. Qed.
  Lemma reload_list vs : reload (VList vs) = VList (map reload vs).
  Proof. unfold reload, enc'. cbn [encode_cfg]. rewrite Hlist. cbn [decode]. rewrite map_map. reflexivity. Qed.
  Lemma reload_tup vs : reload (VTup vs) = VList (map reload vs).
  Proof. unfold reload, enc'. cbn [encode_cfg]. rewrite Htup. cbn [decode]. rewrite map_map. reflexivity. Qed.

  Lemma reload_items_list u vs :
    plain_item u = true -> forallb (fun x => has_type x u) vs = true -> map reload vs = vs.
  Proof.
    intros Hu. induction vs as [|x r IH]; intros H; [reflexivity|].
    cbn [forallb] in H. apply andb_true_iff in H. destruct H as [Hx Hr].
    cbn [map]. rewrite (reload_plain u x Hu Hx), (IH Hr). reflexivity.
  Qed.

  Lemma has_type_tupfix_cons u ts x vs :
    has_type (VTup (x :: vs)) (TTupFix (u :: ts)) = has_type x u && has_type (VTup vs) (TTupFix ts).
  Proof. reflexivity. Qed.

  Lemma reload_items_fix ts : forall vs,
    forallb plain_item ts = true -> has_type (VTup vs) (TTupFix ts) = true -> map reload vs = vs.
  Proof.
    induction ts as [|u r IH]; intros vs Hp Ht.
    - destruct vs; [reflexivity|discriminate].
    - destruct vs as [|x vs]; [discriminate|].
      rewrite has_type_tupfix_cons in Ht. apply andb_true_iff in Ht. destruct Ht as [Hx Hr].
      cbn [forallb] in Hp. apply andb_true_iff in Hp. destruct Hp as [Hu Hp].
      cbn [map]. rewrite (reload_plain u x Hu Hx), (IH vs Hp Hr). reflexivity.
  Qed.

  (* the encoding of every value is made of primitives (so json and yaml carry it) *)
  Section ValueInd.
    Variable P : value -> Prop.
    Hypothesis Hsc : forall v, match v with VList _ | VTup _ => True | _ => P v end.
    Hypothesis HL : forall vs, Forall P vs -> P (VList vs).
    Hypothesis HT : forall vs, Forall P vs -> P (VTup vs).
    Fixpoint value_nested_ind (v : value) : P v :=
      match v with
      | VList vs => HL vs ((fix go (l : list value) : Forall P l :=
                              match l with [] => Forall_nil P | x :: r => Forall_cons x (value_nested_ind x) (go r) end) vs)
      | VTup vs => HT vs ((fix go (l : list value) : Forall P l :=
                             match l with [] => Forall_nil P | x :: r => Forall_cons x (value_nested_ind x) (go r) end) vs)
      | VInt z => Hsc (VInt z) | VFlt n i f => Hsc (VFlt n i f) | VStr s => Hsc (VStr s) | VBool b => Hsc (VBool b)
      | VNone => Hsc VNone | VEnum m => Hsc (VEnum m) | VPath s => Hsc (VPath s)
      end.
  End ValueInd.

  Lemma encode_plain : forall v, plain (enc' v) = true.
  Proof.
    apply value_nested_ind.
    - intros v. destruct v; try exact I; unfold enc'; cbn [encode_cfg]; try reflexivity.
      + rewrite Henum. reflexivity.
      + rewrite Hpath. reflexivity.
    - intros vs H. unfold enc'. cbn [encode_cfg]. rewrite Hlist. cbn [plain]. rewrite forallb_forall.
      intros p Hp. apply in_map_iff in Hp. destruct Hp as [x [Hx Hin]]. subst p.
      rewrite Forall_forall in H. apply H. exact Hin.
    - intros vs H. unfold enc'. cbn [encode_cfg]. rewrite Htup. cbn [plain]. rewrite forallb_forall.
      intros p Hp. apply in_map_iff in Hp. destruct Hp as [x [Hx Hin]]. subst p.
      rewrite Forall_forall in H. apply H. exact Hin.
  Qed.

  (* ---------- from the default to the constructor argument ---------- *)
  (* every member default of a (non-Optional) Enum field reaches argparse as its name *)
  Lemma as_default_ref t d :
    as_argparse_default edn W E t d = match t, d with TEnum _, VEnum m => VStr m | _, _ => d end.
  Proof. unfold as_argparse_default. rewrite Hedn, HW. destruct t; destruct d; reflexivity. Qed.

  Lemma as_default_not_enum t d :
    match t with TEnum _ => False | _ => True end -> as_argparse_default edn W E t d = d.
  Proof. rewrite as_default_ref. destruct t; intros H; try reflexivity. destruct H. Qed.

  (* a member default of an Optional[Enum] field is used as it is, str-mixin or not (the by-name converter returns members unchanged) *)
  Lemma argparse_member_opt u a m :
    argparse_default str2bool emc W E (TOpt u) a (VEnum m) = Ok (VEnum m).
  Proof. unfold argparse_default. rewrite HW. destruct (is_str_member E (TOpt u)); reflexivity. Qed.

  (* a live Python object that is an instance of the annotation passes through unchanged *)
  Lemma finish_live t d :
    cfg_type t = true -> has_type d t = true -> d <> VNone -> fin t d = Ok d.
  Proof.
    intros Hc Ht Hn. rewrite fin_ref.
    destruct t as [| | | | |ms|cs|u|ts|u|u]; try discriminate Hc.
    - destruct d; try discriminate Ht. rewrite as_default_not_enum by exact I. reflexivity.
    - destruct d; try discriminate Ht. rewrite as_default_not_enum by exact I. reflexivity.
    - destruct d; try discriminate Ht. rewrite as_default_not_enum by exact I. reflexivity.
    - destruct d; try discriminate Ht. rewrite as_default_not_enum by exact I. reflexivity.
    - destruct d; try discriminate Ht. rewrite as_default_not_enum by exact I. reflexivity.
    - destruct d; try discriminate Ht. cbn [has_type] in Ht.
      rewrite as_default_ref. cbn. rewrite Ht. reflexivity.
    - destruct d; try discriminate Ht. rewrite as_default_not_enum by exact I. reflexivity.
    - destruct d; try discriminate Ht. rewrite as_default_not_enum by exact I. reflexivity.
    - destruct d; try discriminate Ht. rewrite as_default_not_enum by exact I. reflexivity.
    - rewrite as_default_not_enum by exact I.
      destruct d; try (exfalso; apply Hn; reflexivity);
        destruct u; try discriminate Hc; try discriminate Ht; try reflexivity.
      rewrite argparse_member_opt. reflexivity.
  Qed.

  (* ---------- values read from the file ---------- *)
  (* scalars: a str read from the file re-enters through the action's type= converter and postprocess, which invert the encoding *)
  Lemma finish_reload_scalar t v : is_item t = true -> has_type v t = true -> fin t (reload v) = Ok v.
  Proof.
    intros Hi Ht. rewrite fin_ref.
    destruct t; try discriminate Hi; destruct v; try discriminate Ht;
      try (rewrite as_default_not_enum by exact I); try reflexivity.
    - rewrite reload_path. reflexivity.
    - rewrite reload_enum. cbn [has_type] in Ht. rewrite as_default_ref. cbn. rewrite Ht. reflexivity.
  Qed.

  Lemma finish_reload_opt_scalar u v : is_item u = true -> has_type v u = true -> fin (TOpt u) (reload v) = Ok v.
  Proof.
    intros Hi Ht. rewrite fin_ref. rewrite as_default_not_enum by exact I.
    destruct u; try discriminate Hi; destruct v; try discriminate Ht; try reflexivity.
    - rewrite reload_path. reflexivity.
    - rewrite reload_enum. cbn [has_type] in Ht. cbn. rewrite Ht. reflexivity.
  Qed.

  (* containers: the list read from the file is used as it is; postprocess only fixes the outer constructor *)
  Lemma finish_list u l : fin (TList u) (VList l) = Ok (VList l).
  Proof. rewrite fin_ref. rewrite as_default_not_enum by exact I. reflexivity. Qed.
  Lemma finish_tupfix ts l : fin (TTupFix ts) (VList l) = Ok (VTup l).
  Proof. rewrite fin_ref. rewrite as_default_not_enum by exact I. reflexivity. Qed.
  Lemma finish_tupvar u l : fin (TTupVar u) (VList l) = Ok (VTup l).
  Proof. rewrite fin_ref. rewrite as_default_not_enum by exact I. reflexivity. Qed.
  Lemma finish_opt_list u l : fin (TOpt (TList u)) (VList l) = Ok (VList l).
  Proof. rewrite fin_ref. rewrite as_default_not_enum by exact I. reflexivity. Qed.
  Lemma finish_opt_tupfix ts l : fin (TOpt (TTupFix ts)) (VList l) = Ok (VTup l).
  Proof. rewrite fin_ref. rewrite as_default_not_enum by exact I. reflexivity. Qed.
  Lemma finish_opt_tupvar u l : fin (TOpt (TTupVar u)) (VList l) = Ok (VTup l).
  Proof. rewrite fin_ref. rewrite as_default_not_enum by exact I. reflexivity. Qed.
  Lemma finish_opt_none u : fin (TOpt u) VNone = Ok VNone.
  Proof. rewrite fin_ref. rewrite as_default_not_enum by exact I. destruct u; reflexivity. Qed.

  Lemma reload_not_none v : v <> VNone -> reload v <> VNone.
  Proof.
    intros Hn. destruct v; try (intro H; discriminate H).
    - exfalso. apply Hn. reflexivity.
    - rewrite reload_enum. discriminate.
    - rewrite reload_path. discriminate.
    - rewrite reload_list. discriminate.
    - rewrite reload_tup. discriminate.
  Qed.

  Lemma vvc_nonnull t defn v : v <> VNone -> vvc t defn (enc' v) = fin t (reload v).
  Proof.
    intros Hn. apply reload_not_none in Hn. unfold vvc, value_via_config. fold (reload v). rewrite field_default_ref.
    destruct (reload v); try reflexivity. exfalso. apply Hn. reflexivity.
  Qed.

  Lemma vvc_null t defn : vvc t defn (enc' VNone) =
    match defn with
    | Some VNone | None => match t, defn with TOpt _, _ => fin t VNone | _, Some VNone => fin t VNone | _, _ => Err (Exit 2) end
    | Some d => fin t d
    end.
  Proof. unfold vvc, value_via_config. rewrite field_default_ref. cbn [enc' encode_cfg decode]. destruct defn as [d|]; [destruct d|]; reflexivity. Qed.

  (* ---------- one field, every type of the grammar: exactly what comes back ---------- *)
  Definition comes_back (defn : option value) (v : value) : value :=
    match v with
    | VNone => match defn with Some d => d | None => VNone end
    | VList vs => VList (map reload vs)
    | VTup vs => VTup (map reload vs)
    | _ => v
    end.

  Theorem leaf_characterised t defn v :
    cfg_type t = true -> defn_typed t defn = true -> has_type v t = true ->
    vvc t defn (enc' v) = Ok (comes_back defn v).
  Proof.
    intros Hc Hd Ht.
    destruct (match v with VNone => true | _ => false end) eqn:Enull.
    - (* None was saved: only an Optional field can hold it; the definition default takes over *)
      destruct v; try discriminate Enull. rewrite vvc_null.
      destruct t as [| | | | |ms|cs|u|ts|u|u]; try discriminate Ht; try discriminate Hc.
      destruct defn as [d|]; cbn [comes_back].
      + destruct (match d with VNone => true | _ => false end) eqn:Ed.
        * destruct d; try discriminate Ed. apply finish_opt_none.
        * assert (Hlive : fin (TOpt u) d = Ok d).
          { apply finish_live; [exact Hc|exact Hd|]. intro H; subst d; discriminate Ed. }
          destruct d; try discriminate Ed; exact Hlive.
      + apply finish_opt_none.
    - assert (Hn : v <> VNone) by (intro H; subst v; discriminate Enull).
      rewrite (vvc_nonnull t defn v Hn).
      destruct t as [| | | | |ms|cs|u|ts|u|u]; try discriminate Hc.
      + rewrite finish_reload_scalar by (reflexivity || exact Ht). destruct v; try discriminate Ht; reflexivity.
      + rewrite finish_reload_scalar by (reflexivity || exact Ht). destruct v; try discriminate Ht; reflexivity.
      + rewrite finish_reload_scalar by (reflexivity || exact Ht). destruct v; try discriminate Ht; reflexivity.
      + rewrite finish_reload_scalar by (reflexivity || exact Ht). destruct v; try discriminate Ht; reflexivity.
      + rewrite finish_reload_scalar by (reflexivity || exact Ht). destruct v; try discriminate Ht; reflexivity.
      + rewrite finish_reload_scalar by (reflexivity || exact Ht). destruct v; try discriminate Ht; reflexivity.
      + destruct v; try discriminate Ht. rewrite reload_list. apply finish_list.
      + destruct v; try discriminate Ht. rewrite reload_tup. apply finish_tupfix.
      + destruct v; try discriminate Ht. rewrite reload_tup. apply finish_tupvar.
      + (* Optional[u], a value other than None *)
        assert (Htu : has_type v u = true) by (destruct v; try exact Ht; exfalso; apply Hn; reflexivity).
        unfold cfg_type, cli_type in Hc. apply orb_true_iff in Hc. destruct Hc as [Hi|Hcont].
        * rewrite (finish_reload_opt_scalar u v Hi Htu).
          destruct u; try discriminate Hi; destruct v; try discriminate Htu; reflexivity.
        * destruct u; try discriminate Hcont; destruct v; try discriminate Htu.
          -- rewrite reload_list. apply finish_opt_list.
          -- rewrite reload_tup. apply finish_opt_tupfix.
          -- rewrite reload_tup. apply finish_opt_tupvar.
  Qed.

  (* ---------- under the two side conditions nothing is lost ---------- *)
  Lemma comes_back_id t defn v :
    cfg_type t = true -> has_type v t = true -> items_plain t = true -> not_null_over_default defn v = true ->
    comes_back defn v = v.
  Proof.
    intros Hc Ht Hp Hn. destruct v; try reflexivity.
    - destruct defn as [d|]; [destruct d; try discriminate Hn|]; reflexivity.
    - cbn [comes_back]. f_equal.
      destruct t as [| | | | |ms|cs|u|ts|u|u]; try discriminate Ht; try discriminate Hc.
      + apply (reload_items_list u); [exact Hp|exact Ht].
      + destruct u as [| | | | |ms|cs|w|ts|w|w]; try discriminate Ht; try discriminate Hc.
        apply (reload_items_list w); [exact Hp|exact Ht].
    - cbn [comes_back]. f_equal.
      destruct t as [| | | | |ms|cs|u|ts|u|u]; try discriminate Ht; try discriminate Hc.
      + apply (reload_items_fix ts); [exact Hp|exact Ht].
      + apply (reload_items_list u); [exact Hp|exact Ht].
      + destruct u as [| | | | |ms|cs|w|ts|w|w]; try discriminate Ht; try discriminate Hc.
        * apply (reload_items_fix ts); [exact Hp|exact Ht].
        * apply (reload_items_list w); [exact Hp|exact Ht].
  Qed.

  Theorem leaf_partial t defn v :
    cfg_type t = true -> defn_typed t defn = true -> has_type v t = true ->
    items_plain t = true -> not_null_over_default defn v = true ->
    vvc t defn (enc' v) = Ok v.
  Proof.
    intros Hc Hd Ht Hp Hn. rewrite (leaf_characterised t defn v Hc Hd Ht).
    rewrite (comes_back_id t defn v Hc Ht Hp Hn). reflexivity.
  Qed.

  (* ---------- trees of dataclasses: the loop composes leaf by leaf ---------- *)
  Let tod := to_dict enc.
  Let ld := load_cfg str2bool emc edn W E.

  (* every leaf of the instance comes back unchanged through its own field; names are distinct in every class *)
  Fixpoint loops (s : schema) (x : inst) {struct s} : Prop :=
    match s, x with
    | SLeaf t defn, ILeaf v => vvc t defn (enc' v) = Ok v
    | SNode fs, INode xs => NoDup (map fst fs) /\ all2P loops fs xs
    | SOpt s', ILeaf VNone => absent_err str2bool emc edn W E s' = None      (* an Optional member that is None *)
    | SOpt s', INode _ => loops s' x    (* ... that holds an instance *)
    | _, _ => False
    end.

  (* a section of the file is recorded as the wrapper's own default, which defeats the "member is None" guard *)
  Lemma guard_defeated : guard_holds W true = false.
  Proof. rewrite HW. reflexivity. Qed.

  Lemma load_fields_ok kvs : forall l1 l2,
    all2P loops l1 l2 ->
    Forall (fun kv => forall x, loops (snd kv) x -> ld (snd kv) (Some (tod x)) = Ok x) l1 ->
    (forall n x, In (n, x) l2 -> assoc n kvs = Some (tod x)) ->
    load_fields ld kvs l1 = Ok l2.
  Proof.
    induction l1 as [|[n s'] r1 IH]; intros [|[m x'] r2] Hall HF Hk; try destruct Hall; [reflexivity|].
    destruct H0 as [Hl Hr]. subst m. inversion HF as [|? ? Hhd Htl]; subst.
    cbn [load_fields]. rewrite (Hk n x' (or_introl eq_refl)).
    cbn [snd] in Hhd. rewrite (Hhd x' Hl).
    rewrite (IH r2 Hr Htl); [reflexivity|]. intros k y Hin. apply Hk. right. exact Hin.
  Qed.

  Lemma keys_known (fs : list (string * schema)) (xs : list (string * inst)) :
    map fst xs = map fst fs ->
    forallb (fun kv : string * doc => str_in (fst kv) (map fst fs)) (map (fun kv => (fst kv, tod (snd kv))) xs) = true.
  Proof.
    intros Hn. apply forallb_forall. intros kv Hin. apply in_map_iff in Hin. destruct Hin as [[n x] [Heq Hin]]. subst kv.
    cbn [fst snd]. apply str_in_In. rewrite <- Hn. apply in_map_iff. exists (n, x). split; [reflexivity|exact Hin].
  Qed.

  Theorem tree_compose : forall s x, loops s x -> ld s (Some (tod x)) = Ok x.
  Proof.
    apply (schema_nested_ind (fun s => forall x, loops s x -> ld s (Some (tod x)) = Ok x)).
    - intros t d x H. destruct x as [v|xs|w]; try exact (False_ind _ H).
      unfold ld, tod. cbn [to_dict load_cfg]. fold enc'. fold vvc. cbn [loops] in H. rewrite H. reflexivity.
    - intros fs IH x H. destruct x as [v|xs|w]; try exact (False_ind _ H). destruct H as [Hnd Hall].
      pose proof (all2P_names loops fs xs Hall) as Hnames.
      unfold ld, tod. cbn [to_dict load_cfg]. fold tod. fold ld.
      rewrite (keys_known fs xs Hnames). cbn [negb].
      rewrite (load_fields_ok (map (fun kv => (fst kv, tod (snd kv))) xs) fs xs Hall IH); [reflexivity|].
      intros n x Hin. apply assoc_In_nodup.
      + rewrite map_fst_retag. rewrite Hnames. exact Hnd.
      + apply in_map_iff. exists (n, x). split; [reflexivity|exact Hin].
    - intros s IH x H. destruct x as [v|xs|w]; try exact (False_ind _ H).
      + destruct v; try exact (False_ind _ H). cbn [loops] in H. unfold ld, tod. cbn [to_dict encode_cfg load_cfg]. rewrite H. reflexivity.
      + cbn [loops] in H. specialize (IH (INode xs) H). unfold ld, tod in IH |- *. cbn [to_dict] in IH |- *.
        cbn [load_cfg]. rewrite guard_defeated. cbn [andb]. exact IH.
  Qed.

  (* with the None guard in postprocess' tuple branch, the fields of a None member are processed without error *)
  Lemma as_default_none t : as_argparse_default edn W E t VNone = VNone.
  Proof. rewrite as_default_ref. destruct t; reflexivity. Qed.

  Lemma member_loads_ok : forall s,
    member_loads s = true -> absent_err str2bool emc edn W E s = None.
  Proof.
    apply (schema_nested_ind (fun s => member_loads s = true -> absent_err str2bool emc edn W E s = None)).
    - intros t defn H. cbn [absent_err] in *.
      assert (Hnone : fin t VNone = Ok VNone).
      { destruct t; try (rewrite fin_ref; rewrite as_default_none; reflexivity).
        apply finish_opt_none. }
      change (finish_default str2bool emc edn W E) with fin. rewrite field_default_ref.
      destruct defn as [d|]; cbn [member_loads] in *.
      + destruct (match d with VNone => true | _ => false end) eqn:Ed.
        * destruct d; try discriminate Ed. rewrite Hnone. reflexivity.
        * assert (Hd : d <> VNone) by (intro E'; subst d; discriminate Ed).
          assert (H' : cfg_type t && has_type d t = true) by (destruct d; try exact H; discriminate Ed).
          apply andb_true_iff in H'. destruct H' as [Hc Ht].
          pose proof (finish_live t d Hc Ht Hd) as Hl.
          destruct d; try (rewrite Hl; reflexivity); discriminate Ed.
      + rewrite Hnone. reflexivity.
    - intros fs IH H. cbn [member_loads absent_err] in *.
      induction IH as [|[n s'] r Hhd _ IHr]; [reflexivity|].
      cbn [forallb snd first_err_fields] in *. apply andb_true_iff in H. destruct H as [H1 H2].
      rewrite (Hhd H1). apply IHr; assumption.
    - intros s IH H. cbn [member_loads absent_err] in *. apply IH; assumption.
  Qed.

  (* the property's quantifier and the side conditions give the leaf-wise premise *)
  Lemma quantifier_all2 : forall l1 l2,
    all2b in_quantifier l1 l2 = true -> all2b side_conditions l1 l2 = true ->
    Forall (fun kv => forall x, in_quantifier (snd kv) x = true -> side_conditions (snd kv) x = true -> loops (snd kv) x) l1 ->
    all2P loops l1 l2.
  Proof.
    induction l1 as [|[n s'] r1 IH]; intros [|[m x'] r2] Hq Hs HF; try discriminate Hq; [exact I|].
    cbn [all2b] in Hq, Hs. apply andb_true_iff in Hq. destruct Hq as [Hq Hq3]. apply andb_true_iff in Hq. destruct Hq as [Hq1 Hq2].
    apply andb_true_iff in Hs. destruct Hs as [Hs Hs3]. apply andb_true_iff in Hs. destruct Hs as [_ Hs2].
    inversion HF as [|? ? Hhd Htl]; subst. cbn [all2P]. split; [apply String.eqb_eq; exact Hq1|]. split.
    - apply (Hhd x' Hq2 Hs2).
    - apply IH; assumption.
  Qed.

  Lemma quantifier_loops : forall s x, in_quantifier s x = true -> side_conditions s x = true -> loops s x.
  Proof.
    apply (schema_nested_ind (fun s => forall x, in_quantifier s x = true -> side_conditions s x = true -> loops s x)).
    - intros t d x Hq Hs. destruct x as [v|xs|w]; try discriminate Hq.
      cbn [in_quantifier] in Hq. cbn [side_conditions] in Hs. cbn [loops].
      apply andb_true_iff in Hq. destruct Hq as [Hq Ht]. apply andb_true_iff in Hq. destruct Hq as [Hc Hd].
      apply andb_true_iff in Hs. destruct Hs as [Hp Hn]. apply leaf_partial; assumption.
    - intros fs IH x Hq Hs. destruct x as [v|xs|w]; try discriminate Hq.
      cbn [in_quantifier] in Hq. cbn [side_conditions] in Hs. cbn [loops].
      apply andb_true_iff in Hq. destruct Hq as [Hnd Hq]. split.
      + apply str_nodupb_NoDup. exact Hnd.
      + apply quantifier_all2; assumption.
    - intros s IH x Hq Hs. destruct x as [v|xs|w]; try discriminate Hq.
      + destruct v; try discriminate Hq. cbn [in_quantifier side_conditions loops] in *. destruct s; try discriminate Hq. apply member_loads_ok; assumption.
      + cbn [in_quantifier side_conditions loops] in *. destruct s; try discriminate Hq. apply IH; assumption.
  Qed.

  (* ---------- the file ---------- *)
  Lemma to_dict_plain : forall x, doc_plain (tod x) = true.
  Proof.
    apply inst_nested_ind.
    - intros v. unfold tod. cbn [to_dict doc_plain]. apply encode_plain.
    - intros w. reflexivity.
    - intros fs IH. unfold tod. cbn [to_dict doc_plain]. fold tod. apply forallb_forall.
      intros kv Hin. apply in_map_iff in Hin. destruct Hin as [[n x] [Heq Hin]]. subst kv. cbn [snd].
      rewrite Forall_forall in IH. apply (IH (n, x) Hin).
  Qed.

  Lemma roundtrip_plain sfx d :
    str_in sfx four_suffixes = true -> doc_plain d = true -> file_roundtrip exts sfx d = Ok d.
  Proof.
    intros Hs Hp. unfold file_roundtrip. destruct (Hexts sfx Hs) as [H|[H|H]]; rewrite H; unfold transport; try rewrite Hp; reflexivity.
  Qed.

  Theorem tree_loop sfx s x :
    str_in sfx four_suffixes = true -> in_quantifier s x = true -> side_conditions s x = true ->
    config_loop str2bool emc enc exts edn W E sfx s x = Ok x.
  Proof.
    intros Hs Hq Hc. unfold config_loop. fold tod. rewrite (roundtrip_plain sfx (tod x) Hs (to_dict_plain x)).
    cbn [bind]. apply tree_compose. apply quantifier_loops; assumption.
  Qed.

  (* every route gives what the plain loop gives: constructor config_path= / --config_path, parse() with the un-rooted file (re-rooted by
     set_defaults under its WITHOUT_ROOT default) / ArgumentParser + add_arguments(cls, dest) with the file keyed by dest *)
  Lemma applies_all via : applies W via = true.
  Proof. rewrite HW. destruct via; reflexivity. Qed.
  Lemma rerooted_parse : rerooted W AParse = true.
  Proof. rewrite HW. reflexivity. Qed.
  Lemma rerooted_parser : rerooted W AParser = false.
  Proof. rewrite HW. reflexivity. Qed.

  Theorem routes_same via a dest sfx s x :
    str_in sfx four_suffixes = true ->
    config_run str2bool emc enc exts edn W E via a dest sfx s x = config_loop str2bool emc enc exts edn W E sfx s x.
  Proof.
    intros Hs. unfold config_run, config_loop. fold tod. rewrite applies_all. cbn [negb].
    destruct a.
    - rewrite rerooted_parse. rewrite (roundtrip_plain sfx (tod x) Hs (to_dict_plain x)).
      cbn [bind assoc]. rewrite String.eqb_refl. reflexivity.
    - rewrite rerooted_parser. rewrite (roundtrip_plain sfx (tod x) Hs (to_dict_plain x)).
      rewrite (roundtrip_plain sfx (DDict [(dest, tod x)]) Hs).
      + cbn [bind assoc]. rewrite String.eqb_refl. reflexivity.
      + cbn [doc_plain forallb snd]. rewrite to_dict_plain. reflexivity.
  Qed.

  (* ---------- named special cases ---------- *)
  Theorem scalar_loop t defn v : is_item t = true -> has_type v t = true -> vvc t defn (enc' v) = Ok v.
  Proof.
    intros Hi Ht. rewrite vvc_nonnull.
    - apply finish_reload_scalar; assumption.
    - intro H; subst v. destruct t; discriminate.
  Qed.

  Theorem list_comes_back u defn vs : vvc (TList u) defn (enc' (VList vs)) = Ok (VList (map reload vs)).
  Proof. rewrite vvc_nonnull by discriminate. rewrite reload_list. apply finish_list. Qed.
  Theorem tupfix_comes_back ts defn vs : vvc (TTupFix ts) defn (enc' (VTup vs)) = Ok (VTup (map reload vs)).
  Proof. rewrite vvc_nonnull by discriminate. rewrite reload_tup. apply finish_tupfix. Qed.
  Theorem tupvar_comes_back u defn vs : vvc (TTupVar u) defn (enc' (VTup vs)) = Ok (VTup (map reload vs)).
  Proof. rewrite vvc_nonnull by discriminate. rewrite reload_tup. apply finish_tupvar. Qed.

  Theorem tuple_loop ts defn vs :
    forallb plain_item ts = true -> has_type (VTup vs) (TTupFix ts) = true ->
    vvc (TTupFix ts) defn (enc' (VTup vs)) = Ok (VTup vs).
  Proof. intros Hp Ht. rewrite tupfix_comes_back. rewrite (reload_items_fix ts vs Hp Ht). reflexivity. Qed.

  Theorem optional_none u defn :
    match defn with Some VNone | None => True | _ => False end -> vvc (TOpt u) defn (enc' VNone) = Ok VNone.
  Proof. intros H. rewrite vvc_null. destruct defn as [d|]; [destruct d; try destruct H|]; apply finish_opt_none. Qed.

  Theorem optional_some u defn v :
    is_item u = true -> has_type v u = true -> vvc (TOpt u) defn (enc' v) = Ok v.
  Proof.
    intros Hi Ht. rewrite vvc_nonnull.
    - apply finish_reload_opt_scalar; assumption.
    - intro H; subst v. destruct u; discriminate.
  Qed.

  (* defect #8 in general: None saved over a definition default d gives d back *)
  Theorem null_falls_back u d :
    cfg_type (TOpt u) = true -> has_type d (TOpt u) = true -> d <> VNone ->
    vvc (TOpt u) (Some d) (enc' VNone) = Ok d.
  Proof.
    intros Hc Ht Hn. rewrite vvc_null. pose proof (finish_live (TOpt u) d Hc Ht Hn) as H.
    destruct d; exact H.
  Qed.

  (* ---------- what the spec demands follows ---------- *)
  Lemma value_eqb_refl : forall v, value_eqb v v = true.
  Proof.
    apply value_nested_ind.
    - intros v. pose proof (value_eqb_refl_scalar v) as H. destruct v; exact H.
    - intros vs H. cbn [value_eqb]. induction H as [|x r Hx _ IH]; [reflexivity|]. rewrite Hx. exact IH.
    - intros vs H. cbn [value_eqb]. induction H as [|x r Hx _ IH]; [reflexivity|]. rewrite Hx. exact IH.
  Qed.

  Lemma inst_eqb_refl : forall x, inst_eqb x x = true.
  Proof.
    apply inst_nested_ind.
    - intros v. apply value_eqb_refl.
    - intros w. apply String.eqb_refl.
    - intros fs H. cbn [inst_eqb]. induction H as [|[n x] r Hx _ IH]; [reflexivity|].
      cbn [all2b]. cbn [snd] in Hx. rewrite String.eqb_refl, Hx, IH. reflexivity.
  Qed.

  Lemma quantifier_typed : forall s x, in_quantifier s x = true -> inst_typed s x = true.
  Proof.
    apply (schema_nested_ind (fun s => forall x, in_quantifier s x = true -> inst_typed s x = true)).
    - intros t d x Hq. destruct x as [v|xs|w]; try discriminate Hq. cbn [in_quantifier] in Hq. cbn [inst_typed].
      apply andb_true_iff in Hq. destruct Hq as [_ Ht]. exact Ht.
    - intros fs IH x Hq. destruct x as [v|xs|w]; try discriminate Hq. cbn [in_quantifier] in Hq. cbn [inst_typed].
      apply andb_true_iff in Hq. destruct Hq as [_ Hq]. revert xs Hq.
      induction IH as [|[n s'] r Hhd _ IHr]; intros [|[m x'] r2] Hq; try discriminate Hq; [reflexivity|].
      cbn [all2b] in Hq |- *. apply andb_true_iff in Hq. destruct Hq as [Hq Hq3]. apply andb_true_iff in Hq. destruct Hq as [Hq1 Hq2].
      cbn [snd] in Hhd. rewrite Hq1, (Hhd x' Hq2), (IHr r2 Hq3). reflexivity.
    - intros s IH x Hq. destruct x as [v|xs|w]; try discriminate Hq.
      + destruct v; try discriminate Hq. reflexivity.
      + cbn [in_quantifier inst_typed] in *. destruct s; try discriminate Hq. apply IH; assumption.
  Qed.

  Theorem tree_meets_spec sfx s x :
    str_in sfx four_suffixes = true -> in_quantifier s x = true -> side_conditions s x = true ->
    spec_loop s x (config_loop str2bool emc enc exts edn W E sfx s x) = true.
  Proof.
    intros Hs Hq Hc. rewrite (tree_loop sfx s x Hs Hq Hc). unfold spec_loop.
    rewrite inst_eqb_refl, (quantifier_typed s x Hq). reflexivity.
  Qed.
End Generic.

(* ================= the regenerated tables have the entries the loop relies on ================= *)
Lemma gen_enum : assoc "Enum" encode_table_gen = Some EName. Proof. vm_compute. reflexivity. Qed.
Lemma gen_path : assoc "PathLike" encode_table_gen = Some EFspath. Proof. vm_compute. reflexivity. Qed.
Lemma gen_list : assoc "list" encode_table_gen = Some ESeq. Proof. vm_compute. reflexivity. Qed.
Lemma gen_tuple : assoc "tuple" encode_table_gen = Some ESeq. Proof. vm_compute. reflexivity. Qed.
Lemma gen_wiring : wiring_gen = W_EXPECTED. Proof. reflexivity. Qed.
Lemma gen_edn : enum_default_as_name_gen = true. Proof. reflexivity. Qed.

(* get_arg_options still gives every kind of field the type= / action= that Model/Leaf.v's arg_options (reused here for the converter a
   str default is passed through) mirrors *)
Lemma gen_arg_types : arg_type_rules_gen =
  [("self.is_choice", ["_arg_options['type'] = item_type"]); ("utils.is_optional(self.type) or self.field.default is None", ["_arg_options['type'] = get_parsing_fn(wrapped_type)"; "_arg_options['type'] = utils.get_argparse_type_for_container(wrapped_type)"; "_arg_options['type'] = get_parsing_fn(wrapped_type)"]); ("self.is_union", ["_arg_options['type'] = get_parsing_fn(self.type)"]); ("self.is_enum", ["_arg_options['type'] = str"]); ("self.is_list", ["_arg_options['type'] = type_fn"; "_arg_options['type'] = utils.get_argparse_type_for_container(self.type)"]); ("utils.is_tuple(self.type)", ["_arg_options['type'] = get_parsing_fn(self.type)"; "_arg_options['type'] = type_fn"]); ("utils.is_bool(self.type)", ["_arg_options['type'] = utils.str2bool"; "_arg_options['action'] = BooleanOptionalAction"]); ("else", ["_arg_options['type'] = self.custom_arg_options.get('type', get_parsing_fn(self.type))"])].
Proof. reflexivity. Qed.
Lemma gen_exts : forall sfx, str_in sfx four_suffixes = true ->
  assoc sfx extensions_gen = Some CJson \/ assoc sfx extensions_gen = Some CYaml \/ assoc sfx extensions_gen = Some CPickle.
Proof.
  intros sfx H. unfold four_suffixes, str_in in H. cbn [existsb] in H.
  repeat (apply orb_true_iff in H; destruct H as [H|H]); try discriminate H;
    apply String.eqb_eq in H; subst sfx; vm_compute; auto.
Qed.

Definition reload_gen := reload encode_table_gen.
Definition comes_back_gen := comes_back encode_table_gen.
Definition NOENV : enum_env := mkenv [] [].
Definition loops_gen := loops str2bool_gen enum_miss_cls_gen encode_table_gen enum_default_as_name_gen wiring_gen.

(* the property, stated in full for one field *)
Definition loop_statement : Prop :=
  forall t defn v, cfg_type t = true -> defn_typed t defn = true -> has_type v t = true ->
    value_via_config_gen NOENV t defn (encode_cfg_gen v) = Ok v.

Theorem loop_refuted_null : ~ loop_statement.
Proof.
  intros H. specialize (H (TOpt TInt) (Some (VInt 5)) VNone eq_refl eq_refl eq_refl).
  vm_compute in H. discriminate H.
Qed.

Theorem loop_refuted_items : ~ (forall t defn v,
  cfg_type t = true -> defn_typed t defn = true -> has_type v t = true -> not_null_over_default defn v = true ->
  value_via_config_gen NOENV t defn (encode_cfg_gen v) = Ok v).
Proof.
  intros H. specialize (H (TList TPath) None (VList [VPath "a"]) eq_refl eq_refl eq_refl eq_refl).
  vm_compute in H. discriminate H.
Qed.

(* the concrete witnesses, with what comes back *)
Theorem witness_null :
  value_via_config_gen NOENV (TOpt TInt) (Some (VInt 5)) (encode_cfg_gen VNone) = Ok (VInt 5).
Proof. vm_compute. reflexivity. Qed.
Theorem witness_list_path :
  value_via_config_gen NOENV (TList TPath) None (encode_cfg_gen (VList [VPath "a"; VPath "b/c"])) = Ok (VList [VStr "a"; VStr "b/c"]).
Proof. vm_compute. reflexivity. Qed.
Theorem witness_tuple_enum :
  value_via_config_gen NOENV (TTupFix [TEnum ["RED"; "GREEN"]; TInt]) None (encode_cfg_gen (VTup [VEnum "RED"; VInt 1]))
  = Ok (VTup [VStr "RED"; VInt 1]).
Proof. vm_compute. reflexivity. Qed.

Theorem leaf_characterised_gen : forall E t defn v,
  cfg_type t = true -> defn_typed t defn = true -> has_type v t = true ->
  value_via_config_gen E t defn (encode_cfg_gen v) = Ok (comes_back_gen defn v).
Proof. intros E. exact (leaf_characterised str2bool_gen enum_miss_cls_gen encode_table_gen enum_default_as_name_gen wiring_gen E gen_enum gen_path gen_list gen_tuple gen_wiring gen_edn). Qed.

Theorem leaf_partial_gen : forall E t defn v,
  cfg_type t = true -> defn_typed t defn = true -> has_type v t = true ->
  items_plain t = true -> not_null_over_default defn v = true ->
  value_via_config_gen E t defn (encode_cfg_gen v) = Ok v.
Proof. intros E. exact (leaf_partial str2bool_gen enum_miss_cls_gen encode_table_gen enum_default_as_name_gen wiring_gen E gen_enum gen_path gen_list gen_tuple gen_wiring gen_edn). Qed.

Theorem scalar_loop_gen : forall E t defn v,
  is_item t = true -> has_type v t = true -> value_via_config_gen E t defn (encode_cfg_gen v) = Ok v.
Proof. intros E. exact (scalar_loop str2bool_gen enum_miss_cls_gen encode_table_gen enum_default_as_name_gen wiring_gen E gen_enum gen_path gen_list gen_tuple gen_wiring gen_edn). Qed.

Theorem tuple_loop_gen : forall E ts defn vs,
  forallb plain_item ts = true -> has_type (VTup vs) (TTupFix ts) = true ->
  value_via_config_gen E (TTupFix ts) defn (encode_cfg_gen (VTup vs)) = Ok (VTup vs).
Proof. intros E. exact (tuple_loop str2bool_gen enum_miss_cls_gen encode_table_gen enum_default_as_name_gen wiring_gen E gen_enum gen_path gen_list gen_tuple gen_wiring gen_edn). Qed.

Theorem optional_none_gen : forall E u defn,
  match defn with Some VNone | None => True | _ => False end ->
  value_via_config_gen E (TOpt u) defn (encode_cfg_gen VNone) = Ok VNone.
Proof. intros E. exact (optional_none str2bool_gen enum_miss_cls_gen encode_table_gen enum_default_as_name_gen wiring_gen E gen_wiring gen_edn). Qed.

Theorem optional_some_gen : forall E u defn v,
  is_item u = true -> has_type v u = true -> value_via_config_gen E (TOpt u) defn (encode_cfg_gen v) = Ok v.
Proof. intros E. exact (optional_some str2bool_gen enum_miss_cls_gen encode_table_gen enum_default_as_name_gen wiring_gen E gen_enum gen_path gen_list gen_tuple gen_wiring gen_edn). Qed.

Theorem null_falls_back_gen : forall E u d,
  cfg_type (TOpt u) = true -> has_type d (TOpt u) = true -> d <> VNone ->
  value_via_config_gen E (TOpt u) (Some d) (encode_cfg_gen VNone) = Ok d.
Proof. intros E. exact (null_falls_back str2bool_gen enum_miss_cls_gen encode_table_gen enum_default_as_name_gen wiring_gen E gen_wiring gen_edn). Qed.

Theorem list_comes_back_gen : forall E u defn vs,
  value_via_config_gen E (TList u) defn (encode_cfg_gen (VList vs)) = Ok (VList (map reload_gen vs)).
Proof. intros E. exact (list_comes_back str2bool_gen enum_miss_cls_gen encode_table_gen enum_default_as_name_gen wiring_gen E gen_enum gen_path gen_list gen_tuple gen_wiring gen_edn). Qed.
Theorem tupfix_comes_back_gen : forall E ts defn vs,
  value_via_config_gen E (TTupFix ts) defn (encode_cfg_gen (VTup vs)) = Ok (VTup (map reload_gen vs)).
Proof. intros E. exact (tupfix_comes_back str2bool_gen enum_miss_cls_gen encode_table_gen enum_default_as_name_gen wiring_gen E gen_enum gen_path gen_list gen_tuple gen_wiring gen_edn). Qed.
Theorem reload_enum_gen : forall m, reload_gen (VEnum m) = VStr m.
Proof. exact (reload_enum encode_table_gen gen_enum). Qed.
Theorem reload_path_gen : forall s, reload_gen (VPath s) = VStr s.
Proof. exact (reload_path encode_table_gen gen_path). Qed.

Theorem tree_compose_gen : forall E s x, loops_gen E s x -> load_cfg_gen E s (Some (to_dict_gen x)) = Ok x.
Proof. intros E. exact (tree_compose str2bool_gen enum_miss_cls_gen encode_table_gen enum_default_as_name_gen wiring_gen E gen_wiring). Qed.

Theorem tree_loop_gen : forall E sfx s x,
  str_in sfx four_suffixes = true -> in_quantifier s x = true -> side_conditions s x = true ->
  config_loop_gen E sfx s x = Ok x.
Proof. intros E. exact (tree_loop str2bool_gen enum_miss_cls_gen encode_table_gen extensions_gen enum_default_as_name_gen wiring_gen E gen_enum gen_path gen_list gen_tuple gen_exts gen_wiring gen_edn). Qed.

Theorem tree_meets_spec_gen : forall E sfx s x,
  str_in sfx four_suffixes = true -> in_quantifier s x = true -> side_conditions s x = true ->
  spec_loop s x (config_loop_gen E sfx s x) = true.
Proof. intros E. exact (tree_meets_spec str2bool_gen enum_miss_cls_gen encode_table_gen extensions_gen enum_default_as_name_gen wiring_gen E gen_enum gen_path gen_list gen_tuple gen_exts gen_wiring gen_edn). Qed.

Theorem routes_same_gen : forall E via a dest sfx s x,
  str_in sfx four_suffixes = true -> config_run_gen E via a dest sfx s x = config_loop_gen E sfx s x.
Proof. intros E. exact (routes_same str2bool_gen enum_miss_cls_gen encode_table_gen extensions_gen enum_default_as_name_gen wiring_gen E gen_enum gen_path gen_list gen_tuple gen_exts gen_wiring). Qed.

(* Optional[Class] = None members *)
Theorem optional_member_none_gen : forall E s,
  member_loads s = true ->
  load_cfg_gen E (SOpt s) (Some (to_dict_gen (ILeaf VNone))) = Ok (ILeaf VNone).
Proof.
  intros E s H. unfold load_cfg_gen, to_dict_gen. cbn [to_dict encode_cfg load_cfg].
  rewrite (member_loads_ok str2bool_gen enum_miss_cls_gen enum_default_as_name_gen wiring_gen E gen_wiring gen_edn s H). reflexivity.
Qed.

(* regression witnesses: members of a (str, Enum) class as definition defaults (Tag = EMPTY '' | A 'a' | B 'b'); argparse takes them for
   str defaults.  Optional[Tag] = Tag.A with None saved used to end in a usage error (repaired by repo commit e04e845: the by-name
   converter returns members unchanged); a None member whose class has `t: Tag = Tag.EMPTY` used to raise KeyError (repaired by repo
   commit e9c428e: a falsy member is turned into its name too) *)
Definition TAG_ENV : enum_env := mkenv [["EMPTY"; "A"; "B"]] [(["EMPTY"; "A"; "B"], "EMPTY")].
Theorem witness_str_enum_optional_default :
  value_via_config_gen TAG_ENV (TOpt (TEnum ["EMPTY"; "A"; "B"])) (Some (VEnum "A")) (encode_cfg_gen VNone) = Ok (VEnum "A").
Proof. vm_compute. reflexivity. Qed.
Theorem witness_str_enum_falsy_default :
  load_cfg_gen TAG_ENV (SOpt (SNode [("t", SLeaf (TEnum ["EMPTY"; "A"; "B"]) (Some (VEnum "EMPTY")))])) (Some (to_dict_gen (ILeaf VNone)))
  = Ok (ILeaf VNone)
  /\ finish_default_gen TAG_ENV (TEnum ["EMPTY"; "A"; "B"]) (VEnum "EMPTY") = Ok (VEnum "EMPTY").
Proof. vm_compute. split; reflexivity. Qed.
(* an IntEnum member is written by name and comes back as the member, falsy or not (Prio = ZERO 0 | LOW 1 | HIGH 3) *)
Theorem witness_int_enum :
  value_via_config_gen (mkenv [] [(["ZERO"; "LOW"; "HIGH"], "ZERO")]) (TEnum ["ZERO"; "LOW"; "HIGH"]) (Some (VEnum "ZERO")) (encode_cfg_gen (VEnum "HIGH"))
  = Ok (VEnum "HIGH")
  /\ load_cfg_gen (mkenv [] [(["ZERO"; "LOW"; "HIGH"], "ZERO")]) (SOpt (SNode [("p", SLeaf (TEnum ["ZERO"; "LOW"; "HIGH"]) (Some (VEnum "ZERO")))]))
       (Some (to_dict_gen (ILeaf VNone))) = Ok (ILeaf VNone).
Proof. vm_compute. split; reflexivity. Qed.

(* regression witness (repaired by repo commit 41db46a; before it postprocess called tuple(None) and TypeError escaped):
   a member that is None whose class has a Tuple field without a default *)
Theorem witness_absent_member_tuple :
  load_cfg_gen NOENV (SOpt (SNode [("t", SLeaf (TTupFix [TInt; TInt]) None)])) (Some (to_dict_gen (ILeaf VNone))) = Ok (ILeaf VNone).
Proof. vm_compute. reflexivity. Qed.
Theorem optional_member_some_gen : forall s xs,
  load_cfg_gen NOENV (SOpt s) (Some (to_dict_gen (INode xs))) = load_cfg_gen NOENV s (Some (to_dict_gen (INode xs))).
Proof. intros s xs. reflexivity. Qed.
